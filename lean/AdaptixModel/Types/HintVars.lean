/-
  C15 — what generic resolution and predicate creation ask about a hint: which type
  variables it mentions and whether it could (still) be parametrised.

  Source modelled, statement by statement:
    src/adaptix/_internal/type_tools/fundamentals.py   get_type_vars
    src/adaptix/_internal/type_tools/basic_utils.py    is_parametrized, is_generic, is_bare_generic,
                                                       get_type_vars_of_parametrized
  (their callers: type_tools/generic_resolver.py GenericResolver._parametrize_by_dict /
  _get_members_by_parents, provider/loc_stack_filtering.py create_loc_stack_checker).

  These helpers do not traverse the hint: they read attributes of the Python OBJECT that
  represents it (`__parameters__`, `isinstance(tp, type)`, `get_origin`, `get_args`).  One type
  has several spellings represented by objects of different classes (`Optional[list[T]]` is a
  `typing._UnionGenericAlias`, `list[T] | None` a `types.UnionType`, `List[T]` a
  `typing._GenericAlias`, `list[T]` a `types.GenericAlias`); `objFacts` records what CPython
  puts into these attributes for each hint of the grammar (CPython behaviour: trusted, compared
  with the real objects by the `generic-info` correspondence of harness/props/c15.py).  The
  library functions are modelled over these facts; that their answers do not depend on the
  spelling is a theorem (AdaptixProofs/Props/C15.lean, `type_vars_of_parametrized_spec` …).

  Lean core only (linked into the driver).
-/
import AdaptixModel.Types.Hint

namespace Adaptix.Types

variable {α : Type} [DecidableEq α]

/-- facts about the working tree / CPython the helpers depend on -/
structure GenEnv (α : Type) where
  /-- `origin in BUILTIN_ORIGIN_TO_TYPEVARS` -/
  builtin : α → Bool
  /-- origins whose subscription carries no `__parameters__` (`dataclasses.InitVar`) -/
  noParams : α → Bool
  /-- `tuple in BUILTIN_ORIGIN_TO_TYPEVARS` -/
  tupleInTable : Bool
  /-- `type in BUILTIN_ORIGIN_TO_TYPEVARS` -/
  typeInTable : Bool

/-- `a` followed by the elements of `b` not yet present (order of first occurrence) -/
def mergeVars (a b : List α) : List α := a ++ b.filter (fun x => !a.contains x)

mutual
/-- the `__parameters__` CPython computes for a subscribed object (`typing._collect_parameters`,
    `_Py_make_parameters` for `types.GenericAlias` and `types.UnionType`): the type variables of the
    arguments, each once, in order of first occurrence.  Unsubscribed classes among the arguments are
    skipped (`isinstance(t, type)`), unsubscribed typing aliases have no `__parameters__`. -/
def Hint.vars (E : GenEnv α) : Hint α → List α
  | .typeVar a _ _ => [a]
  | .app _ a args => if E.noParams a then [] else Hint.varsList E args
  | .tupleVar _ h => Hint.vars E h
  | .tupleFix _ hs => Hint.varsList E hs
  | .typeOf _ h => Hint.vars E h
  | .union _ ms => Hint.varsList E ms
  | .optional h => Hint.vars E h
  | .annotated h _ => Hint.vars E h
  | .none _ => []
  | .any => []
  | .cls _ => []
  | .newType _ => []
  | .bare _ _ _ => []
  | .tupleBare _ => []
  | .typeBare _ => []
  | .literal _ => []
def Hint.varsList (E : GenEnv α) : List (Hint α) → List α
  | [] => []
  | h :: hs => mergeVars (Hint.vars E h) (Hint.varsList E hs)
end

/-- the value of `getattr(tp, "__parameters__", <absent>)` -/
inductive ParamsAttr (α : Type) where
  | absent
  /-- an object that is not a tuple: the getset descriptor of the CLASS `types.UnionType` -/
  | descriptor
  | tuple (vs : List α)

/-- the class of the object (evidence only; nothing below branches on it) -/
inductive ObjClass where
  | atom | typeVar | bareClass | bareTypingAlias | typingAlias | typingUnion | builtinAlias | pep604Union
deriving Repr, DecidableEq

/-- what the helpers read from the object -/
structure ObjFacts (α : Type) where
  cls : ObjClass
  parameters : ParamsAttr α
  /-- `isinstance(tp, type)` -/
  isType : Bool
  /-- `isinstance(tp, types.GenericAlias)` -/
  isBuiltinAlias : Bool
  /-- `get_origin(tp) is not None` (`strip_alias(tp) != tp`) -/
  isAlias : Bool
  /-- `bool(get_args(tp))` -/
  hasArgs : Bool
  /-- `strip_alias(tp) in BUILTIN_ORIGIN_TO_TYPEVARS and tp is not type` -/
  tableOrigin : Bool

def tvAtoms : List (Hint α) → List α
  | [] => []
  | .typeVar a _ _ :: rest => a :: tvAtoms rest
  | _ :: rest => tvAtoms rest

/-- **What CPython builds** for a hint of the grammar (3.11+: a subscribed builtin is not an instance of `type`) -/
def objFacts (E : GenEnv α) : Hint α → ObjFacts α
  | .typeVar _ _ _ =>
    { cls := .typeVar, parameters := .absent, isType := false, isBuiltinAlias := false, isAlias := false,
      hasArgs := false, tableOrigin := false }
  | .bare alias a ps =>
    if E.builtin a then
      -- `list`: a class without `__parameters__`; `typing.List`: `__getattr__` forwards to `list` -> absent
      { cls := if alias then .bareTypingAlias else .bareClass, parameters := .absent, isType := !alias,
        isBuiltinAlias := false, isAlias := alias, hasArgs := false, tableOrigin := true }
    else
      { cls := .bareClass, parameters := .tuple (tvAtoms ps), isType := true, isBuiltinAlias := false,
        isAlias := false, hasArgs := false, tableOrigin := false }
  | .app alias a args =>
    { cls := if alias then .typingAlias else .builtinAlias
      parameters := if E.noParams a then .absent else .tuple (Hint.vars E (.app alias a args))
      isType := false, isBuiltinAlias := !alias && !E.noParams a, isAlias := !E.noParams a, hasArgs := !E.noParams a
      tableOrigin := E.builtin a }
  | .tupleBare alias =>
    { cls := if alias then .bareTypingAlias else .bareClass, parameters := .absent, isType := !alias,
      isBuiltinAlias := false, isAlias := alias, hasArgs := false, tableOrigin := E.tupleInTable }
  | .tupleVar alias h =>
    { cls := if alias then .typingAlias else .builtinAlias, parameters := .tuple (Hint.vars E h), isType := false,
      isBuiltinAlias := !alias, isAlias := true, hasArgs := true, tableOrigin := E.tupleInTable }
  | .tupleFix alias hs =>
    -- `get_args(tuple[()]) == ()`
    { cls := if alias then .typingAlias else .builtinAlias, parameters := .tuple (Hint.varsList E hs), isType := false,
      isBuiltinAlias := !alias, isAlias := true, hasArgs := !hs.isEmpty, tableOrigin := E.tupleInTable }
  | .typeBare alias =>
    -- `tp is not type`: the class `type` itself is excluded, `typing.Type` is not
    { cls := if alias then .bareTypingAlias else .bareClass, parameters := .absent, isType := !alias,
      isBuiltinAlias := false, isAlias := alias, hasArgs := false, tableOrigin := alias && E.typeInTable }
  | .typeOf alias h =>
    { cls := if alias then .typingAlias else .builtinAlias, parameters := .tuple (Hint.vars E h), isType := false,
      isBuiltinAlias := !alias, isAlias := true, hasArgs := true, tableOrigin := E.typeInTable }
  | .union op ms =>
    -- an INSTANCE of `types.UnionType` has a tuple in `__parameters__` like every other subscribed object
    { cls := if op then .pep604Union else .typingUnion, parameters := .tuple (Hint.varsList E ms), isType := false,
      isBuiltinAlias := false, isAlias := true, hasArgs := !ms.isEmpty, tableOrigin := false }
  | .optional h =>
    { cls := .typingUnion, parameters := .tuple (Hint.vars E h), isType := false, isBuiltinAlias := false,
      isAlias := true, hasArgs := true, tableOrigin := false }
  | .literal vs =>
    { cls := .typingAlias, parameters := .tuple [], isType := false, isBuiltinAlias := false, isAlias := true,
      hasArgs := !vs.isEmpty, tableOrigin := false }
  | .annotated h _ =>
    { cls := .typingAlias, parameters := .tuple (Hint.vars E h), isType := false, isBuiltinAlias := false,
      isAlias := true, hasArgs := true, tableOrigin := false }
  | .none sp =>
    { cls := .atom, parameters := .absent, isType := sp, isBuiltinAlias := false, isAlias := false, hasArgs := false,
      tableOrigin := false }
  | .any =>
    { cls := .atom, parameters := .absent, isType := false, isBuiltinAlias := false, isAlias := false, hasArgs := false,
      tableOrigin := false }
  | .cls _ =>
    { cls := .atom, parameters := .absent, isType := true, isBuiltinAlias := false, isAlias := false, hasArgs := false,
      tableOrigin := false }
  | .newType _ =>
    { cls := .atom, parameters := .absent, isType := false, isBuiltinAlias := false, isAlias := false, hasArgs := false,
      tableOrigin := false }

/-- `fundamentals.get_type_vars` (the pydantic branch concerns model classes, not hints of this grammar):
    ```
    type_vars = getattr(tp, "__parameters__", ())
    # UnionType object contains descriptor inside `__parameters__`
    if not isinstance(type_vars, tuple):
        return ()
    return type_vars
    ``` -/
def getTypeVarsOf (o : ObjFacts α) : List α :=
  match o.parameters with
  | .absent => []
  | .descriptor => []
  | .tuple vs => vs

/-- `basic_utils.is_parametrized`: `bool(get_generic_args(tp))` -/
def isParametrizedOf (o : ObjFacts α) : Bool := o.hasArgs

/-- `basic_utils.get_type_vars_of_parametrized`:
    ```
    params = get_type_vars(tp)
    if not params: return ()
    if isinstance(tp, type):
        if isinstance(tp, types.GenericAlias): return params
        return ()
    if strip_alias(tp) != tp and get_generic_args(tp) == (): return ()
    return params
    ``` -/
def typeVarsOfParametrizedOf (o : ObjFacts α) : List α :=
  let params := getTypeVarsOf o
  if params.isEmpty then []
  else if o.isType then
    if o.isBuiltinAlias then params else []
  else if o.isAlias && !o.hasArgs then []
  else params

/-- `basic_utils.is_generic`:
    ```
    bool(get_type_vars(tp))
    or (strip_alias(tp) in BUILTIN_ORIGIN_TO_TYPEVARS and tp is not type and not is_parametrized(tp))
    or (strip_alias(tp) == Annotated and tp != Annotated and is_generic(tp.__origin__))
    ``` -/
def isGeneric (E : GenEnv α) : Hint α → Bool
  | .annotated h ms =>
    !(getTypeVarsOf (objFacts E (.annotated h ms))).isEmpty || isGeneric E h
  | h =>
    let o := objFacts E h
    !(getTypeVarsOf o).isEmpty || (o.tableOrigin && !isParametrizedOf o)

def getTypeVars (E : GenEnv α) (h : Hint α) : List α := getTypeVarsOf (objFacts E h)
def isParametrized (E : GenEnv α) (h : Hint α) : Bool := isParametrizedOf (objFacts E h)
def typeVarsOfParametrized (E : GenEnv α) (h : Hint α) : List α := typeVarsOfParametrizedOf (objFacts E h)

/-- `basic_utils.is_bare_generic`: `is_generic(tp) and not is_parametrized(tp)` -/
def isBareGeneric (E : GenEnv α) (h : Hint α) : Bool := isGeneric E h && !isParametrized E h

end Adaptix.Types
