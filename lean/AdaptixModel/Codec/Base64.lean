/-
  The base64 codec of the bytes-like scalars (C01 codec law, C02 documented form, C04).

  Code modelled:
    morphing/concrete_provider.py
      _Base64DumperMixin._make_dumper      b2a_base64(data, newline=False).decode("ascii")
      B64_PATTERN                          re.compile(b"[A-Za-z0-9+/]*={0,2}")
      BytesBase64Provider._make_loader     encode("ascii") / fullmatch / a2b_base64
      BytearrayBase64Provider._make_loader bytearray(loader(data))
    and, because the loader's acceptance depends on it, CPython's
    `binascii.a2b_base64` in its default (non-strict) mode as the quad state
    machine of Modules/binascii.c, and `binascii.b2a_base64`.

  Bytes and characters are `Nat`s (byte values / code points). Lean core only.
  Tied to the code by the `b64` correspondences of harness/props/c01_codecs.py
  (the real loader / dumper of a Retort, and binascii itself, on the same
  strings).
-/
import AdaptixModel.Morph.Core

namespace Adaptix.Codec.Base64
open Adaptix.Py Adaptix.Morph

/-- `table_b2a_base64`: the character of a sextet -/
def enc6 (n : Nat) : Nat :=
  if n < 26 then 65 + n
  else if n < 52 then 97 + (n - 26)
  else if n < 62 then 48 + (n - 52)
  else if n = 62 then 43
  else 47

/-- `table_a2b_base64`: the sextet of an alphabet character, `none` for every other byte -/
def dec6 (c : Nat) : Option Nat :=
  if 65 ≤ c ∧ c ≤ 90 then some (c - 65)
  else if 97 ≤ c ∧ c ≤ 122 then some (c - 97 + 26)
  else if 48 ≤ c ∧ c ≤ 57 then some (c - 48 + 52)
  else if c = 43 then some 62
  else if c = 47 then some 63
  else none

/-- `=` -/
def PAD : Nat := 61

/-- `[A-Za-z0-9+/]` -/
def isAlpha (c : Nat) : Bool := (dec6 c).isSome

/-- `binascii.b2a_base64(data, newline=False)` -/
def b2a : List Nat → List Nat
  | [] => []
  | [a] => [enc6 (a / 4), enc6 (a % 4 * 16), PAD, PAD]
  | [a, b] => [enc6 (a / 4), enc6 (a % 4 * 16 + b / 16), enc6 (b % 16 * 4), PAD]
  | a :: b :: c :: rest =>
    enc6 (a / 4) :: enc6 (a % 4 * 16 + b / 16) :: enc6 (b % 16 * 4 + c / 64) :: enc6 (c % 64) :: b2a rest

/-- the two `binascii.Error`s of the non-strict decoder -/
inductive B64Err where
  | oneMore      -- "number of data characters cannot be 1 more than a multiple of 4"
  | padding      -- "Incorrect padding"
  deriving Repr, DecidableEq, Inhabited

/-- the loop of `binascii.a2b_base64` (non-strict): `quad` = quad_pos, `left` = leftchar,
    `pads` = pads. Characters outside the alphabet are skipped; a pad ends the input once
    `quad_pos >= 2 && quad_pos + ++pads >= 4`. -/
def a2bGo : List Nat → Nat → Nat → Nat → Except B64Err (List Nat)
  | [], quad, _, _ =>
    if quad = 0 then .ok [] else if quad = 1 then .error .oneMore else .error .padding
  | c :: cs, quad, left, pads =>
    if c = PAD then
      if 2 ≤ quad ∧ 4 ≤ quad + (pads + 1) then .ok []
      else a2bGo cs quad left (if 2 ≤ quad then pads + 1 else pads)
    else
      match dec6 c with
      | none => a2bGo cs quad left pads
      | some v =>
        match quad with
        | 0 => a2bGo cs 1 v 0
        | 1 => (a2bGo cs 2 (v % 16) 0).map ((left * 4 + v / 16) :: ·)
        | 2 => (a2bGo cs 3 (v % 4) 0).map ((left * 16 + v / 4) :: ·)
        | _ => (a2bGo cs 0 0 0).map ((left * 64 + v) :: ·)

/-- `binascii.a2b_base64(data)` -/
def a2b (cs : List Nat) : Except B64Err (List Nat) := a2bGo cs 0 0 0

/-- `B64_PATTERN.fullmatch(encoded)`: a greedy run of alphabet characters, then at most
    two pads, then the end (a pad is no alphabet character, so backtracking cannot help) -/
def matchesPattern (cs : List Nat) : Bool :=
  let rest := cs.dropWhile isAlpha
  decide (rest.length ≤ 2) && rest.all (· == PAD)

/-- outcome classes of `bytes_base64_loader` -/
inductive LoadRes where
  | ok (bs : List Nat)
  | typeErr       -- TypeLoadError(str, data): no `.encode`
  | valueErr      -- ValueLoadError: not ASCII, not matching the pattern, or binascii.Error
  deriving Repr, DecidableEq, Inhabited

/-- `bytes_base64_loader` on the code points of a str -/
def loadCodes (cs : List Nat) : LoadRes :=
  if cs.any (fun c => decide (128 ≤ c)) then .valueErr            -- UnicodeEncodeError
  else if !matchesPattern cs then .valueErr
  else match a2b cs with
    | .ok bs => .ok bs
    | .error _ => .valueErr

def codes (s : String) : List Nat := s.toList.map Char.toNat
def ofCodes (cs : List Nat) : String := String.ofList (cs.map Char.ofNat)

/-- `bytes_base64_loader` -/
def bytesLoader : Val → Outcome Val
  | .str s =>
    match loadCodes (codes s) with
    | .ok bs => .ok (.bytes bs)
    | .typeErr => .err (LErr.leaf "TypeLoadError" (.str s))
    | .valueErr => .err (LErr.leaf "ValueLoadError" (.str s))
  | d => .err (LErr.leaf "TypeLoadError" d)

/-- `bytearray_base64_loader` -/
def bytearrayLoader (d : Val) : Outcome Val :=
  match bytesLoader d with
  | .ok (.bytes bs) => .ok (.bytearray bs)
  | o => o

/-- `bytes_base64_dumper` (bytes and bytearray share it) -/
def bytesDumper : Val → Outcome Val
  | .bytes bs => .ok (.str (ofCodes (b2a bs)))
  | .bytearray bs => .ok (.str (ofCodes (b2a bs)))
  | _ => .escape "TypeError"

end Adaptix.Codec.Base64
