/-
  The Python value universe of the morphing model (DESIGN.md §3.2).

  * `Flt` is an IEEE double by its exact value (`m * 2^e`), so that Python's
    numeric tower (`True == 1 == 1.0`) is computable; float *arithmetic* is not
    modelled.
  * `atom kind text` is an instance of a stdlib scalar class (Decimal, datetime,
    UUID, Path, …) identified by its class and canonical text.
  * `obj cls fields` is an instance of a model class.
  * `iter xs` is an iterable without `len()` (generator / iterator).
-/
namespace Adaptix.Py

inductive Flt where
  | nan
  | inf (neg : Bool)
  | negZero
  | fin (m : Int) (e : Int)      -- value m * 2^e  (canonical: m odd, or m = 0 ∧ e = 0)
  deriving Repr, DecidableEq, Inhabited

inductive Val where
  | none
  | bool (b : Bool)
  | int (i : Int)
  | float (f : Flt)
  | str (s : String)
  | bytes (b : List Nat)
  | bytearray (b : List Nat)
  | list (xs : List Val)
  | tuple (xs : List Val)
  | set (xs : List Val)
  | frozenset (xs : List Val)
  | deque (xs : List Val)
  | dict (kvs : List (Val × Val))
  | iter (xs : List Val)
  | obj (cls : String) (fields : List (String × Val))
  | atom (kind : String) (text : String)
  | opaque (tag : String)
  deriving Repr, Inhabited

namespace Val

/-- `type(x)` as the tag names used by the translated closures (`extract/scalars.py`) -/
def tag : Val → String
  | .none => "NoneType"
  | .bool _ => "bool"
  | .int _ => "int"
  | .float _ => "float"
  | .str _ => "str"
  | .bytes _ => "bytes"
  | .bytearray _ => "bytearray"
  | .list _ => "list"
  | .tuple _ => "tuple"
  | .set _ => "set"
  | .frozenset _ => "frozenset"
  | .deque _ => "collections.deque"
  | .dict _ => "dict"
  | .iter _ => "generator"
  | .obj _ _ => "object"
  | .atom k _ => k
  | .opaque _ => "object"

def isNone : Val → Bool
  | .none => true
  | _ => false

/-- `isinstance(x, collections.abc.Mapping)` -/
def isMapping : Val → Bool
  | .dict _ => true
  | _ => false

/-- `type(x) is str` -/
def isStr : Val → Bool
  | .str _ => true
  | _ => false

/-- numeric value of bool/int, used by the numeric tower -/
def asInt? : Val → Option Int
  | .bool b => some (if b then 1 else 0)
  | .int i => some i
  | _ => Option.none

def fltEqInt (f : Flt) (i : Int) : Bool :=
  match f with
  | .nan => false
  | .inf _ => false
  | .negZero => i == 0
  | .fin m e => if e ≥ 0 then m * (2 : Int) ^ e.toNat == i else (m == 0 && i == 0)

def fltEq (a b : Flt) : Bool :=
  match a, b with
  | .nan, _ => false
  | _, .nan => false
  | .negZero, .negZero => true
  | .negZero, .fin m _ => m == 0
  | .fin m _, .negZero => m == 0
  | a, b => a == b

mutual
  /-- Python `==` on the value universe (numeric tower, containers element-wise,
      set == frozenset, bytes == bytearray). Atoms compare by class and text. -/
  def pyEq : Val → Val → Bool
    | .none, .none => true
    | .bool a, .bool b => a == b
    | .bool a, .int b => (if a then 1 else 0) == b
    | .int a, .bool b => a == (if b then 1 else 0)
    | .int a, .int b => a == b
    | .float a, .float b => fltEq a b
    | .float a, .int b => fltEqInt a b
    | .int a, .float b => fltEqInt b a
    | .float a, .bool b => fltEqInt a (if b then 1 else 0)
    | .bool a, .float b => fltEqInt b (if a then 1 else 0)
    | .str a, .str b => a == b
    | .bytes a, .bytes b => a == b
    | .bytes a, .bytearray b => a == b
    | .bytearray a, .bytes b => a == b
    | .bytearray a, .bytearray b => a == b
    | .list a, .list b => pyEqList a b
    | .tuple a, .tuple b => pyEqList a b
    | .deque a, .deque b => pyEqList a b
    | .set a, .set b => subsetOf a b && subsetOf b a
    | .set a, .frozenset b => subsetOf a b && subsetOf b a
    | .frozenset a, .set b => subsetOf a b && subsetOf b a
    | .frozenset a, .frozenset b => subsetOf a b && subsetOf b a
    | .dict a, .dict b => a.length == b.length && dictSub a b
    | .obj c fs, .obj c' fs' => c == c' && pyEqFields fs fs'
    | .atom k t, .atom k' t' => k == k' && t == t'
    | .opaque a, .opaque b => a == b
    | _, _ => false
  termination_by a b => sizeOf a + sizeOf b
  def pyEqList : List Val → List Val → Bool
    | [], [] => true
    | a :: as, b :: bs => pyEq a b && pyEqList as bs
    | _, _ => false
  termination_by a b => sizeOf a + sizeOf b
  def memOf (x : Val) : List Val → Bool
    | [] => false
    | y :: ys => pyEq x y || memOf x ys
  termination_by ys => sizeOf x + sizeOf ys
  def subsetOf : List Val → List Val → Bool
    | [], _ => true
    | a :: as, bs => memOf a bs && subsetOf as bs
  termination_by a b => sizeOf a + sizeOf b
  /-- `d[k] == v` for some key of `d` equal to `k` -/
  def hasKV (k v : Val) : List (Val × Val) → Bool
    | [] => false
    | (k', v') :: rest => (pyEq k k' && pyEq v v') || hasKV k v rest
  termination_by kvs => sizeOf k + sizeOf v + sizeOf kvs
  def dictSub : List (Val × Val) → List (Val × Val) → Bool
    | [], _ => true
    | (k, v) :: rest, other => hasKV k v other && dictSub rest other
  termination_by a b => sizeOf a + sizeOf b
  def pyEqFields : List (String × Val) → List (String × Val) → Bool
    | [], [] => true
    | (n, a) :: as, (n', b) :: bs => n == n' && pyEq a b && pyEqFields as bs
    | _, _ => false
  termination_by a b => sizeOf a + sizeOf b
end

mutual
  /-- `hash(x)` does not raise -/
  def hashable : Val → Bool
    | .list _ => false
    | .set _ => false
    | .dict _ => false
    | .bytearray _ => false
    | .deque _ => false
    | .iter _ => true
    | .obj _ _ => false        -- dataclass(eq=True) sets __hash__ = None
    | .tuple xs => hashableAll xs
    | .frozenset xs => hashableAll xs
    | _ => true
  def hashableAll : List Val → Bool
    | [] => true
    | x :: xs => hashable x && hashableAll xs
end

mutual
  /-- equal as Python values AND of exactly the same types throughout
      (`True` is not the same as `1`; a list is not the same as a tuple) -/
  def same : Val → Val → Bool
    | .none, .none => true
    | .bool a, .bool b => a == b
    | .int a, .int b => a == b
    | .float a, .float b => a == b   -- nan is the same as nan, -0.0 differs from 0.0
    | .str a, .str b => a == b
    | .bytes a, .bytes b => a == b
    | .bytearray a, .bytearray b => a == b
    | .list a, .list b => sameList a b
    | .tuple a, .tuple b => sameList a b
    | .deque a, .deque b => sameList a b
    | .iter a, .iter b => sameList a b
    | .set a, .set b => sameSub a b && sameSub b a
    | .frozenset a, .frozenset b => sameSub a b && sameSub b a
    | .dict a, .dict b => a.length == b.length && sameDictSub a b
    | .obj c fs, .obj c' fs' => c == c' && sameFields fs fs'
    | .atom k t, .atom k' t' => k == k' && t == t'
    | .opaque a, .opaque b => a == b
    | _, _ => false
  termination_by a b => sizeOf a + sizeOf b
  def sameList : List Val → List Val → Bool
    | [], [] => true
    | a :: as, b :: bs => same a b && sameList as bs
    | _, _ => false
  termination_by a b => sizeOf a + sizeOf b
  def sameMem (x : Val) : List Val → Bool
    | [] => false
    | y :: ys => same x y || sameMem x ys
  termination_by ys => sizeOf x + sizeOf ys
  def sameSub : List Val → List Val → Bool
    | [], _ => true
    | a :: as, bs => sameMem a bs && sameSub as bs
  termination_by a b => sizeOf a + sizeOf b
  def sameHasKV (k v : Val) : List (Val × Val) → Bool
    | [] => false
    | (k', v') :: rest => (same k k' && same v v') || sameHasKV k v rest
  termination_by kvs => sizeOf k + sizeOf v + sizeOf kvs
  def sameDictSub : List (Val × Val) → List (Val × Val) → Bool
    | [], _ => true
    | (k, v) :: rest, other => sameHasKV k v other && sameDictSub rest other
  termination_by a b => sizeOf a + sizeOf b
  def sameFields : List (String × Val) → List (String × Val) → Bool
    | [], [] => true
    | (n, a) :: as, (n', b) :: bs => n == n' && same a b && sameFields as bs
    | _, _ => false
  termination_by a b => sizeOf a + sizeOf b
end

/-- `d[k]` on an insertion-ordered association list: the first key equal (`==`) to `k` -/
def lookup (k : Val) : List (Val × Val) → Option Val
  | [] => Option.none
  | (k', v) :: rest => if pyEq k' k then some v else lookup k rest

/-- `iter(x)`: the elements in iteration order, or `none` when `iter()` raises TypeError -/
def iterElems : Val → Option (List Val)
  | .list xs => some xs
  | .tuple xs => some xs
  | .set xs => some xs
  | .frozenset xs => some xs
  | .deque xs => some xs
  | .iter xs => some xs
  | .dict kvs => some (kvs.map (·.1))
  | .str s => some (s.toList.map fun c => .str (String.singleton c))
  | .bytes b => some (b.map fun n => .int (Int.ofNat n))
  | .bytearray b => some (b.map fun n => .int (Int.ofNat n))
  | _ => Option.none

/-- insertion into a Python set / dict-key position: dedup by `==` keeping the first object -/
def dedup : List Val → List Val
  | [] => []
  | x :: xs => let rest := dedup xs; x :: rest.filter (fun y => !pyEq x y)

/-- `result[k] = v` on an insertion-ordered dict -/
def dictSet (kvs : List (Val × Val)) (k v : Val) : List (Val × Val) :=
  if kvs.any (fun p => pyEq p.1 k) then kvs.map (fun p => if pyEq p.1 k then (p.1, v) else p)
  else kvs ++ [(k, v)]

end Val
end Adaptix.Py
