/-
  Model of the conversion facade (C13): retorts, per-call recipes and the
  cache of simple converters.

  Source modelled, statement by statement:
    src/adaptix/_internal/conversion/facade/retort.py   AdornedConversionRetort
        _calculate_derived   (a retort owns one `_simple_converter_cache`, empty when the
                              retort is created; `_clone` re-runs `_calculate_derived`)
        extend               (clone, per-call providers *in front of* the instance recipe)
        _make_simple_converter (signature `(src: <src>, /) -> <dst>`)
        get_converter        (`retort = self.extend(recipe=recipe) if recipe else self`,
                              lookup / creation / storing all on `retort`)
        impl_converter       (no cache)
        convert              (`self.get_converter(type(src_obj), dst, recipe=recipe)(src_obj)`)
    src/adaptix/_internal/conversion/facade/func.py
        the module-level get_converter / impl_converter / convert delegate to one global
        `ConversionRetort()`: retort 0 of a history with an empty instance recipe.

  A *history* is a list of facade operations on a growing list of retorts.
  `specHistory` at the end is the specification: what the property says every
  request must return — the converter the linking rules fix for the per-call
  recipe followed by the recipe of the addressed retort — computed without any
  cache, so that it cannot depend on earlier requests.
-/
import AdaptixModel.Conv.Convert

namespace Adaptix.Conv13

/-- key of `_simple_converter_cache`: `(src, dst, name)` -/
structure ConvKey where
  src : Ty
  dst : Ty
  name : Option Name
  deriving DecidableEq, Repr, Inhabited

/-- `_make_simple_converter`: `Signature([Parameter("src", POSITIONAL_ONLY, annotation=src)], return_annotation=dst)` -/
def ConvKey.signature (k : ConvKey) : Signature :=
  { params := [{ name := "src", kind := .posOnly, ty := k.src, default := none }], ret := k.dst }

/-- an `AdornedConversionRetort`: the user providers of its instance recipe (the class recipe of
    `FilledConversionRetort` behind them is what `provideConverter` implements) and its own cache (a dict,
    newest entry first; an entry is never overwritten because it is only written after a failed lookup) -/
structure Retort where
  recipe : List Provider
  cache : List (ConvKey × Converter)

/-- `ConversionRetort(recipe=...)`; `_calculate_derived` creates the empty cache -/
def Retort.new (recipe : List Provider) : Retort := { recipe := recipe, cache := [] }

/-- `extend`: `clone._instance_recipe = tuple(recipe) + clone._instance_recipe`; leaving the `_clone` context
    runs `_calculate_derived`, the clone starts with an empty cache of its own -/
def Retort.extend (r : Retort) (recipe : List Provider) : Retort :=
  { recipe := recipe ++ r.recipe, cache := [] }

/-- `_produce_converter`: the converter request answered by the retort's recipe
    (`none` = ProviderNotFoundError) -/
def Retort.produce (W : World) (fuel : Nat) (r : Retort) (sig : Signature) : Option Converter :=
  provideConverter W r.recipe fuel sig

/-- the body of `get_converter` after `retort` has been chosen:
    ```
    try: return retort._simple_converter_cache[(src, dst, name)]
    except KeyError: pass
    converter = retort._make_simple_converter(src, dst, name)     # may raise: nothing is stored
    retort._simple_converter_cache[(src, dst, name)] = converter
    return converter
    ```
    returns the answer and `retort` afterwards -/
def Retort.lookupOrMake (W : World) (fuel : Nat) (retort : Retort) (k : ConvKey) : Option Converter × Retort :=
  match retort.cache.lookup k with
  | some c => (some c, retort)
  | none =>
    match retort.produce W fuel k.signature with
    | none => (none, retort)
    | some c => (some c, { retort with cache := (k, c) :: retort.cache })

/-- `get_converter(src, dst, name=, recipe=)`: with a non-empty per-call recipe everything happens on the
    temporary extended retort (which is dropped), `self` is left as it was; answer and `self` afterwards -/
def Retort.getConverter (W : World) (fuel : Nat) (self : Retort) (k : ConvKey) (recipe : List Provider) :
    Option Converter × Retort :=
  if recipe.isEmpty then self.lookupOrMake W fuel k
  else (((self.extend recipe).lookupOrMake W fuel k).1, self)

/-- `impl_converter(stub, recipe=)`: `retort._produce_converter(inspect.signature(stub), ...)`, never cached -/
def Retort.implConverter (W : World) (fuel : Nat) (self : Retort) (sig : Signature) (recipe : List Provider) :
    Option Converter :=
  (if recipe.isEmpty then self else self.extend recipe).produce W fuel sig

/-! ### Histories -/

/-- one facade operation; `i` addresses a retort of the history (0 = the one it starts with) -/
inductive FacadeOp where
  /-- `retorts.append(retorts[i].extend(recipe=recipe))` -/
  | extend (i : Nat) (recipe : List Provider)
  /-- `retorts[i].get_converter(src, dst, name=name, recipe=recipe)` -/
  | getConverter (i : Nat) (k : ConvKey) (recipe : List Provider)
  /-- `retorts[i].convert(obj, dst, recipe=recipe)` with `type(obj) = src`: the converter it calls -/
  | convert (i : Nat) (src dst : Ty) (recipe : List Provider)
  /-- `retorts[i].impl_converter(recipe=recipe)(stub)` with `inspect.signature(stub) = sig` -/
  | implConverter (i : Nat) (sig : Signature) (recipe : List Provider)

/-- the signature of the converter an operation asks for (`extend` asks for none) -/
def FacadeOp.signature? : FacadeOp → Option Signature
  | .extend _ _ => none
  | .getConverter _ k _ => some k.signature
  | .convert _ s d _ => some (ConvKey.signature ⟨s, d, none⟩)
  | .implConverter _ sig _ => some sig

/-- one operation: the converter it returns (`none`: ProviderNotFoundError, or `extend`) and the retorts afterwards -/
def facadeStep (W : World) (fuel : Nat) (rs : List Retort) : FacadeOp → Option Converter × List Retort
  | .extend i recipe =>
    match rs[i]? with
    | some r => (none, rs ++ [r.extend recipe])
    | none => (none, rs)
  | .getConverter i k recipe =>
    match rs[i]? with
    | some r => ((r.getConverter W fuel k recipe).1, rs.set i (r.getConverter W fuel k recipe).2)
    | none => (none, rs)
  | .convert i s d recipe =>
    match rs[i]? with
    | some r => ((r.getConverter W fuel ⟨s, d, none⟩ recipe).1, rs.set i (r.getConverter W fuel ⟨s, d, none⟩ recipe).2)
    | none => (none, rs)
  | .implConverter i sig recipe =>
    match rs[i]? with
    | some r => (r.implConverter W fuel sig recipe, rs)
    | none => (none, rs)

/-- a whole history: the answer of every operation, and the retorts at the end -/
def runHistory (W : World) (fuel : Nat) : List Retort → List FacadeOp → List (Option Converter) × List Retort
  | rs, [] => ([], rs)
  | rs, op :: ops =>
    let a := facadeStep W fuel rs op
    let rest := runHistory W fuel a.2 ops
    (a.1 :: rest.1, rest.2)

/-! ### Specification: no cache, hence no history -/

/-- the recipe the documentation gives a request: "an extra recipe adding to retort" — the per-call
    providers, then the providers of the addressed retort -/
def effectiveRecipe (retortRecipe perCall : List Provider) : List Provider := perCall ++ retortRecipe

/-- the answer the property fixes for an operation, given only the recipes of the retorts -/
def specStep (W : World) (fuel : Nat) (recipes : List (List Provider)) : FacadeOp → Option Converter × List (List Provider)
  | .extend i recipe =>
    match recipes[i]? with
    | some b => (none, recipes ++ [effectiveRecipe b recipe])
    | none => (none, recipes)
  | .getConverter i k recipe =>
    match recipes[i]? with
    | some b => (provideConverter W (effectiveRecipe b recipe) fuel k.signature, recipes)
    | none => (none, recipes)
  | .convert i s d recipe =>
    match recipes[i]? with
    | some b => (provideConverter W (effectiveRecipe b recipe) fuel (ConvKey.signature ⟨s, d, none⟩), recipes)
    | none => (none, recipes)
  | .implConverter i sig recipe =>
    match recipes[i]? with
    | some b => (provideConverter W (effectiveRecipe b recipe) fuel sig, recipes)
    | none => (none, recipes)

def specHistory (W : World) (fuel : Nat) : List (List Provider) → List FacadeOp →
    List (Option Converter) × List (List Provider)
  | recipes, [] => ([], recipes)
  | recipes, op :: ops =>
    let a := specStep W fuel recipes op
    let rest := specHistory W fuel a.2 ops
    (a.1 :: rest.1, rest.2)

/-- the recipe in force for every operation of a history (what `convertSpec` is to be evaluated with);
    `none` for `extend` and for an operation addressing a retort that does not exist -/
def specRecipes : List (List Provider) → List FacadeOp → List (Option (List Provider))
  | _, [] => []
  | recipes, op :: ops =>
    match op with
    | .extend i recipe =>
      match recipes[i]? with
      | some b => none :: specRecipes (recipes ++ [effectiveRecipe b recipe]) ops
      | none => none :: specRecipes recipes ops
    | .getConverter i _ recipe | .convert i _ _ recipe | .implConverter i _ recipe =>
      (recipes[i]?.map (fun b => effectiveRecipe b recipe)) :: specRecipes recipes ops

end Adaptix.Conv13
