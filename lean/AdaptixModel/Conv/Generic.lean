/-
  Model of the resolution of a *parametrized generic model* `C[a0, ..., a(n-1)]` to the
  types of its fields (C13: which coercer a field pair gets depends on these types).

  Source modelled (hand-written, tied by the correspondence `convert` / `history` of
  `harness/props/c13.py`: the driver builds the class table of every generic class with
  the functions of this file, the harness's expected values use its own substitution):
    src/adaptix/_internal/type_tools/generic_resolver.py
        GenericResolver._get_members_of_parametrized_generic   (`resolveFields`)
        GenericResolver._get_type_var_to_actual                (`typeVarToActual`)
        GenericResolver._parametrize_by_dict                   (`parametrizeByDict`)
    src/adaptix/_internal/type_tools/basic_utils.py
        get_type_vars / get_type_vars_of_parametrized          (`Hint.params`)
    CPython typing.py  _GenericAlias.__getitem__ / _determine_new_args
        (`new_arg_by_param = dict(zip(self.__parameters__, args))`)   (`Hint.subscript`)

  Not modelled: TypeVarTuple / Unpack (one actual per variable), inheritance of members
  from generic parents (`_get_members_by_parents`; property C16 owns that), implicit
  parameters of a bare generic class.
-/
import AdaptixModel.Conv.Link

namespace Adaptix.Conv13

/-- A type hint as written in a class body.  It may mention the type variables of the class;
    a closed type is embedded as it is.  Subscription of a generic class is curried:
    `C[a0, a1]` is `app (app (cls C) a0) a1`. -/
inductive Hint where
  | ty (t : Ty)                       -- a type without type variables
  | var (v : Nat)                     -- a TypeVar (identified by a number)
  | cls (c : Nat)                     -- a generic class, not subscribed yet
  | app (f a : Hint)                  -- one more argument
  | opt (h : Hint)                    -- Optional[h]
  | iter (o : IterOrigin) (h : Hint)  -- List[h], Tuple[h, ...], Sequence[h] …
  | dict (k v : Hint)                 -- Dict[k, v]
  deriving DecidableEq, Repr, Inhabited

/-- all occurrences of type variables, left to right -/
def Hint.vars : Hint → List Nat
  | .ty _ => []
  | .var v => [v]
  | .cls _ => []
  | .app f a => f.vars ++ a.vars
  | .opt h => h.vars
  | .iter _ h => h.vars
  | .dict k v => k.vars ++ v.vars

/-- keeps the first occurrence of every element (typing's `_collect_type_parameters`) -/
def firstOccurrences : List Nat → List Nat
  | [] => []
  | x :: xs => x :: (firstOccurrences xs).filter (fun y => y != x)

/-- `tp.__parameters__` (= `get_type_vars_of_parametrized(tp)`): the type variables of the hint
    in order of **first appearance** -/
def Hint.params (h : Hint) : List Nat := firstOccurrences h.vars

/-- the specification: simultaneous substitution of hints for type variables -/
def Hint.subst (σ : Nat → Hint) : Hint → Hint
  | .ty t => .ty t
  | .var v => σ v
  | .cls c => .cls c
  | .app f a => .app (f.subst σ) (a.subst σ)
  | .opt h => .opt (h.subst σ)
  | .iter o h => .iter o (h.subst σ)
  | .dict k v => .dict (k.subst σ) (v.subst σ)

/-- a Python dict read with a default -/
def dictGetD (m : List (Nat × Hint)) (v : Nat) : Hint := (m.lookup v).getD (.var v)

/-- `tp[actuals]` of typing: the i-th actual replaces the i-th entry of `tp.__parameters__`
    (`dict(zip(self.__parameters__, args))`) -/
def Hint.subscript (h : Hint) (actuals : List Hint) : Hint :=
  h.subst (dictGetD (h.params.zip actuals))

/-- `GenericResolver._get_type_var_to_actual`: the dict *declared variable ↦ actual*, in the
    order the class declares its variables (`get_type_vars(origin)`) -/
def typeVarToActual (declared : List Nat) (args : List Hint) : List (Nat × Hint) := declared.zip args

/-- `GenericResolver._parametrize_by_dict(type_var_to_actual, tp)`:

        if tp in type_var_to_actual: return type_var_to_actual[tp][0]
        params = get_type_vars_of_parametrized(tp)
        if not params: return tp
        return tp[tuple(type_var_to_actual[type_var] for type_var in params)]

    The actuals are collected **in the order of `tp`'s own parameters**.  (A variable missing
    from the dict is a KeyError in the code; the dict is built from the class's own variables,
    which include those of its field hints.) -/
def parametrizeByDict (m : List (Nat × Hint)) (tp : Hint) : Hint :=
  match tp with
  | .var v => dictGetD m v
  | _ =>
    if tp.params.isEmpty then tp
    else tp.subscript (tp.params.map (dictGetD m))

/-- what the code would compute if the actuals were collected by iterating the dict (order of
    declaration) and keeping the variables the hint mentions — **not** the code; kept to state
    that the order matters (`C13.decl_order_collection_differs`) -/
def parametrizeByDeclOrder (m : List (Nat × Hint)) (tp : Hint) : Hint :=
  match tp with
  | .var v => dictGetD m v
  | _ =>
    if tp.params.isEmpty then tp
    else tp.subscript ((m.filter (fun e => tp.params.contains e.1)).map (·.2))

/-- a generic class as declared: its type variables in the order of `Generic[...]` and the hints
    of its fields -/
structure GenericDecl where
  declared : List Nat
  hints : List (Name × Hint)
  deriving Repr, Inhabited

/-- `GenericResolver._get_members_of_parametrized_generic`: every member hint parametrized by
    the dict of the subscription -/
def resolveFields (d : GenericDecl) (args : List Hint) : List (Name × Hint) :=
  d.hints.map (fun (k, tp) => (k, parametrizeByDict (typeVarToActual d.declared args) tp))

/-! ### closed hints as types of the class table

  `Ty.model cls inst` names an instantiation of a class by a number; the table `insts` says
  which actual arguments each instantiation has. -/

abbrev InstTable := List ((Nat × List Ty) × Ty)

mutual
/-- the type a closed hint denotes; `none`: a free type variable or an unknown instantiation -/
def Hint.toTy (tbl : InstTable) : Hint → Option Ty
  | .ty t => some t
  | .var _ => none
  | .cls c => tbl.lookup (c, [])
  | .app f a =>
    match f.spine tbl, a.toTy tbl with
    | some (c, as), some t => tbl.lookup (c, as ++ [t])
    | _, _ => none
  | .opt h => (h.toTy tbl).map Ty.opt
  | .iter o h => (h.toTy tbl).map (Ty.iter o)
  | .dict k v =>
    match k.toTy tbl, v.toTy tbl with
    | some a, some b => some (.dict a b)
    | _, _ => none
/-- class and arguments of a partial subscription -/
def Hint.spine (tbl : InstTable) : Hint → Option (Nat × List Ty)
  | .cls c => some (c, [])
  | .app f a =>
    match f.spine tbl, a.toTy tbl with
    | some (c, as), some t => some (c, as ++ [t])
    | _, _ => none
  | _ => none
end

end Adaptix.Conv13
