/-
  Model of adaptix conversion *linking* (C13).

  Source modelled (hand-written, tied by correspondence `harness/props/c13.py`):
    src/adaptix/_internal/conversion/linking_provider.py
        DefaultLinkingProvider, MatchingLinkingProvider, ConstantLinkingProvider,
        FunctionLinkingProvider
    src/adaptix/_internal/conversion/facade/provider.py   link / link_constant /
        link_function / allow_unlinked_optional / forbid_unlinked_optional / from_param / coercer
    src/adaptix/_internal/conversion/facade/retort.py     FilledConversionRetort.recipe
        (user recipe first, then DefaultLinkingProvider ... forbid_unlinked_optional(P.ANY))
    src/adaptix/_internal/conversion/request_filtering.py FromCtxParam
    src/adaptix/_internal/conversion/model_coercer_provider.py  _fetch_linkings (fetch_field_linking)
    src/adaptix/_internal/retort/request_bus.py           BasicRequestBus._send_inner
        (non-terminal CannotProvide -> next provider, terminal -> stop)

  Conventions.
  * A location stack (`LocStack`) is stored **top first**: the head of the list
    is `loc_stack.last`.  `len(loc_stack)` is `List.length`.
  * Predicates (`Pred`) are arbitrary Boolean functions of a location stack:
    the predicate language itself is property C10.  The theorems quantify over
    all such functions; the driver decodes a small concrete language.
  * Types are kept only as far as linking and the recursion through models
    need them; which coercer is chosen for two leaf types is property C14 and
    enters `Convert.lean` as a parameter.
  * User functions (link_function, link(coercer=), coercer(), factories) are
    uninterpreted: calling function `f` yields the term `Val.app f pos kw`.
-/
namespace Adaptix.Conv13

abbrev Name := String

/-! ### Types and values -/

/-- origins accepted by `IterableCoercerProvider` (CONCRETE_ORIGINS and ABC_TO_IMPL keys) -/
inductive IterOrigin where
  | list | tuple | set | deque
  | iterable | reversible | collection | sequence | mutableSequence | absSet | mutableSet
  | frozenset          -- only as a factory (ABC_TO_IMPL[Set]); never accepted as an origin
  deriving DecidableEq, Repr, Inhabited

/-- `IterableCoercerProvider._parse_destination`: the factory building the result -/
def IterOrigin.factory : IterOrigin → IterOrigin
  | .list => .list | .tuple => .tuple | .set => .set | .deque => .deque
  | .iterable => .tuple | .reversible => .tuple | .collection => .tuple | .sequence => .tuple
  | .mutableSequence => .list | .absSet => .frozenset | .mutableSet => .set
  | .frozenset => .frozenset

inductive Ty where
  | leaf (n : Nat)                  -- any type without structure relevant here (scalars, Any, unions …)
  | model (cls inst : Nat)          -- class `cls`; `inst` distinguishes generic instantiations
  | opt (t : Ty)                    -- Optional[t]
  | iter (o : IterOrigin) (t : Ty)  -- list[t], tuple[t, ...], Sequence[t] …
  | dict (k v : Ty)                 -- dict / Mapping / MutableMapping [k, v]
  deriving DecidableEq, Repr, Inhabited

/-- what `normalize_type(tp).origin` is compared with by ExactOriginLSC -/
inductive Origin where
  | leaf (n : Nat) | cls (c : Nat) | union | iter (o : IterOrigin) | dict
  deriving DecidableEq, Repr, Inhabited

def Ty.origin : Ty → Origin
  | .leaf n => .leaf n
  | .model c _ => .cls c
  | .opt _ => .union
  | .iter o _ => .iter o
  | .dict _ _ => .dict

/-- Python values. Type-exact: an atom carries its exact type name and repr. -/
inductive Val where
  | atom (tag repr : String)
  | none
  | seq (kind : IterOrigin) (xs : List Val)
  | dict (kvs : List (Val × Val))
  | obj (cls : Nat) (fields : List (Name × Val))     -- model instance, fields in definition order
  | app (f : Nat) (pos : List Val) (kw : List (Name × Val))   -- result of an uninterpreted user function
  deriving Repr, Inhabited

/-- `model_tools.definitions.Accessor` kinds used by the builtin shapes -/
inductive Accessor where
  | attr (name : Name)     -- DescriptorAccessor: data.<name>
  | item (key : Name)      -- ItemAccessor with a str key (TypedDict): data['key']
  | index (i : Nat)        -- ItemAccessor with an int key (NamedTuple, ctx tuple): data[i]
  deriving DecidableEq, Repr, Inhabited

def Val.access : Val → Accessor → Option Val
  | .obj _ fs, .attr n => fs.lookup n
  | .obj _ fs, .item k => fs.lookup k
  | .obj _ fs, .index i => (fs[i]?).map (·.2)
  | .seq _ xs, .index i => xs[i]?
  | _, _ => Option.none

/-! ### Locations and predicates -/

inductive LocKind where
  | typeHint | field | inputField | inputFuncField | outputField | genericParam
  deriving DecidableEq, Repr, Inhabited

structure Loc where
  kind : LocKind
  ty : Ty
  fieldId : Name := ""      -- meaningful for the four field kinds
  pos : Nat := 0            -- generic_pos of GenericParamLoc
  deriving DecidableEq, Repr, Inhabited

/-- `loc.is_castable(FieldLoc)` (`_CAST_SOURCES[FieldLoc]`) -/
def Loc.isField (l : Loc) : Bool :=
  match l.kind with
  | .field | .inputField | .inputFuncField | .outputField => true
  | _ => false

/-- top of the stack first -/
abbrev LocStack := List Loc
abbrev Pred := LocStack → Bool

/-- `ExactFieldNameLSC(name)` -/
def Pred.name (n : Name) : Pred
  | l :: _ => l.isField && l.fieldId == n
  | [] => false

/-- `FromCtxParam(name)`: `len(loc_stack) == 1 and loc_stack.last.field_id == name` -/
def Pred.fromParam (n : Name) : Pred
  | [l] => l.fieldId == n
  | _ => false

/-- `P.ANY` -/
def Pred.any : Pred := fun _ => true

/-- `ExactOriginLSC(origin)`: `P[dict]`, `P[list]`, `P[int]`, `P[SomeModel]` -/
def Pred.origin (o : Origin) : Pred
  | l :: _ => l.ty.origin == o
  | [] => false

/-- `GenericParamLSC(pos)`: the last location is a `GenericParamLoc` with `generic_pos == pos`
    (`LastLocChecker.check_loc_stack`: any other kind of location is refused) -/
def Pred.genericPos (pos : Nat) : Pred
  | l :: _ => l.kind == .genericParam && l.pos == pos
  | [] => false

/-- one element `generic_arg(pos, q)` of a pattern (`LocStackPattern.generic_arg`):
    `GenericParamLSC(pos) & q` — the `pos`-th type argument of whatever the location below is
    (key 0 / value 1 of a mapping, element 0 of an iterable, the wrapped type 0 of `Optional`) -/
def Pred.genericArg (pos : Nat) (q : Pred) : Pred := fun st => Pred.genericPos pos st && q st

/-- `LocStackEndChecker`: checker i from the end is applied to the stack without its last i elements
    (`loc_stack.reversed_slice(i)`); the checkers are given **top first** here -/
def Pred.endCheck : List Pred → LocStack → Bool
  | [], _ => true
  | p :: ps, st => p st && Pred.endCheck ps (st.drop 1)

/-- a `LocStackPattern` with several elements, e.g. `P[dict].generic_arg(0, str)` =
    `Pred.pattern [Pred.origin .dict, Pred.genericArg 0 (Pred.origin str)]` (bottom first, as written) -/
def Pred.pattern (ps : List Pred) : Pred := fun st => decide (ps.length ≤ st.length) && Pred.endCheck ps.reverse st

/-! ### Shapes -/

inductive ParamKind where
  | posOnly | posOrKw | kwOnly
  deriving DecidableEq, Repr, Inhabited

/-- `OutputField`: id, type, accessor -/
structure OutField where
  id : Name
  ty : Ty
  acc : Accessor
  deriving Repr, Inhabited

/-- `InputField`: id, type, is_required, and the value the constructor gives the
    field when the argument is not passed (`none`: the field is then absent,
    e.g. a NotRequired key of a TypedDict). -/
structure InField where
  id : Name
  ty : Ty
  required : Bool
  default : Option Val
  deriving Repr, Inhabited

structure Param where
  fieldId : Name
  name : Name
  kind : ParamKind
  deriving Repr, Inhabited

structure InShape where
  cls : Nat
  fields : List InField
  params : List Param
  deriving Repr, Inhabited

structure OutShape where
  fields : List OutField
  deriving Repr, Inhabited

/-- an extra converter parameter: `ConversionContext.params[i]` (a FieldLoc) -/
structure CtxParam where
  name : Name
  ty : Ty
  deriving Repr, Inhabited

def CtxParam.loc (p : CtxParam) : Loc := { kind := .field, ty := p.ty, fieldId := p.name }
def OutField.loc (f : OutField) : Loc := { kind := .outputField, ty := f.ty, fieldId := f.id }
def InField.loc (f : InField) : Loc := { kind := .inputField, ty := f.ty, fieldId := f.id }

/-! ### Linking request, sources, results -/

/-- `LinkingRequest`: `sources` are the fields of the source model located at
    `srcStack` (each source loc stack is `srcStack.append_with(field loc)`),
    `params` the conversion context, `dst` the destination field stack. -/
structure LinkReq where
  srcStack : LocStack
  sources : List OutField
  params : List CtxParam
  dst : LocStack

/-- A `LinkingSource`.  In the code it is a loc stack; whether it denotes an
    extra parameter is decided by `source in request.ctx.loc_stacks`.  Source
    field stacks have length ≥ 2 and parameter stacks length 1, so the test is
    the tag kept here. -/
inductive Source where
  | field (f : OutField)
  | param (i : Nat) (p : CtxParam)
  deriving Repr, Inhabited

def Source.stack (req : LinkReq) : Source → LocStack
  | .field f => f.loc :: req.srcStack
  | .param _ p => [p.loc]

def Source.fieldId : Source → Name
  | .field f => f.id
  | .param _ p => p.name

def Source.ty : Source → Ty
  | .field f => f.ty
  | .param _ p => p.ty

/-- `reversed(request.context.loc_stacks)` keeping the position of each parameter -/
def paramSourcesRev (params : List CtxParam) : List Source :=
  (params.zipIdx.map (fun (p, i) => Source.param i p)).reverse

def fieldSources (fs : List OutField) : List Source := fs.map Source.field

inductive Const where
  | value (v : Val)                           -- DefaultValue
  | factory (f : Nat) (lit : Option Val)      -- DefaultFactory; `lit` = get_literal_from_factory
  deriving Repr, Inhabited

structure FuncParam where
  name : Name
  kind : ParamKind
  ty : Ty
  deriving Repr, Inhabited

/-- `get_callable_shape(func).input` of a link_function callable -/
structure FuncSig where
  id : Nat
  params : List FuncParam
  deriving Repr, Inhabited

/-- linking of one function parameter: ModelLinking or FieldLinking(coercer=None) -/
inductive ArgLink where
  | model
  | field (s : Source)
  deriving Repr, Inhabited

structure ParamSpec where
  param : FuncParam
  link : ArgLink
  deriving Repr, Inhabited

/-- `LinkingResult.linking` -/
inductive Linking where
  | field (s : Source) (coercer : Option Nat)
  | const (c : Const)
  | func (f : FuncSig) (specs : List ParamSpec)
  deriving Repr, Inhabited

/-! ### Providers -/

inductive Provider where
  | link (src dst : Pred) (coercer : Option Nat)        -- link(src, dst, coercer=)
  | linkConstant (dst : Pred) (c : Const)               -- link_constant(dst, value= / factory=)
  | linkFunction (f : FuncSig) (dst : Pred)             -- link_function(func, dst)
  | policy (pred : Pred) (allowed : Bool)               -- allow_/forbid_unlinked_optional(pred)
  | coercer (src dst : Pred) (f : Nat)                  -- coercer(src, dst, func)

inductive Answer (α : Type) where
  | ok (a : α)
  | decline          -- CannotProvide, not terminal: the bus tries the next provider
  | terminal         -- CannotProvide(is_terminal=True): the bus re-raises

/-- `MatchingLinkingProvider._provide_linking`:
    `itertools.chain(request.sources, reversed(request.context.loc_stacks))` -/
def matchingCandidates (req : LinkReq) : List Source :=
  fieldSources req.sources ++ paramSourcesRev req.params

/-- `DefaultLinkingProvider._iterate_sources` -/
def defaultCandidates (req : LinkReq) : List Source :=
  (if req.dst.length == 2 then paramSourcesRev req.params else []) ++ fieldSources req.sources

/-- `request.destination.last.cast(FieldLoc).field_id` -/
def LinkReq.targetId (req : LinkReq) : Name :=
  match req.dst with
  | l :: _ => l.fieldId
  | [] => ""

/-- `DefaultLinkingProvider._provide_linking` -/
def defaultLinking (req : LinkReq) : Option Linking :=
  ((defaultCandidates req).find? (fun s => s.fieldId == req.targetId)).map (fun s => Linking.field s none)

/-- a Python dict built by a comprehension: a later entry overwrites an earlier one -/
def dictGet {α : Type} (entries : List (Name × α)) (k : Name) : Option α :=
  (entries.reverse.find? (fun e => e.1 == k)).map (·.2)

/-- `FunctionLinkingProvider._get_linking` for the parameter at position `idx`;
    `none` = terminal CannotProvide ("Cannot match … with model field / converter parameter") -/
def funcArgLink (req : LinkReq) (p : FuncParam) (idx : Nat) : Option ArgLink :=
  if p.kind == .kwOnly then
    (dictGet (req.sources.map (fun f => (f.id, Source.field f))) p.name).map ArgLink.field
  else if idx == 0 then
    some ArgLink.model
  else
    (dictGet (req.params.zipIdx.map (fun (c, i) => (c.name, Source.param i c))) p.name).map ArgLink.field

/-- `FunctionLinkingProvider._create_param_specs` (`mandatory_apply_by_iterable`):
    all parameters must be linked, otherwise the aggregate error is terminal -/
def funcParamSpecs (req : LinkReq) : List FuncParam → Nat → Option (List ParamSpec)
  | [], _ => some []
  | p :: ps, idx =>
    match funcArgLink req p idx, funcParamSpecs req ps (idx + 1) with
    | some l, some rest => some ({ param := p, link := l } :: rest)
    | _, _ => none

/-- the answer of one provider of the user recipe to a LinkingRequest -/
def Provider.provideLinking (req : LinkReq) : Provider → Answer Linking
  | .link src dst co =>
    if !dst req.dst then .decline
    else
      match (matchingCandidates req).find? (fun s => src (s.stack req)) with
      | some s => .ok (.field s co)
      | none => .decline
  | .linkConstant dst c => if dst req.dst then .ok (.const c) else .decline
  | .linkFunction f dst =>
    if !dst req.dst then .decline
    else
      match funcParamSpecs req f.params 0 with
      | some specs => .ok (.func f specs)
      | none => .terminal
  | .policy _ _ => .decline      -- does not handle LinkingRequest at all
  | .coercer _ _ _ => .decline   -- likewise

/-- `mediator.provide(LinkingRequest(...))`: the user recipe in order, then the
    builtin `DefaultLinkingProvider`. `none` = CannotProvide reached the caller. -/
def linkOf (recipe : List Provider) (req : LinkReq) : Option Linking :=
  match recipe with
  | [] => defaultLinking req
  | p :: rest =>
    match p.provideLinking req with
    | .ok l => some l
    | .decline => linkOf rest req
    | .terminal => none

/-- `mediator.mandatory_provide(UnlinkedOptionalPolicyRequest(loc_stack=destination)).is_allowed`:
    first policy provider whose predicate accepts the destination stack, the
    builtin recipe ends with `forbid_unlinked_optional(P.ANY)`. -/
def policyAllowed (recipe : List Provider) (dst : LocStack) : Bool :=
  match recipe with
  | [] => false
  | .policy pred allowed :: rest => if pred dst then allowed else policyAllowed rest dst
  | _ :: rest => policyAllowed rest dst

/-- outcome of `fetch_field_linking` for one destination field -/
inductive FieldLink where
  | linked (l : Linking)
  | skipped                -- optional, unlinked, policy allows: the parameter is not passed
  | failed                 -- CannotProvide is re-raised: no converter
  deriving Repr, Inhabited

/-- `ModelCoercerProvider._fetch_linkings.fetch_field_linking` -/
def fetchFieldLinking (recipe : List Provider) (req : LinkReq) (f : InField) : FieldLink :=
  match linkOf recipe req with
  | some l => .linked l
  | none =>
    if f.required then .failed
    else if policyAllowed recipe req.dst then .skipped
    else .failed

/-- first `coercer(src, dst, f)` provider of the user recipe accepting both stacks
    (`MatchingCoercerProvider._provide_coercer`) -/
def userCoercer (recipe : List Provider) (src dst : LocStack) : Option Nat :=
  match recipe with
  | [] => none
  | .coercer ps pd f :: rest => if ps src && pd dst then some f else userCoercer rest src dst
  | _ :: rest => userCoercer rest src dst

end Adaptix.Conv13
