/-
  C14 — executable model of adaptix' *implicit* coercion search
  (`adaptix.conversion.get_converter` without user supplied coercers).

  Modelled code (statement by statement, cited at each definition):
    src/adaptix/_internal/conversion/coercer_provider.py      every provider class
    src/adaptix/_internal/conversion/model_coercer_provider.py  ModelCoercerProvider
    src/adaptix/_internal/conversion/linking_provider.py      DefaultLinkingProvider
    src/adaptix/_internal/conversion/policy_provider.py       UnlinkedOptionalPolicyProvider
    src/adaptix/_internal/conversion/facade/retort.py         FilledConversionRetort.recipe (order: Generated/C14Recipe.lean)
    src/adaptix/_internal/retort/request_bus.py               BasicRequestBus._send_inner (skip / terminal)
    src/adaptix/_internal/provider/essential.py               mandatory_provide / delegating_provide

  The model works on *normalised* types (the result of `normalize_type`, which is
  property C15's subject): the harness serialises `normalize_type(hint)` into `Ty`.
  Lean core only; no Mathlib.
-/
import AdaptixModel.Generated.C14Recipe

namespace Adaptix.Conv

/-! ## Normalised types -/

/-- origins understood by `IterableCoercerProvider` plus `frozenset` (a builtin
    iterable that is *not* in its tables) -/
inductive IterKind
  | list | set | tuple | deque | frozenset
  | iterable | reversible | collection | sequence | mutableSequence | absSet | mutableSet
  deriving DecidableEq, Repr, Inhabited

/-- name of the origin as it is printed by the extractor (`origin.__name__`) -/
def IterKind.name : IterKind → String
  | .list => "list" | .set => "set" | .tuple => "tuple" | .deque => "deque" | .frozenset => "frozenset"
  | .iterable => "Iterable" | .reversible => "Reversible" | .collection => "Collection"
  | .sequence => "Sequence" | .mutableSequence => "MutableSequence" | .absSet => "Set"
  | .mutableSet => "MutableSet"

def IterKind.all : List IterKind :=
  [.list, .set, .tuple, .deque, .frozenset, .iterable, .reversible, .collection, .sequence,
   .mutableSequence, .absSet, .mutableSet]

def IterKind.ofName (s : String) : Option IterKind := IterKind.all.find? (fun k => k.name == s)

/-- mapping origins: `dict`, `collections.abc.Mapping`, `MutableMapping`, and two
    builtin mappings the provider does not list -/
inductive MapKind
  | dict | mapping | mutableMapping | defaultdict | orderedDict
  deriving DecidableEq, Repr, Inhabited

def MapKind.name : MapKind → String
  | .dict => "dict" | .mapping => "Mapping" | .mutableMapping => "MutableMapping"
  | .defaultdict => "defaultdict" | .orderedDict => "OrderedDict"

def MapKind.all : List MapKind := [.dict, .mapping, .mutableMapping, .defaultdict, .orderedDict]
def MapKind.ofName (s : String) : Option MapKind := MapKind.all.find? (fun k => k.name == s)

/-- Normalised type expressions (`BaseNormType`), unbounded nesting.

    * `cls c args` : `_NormType` whose origin is a class: scalars, enums, plain user
      classes, models (`args = []` iff the hint is neither generic nor parametrised),
      and every parametrised generic that is not listed below (`frozenset` is listed);
    * `opaque n`  : a normalised type whose origin is not a class and that only supports
      equality: `NewType`, `Literal[...]`;
    * `iter k e`  : `list[e]`, `tuple[e, ...]`, `Iterable[e]` …;
    * `ftuple es` : constant-length `tuple[e1, …, en]` (also `tuple[()]`);
    * `tagged m t`: `Annotated[t, …]` and the other `_TYPE_TAGS` (norm_utils.py). -/
inductive Ty
  | any
  | none
  | cls (c : Nat) (args : List Ty)
  | opaque (n : Nat)
  | iter (k : IterKind) (e : Ty)
  | ftuple (es : List Ty)
  | map (k : MapKind) (key val : Ty)
  | union (args : List Ty)
  | tagged (m : Nat) (inner : Ty)
  deriving Repr, Inhabited

/-! ### Equality of normalised types (`_BasicNormType.__eq__`: origin and args) -/

mutual
def Ty.beq : Ty → Ty → Bool
  | .any, .any => true
  | .none, .none => true
  | .cls c a, .cls c' a' => c == c' && Ty.beqList a a'
  | .opaque n, .opaque n' => n == n'
  | .iter k e, .iter k' e' => k == k' && Ty.beq e e'
  | .ftuple a, .ftuple a' => Ty.beqList a a'
  | .map k x y, .map k' x' y' => k == k' && Ty.beq x x' && Ty.beq y y'
  | .union a, .union a' => Ty.beqList a a'
  | .tagged m t, .tagged m' t' => m == m' && Ty.beq t t'
  | _, _ => false
def Ty.beqList : List Ty → List Ty → Bool
  | [], [] => true
  | a :: as, b :: bs => Ty.beq a b && Ty.beqList as bs
  | _, _ => false
end

instance : BEq Ty := ⟨Ty.beq⟩

/-- `x in [..]` on normalised types -/
def Ty.elemOf (t : Ty) (l : List Ty) : Bool := l.any (fun u => Ty.beq t u)

/-- `strip_tags` (type_tools/norm_utils.py): removes `Annotated` & co. at the top -/
def stripTags : Ty → Ty
  | .tagged _ t => stripTags t
  | t => t

/-! ## Values -/

/-- concrete runtime containers -/
inductive Conc | list | tuple | set | frozenset | deque
  deriving DecidableEq, Repr, Inhabited

def Conc.name : Conc → String
  | .list => "list" | .tuple => "tuple" | .set => "set" | .frozenset => "frozenset" | .deque => "deque"
def Conc.all : List Conc := [.list, .tuple, .set, .frozenset, .deque]
def Conc.ofName (s : String) : Option Conc := Conc.all.find? (fun k => k.name == s)

/-- A small Python value universe.  `atom c p` is an instance of the plain class `c`
    (ints, strs, bools, enum members, instances of user classes) with an uninterpreted
    payload; `obj c fs` an instance of the model class `c`. -/
inductive Val
  | none
  | atom (cls : Nat) (payload : Int)
  | seq (k : Conc) (xs : List Val)
  | dict (kvs : List (Val × Val))
  | obj (cls : Nat) (fields : List (Nat × Val))
  deriving Repr, Inhabited

/-! reserved class ids (the harness numbers its class table accordingly) -/
def noneCls : Nat := 0
def dictCls : Nat := 6
/-- `typing.Any` is a class since Python 3.11: `issubclass(Any, object)` holds -/
def anyCls : Nat := 7

def Conc.cls : Conc → Nat
  | .list => 1 | .tuple => 2 | .set => 3 | .frozenset => 4 | .deque => 5

/-- `type(v)` as a class id -/
def Val.tag : Val → Nat
  | .none => noneCls
  | .atom c _ => c
  | .seq k _ => k.cls
  | .dict _ => dictCls
  | .obj c _ => c

def lookupField (n : Nat) : List (Nat × Val) → Option Val
  | [] => none
  | (m, v) :: rest => if m == n then some v else lookupField n rest

/-! ## Configuration: class table, policy, recipe -/

structure Field where
  name : Nat
  ty : Ty
  required : Bool
  deriving Repr, Inhabited

/-- the providers answering `CoercerRequest` in the builtin recipe -/
inductive Prov
  | model | iterable | dict | optional | unwrap | sameType | dstAny | unionSubcase | subclass
  deriving DecidableEq, Repr, Inhabited

def Prov.name : Prov → String
  | .model => "ModelCoercerProvider" | .iterable => "IterableCoercerProvider"
  | .dict => "DictCoercerProvider" | .optional => "OptionalCoercerProvider"
  | .unwrap => "TypeHintTagsUnwrappingProvider" | .sameType => "SameTypeCoercerProvider"
  | .dstAny => "DstAnyCoercerProvider" | .unionSubcase => "UnionSubcaseCoercerProvider"
  | .subclass => "SubclassCoercerProvider"

def Prov.all : List Prov :=
  [.model, .iterable, .dict, .optional, .unwrap, .sameType, .dstAny, .unionSubcase, .subclass]
def Prov.ofName (s : String) : Option Prov := Prov.all.find? (fun p => p.name == s)

/-- `FilledConversionRetort.recipe` restricted to coercer providers, in the order
    found in the working tree (regenerated on every run) -/
def builtinRecipe : List Prov := Generated.coercerProviders.filterMap Prov.ofName

/-- Predicate of one `allow_unlinked_optional(pred)` / `forbid_unlinked_optional(pred)`
    (`create_loc_stack_checker`, provider/loc_stack_filtering.py), evaluated on the location
    stack of `UnlinkedOptionalPolicyRequest`: it ends with the location of the destination model
    (its type is the model) followed by the location of the destination field (field id, type). -/
inductive FieldPred
  | any                                     -- `P.ANY`, or no predicate at all (`bound_by_any([])`)
  | names (ns : List Nat)                   -- `"a"` (`ExactFieldNameLSC`) / a regex (`ReFieldNameLSC`,
                                            --   resolved over the finite table of field ids by the harness)
  | tyCls (c : Nat)                         -- a class `C`: `ExactOriginLSC` on the field's own type
  | under (owner : Nat) (p : FieldPred)     -- `P[Dst][p]`, `P[Dst].a`: `LocStackEndChecker`
                                            --   [`ExactOriginLSC(Dst)` on the stack without the field, `p`]
  | or (a b : FieldPred)                    -- several predicates of one call / `|`
  | and (a b : FieldPred)                   -- `&`
  | not (a : FieldPred)                     -- `~`
  deriving Repr, Inhabited

/-- `check_loc_stack` for the destination field `f` of the model class `owner` -/
def FieldPred.holds (owner : Nat) (f : Field) : FieldPred → Bool
  | .any => true
  | .names ns => ns.contains f.name
  | .tyCls c => match f.ty with
    | .cls c' _ => c' == c
    | _ => false
  | .under o p => o == owner && p.holds owner f
  | .or a b => a.holds owner f || b.holds owner f
  | .and a b => a.holds owner f && b.holds owner f
  | .not a => !a.holds owner f

/-- one policy provider of the user recipe: `LocStackBoundingProvider(pred,
    UnlinkedOptionalPolicyProvider(is_allowed=allow))` -/
structure PolicyRule where
  pred : FieldPred
  allow : Bool
  deriving Repr, Inhabited

/-- `BasicRequestBus._send_inner` over the policy providers: a provider whose predicate does not
    match raises a non-terminal `CannotProvide`, the first one that matches answers; when none of
    the user recipe matches, the policy closing the builtin recipe answers. -/
def resolveRules (owner : Nat) (f : Field) : List PolicyRule → Bool
  | [] => Generated.builtinUnlinkedOptionalAllowed
  | r :: rs => if r.pred.holds owner f then r.allow else resolveRules owner f rs

/-- `UnlinkedOptionalPolicyRequest`: `forbid_unlinked_optional(P.ANY)` closes the builtin
    recipe; `allow_unlinked_optional(...)` of the user recipe is consulted first. -/
inductive Policy
  | builtin                       -- nothing in the user recipe: the recipe's closing policy decides
  | allowAll                      -- allow_unlinked_optional(P.ANY)
  | allowNames (names : List Nat) -- allow_unlinked_optional("a", "b")
  | forbidAll                     -- forbid_unlinked_optional(P.ANY) given explicitly
  | rules (rs : List PolicyRule)  -- any sequence of allow_/forbid_unlinked_optional(pred) in recipe order
  deriving Repr, Inhabited

/-- `mediator.mandatory_provide(UnlinkedOptionalPolicyRequest(loc_stack=destination)).is_allowed`
    for the destination field `f` of the model class `owner` — asked for **each** unlinked
    optional field with that field's own location -/
def Policy.allowed : Policy → Nat → Field → Bool
  | .builtin, _, _ => Generated.builtinUnlinkedOptionalAllowed
  | .allowAll, _, _ => true
  | .allowNames ns, _, f => ns.contains f.name || Generated.builtinUnlinkedOptionalAllowed
  | .forbidAll, _, _ => false
  | .rules rs, owner, f => resolveRules owner f rs

structure Cfg where
  /-- `issubclass(a, b)` on class ids (incl. the reserved ones) -/
  sub : Nat → Nat → Bool
  /-- shape of a class origin applied to its normalised arguments (`None` = not a model):
      field types are already generic-resolved (`provide_generic_resolved_shape`) -/
  shape : Nat → List Ty → Option (List Field)
  /-- value a destination class gives an optional field that received no argument -/
  dflt : Nat → Nat → Val
  policy : Policy
  recipe : List Prov

/-! ## Coercers -/

inductive Kind | asIs | optional | iterable | dict | model
  deriving DecidableEq, Repr, Inhabited

/-- a produced coercer: which closure it is and what it computes
    (`none` = the closure leaves the modelled value universe, e.g. an ill-typed input) -/
structure Coercer where
  kind : Kind
  run : Val → Option Val

def Coercer.isAsIs (c : Coercer) : Bool := c.kind == .asIs

/-- `as_is_stub_with_ctx` (special_cases_optimization.py) -/
def asIsCoercer : Coercer := { kind := .asIs, run := fun v => some v }

/-- answer of the whole recipe to one `CoercerRequest` -/
inductive Answer
  | ok (c : Coercer)
  | notFound        -- CannotProvide (any flavour) reaches the caller
  | outOfFuel       -- the model ran out of fuel (never agreement; see `provide_stable`)

/-- answer of one provider -/
inductive Step
  | ok (c : Coercer)
  | skip            -- non-terminal CannotProvide: the bus asks the next provider
  | fail            -- terminal CannotProvide (mandatory_provide failed): the search stops
  | outOfFuel

/-- `BasicRequestBus._send_inner`: providers in recipe order; a non-terminal
    CannotProvide moves on, a terminal one is re-raised, the first response wins. -/
def runRecipe (step : Prov → Step) : List Prov → Answer
  | [] => .notFound
  | p :: ps =>
    match step p with
    | .ok c => .ok c
    | .skip => runRecipe step ps
    | .fail => .notFound
    | .outOfFuel => .outOfFuel

/-- `mediator.mandatory_provide(request)`: every failure becomes terminal -/
def mandatory (a : Answer) (k : Coercer → Step) : Step :=
  match a with
  | .ok c => k c
  | .notFound => .fail
  | .outOfFuel => .outOfFuel

/-! ### the as-is providers -/

/-- `SameTypeCoercerProvider`: `norm_src == norm_dst` -/
def stepSameType (src dst : Ty) : Step :=
  if Ty.beq src dst then .ok asIsCoercer else .skip

/-- `DstAnyCoercerProvider`: `norm_dst.origin == Any` -/
def stepDstAny (dst : Ty) : Step :=
  match dst with
  | .any => .ok asIsCoercer
  | _ => .skip

/-- Source side of `SubclassCoercerProvider`: `norm_src.origin` when it is a class and the
    hint is neither generic nor parametrised (`is_generic(norm.source) or
    is_parametrized(norm.source)` is false).  `Tuple[()]` has no `get_args`, so it passes
    these guards with origin `tuple`.  `None`, `NewType`, `Literal` have non-class origins
    (`is_subclass_soft` answers False); a source `Any` is declined
    (fixes/C14-subclass-guards.patch; on the unpatched tree `Any` is the class `typing.Any`). -/
def classOriginSrc : Ty → Option Nat
  | .cls c [] => some c
  | .ftuple [] => some Conc.tuple.cls
  | _ => none

/-- Destination side: a destination `Tuple[()]` is declined (fixes/C14-subclass-guards.patch;
    the unpatched tree treats it as the class `tuple`); no class of the table derives from
    `typing.Any`, so a destination `Any` never satisfies `issubclass`. -/
def classOriginDst : Ty → Option Nat
  | .cls c [] => some c
  | _ => none

/-- `SubclassCoercerProvider` -/
def stepSubclass (cfg : Cfg) (src dst : Ty) : Step :=
  match classOriginSrc src, classOriginDst dst with
  | some a, some b => if cfg.sub a b then .ok asIsCoercer else .skip
  | _, _ => .skip

/-- `UnionSubcaseCoercerProvider` (with fixes/C14-union-subcase-origin.patch: a non-union
    source is compared with the stripped cases of the destination by *type equality*;
    the unpatched tree compares origins only) -/
def stepUnionSubcase (src dst : Ty) : Step :=
  match dst with
  | .union ds =>
    match src with
    | .union ss =>
      if (ss.map stripTags).all (fun s => Ty.elemOf s (ds.map stripTags)) then .ok asIsCoercer
      else .skip
    | s => if Ty.elemOf s (ds.map stripTags) then .ok asIsCoercer else .skip
  | _ => .skip

/-! ### the structural providers -/

def isNoneTy : Ty → Bool
  | .none => true
  | _ => false

/-- `OptionalCoercerProvider._is_optional` (with fixes/C14-optional-two-cases.patch:
    a union of exactly two cases one of which is `None`; the unpatched tree accepts any
    union containing `None` and then looks at its *first* other case only) -/
def isOptional : Ty → Bool
  | .union [a, b] => isNoneTy a || isNoneTy b
  | _ => false

/-- `OptionalCoercerProvider._get_not_none`: first case whose origin is not `None` -/
def getNotNone : Ty → Option Ty
  | .union args => args.find? (fun a => !isNoneTy a)
  | _ => none

def optionalRun (inner : Val → Option Val) : Val → Option Val
  | .none => some .none
  | v => inner v

/-- `OptionalCoercerProvider._provide_coercer_norm_types` -/
def stepOptional (rec : Ty → Ty → Answer) (src dst : Ty) : Step :=
  if isOptional dst && isOptional src then
    match getNotNone src, getNotNone dst with
    | some s, some d =>
      mandatory (rec s d) fun c =>
        if c.isAsIs then .ok asIsCoercer
        else .ok { kind := .optional, run := optionalRun c.run }
    | _, _ => .skip   -- unreachable on normalised unions (two distinct cases)
  else .skip

/-- `TypeHintTagsUnwrappingProvider`. The model has no terminal / non-terminal distinction: a
    failed delegated search lets the following providers try. (Since fix fcb6537 the real
    provider keeps the terminality of the nested failure; a TERMINAL nested failure - an
    unlinkable field of a nested model pair - ends the search. Without user recipe entries this
    cannot be observed: the only pairs the later providers could still accept after a failed
    unwrapped search are equal tagged types, and for equal types the unwrapped search does not
    fail. Recipes that make `M -> M` unsatisfiable are C13's domain, where the oracle covers it.) -/
def stepUnwrap (rec : Ty → Ty → Answer) (src dst : Ty) : Step :=
  let s := stripTags src
  let d := stripTags dst
  if Ty.beq s src && Ty.beq d dst then .skip
  else match rec s d with
    | .ok c => .ok c
    | .notFound => .skip
    | .outOfFuel => .outOfFuel

/-- `IterableCoercerProvider._parse_source`: the element type of an accepted origin
    (constant-length tuples raise a non-terminal CannotProvide) -/
def parseIterSrc : Ty → Option Ty
  | .iter k e =>
    if Generated.concreteOrigins.contains k.name || (Generated.abcToImpl.map (·.1)).contains k.name
    then some e else none
  | _ => none

/-- factory for a destination origin: the origin itself when concrete, else `ABC_TO_IMPL` -/
def iterFactory (k : IterKind) : Option Conc :=
  if Generated.concreteOrigins.contains k.name then Conc.ofName k.name
  else match Generated.abcToImpl.find? (fun p => p.1 == k.name) with
    | some p => Conc.ofName p.2
    | none => none

/-- `IterableCoercerProvider._parse_destination` -/
def parseIterDst : Ty → Option (Conc × Ty)
  | .iter k e => (iterFactory k).map (fun f => (f, e))
  | _ => none

def mapM' (f : Val → Option Val) : List Val → Option (List Val)
  | [] => some []
  | x :: xs => match f x, mapM' f xs with
    | some y, some ys => some (y :: ys)
    | _, _ => none

/-- `dst_factory(element_coercer(element, ctx) for element in data)` -/
def iterRun (factory : Conc) (elem : Val → Option Val) : Val → Option Val
  | .seq _ xs => (mapM' elem xs).map (Val.seq factory)
  | _ => none

/-- `IterableCoercerProvider._provide_coercer_norm_types` -/
def stepIterable (rec : Ty → Ty → Answer) (src dst : Ty) : Step :=
  match parseIterSrc src with
  | none => .skip
  | some se =>
    match parseIterDst dst with
    | none => .skip
    | some (factory, de) =>
      mandatory (rec se de) fun c => .ok { kind := .iterable, run := iterRun factory c.run }

/-- `DictCoercerProvider._parse_source` / `_parse_destination` -/
def parseDictSrc : Ty → Option (Ty × Ty)
  | .map k a b => if Generated.dictSrcOrigins.contains k.name then some (a, b) else none
  | _ => none
def parseDictDst : Ty → Option (Ty × Ty)
  | .map k a b => if Generated.dictDstOrigins.contains k.name then some (a, b) else none
  | _ => none

def mapKV (kf vf : Val → Option Val) : List (Val × Val) → Option (List (Val × Val))
  | [] => some []
  | (k, v) :: rest => match kf k, vf v, mapKV kf vf rest with
    | some k', some v', some r => some ((k', v') :: r)
    | _, _, _ => none

/-- `{key_coercer(key, ctx): value_coercer(value, ctx) for key, value in data.items()}` -/
def dictRun (kf vf : Val → Option Val) : Val → Option Val
  | .dict kvs => (mapKV kf vf kvs).map Val.dict
  | _ => none

/-- `DictCoercerProvider._provide_coercer_norm_types` (key coercer first) -/
def stepDict (rec : Ty → Ty → Answer) (src dst : Ty) : Step :=
  match parseDictSrc src with
  | none => .skip
  | some (sk, sv) =>
    match parseDictDst dst with
    | none => .skip
    | some (dk, dv) =>
      mandatory (rec sk dk) fun kc =>
        mandatory (rec sv dv) fun vc =>
          .ok { kind := .dict, run := dictRun kc.run vc.run }

/-! ### models -/

/-- what the constructor call does with one destination field -/
inductive FieldPlan
  | linked (dstName srcName : Nat) (run : Val → Option Val)
  | skipped (dstName : Nat)          -- unlinked optional field, allowed by the policy

/-- `DefaultLinkingProvider._provide_linking` for a converter without extra parameters:
    the first source field whose id equals the destination field's id -/
def findSource (name : Nat) (srcFields : List Field) : Option Field :=
  srcFields.find? (fun f => f.name == name)

/-- `ModelCoercerProvider._fetch_linkings` + `_generate_sub_plan` for the destination
    fields in order.  Both loops are `mandatory_apply_by_iterable`: one failure makes the
    whole request fail terminally. -/
def planFields (rec : Ty → Ty → Answer) (allowed : Field → Bool) (srcFields : List Field) :
    List Field → Option (Option (List FieldPlan))   -- none = out of fuel, some none = terminal failure
  | [] => some (some [])
  | d :: ds =>
    match findSource d.name srcFields with
    | none =>
      -- `except CannotProvide`: required → re-raise; optional → ask the policy *for this field*
      -- (`UnlinkedOptionalPolicyRequest(loc_stack=destination)`, one request per field)
      if d.required then some none
      else if allowed d then
        match planFields rec allowed srcFields ds with
        | some (some ps) => some (some (.skipped d.name :: ps))
        | r => r
      else some none
    | some s =>
      match rec s.ty d.ty with
      | .ok c =>
        match planFields rec allowed srcFields ds with
        | some (some ps) => some (some (.linked d.name s.name c.run :: ps))
        | r => r
      | .notFound => some none
      | .outOfFuel => none

def runPlan (dflt : Nat → Val) (srcFields : List (Nat × Val)) :
    List FieldPlan → Option (List (Nat × Val))
  | [] => some []
  | .linked dn sn run :: ps =>
    match lookupField sn srcFields with
    | none => none
    | some x => match run x, runPlan dflt srcFields ps with
      | some y, some r => some ((dn, y) :: r)
      | _, _ => none
  | .skipped dn :: ps =>
    match runPlan dflt srcFields ps with
    | some r => some ((dn, dflt dn) :: r)
    | none => none

/-- the generated closure: read the linked source attributes, coerce, call the constructor -/
def modelRun (dstCls : Nat) (dflt : Nat → Val) (plan : List FieldPlan) : Val → Option Val
  | .obj _ fs => (runPlan dflt fs plan).map (Val.obj dstCls)
  | _ => none

/-- `ModelCoercerProvider._provide_coercer`: both sides must have a shape
    (otherwise a non-terminal CannotProvide) -/
def stepModel (rec : Ty → Ty → Answer) (cfg : Cfg) (src dst : Ty) : Step :=
  match src, dst with
  | .cls sc sa, .cls dc da =>
    match cfg.shape sc sa, cfg.shape dc da with
    | some sfs, some dfs =>
      match planFields rec (cfg.policy.allowed dc) sfs dfs with
      | none => .outOfFuel
      | some none => .fail
      | some (some plan) => .ok { kind := .model, run := modelRun dc (cfg.dflt dc) plan }
    | _, _ => .skip
  | _, _ => .skip

/-! ## The search -/

def step (rec : Ty → Ty → Answer) (cfg : Cfg) (src dst : Ty) : Prov → Step
  | .model => stepModel rec cfg src dst
  | .iterable => stepIterable rec src dst
  | .dict => stepDict rec src dst
  | .optional => stepOptional rec src dst
  | .unwrap => stepUnwrap rec src dst
  | .sameType => stepSameType src dst
  | .dstAny => stepDstAny dst
  | .unionSubcase => stepUnionSubcase src dst
  | .subclass => stepSubclass cfg src dst

/-- `mediator.provide(CoercerRequest(src, dst))` with `fuel` nested requests allowed -/
def provide (cfg : Cfg) : Nat → Ty → Ty → Answer
  | 0, _, _ => .outOfFuel
  | n + 1, src, dst => runRecipe (step (provide cfg n) cfg src dst) cfg.recipe

/-- `get_converter(src, dst)`: `BuiltinConverterProvider` asks for the top-level coercer
    with `mandatory_provide`; a failure surfaces as `ProviderNotFoundError`. -/
def getConverter (cfg : Cfg) (fuel : Nat) (src dst : Ty) : Answer := provide cfg fuel src dst

end Adaptix.Conv

namespace Adaptix.Conv

/-- observable summary of an answer (used by the driver and by `decide`d examples) -/
def Answer.kind? : Answer → Option Kind
  | .ok c => some c.kind
  | _ => none

def Answer.isNotFound : Answer → Bool
  | .notFound => true
  | _ => false

def Answer.run? : Answer → Val → Option Val
  | .ok c, v => c.run v
  | _, _ => none

end Adaptix.Conv
