/-
  C14 — the *declared* (static) type of a field of a model that sits in a generic class
  hierarchy.

  The coercion model (`Coerce.lean`) takes the shape of `C[args]` as a parameter
  (`Cfg.shape`: "field types are already generic-resolved").  This file says what those
  field types are for a single-inheritance chain of generic dataclasses, as a function of
  the class bodies:

    * the annotation that counts for a field is the one of the nearest class (the class
      itself first, then its base, …) whose body annotates the name — a re-declaration in
      a child wins over whatever its (subscribed) parent says
      (`typing.get_type_hints`: `__annotations__` merged over `reversed(__mro__)`;
       `model_tools/introspection/dataclass.py` reports the re-declared names as
       `overriden_types`, `type_tools/generic_resolver.py:_get_members_by_parents` must
       leave exactly those alone);
    * the parameters of *that* class are replaced along the chain of base subscriptions
      (`class C(P[int, T])` binds `P`'s parameters to `int` and to what `T` is bound to;
       a generic base left bare gets `Any` for every parameter — unconstrained TypeVars only);
    * field order is the dataclass order: the parent's fields first (a re-declared field
      keeps its position), then the new ones.

  It is a *specification-level* function (what Python's typing rules say), not a model of
  `GenericResolver` (that is property C16's subject, `Types/Generic.lean`).  The driver
  computes the shapes of hierarchy classes with it, so every conversion outcome of the
  `generic-hierarchies` suite is compared against "coercion search over declared types".
  Lean core only.
-/
import AdaptixModel.Conv.Coerce

namespace Adaptix.Conv

/-- an annotation of a class body: a normalised type with type variables.  Variables occur
    directly, as element of an iterable, as key/value of a mapping or as the argument of a
    one-parameter generic class; everything closed is a `const`. -/
inductive PTy
  | var (v : Nat)
  | const (t : Ty)
  | gen1 (c : Nat) (arg : PTy)
  | iter (k : IterKind) (e : PTy)
  | map (k : MapKind) (key val : PTy)
  deriving Repr, Inhabited

/-- what the parameters of a class stand for -/
abbrev Binding := List (Nat × Ty)

/-- simultaneous substitution; a variable the binding does not mention is `Any`
    (the implicit parameter of an unconstrained TypeVar) -/
def PTy.inst (σ : Binding) : PTy → Ty
  | .var v => (σ.lookup v).getD .any
  | .const t => t
  | .gen1 c e => .cls c [e.inst σ]
  | .iter k e => .iter k (e.inst σ)
  | .map k a b => .map k (a.inst σ) (b.inst σ)

/-- one annotated name of a class body -/
structure HField where
  name : Nat
  ann : PTy
  required : Bool
  deriving Repr, Inhabited

/-- the (single) model base of a class: `P` (`args = none`) or `P[args]`, the arguments
    written with the type variables of the *child* -/
structure HBase where
  cls : Nat
  args : Option (List PTy)
  deriving Repr, Inhabited

structure HCls where
  /-- `cls.__parameters__` -/
  params : List Nat
  base : Option HBase
  /-- `vars(cls)["__annotations__"]`, in body order -/
  own : List HField
  deriving Repr, Inhabited

/-- class `i` is `H[i]`; a base refers to a smaller index -/
abbrev Hier := List HCls

def Hier.cls (H : Hier) (i : Nat) : HCls := H.getD i default

/-- binding of the parameters of base `b`, given the binding `σ` of the class that lists it -/
def bindBase (H : Hier) (σ : Binding) (b : HBase) : Binding :=
  match b.args with
  | some as => (H.cls b.cls).params.zip (as.map (·.inst σ))
  | none => (H.cls b.cls).params.map fun p => (p, Ty.any)

/-- the class body's own fields under a binding of the class' parameters -/
def ownFields (σ : Binding) (c : HCls) : List Field :=
  c.own.map fun e => { name := e.name, ty := e.ann.inst σ, required := e.required }

/-- dataclass field collection: inherited fields in their order, each replaced by the
    child's re-declaration when there is one, then the child's new fields -/
def mergeFields (inh own : List Field) : List Field :=
  inh.map (fun f => (own.find? fun g => g.name == f.name).getD f)
    ++ own.filter fun g => !(inh.any fun f => f.name == g.name)

/-- **declared fields** of class `i` whose parameters are bound by `σ`; `fuel` bounds the
    length of the chain -/
def declared (H : Hier) : Nat → Nat → Binding → List Field
  | 0, _, _ => []
  | fuel + 1, i, σ =>
    match (H.cls i).base with
    | none => ownFields σ (H.cls i)
    | some b => mergeFields (declared H fuel b.cls (bindBase H σ b)) (ownFields σ (H.cls i))

/-- the shape of `H[i][args]` (`args` are the normalised arguments: for a bare generic class
    the implicit ones) -/
def hierShape (H : Hier) (i : Nat) (args : List Ty) : List Field :=
  declared H (H.length + 1) i ((H.cls i).params.zip args)

/-! ### Specification, stated as a relation (independent of the list manipulation above) -/

/-- `Declares H i σ n t`: seen from class `i` under `σ`, the field `n` has declared type `t` -/
inductive Declares (H : Hier) : Nat → Binding → Nat → Ty → Prop
  /-- the class body annotates the name itself -/
  | own (i : Nat) (σ : Binding) (e : HField) : e ∈ (H.cls i).own →
      Declares H i σ e.name (e.ann.inst σ)
  /-- the class body does not mention the name: what the base, subscribed as written, declares -/
  | inherited (i : Nat) (σ : Binding) (b : HBase) (n : Nat) (t : Ty) :
      (H.cls i).base = some b → (∀ e ∈ (H.cls i).own, e.name ≠ n) →
      Declares H b.cls (bindBase H σ b) n t → Declares H i σ n t

def fieldsBeq (a b : List Field) : Bool :=
  a.length == b.length &&
    (a.zip b).all fun (f, g) => f.name == g.name && Ty.beq f.ty g.ty && f.required == g.required

end Adaptix.Conv
