/-
  C14 — specification side, written independently of the search algorithm:
    * `HasTy`      value semantics ⟦T⟧ of normalised types over the value universe,
    * `AsIs`       the documented "passed as is" relation (docs/conversion/tutorial.rst,
                   section "Type coercion", first list),
    * `Coercible`  the documented coercibility relation (both lists + "Linking algorithm"
                   + unlinked optional policy),
    * `WorldOk`    the assumptions on the class table under which the theorems hold.
-/
import AdaptixModel.Conv.Coerce

namespace Adaptix.Conv

/-- `isinstance(<concrete container>, <iterable origin>)` — validated against the running
    interpreter by the harness at the start of every run -/
def conforms : Conc → IterKind → Bool
  | .list, k => [IterKind.list, .iterable, .reversible, .collection, .sequence, .mutableSequence].contains k
  | .tuple, k => [IterKind.tuple, .iterable, .reversible, .collection, .sequence].contains k
  | .set, k => [IterKind.set, .iterable, .collection, .absSet, .mutableSet].contains k
  | .frozenset, k => [IterKind.frozenset, .iterable, .collection, .absSet].contains k
  | .deque, k => [IterKind.deque, .iterable, .reversible, .collection, .sequence, .mutableSequence].contains k

/-- `isinstance({}, <mapping origin>)` -/
def mapConforms : MapKind → Bool
  | .dict | .mapping | .mutableMapping => true
  | .defaultdict | .orderedDict => false

/-- meaning of the types the model treats as opaque -/
structure Sem where
  /-- instances of a parametrised (or bare generic) class that is not a model -/
  gsem : Nat → List Ty → Val → Prop
  /-- members of a `NewType` / `Literal[...]` -/
  osem : Nat → Val → Prop

/-- ⟦T⟧ : which values inhabit a normalised type -/
inductive HasTy (cfg : Cfg) (S : Sem) : Ty → Val → Prop
  | any (v : Val) : HasTy cfg S .any v
  | none : HasTy cfg S .none .none
  /-- a non-generic class that is not a model: `isinstance(v, c)` -/
  | plain {c : Nat} {v : Val} : cfg.shape c [] = Option.none → cfg.sub v.tag c = true →
      HasTy cfg S (.cls c []) v
  | generic {c : Nat} {args : List Ty} {v : Val} : args ≠ [] → cfg.shape c args = Option.none →
      S.gsem c args v → HasTy cfg S (.cls c args) v
  /-- a model: an instance of the class or of a subclass whose declared fields hold
      values of the declared (generic-resolved) types -/
  | model {c c' : Nat} {args : List Ty} {fs : List Field} {fvals : List (Nat × Val)} :
      cfg.shape c args = some fs → cfg.sub c' c = true →
      (∀ f ∈ fs, (lookupField f.name fvals).isSome = true) →
      (∀ f ∈ fs, ∀ x, lookupField f.name fvals = some x → HasTy cfg S f.ty x) →
      HasTy cfg S (.cls c args) (.obj c' fvals)
  | opaque {n : Nat} {v : Val} : S.osem n v → HasTy cfg S (.opaque n) v
  | iter {k : IterKind} {k' : Conc} {e : Ty} {xs : List Val} : conforms k' k = true →
      (∀ x ∈ xs, HasTy cfg S e x) → HasTy cfg S (.iter k e) (.seq k' xs)
  | ftuple {es : List Ty} {xs : List Val} : es.length = xs.length →
      (∀ p ∈ es.zip xs, HasTy cfg S p.1 p.2) → HasTy cfg S (.ftuple es) (.seq .tuple xs)
  | map {k : MapKind} {a b : Ty} {kvs : List (Val × Val)} : mapConforms k = true →
      (∀ kv ∈ kvs, HasTy cfg S a kv.1) → (∀ kv ∈ kvs, HasTy cfg S b kv.2) →
      HasTy cfg S (.map k a b) (.dict kvs)
  | union {args : List Ty} {t : Ty} {v : Val} : t ∈ args → HasTy cfg S t v → HasTy cfg S (.union args) v
  | tagged {m : Nat} {t : Ty} {v : Val} : HasTy cfg S t v → HasTy cfg S (.tagged m t) v

/-- "the type is a class that is neither generic nor parametrised"; the values of the empty
    tuple type `Tuple[()]` are instances of the class `tuple` -/
inductive ClassOf : Ty → Nat → Prop
  | cls (c : Nat) : ClassOf (.cls c []) c
  | emptyTuple : ClassOf (.ftuple []) Conc.tuple.cls

/-- `Optional[a]`: a union of `a` and `None` (normalisation fixes the order by name) -/
inductive IsOptionalOf : Ty → Ty → Prop
  | left (a : Ty) : IsOptionalOf (.union [a, .none]) a
  | right (a : Ty) : IsOptionalOf (.union [.none, a]) a

/-- The documented "data is passed as is" relation.  Metadata tags (`Annotated`) are not
    types and are ignored at the top of both sides. -/
inductive AsIs (sub : Nat → Nat → Bool) : Ty → Ty → Prop
  /-- source type and destination type are the same -/
  | same {s d : Ty} : stripTags s = stripTags d → AsIs sub s d
  /-- destination type is `Any` -/
  | dstAny {s d : Ty} : stripTags d = .any → AsIs sub s d
  /-- source type is a subclass of destination type (excluding generics) -/
  | subclass {s d : Ty} {a b : Nat} : ClassOf (stripTags s) a → stripTags d = .cls b [] →
      sub a b = true → AsIs sub s d
  /-- source union is a subset of destination union (simple `==` check) -/
  | unionSubset {s d : Ty} {ss ds : List Ty} : stripTags s = .union ss → stripTags d = .union ds →
      (∀ x ∈ ss, stripTags x ∈ ds.map stripTags) → AsIs sub s d
  /-- … a single type counts as the one-element union -/
  | unionMember {s d : Ty} {ds : List Ty} : stripTags d = .union ds →
      stripTags s ∈ ds.map stripTags → AsIs sub s d
  /-- `Optional` whose wrapped value is passed as is: `None ↦ None`, `x ↦ x` -/
  | optional {s d a b : Ty} : IsOptionalOf (stripTags s) a → IsOptionalOf (stripTags d) b →
      AsIs sub a b → AsIs sub s d

mutual
/-- The documented coercibility relation: the as-is cases, and compound types whose inner
    types are coercible.  Models: every destination field is linked to the source field of
    the same name whose type is coercible, or it is optional, has no source field of that
    name, and the policy allows leaving it out. -/
inductive Coercible (cfg : Cfg) : Ty → Ty → Prop
  | asIs {s d : Ty} : AsIs cfg.sub s d → Coercible cfg s d
  | tags {s d : Ty} : Coercible cfg (stripTags s) (stripTags d) → Coercible cfg s d
  | optional {s d a b : Ty} : IsOptionalOf s a → IsOptionalOf d b → Coercible cfg a b → Coercible cfg s d
  | iter {k k' : IterKind} {a b : Ty} : Coercible cfg a b → Coercible cfg (.iter k a) (.iter k' b)
  | dict {k k' : MapKind} {a b a' b' : Ty} : Coercible cfg a a' → Coercible cfg b b' →
      Coercible cfg (.map k a b) (.map k' a' b')
  | model {sc dc : Nat} {sa da : List Ty} {sfs dfs : List Field} :
      cfg.shape sc sa = some sfs → cfg.shape dc da = some dfs →
      (∀ d ∈ dfs, FieldCoercible cfg dc sfs d) → Coercible cfg (.cls sc sa) (.cls dc da)
/-- one destination field (of the destination class `dc`) against the fields of the source model;
    the policy is asked about *this* field of *this* class -/
inductive FieldCoercible (cfg : Cfg) : Nat → List Field → Field → Prop
  | linked {dc : Nat} {sfs : List Field} {s d : Field} : s ∈ sfs → s.name = d.name →
      Coercible cfg s.ty d.ty → FieldCoercible cfg dc sfs d
  | skipped {dc : Nat} {sfs : List Field} {d : Field} : d.required = false → (∀ s ∈ sfs, s.name ≠ d.name) →
      cfg.policy.allowed dc d = true → FieldCoercible cfg dc sfs d
end

/-! ### The unlinked-optional policy, stated independently of `resolveRules` / `planFields` -/

/-- the policy provider of the user recipe that *applies* to the destination field `f` of the
    class `owner`: the first one in recipe order whose predicate matches that field's location -/
def RuleApplies (owner : Nat) (f : Field) (rs : List PolicyRule) (r : PolicyRule) : Prop :=
  ∃ pre post, rs = pre ++ r :: post ∧ (∀ q ∈ pre, q.pred.holds owner f = false) ∧
    r.pred.holds owner f = true

/-- verdict of the policy for one field: the applying rule's, or the closing builtin policy's
    when no rule of the user recipe matches the field -/
def PolicyVerdict (owner : Nat) (f : Field) (rs : List PolicyRule) (allow : Bool) : Prop :=
  (∃ r, RuleApplies owner f rs r ∧ r.allow = allow) ∨
  ((∀ q ∈ rs, q.pred.holds owner f = false) ∧ Generated.builtinUnlinkedOptionalAllowed = allow)

/-- one destination field, on its own, admits a converter: it is linked to the source field of the
    same name and the nested request is answered, or it has no source, is optional and the policy
    asked about **this** field allows leaving it out -/
inductive FieldAccepted (rec : Ty → Ty → Answer) (allowed : Field → Bool) (sfs : List Field)
    (d : Field) : Prop
  | linked {s : Field} {c : Coercer} : findSource d.name sfs = some s → rec s.ty d.ty = .ok c →
      FieldAccepted rec allowed sfs d
  | skipped : (∀ s ∈ sfs, s.name ≠ d.name) → d.required = false → allowed d = true →
      FieldAccepted rec allowed sfs d

/-- Assumptions on the class table (`issubclass`, shapes, defaults).  The harness checks
    them on the concrete table of every run. -/
structure WorldOk (cfg : Cfg) (S : Sem) : Prop where
  sub_refl : ∀ a, cfg.sub a a = true
  sub_trans : ∀ a b c, cfg.sub a b = true → cfg.sub b c = true → cfg.sub a c = true
  /-- the class `tuple` is not a subclass of a model class -/
  tuple_plain : ∀ b fb, cfg.sub Conc.tuple.cls b = true → cfg.shape b [] = some fb → False
  /-- a subclass of a model is a model that keeps the inherited fields and their types -/
  inherit : ∀ a b fb, cfg.sub a b = true → cfg.shape b [] = some fb →
    ∃ fa, cfg.shape a [] = some fa ∧ ∀ f ∈ fb, ∃ g ∈ fa, g.name = f.name ∧ g.ty = f.ty
  /-- field names of a shape are distinct -/
  shape_nodup : ∀ c args fs, cfg.shape c args = some fs → (fs.map Field.name).Nodup
  /-- declared defaults of optional fields conform to the field's annotation -/
  defaults_ok : ∀ c args fs f, cfg.shape c args = some fs → f ∈ fs → f.required = false →
    HasTy cfg S f.ty (cfg.dflt c f.name)

/-- a produced coercer maps every value of the source type to a value of the destination type
    (in particular it does not get stuck) -/
def Sound (cfg : Cfg) (S : Sem) (src dst : Ty) (c : Coercer) : Prop :=
  ∀ v, HasTy cfg S src v → ∃ w, c.run v = some w ∧ HasTy cfg S dst w

end Adaptix.Conv
