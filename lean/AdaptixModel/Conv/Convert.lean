/-
  Model of adaptix converter generation and execution (C13).

  Source modelled (hand-written, tied by correspondence `harness/props/c13.py`):
    src/adaptix/_internal/conversion/model_coercer_provider.py
        _make_broaching_plan, _generate_sub_plan, _generate_*_linking_to_sub_plan,
        _get_field_coercer_data_arg, _make_constructor_call
    src/adaptix/_internal/conversion/broaching/definitions.py   plan elements
    src/adaptix/_internal/conversion/broaching/code_generator.py
        the semantics of the emitted expression (parameter, constant, call with
        positional / keyword arguments, accessor); as_is stubs are inlined
    src/adaptix/_internal/conversion/coercer_provider.py
        only the *order and terminality* of ModelCoercer, Iterable, Dict, Optional and the
        closures they return; the remaining as-is providers are the parameter `World.asIs` (C14)
    src/adaptix/_internal/conversion/converter_provider.py
        BuiltinConverterProvider: signature checks, `_get_ctx_passing`, closure call
    src/adaptix/_internal/conversion/facade/retort.py  get_converter / impl_converter signature

  `convertSpec` at the end of the file is the *specification*: the tutorial's
  "Linking algorithm" read as a direct recursive function on the source value,
  with extra parameters looked up by name and the destination built field by
  field.  It shares with the generator only `fetchFieldLinking` (which field is
  linked to what; characterised separately in Props/C13).
-/
import AdaptixModel.Conv.Link

namespace Adaptix.Conv13

/-! ### The world: class table and the leaf coercion parameter -/

structure World where
  /-- `_fetch_src_shape`: output shape of a type, `none` = not a model (CannotProvide) -/
  outShape : Ty → Option OutShape
  /-- `_fetch_dst_shape` -/
  inShape : Ty → Option InShape
  /-- SameType / DstAny / UnionSubcase / Subclass providers: data passes as is (property C14) -/
  asIs : Ty → Ty → Bool

/-! ### Broaching plan and coercer closures -/

mutual
/-- `BroachingPlan` -/
inductive Plan where
  | param (name : Name)                                   -- ParameterElement("data" | "ctx")
  | const (v : Val)                                       -- ConstantElement (rendered literal or captured object)
  | call (f : Callee) (args : List (Option Name × Plan))  -- FunctionElement; `none` PositionalArg, `some k` KeywordArg
  | access (target : Plan) (acc : Accessor)               -- AccessorElement
/-- `FunctionElement.func` -/
inductive Callee where
  | ctor (shape : InShape)                 -- dst_shape.constructor
  | func (id : Nat) (lit : Option Val)     -- user function / factory (`lit`: get_literal_from_factory)
  | coercer (c : Coercer)                  -- a coercer closure, called as coercer(data_arg, ctx)
/-- the closures coercer providers return -/
inductive Coercer where
  | asIs                                   -- as_is_stub_with_ctx
  | leaf (f : Nat)                         -- lambda x, ctx: f(x)
  | model (p : Plan)                       -- generated `def coerce_S_to_D(data, ctx, /): return <plan>`
  | opt (c : Coercer)                      -- OptionalCoercerProvider.optional_coercer
  | iter (factory : IterOrigin) (c : Coercer)   -- IterableCoercerProvider.iterable_coercer
  | dict (k v : Coercer)                   -- DictCoercerProvider.dict_coercer
end

instance : Inhabited Plan := ⟨.param ""⟩
instance : Inhabited Coercer := ⟨.asIs⟩

/-! ### Calling a constructor: Python argument binding -/

/-- positional arguments are bound to the leading parameters that accept them -/
def bindPositional : List Param → List Val → Option (List (Name × Val))
  | _, [] => some []
  | [], _ :: _ => none                                    -- too many positional arguments
  | p :: ps, v :: vs =>
    if p.kind == .kwOnly then none                        -- too many positional arguments
    else (bindPositional ps vs).map ((p.name, v) :: ·)

/-- keyword arguments: the name must be a not yet bound, not positional-only parameter -/
def bindKeywords (params : List Param) : List (Name × Val) → List (Name × Val) → Option (List (Name × Val))
  | bound, [] => some bound
  | bound, (k, v) :: rest =>
    match params.find? (fun p => p.name == k) with
    | none => none                                        -- unexpected keyword argument
    | some p =>
      if p.kind == .posOnly then none                     -- positional-only passed as keyword
      else if (bound.lookup k).isSome then none           -- multiple values for argument
      else bindKeywords params (bound ++ [(k, v)]) rest

def positionalOf (args : List (Option Name × Val)) : List Val :=
  args.filterMap (fun a => match a.1 with | none => some a.2 | some _ => none)

def keywordsOf (args : List (Option Name × Val)) : List (Name × Val) :=
  args.filterMap (fun a => match a.1 with | none => none | some k => some (k, a.2))

/-- `f(*positional, **keywords)` against a parameter list: parameter name ↦ value -/
def bindCall (params : List Param) (args : List (Option Name × Val)) : Option (List (Name × Val)) :=
  match bindPositional params (positionalOf args) with
  | none => none
  | some b => bindKeywords params b (keywordsOf args)

/-- name of the parameter feeding a field -/
def paramNameOf (params : List Param) (fieldId : Name) : Option Name :=
  (params.find? (fun p => p.fieldId == fieldId)).map (·.name)

/-- what the constructor makes of bound arguments: every field in definition
    order, a missing optional one takes its default (or is absent), a missing
    required one is a TypeError -/
def buildFields (params : List Param) (bound : List (Name × Val)) : List InField → Option (List (Name × Val))
  | [] => some []
  | f :: fs =>
    let passed := (paramNameOf params f.id).bind (fun n => bound.lookup n)
    match passed with
    | some v => (buildFields params bound fs).map ((f.id, v) :: ·)
    | none =>
      if f.required then none
      else
        match f.default with
        | some d => (buildFields params bound fs).map ((f.id, d) :: ·)
        | none => buildFields params bound fs

def callCtor (s : InShape) (args : List (Option Name × Val)) : Option Val :=
  match bindCall s.params args with
  | none => none
  | some bound => (buildFields s.params bound s.fields).map (Val.obj s.cls)

/-! ### Evaluation of plans and coercer closures -/

mutual
/-- value of the expression generated for a plan, in the scope `data`, `ctx` -/
def evalPlan (data ctx : Val) : Plan → Option Val
  | .param n => if n == "data" then some data else if n == "ctx" then some ctx else none
  | .const v => some v
  | .call f args =>
    match evalArgs data ctx args with
    | none => none
    | some vs => applyCallee f vs
  | .access t a =>
    match evalPlan data ctx t with
    | some v => v.access a
    | none => none
def evalArgs (data ctx : Val) : List (Option Name × Plan) → Option (List (Option Name × Val))
  | [] => some []
  | (k, p) :: rest =>
    match evalPlan data ctx p, evalArgs data ctx rest with
    | some v, some vs => some ((k, v) :: vs)
    | _, _ => none
def applyCallee : Callee → List (Option Name × Val) → Option Val
  | .ctor s, vs => callCtor s vs
  | .func f lit, vs =>
    match vs, lit with
    | [], some l => some l                    -- `_gen_function_element`: no args and a factory literal
    | _, _ => some (.app f (positionalOf vs) (keywordsOf vs))
  | .coercer c, vs =>
    match vs with
    | [(none, d), (none, cx)] => applyCoercer c d cx
    | _ => none
def applyCoercer : Coercer → Val → Val → Option Val
  | .asIs, d, _ => some d
  | .leaf f, d, _ => some (.app f [d] [])
  | .model p, d, cx => evalPlan d cx p
  | .opt c, d, cx =>
    match d with
    | .none => some .none
    | _ => applyCoercer c d cx
  | .iter k c, d, cx =>
    match d with
    | .seq _ xs => (xs.mapM (fun x => applyCoercer c x cx)).map (Val.seq k)
    | _ => none
  | .dict kc vc, d, cx =>
    match d with
    | .dict kvs =>
      (kvs.mapM (m := Option) (fun (kv : Val × Val) =>
        match applyCoercer kc kv.1 cx, applyCoercer vc kv.2 cx with
        | some k, some v => some (k, v)
        | _, _ => none)).map Val.dict
    | _ => none
end

/-! ### The same evaluation, threading the variables of the generated function

  The generated code is one `return <expression>`; the expression language
  (`Plan`) has no assignment, no deletion and no augmented assignment.  To state
  that as a theorem the evaluator is repeated in store-passing style: every
  sub-expression receives the variables `data` / `ctx` of the frame and hands
  them on.  Constructors and user functions are modelled as pure (assumption).
-/

structure Store where
  data : Val
  ctx : Val

mutual
def runPlan (st : Store) : Plan → Option (Val × Store)
  | .param n => if n == "data" then some (st.data, st) else if n == "ctx" then some (st.ctx, st) else none
  | .const v => some (v, st)
  | .call f args =>
    match runArgs st args with
    | none => none
    | some (vs, st') => runCallee st' f vs
  | .access t a =>
    match runPlan st t with
    | some (v, st') => (v.access a).map (·, st')
    | none => none
def runArgs (st : Store) : List (Option Name × Plan) → Option (List (Option Name × Val) × Store)
  | [] => some ([], st)
  | (k, p) :: rest =>
    match runPlan st p with
    | none => none
    | some (v, st') =>
      match runArgs st' rest with
      | none => none
      | some (vs, st'') => some ((k, v) :: vs, st'')
def runCallee (st : Store) : Callee → List (Option Name × Val) → Option (Val × Store)
  | .ctor s, vs => (callCtor s vs).map (·, st)
  | .func f lit, vs =>
    match vs, lit with
    | [], some l => some (l, st)
    | _, _ => some (.app f (positionalOf vs) (keywordsOf vs), st)
  | .coercer c, vs =>
    match vs with
    | [(none, d), (none, cx)] => (applyCoercer c d cx).map (·, st)
    | _ => none
end

/-! ### Generation -/

def gpLoc (t : Ty) (pos : Nat) : Loc := { kind := .genericParam, ty := t, pos := pos }

/-- `input_field_to_loc(field).complement_with_func(func)` for a function parameter -/
def FuncParam.loc (p : FuncParam) : Loc := { kind := .inputFuncField, ty := p.ty, fieldId := p.name }

/-- `_get_field_coercer_data_arg` -/
def dataArg (nParams : Nat) : Source → Plan
  | .param i _ => if nParams == 1 then .param "ctx" else .access (.param "ctx") (.index i)
  | .field f => .access (.param "data") f.acc

abbrev Mk := LocStack → LocStack → Option Coercer

/-- `_generate_field_linking_to_sub_plan`: `dstLoc` is the destination field
    (or function parameter) location appended to the *model's* destination stack -/
def fieldSubPlan (mk : Mk) (req : LinkReq) (dstModel : LocStack) (dstLoc : Loc)
    (s : Source) (coercer : Option Nat) : Option Plan :=
  let c : Option Coercer :=
    match coercer with
    | some f => some (.leaf f)
    | none => mk (s.stack req) (dstLoc :: dstModel)
  c.map (fun c => .call (.coercer c) [(none, dataArg req.params.length s), (none, .param "ctx")])

/-- one argument of a linked function: (keyword?, sub plan) -/
def funcArgPlan (mk : Mk) (req : LinkReq) (dstModel : LocStack) (sp : ParamSpec) : Option (Option Name × Plan) :=
  let plan : Option Plan :=
    match sp.link with
    | .model => some (.param "data")                              -- _generate_model_linking_to_sub_plan
    | .field s => fieldSubPlan mk req dstModel sp.param.loc s none
  plan.map (fun p => (if sp.param.kind == .kwOnly then some sp.param.name else none, p))

/-- `_generate_sub_plan.generate_sub_plan` for one linked destination field -/
def subPlan (mk : Mk) (req : LinkReq) (dstModel : LocStack) (f : InField) : Linking → Option Plan
  | .const (.value v) => some (.const v)
  | .const (.factory g lit) => some (.call (.func g lit) [])
  | .field s coercer => fieldSubPlan mk req dstModel f.loc s coercer
  | .func g specs => (specs.mapM (funcArgPlan mk req dstModel)).map (fun args => .call (.func g.id none) args)

/-- linking and sub plan of one destination field:
    `none` the model coercer cannot be produced, `some none` the parameter is skipped -/
def fieldPlan (mk : Mk) (recipe : List Provider) (params : List CtxParam) (src dst : LocStack)
    (ss : OutShape) (f : InField) : Option (Option Plan) :=
  let req : LinkReq := { srcStack := src, sources := ss.fields, params := params, dst := f.loc :: dst }
  match fetchFieldLinking recipe req f with
  | .failed => none
  | .skipped => some none
  | .linked l => (subPlan mk req dst f l).map some

/-- `_make_constructor_call`: the loop over `dst_shape.params` with `has_skipped_params`.
    `look fieldId` is `field_to_linking`/`field_to_sub_plan` (`none`: KeyError). -/
def ctorArgs (look : Name → Option (Option Plan)) : List Param → Bool → Option (List (Option Name × Plan))
  | [], _ => some []
  | p :: ps, skipped =>
    match look p.fieldId with
    | none => none
    | some none => ctorArgs look ps true
    | some (some plan) =>
      if p.kind == .kwOnly || skipped then (ctorArgs look ps skipped).map ((some p.name, plan) :: ·)
      else if p.kind == .posOnly && skipped then none     -- unreachable in the source as well
      else (ctorArgs look ps skipped).map ((none, plan) :: ·)

/-- `_make_broaching_plan` (the code fetches all linkings first and generates
    the sub plans afterwards; both passes fail as a whole, so one pass gives
    the same outcome) -/
def mkModelPlan (mk : Mk) (recipe : List Provider) (params : List CtxParam) (src dst : LocStack)
    (ds : InShape) (ss : OutShape) : Option Plan :=
  match ds.fields.mapM (fun f => (fieldPlan mk recipe params src dst ss f).map (fun p => (f.id, p))) with
  | none => none
  | some plans => (ctorArgs (fun id => plans.lookup id) ds.params false).map (fun args => .call (.ctor ds) args)

/-- `mediator.provide(CoercerRequest(src, ctx, dst))` through the recipe:
    user `coercer(...)` providers, ModelCoercerProvider (terminal failure once both
    shapes exist), Iterable, Dict, Optional (terminal failure of the inner
    request), then the as-is providers.  `fuel` bounds the recursion through
    nested types; the code has no bound (a recursive model does not terminate). -/
def mkCoercer (W : World) (recipe : List Provider) (params : List CtxParam) : Nat → Mk
  | 0, _, _ => none
  | n + 1, src, dst =>
    match src, dst with
    | sl :: _, dl :: _ =>
      match userCoercer recipe src dst with
      | some f => some (.leaf f)
      | none =>
        match W.inShape dl.ty, W.outShape sl.ty with
        | some ds, some ss =>
          (mkModelPlan (mkCoercer W recipe params n) recipe params src dst ds ss).map Coercer.model
        | _, _ =>
          match sl.ty, dl.ty with
          | .iter _ a, .iter o b =>
            (mkCoercer W recipe params n (gpLoc a 0 :: src) (gpLoc b 0 :: dst)).map (Coercer.iter o.factory)
          | .dict ka va, .dict kb vb =>
            match mkCoercer W recipe params n (gpLoc ka 0 :: src) (gpLoc kb 0 :: dst),
                  mkCoercer W recipe params n (gpLoc va 1 :: src) (gpLoc vb 1 :: dst) with
            | some k, some v => some (.dict k v)
            | _, _ => none
          | .opt a, .opt b =>
            match mkCoercer W recipe params n (gpLoc a 0 :: src) (gpLoc b 0 :: dst) with
            | some .asIs => some .asIs
            | some c => some (.opt c)
            | none => none
          | s, d => if W.asIs s d then some .asIs else none
    | _, _ => none

/-! ### The converter function (BuiltinConverterProvider) -/

inductive SigKind where
  | posOnly | posOrKw | kwOnly | varPos | varKw
  deriving DecidableEq, Repr, Inhabited

structure SigParam where
  name : Name
  kind : SigKind
  ty : Ty
  default : Option Val
  deriving Repr, Inhabited

structure Signature where
  params : List SigParam
  ret : Ty
  deriving Repr, Inhabited

/-- the produced function: `__signature__` and the coercer its body calls -/
structure Converter where
  signature : Signature
  coercer : Coercer

def SigParam.ctx (p : SigParam) : CtxParam := { name := p.name, ty := p.ty }

/-- `BuiltinConverterProvider._provide_converter` / `_make_converter` -/
def provideConverter (W : World) (recipe : List Provider) (fuel : Nat) (sig : Signature) : Option Converter :=
  match sig.params with
  | [] => none                                                    -- "At least one parameter is required"
  | first :: extra =>
    if sig.params.any (fun p => p.kind == .varPos || p.kind == .varKw) then none
    else
      let srcLoc : Loc := { kind := .field, ty := first.ty, fieldId := first.name }
      let dstLoc : Loc := { kind := .typeHint, ty := sig.ret }
      (mkCoercer W recipe (extra.map SigParam.ctx) fuel [srcLoc] [dstLoc]).map
        (fun c => { signature := sig, coercer := c })

/-- binding the arguments of a call to the closure `def name(<signature without annotations>)` -/
def bindSigPositional : List SigParam → List Val → Option (List (Name × Val))
  | _, [] => some []
  | [], _ :: _ => none
  | p :: ps, v :: vs =>
    if p.kind == .posOnly || p.kind == .posOrKw then (bindSigPositional ps vs).map ((p.name, v) :: ·)
    else none

def bindSigKeywords (params : List SigParam) : List (Name × Val) → List (Name × Val) → Option (List (Name × Val))
  | bound, [] => some bound
  | bound, (k, v) :: rest =>
    match params.find? (fun p => p.name == k) with
    | none => none
    | some p =>
      if p.kind == .posOnly then none
      else if (bound.lookup k).isSome then none
      else bindSigKeywords params (bound ++ [(k, v)]) rest

/-- value of every parameter in signature order (defaults filled in); `none` = TypeError -/
def fillDefaults (bound : List (Name × Val)) : List SigParam → Option (List Val)
  | [] => some []
  | p :: ps =>
    match (match bound.lookup p.name with | some v => some v | none => p.default) with
    | some v => (fillDefaults bound ps).map (v :: ·)
    | none => none

def bindSig (params : List SigParam) (args : List Val) (kwargs : List (Name × Val)) : Option (List Val) :=
  match bindSigPositional params args with
  | none => none
  | some b =>
    match bindSigKeywords params b kwargs with
    | none => none
    | some b' => fillDefaults b' params

/-- `_get_ctx_passing`: None / the parameter itself / a tuple -/
def packCtx : List Val → Val
  | [] => .none
  | [v] => v
  | vs => .seq .tuple vs

/-- calling the produced converter: `return coercer(<first>, <ctx passing>)` -/
def Converter.call (c : Converter) (args : List Val) (kwargs : List (Name × Val)) : Option Val :=
  match bindSig c.signature.params args kwargs with
  | some (first :: extra) => applyCoercer c.coercer first (packCtx extra)
  | _ => none

/-! ### Specification: the documented linking algorithm as a direct function -/

/-- the destination built field by field, in definition order: a field takes
    the value of its link (`some (some v)`), a skipped optional field its default
    or is absent (`some none`); `none`: the field has no defined value -/
def specFields (fieldVal : InField → Option (Option Val)) : List InField → Option (List (Name × Val))
  | [] => some []
  | f :: fs =>
    match fieldVal f with
    | none => none
    | some (some v) => (specFields fieldVal fs).map ((f.id, v) :: ·)
    | some none =>
      if f.required then none
      else
        match f.default with
        | some d => (specFields fieldVal fs).map ((f.id, d) :: ·)
        | none => specFields fieldVal fs

/-- the value a linked source denotes: a field of the source object (read with
    its accessor) or an extra parameter (looked up *by name*) -/
def sourceValue (data : Val) (pvals : List (Name × Val)) : Source → Option Val
  | .field f => data.access f.acc
  | .param _ p => pvals.lookup p.name

abbrev SpecFn := LocStack → LocStack → Val → Option Val

def specLinked (rec : SpecFn) (req : LinkReq) (dstModel : LocStack) (dstLoc : Loc)
    (data : Val) (pvals : List (Name × Val)) (s : Source) (coercer : Option Nat) : Option Val :=
  match sourceValue data pvals s with
  | none => none
  | some raw =>
    match coercer with
    | some f => some (.app f [raw] [])
    | none => rec (s.stack req) (dstLoc :: dstModel) raw

def specFuncArg (rec : SpecFn) (req : LinkReq) (dstModel : LocStack) (data : Val) (pvals : List (Name × Val))
    (sp : ParamSpec) : Option Val :=
  match sp.link with
  | .model => some data
  | .field s => specLinked rec req dstModel sp.param.loc data pvals s none

def specFieldValue (rec : SpecFn) (req : LinkReq) (dstModel : LocStack) (f : InField)
    (data : Val) (pvals : List (Name × Val)) : Linking → Option Val
  | .const (.value v) => some v
  | .const (.factory g lit) => some (match lit with | some l => l | none => .app g [] [])
  | .field s coercer => specLinked rec req dstModel f.loc data pvals s coercer
  | .func g specs =>
    let pos := specs.filter (fun sp => sp.param.kind != .kwOnly)
    let kw := specs.filter (fun sp => sp.param.kind == .kwOnly)
    match pos.mapM (specFuncArg rec req dstModel data pvals),
          kw.mapM (fun sp => (specFuncArg rec req dstModel data pvals sp).map (fun v => (sp.param.name, v))) with
    | some ps, some ks => some (.app g.id ps ks)
    | _, _ => none

/-- `convertSpec`: conversion of `v` located at `src` into the type located at `dst` -/
def coerceSpec (W : World) (recipe : List Provider) (params : List CtxParam) (pvals : List (Name × Val)) :
    Nat → SpecFn
  | 0, _, _, _ => none
  | n + 1, src, dst, v =>
    match src, dst with
    | sl :: _, dl :: _ =>
      match userCoercer recipe src dst with
      | some f => some (.app f [v] [])
      | none =>
        match W.inShape dl.ty, W.outShape sl.ty with
        | some ds, some ss =>
          (specFields (fun f =>
              let req : LinkReq := { srcStack := src, sources := ss.fields, params := params, dst := f.loc :: dst }
              match fetchFieldLinking recipe req f with
              | .failed => none
              | .skipped => some none
              | .linked l => (specFieldValue (coerceSpec W recipe params pvals n) req dst f v pvals l).map some)
            ds.fields).map (Val.obj ds.cls)
        | _, _ =>
          match sl.ty, dl.ty, v with
          | .iter _ a, .iter o b, .seq _ xs =>
            (xs.mapM (coerceSpec W recipe params pvals n (gpLoc a 0 :: src) (gpLoc b 0 :: dst))).map (Val.seq o.factory)
          | .iter _ _, .iter _ _, _ => none
          | .dict ka va, .dict kb vb, .dict kvs =>
            (kvs.mapM (m := Option) (fun (kv : Val × Val) =>
              match coerceSpec W recipe params pvals n (gpLoc ka 0 :: src) (gpLoc kb 0 :: dst) kv.1,
                    coerceSpec W recipe params pvals n (gpLoc va 1 :: src) (gpLoc vb 1 :: dst) kv.2 with
              | some k, some x => some (k, x)
              | _, _ => none)).map Val.dict
          | .dict _ _, .dict _ _, _ => none
          | .opt _, .opt _, .none => some .none
          | .opt a, .opt b, _ => coerceSpec W recipe params pvals n (gpLoc a 0 :: src) (gpLoc b 0 :: dst) v
          | _, _, _ => some v
    | _, _ => none

/-- the documented result of calling a converter with signature `sig`:
    the first argument converted to the return type, every further parameter
    available under its name -/
def convertSpec (W : World) (recipe : List Provider) (fuel : Nat) (sig : Signature)
    (argVals : List Val) : Option Val :=
  match sig.params, argVals with
  | first :: extra, v :: rest =>
    let srcLoc : Loc := { kind := .field, ty := first.ty, fieldId := first.name }
    let dstLoc : Loc := { kind := .typeHint, ty := sig.ret }
    coerceSpec W recipe (extra.map SigParam.ctx) ((extra.map (·.name)).zip rest) fuel [srcLoc] [dstLoc] v
  | _, _ => none

end Adaptix.Conv13
