/-
  C17 — model kinds.  Executable model of

    * the six shape introspectors of `src/adaptix/_internal/model_tools/introspection/`
      (`get_dataclass_shape`, `get_named_tuple_shape`, `get_typed_dict_shape`, `get_attrs_shape`,
      `get_pydantic_shape`, `get_sqlalchemy_shape`) as functions from a *class declaration*
      (`Decl`: what the user wrote, incl. the per-kind extras) to the common
      `InputShape × OutputShape` of `model_tools/definitions.py`;
    * the canonical declaration of a *logical model* (field names, types, defaults, kw-only flags)
      in each kind (`declOf`), hence `shapeOf : Kind → LogicalModel → Except Unsupported Shape`;
    * a shape-generic load / dump / link semantics that reads the shape only
      (it stands for the later stages — name layout, code generation, conversion — which receive
      nothing but the shape: `morphing/model/loader_provider.py:_fetch_shape`,
      `conversion/model_coercer_provider.py:_fetch_shapes`).

  What the class machinery of Python / attrs / pydantic / SQLAlchemy itself does with a declaration
  (which declarations it rejects, `__init__` signature order, `Attribute.alias`,
  `__private_attributes__` order, `Column.nullable`, `Table.autoincrement_column`) is *modelled, not
  verified*: it is third-party behaviour, validated on every run by the shape correspondence.

  Lean core only (no Mathlib).
-/

namespace Adaptix.Kinds

/-! ## Vocabulary -/

inductive Kind
  | dataclass | namedTuple | typedDict | attrs | pydantic | sqlalchemy
  deriving DecidableEq, Repr, Inhabited

/-- The type pool.  Types are opaque to the shape stage except for two questions SQLAlchemy's own
    machinery asks: "is it `Optional[...]`" (→ `nullable`) and "is the column type numeric"
    (→ autoincrement candidate). -/
inductive Ty
  | int | str | bool | float | any
  | opt (a : Ty) | list (a : Ty) | dict (k v : Ty)
  | model (name : String)
  deriving DecidableEq, Repr, Inhabited

/-- Scalar default values (`0`, `""`, `None`, `False`, `1.5` …). -/
inductive Scalar
  | none | bool (b : Bool) | int (i : Int) | str (s : String) | float (repr : String)
  deriving DecidableEq, Repr, Inhabited

/-- Default factories.  `list`/`dict` are the builtin classes, `fnList`/`fnDict` plain
    zero-argument functions (every introspector must treat them alike). -/
inductive Factory
  | list | dict | fnList | fnDict
  deriving DecidableEq, Repr, Inhabited

def Factory.isBuiltinClass : Factory → Bool
  | .list | .dict => true
  | _ => false

/-- `definitions.py: Default = NoDefault | DefaultValue | DefaultFactory | DefaultFactoryWithSelf`. -/
inductive Dflt
  | none | value (v : Scalar) | factory (f : Factory) | factorySelf (f : String)
  deriving DecidableEq, Repr, Inhabited

def Dflt.isNone : Dflt → Bool
  | .none => true
  | _ => false

def Dflt.isFactorySelf : Dflt → Bool
  | .factorySelf _ => true
  | _ => false

/-- a factory of either sort -/
def Dflt.isFactory : Dflt → Bool
  | .factory _ | .factorySelf _ => true
  | _ => false

/-! ## Logical models -/

/-- Default of a logical field: nothing, a value, or a zero-argument factory. -/
inductive LDflt
  | none | value (v : Scalar) | factory (f : Factory)
  deriving DecidableEq, Repr, Inhabited

def LDflt.toDflt : LDflt → Dflt
  | .none => .none
  | .value v => .value v
  | .factory f => .factory f

def LDflt.isNone : LDflt → Bool
  | .none => true
  | _ => false

structure LField where
  name : String
  ty : Ty
  default : LDflt := .none
  kwOnly : Bool := false
  deriving DecidableEq, Repr, Inhabited

/-- The same logical model: ordered fields with name, type, default, keyword-only flag. -/
structure LogicalModel where
  fields : List LField
  deriving DecidableEq, Repr, Inhabited

/-! ## Class declarations (what the user writes in one of the six kinds) -/

inductive Pseudo | none | classVar | initVar            -- dataclass pseudo-fields
  deriving DecidableEq, Repr, Inhabited
inductive Req | plain | required | notRequired          -- TypedDict `Required[]` / `NotRequired[]`
  deriving DecidableEq, Repr, Inhabited
inductive Cat | regular | computed | priv               -- pydantic field categories
  deriving DecidableEq, Repr, Inhabited
inductive Tri | unset | yes | no                        -- `nullable=` / `autoincrement=` ("auto", True, False)
  deriving DecidableEq, Repr, Inhabited
inductive Rel | none | one | many                       -- SQLAlchemy `relationship()`
  deriving DecidableEq, Repr, Inhabited

/-- One field of a class statement with every per-kind extra; each introspector reads only the
    extras of its kind. -/
structure DField where
  name : String
  ty : Ty
  default : Dflt := .none
  kwOnly : Bool := false          -- dataclass / attrs `kw_only=True`
  init : Bool := true             -- dataclass / attrs `init=False`
  pseudo : Pseudo := .none        -- dataclass `ClassVar[...]` / `InitVar[...]`
  alias : Option String := none   -- attrs `alias=`, pydantic `validation_alias=`
  req : Req := .plain             -- TypedDict
  cat : Cat := .regular           -- pydantic
  pk : Bool := false              -- SQLAlchemy `primary_key=True`
  autoinc : Tri := .unset         -- SQLAlchemy `autoincrement=`
  nullable : Tri := .unset        -- SQLAlchemy `nullable=`
  fk : Bool := false              -- SQLAlchemy `ForeignKey(...)`
  serverDefault : Bool := false   -- SQLAlchemy `server_default=`
  ctxDefault : Bool := false      -- SQLAlchemy `default=lambda ctx: ...`
  rel : Rel := .none              -- SQLAlchemy `relationship()`
  deriving DecidableEq, Repr, Inhabited

structure Opts where
  total : Bool := true            -- TypedDict `total=`
  extraForbid : Bool := false     -- pydantic `model_config["extra"] == "forbid"`
  populateByName : Bool := false  -- pydantic `model_config["populate_by_name"]`
  deriving DecidableEq, Repr, Inhabited

structure Decl where
  kind : Kind
  opts : Opts := {}
  fields : List DField
  deriving DecidableEq, Repr, Inhabited

/-! ## The common shape (`model_tools/definitions.py`) -/

/-- Type-hint tags that survive into the shape (later stages strip them:
    `TypeHintTagsUnwrappingProvider`). -/
inductive Wrap | plain | required | notRequired | initVar
  deriving DecidableEq, Repr, Inhabited

structure ShapeTy where
  wrap : Wrap := .plain
  ty : Ty
  deriving DecidableEq, Repr, Inhabited

inductive ParamKind | posOnly | posOrKw | kwOnly
  deriving DecidableEq, Repr, Inhabited

structure InField where        -- `InputField`
  id : String
  ty : ShapeTy
  default : Dflt
  required : Bool
  deriving DecidableEq, Repr, Inhabited

structure Param where          -- `Param`
  fieldId : String
  name : String
  kind : ParamKind
  deriving DecidableEq, Repr, Inhabited

structure InputShape where
  fields : List InField
  params : List Param
  kwargs : Bool                -- `kwargs is not None`
  overriden : List String      -- `overriden_types` (a frozenset: compared as a set)
  deriving DecidableEq, Repr, Inhabited

inductive Accessor             -- `DescriptorAccessor` / `ItemAccessor` with str key / with int key
  | attr (name : String) (optional : Bool)
  | key (name : String) (optional : Bool)
  | index (i : Nat) (optional : Bool)
  deriving DecidableEq, Repr, Inhabited

def Accessor.optional : Accessor → Bool
  | .attr _ o | .key _ o | .index _ o => o

structure OutField where       -- `OutputField`
  id : String
  ty : ShapeTy
  default : Dflt
  accessor : Accessor
  deriving DecidableEq, Repr, Inhabited

structure OutputShape where
  fields : List OutField
  overriden : List String
  deriving DecidableEq, Repr, Inhabited

abbrev Shape := InputShape × OutputShape

/-- Why a declaration yields no shape. -/
inductive Unsupported
  /-- Python / attrs / pydantic / SQLAlchemy refuse the class statement itself (or silently turn the
      field into something else): the logical model cannot be *declared* in this kind. -/
  | declaration (why : String)
  /-- adaptix's introspector raises (`ClarifiedIntrospectionError`). -/
  | introspection (why : String)
  deriving DecidableEq, Repr, Inhabited

/-! ## Small string helpers -/

/-- `str.lstrip("_")` -/
def lstripUnderscores (s : String) : String := String.ofList (s.toList.dropWhile (· == '_'))

def startsWithUnderscore (s : String) : Bool :=
  match s.toList with
  | c :: _ => c == '_'
  | [] => false

/-- `str.isidentifier()` on ASCII names (the generators stay inside ASCII). -/
def isIdentifier (s : String) : Bool :=
  match s.toList with
  | [] => false
  | c :: cs => (c.isAlpha || c == '_') && cs.all (fun d => d.isAlphanum || d == '_')

/-- "no required parameter after a defaulted one" — the rule of `def f(a, b=1, c)`, enforced by
    `dataclasses`, `typing.NamedTuple` and `attrs` on their positional fields. -/
def defaultsTrailing : List Bool → Bool      -- list of `hasDefault`
  | [] => true
  | true :: rest => rest.all id && defaultsTrailing rest
  | false :: rest => defaultsTrailing rest

def hasDup : List String → Bool
  | [] => false
  | x :: xs => xs.contains x || hasDup xs

/-! ## dataclass — `introspection/dataclass.py:get_dataclass_shape` -/

/-- fields taking part in `__init__`: `dc_field.init and not is_class_var(...)` (an `InitVar`
    pseudo-field *does* take part). -/
def dcInit (f : DField) : Bool := f.init && f.pseudo != .classVar

def dcInField (f : DField) : InField :=
  { id := f.name
    ty := { wrap := if f.pseudo == .initVar then .initVar else .plain, ty := f.ty }
    default := f.default                           -- `_get_default`
    required := f.default.isNone }                 -- `is_required=default == NoDefault()`

def dcParam (f : DField) : Param :=
  { fieldId := f.name, name := f.name, kind := if f.kwOnly then .kwOnly else .posOrKw }   -- `_get_param_kind`

def dcOutField (f : DField) : OutField :=
  { id := f.name, ty := { ty := f.ty }, default := f.default, accessor := .attr f.name false }

def dataclassShape (d : Decl) : Except Unsupported Shape :=
  let fs := d.fields
  let ini := fs.filter dcInit
  if fs.any (fun f => f.default.isFactorySelf) then
    .error (.declaration "dataclasses have no factory taking self")
  else if fs.any (fun f => f.pseudo == .classVar && f.kwOnly) then
    .error (.declaration "field is a ClassVar but specifies kw_only")
  else if !defaultsTrailing ((ini.filter (fun f => !f.kwOnly)).map (fun f => !f.default.isNone)) then
    .error (.declaration "non-default argument follows default argument")
  else
    -- `inspect.signature(tp.__init__)`: positional-or-keyword parameters first, keyword-only after
    let sig := ini.filter (fun f => !f.kwOnly) ++ ini.filter (fun f => f.kwOnly)
    let real := fs.filter (fun f => f.pseudo == .none)              -- `dataclasses.fields(tp)`
    .ok ({ fields := ini.map dcInField
           params := sig.map dcParam
           kwargs := false
           overriden := sig.map (·.name) },
         { fields := real.map dcOutField
           overriden := real.map (·.name) })

/-! ## NamedTuple — `introspection/named_tuple.py:get_named_tuple_shape` -/

def ntDefault (f : DField) : Dflt :=
  match f.default with
  | .value v => .value v        -- `DefaultValue(tp._field_defaults[field_id])`
  | _ => .none

def ntInField (f : DField) : InField :=
  { id := f.name, ty := { ty := f.ty }, default := ntDefault f, required := f.default.isNone }

def ntParam (f : DField) : Param := { fieldId := f.name, name := f.name, kind := .posOrKw }

def ntOutFields : List DField → Nat → List OutField
  | [], _ => []
  | f :: rest, i =>
    { id := f.name, ty := { ty := f.ty }, default := ntDefault f, accessor := .index i false } :: ntOutFields rest (i + 1)

def namedTupleShape (d : Decl) : Except Unsupported Shape :=
  let fs := d.fields
  if fs.any (fun f => startsWithUnderscore f.name) then
    .error (.declaration "NamedTuple field names cannot start with an underscore")
  else if fs.any (fun f => f.default.isFactory) then
    .error (.declaration "NamedTuple has no default factories")
  else if !defaultsTrailing (fs.map (fun f => !f.default.isNone)) then
    .error (.declaration "non-default namedtuple field cannot follow default field")
  else
    .ok ({ fields := fs.map ntInField, params := fs.map ntParam, kwargs := false, overriden := fs.map (·.name) },
         { fields := ntOutFields fs 0, overriden := fs.map (·.name) })

/-! ## TypedDict — `introspection/typed_dict.py:get_typed_dict_shape` -/

/-- `_get_td_hints`: `elements.sort(key=lambda v: v[0])` -/
def sortByName (fs : List DField) : List DField := fs.mergeSort (fun a b => decide (a.name ≤ b.name))

/-- `tp.__required_keys__` corrected by `_fetch_required_keys` -/
def tdRequired (total : Bool) (f : DField) : Bool :=
  match f.req with
  | .required => true
  | .notRequired => false
  | .plain => total

def tdWrap (f : DField) : Wrap :=
  match f.req with
  | .required => .required
  | .notRequired => .notRequired
  | .plain => .plain

def tdInField (total : Bool) (f : DField) : InField :=
  { id := f.name, ty := { wrap := tdWrap f, ty := f.ty }, default := .none, required := tdRequired total f }

def tdParam (f : DField) : Param := { fieldId := f.name, name := f.name, kind := .kwOnly }

def tdOutField (total : Bool) (f : DField) : OutField :=
  { id := f.name, ty := { wrap := tdWrap f, ty := f.ty }, default := .none
    accessor := .key f.name (!tdRequired total f) }     -- `access_error=None if required else KeyError`

def typedDictShape (d : Decl) : Except Unsupported Shape :=
  let fs := sortByName d.fields
  .ok ({ fields := fs.map (tdInField d.opts.total), params := fs.map tdParam, kwargs := false, overriden := [] },
       { fields := fs.map (tdOutField d.opts.total), overriden := [] })

/-! ## attrs — `introspection/attrs.py:get_attrs_shape` (classes without `__attrs_init__`) -/

/-- `Attribute.alias` (attrs ≥ 22.2): explicit, or the name without leading underscores. -/
def attrsAlias (f : DField) : String := f.alias.getD (lstripUnderscores f.name)

def attrsInField (f : DField) : InField :=
  { id := f.name, ty := { ty := f.ty }, default := f.default, required := f.default.isNone }

def attrsParam (f : DField) : Param :=
  { fieldId := f.name, name := attrsAlias f, kind := if f.kwOnly then .kwOnly else .posOrKw }

def attrsOutField (f : DField) : OutField :=
  { id := f.name, ty := { ty := f.ty }, default := f.default, accessor := .attr f.name false }

def attrsShape (d : Decl) : Except Unsupported Shape :=
  let fs := d.fields
  let ini := fs.filter (·.init)
  if !defaultsTrailing ((ini.filter (fun f => !f.kwOnly)).map (fun f => !f.default.isNone)) then
    .error (.declaration "no mandatory attributes allowed after an attribute with a default value or factory")
  else if ini.any (fun f => !isIdentifier (attrsAlias f)) then
    .error (.declaration "the init alias is not an identifier")
  else if hasDup (ini.map attrsAlias) then
    .error (.declaration "duplicate argument in the generated __init__")
  else
    let sig := ini.filter (fun f => !f.kwOnly) ++ ini.filter (fun f => f.kwOnly)
    .ok ({ fields := ini.map attrsInField          -- `param_name_to_field_from_attrs.values()`
           params := sig.map attrsParam            -- `get_class_init_shape(tp).input.params`
           kwargs := false
           overriden := ini.map (·.name) },
         { fields := fs.map attrsOutField, overriden := fs.map (·.name) })

/-! ## pydantic — `introspection/pydantic.py:get_pydantic_shape` -/

/-- `_get_field_parameters` / `_get_field_parameter_name` -/
def pydParamName (o : Opts) (f : DField) : Option String :=
  let ps := match f.alias with
    | none => [f.name]
    | some a => (if o.populateByName then [f.name] else []) ++ [a]
  (ps.filter isIdentifier).head?

def pydInField (f : DField) : InField :=
  { id := f.name, ty := { ty := f.ty }, default := f.default, required := f.default.isNone }

def pydOutField (f : DField) : OutField :=
  { id := f.name, ty := { ty := f.ty }
    default := if f.cat == .computed then .none else f.default
    accessor := .attr f.name false }

def pydParams (o : Opts) : List DField → Option (List Param)
  | [] => some []
  | f :: rest =>
    match pydParamName o f, pydParams o rest with
    | some n, some ps => some ({ fieldId := f.name, name := n, kind := .kwOnly } :: ps)
    | _, _ => none

def pydanticShape (d : Decl) : Except Unsupported Shape :=
  let fs := d.fields
  let regular := fs.filter (fun f => f.cat == .regular)
  let computed := fs.filter (fun f => f.cat == .computed)
  let priv := fs.filter (fun f => f.cat == .priv)
  if fs.any (fun f => f.default.isFactorySelf) then
    .error (.declaration "pydantic has no factory taking self")
  else if fs.any (fun f => f.cat != .priv && startsWithUnderscore f.name) then
    .error (.declaration "a name with a leading underscore declares a private attribute, not a field")
  else if priv.any (fun f => !startsWithUnderscore f.name) then
    .error (.declaration "private attributes must start with an underscore")
  else
    match pydParams d.opts regular with
    | none => .error (.introspection "cannot fetch parameter name: only non-identifier aliases and populate_by_name is disabled")
    | some params =>
      -- `__private_attributes__`: attributes assigned in the class body first, annotation-only after
      let privOrdered := priv.filter (fun f => !f.default.isNone) ++ priv.filter (fun f => f.default.isNone)
      .ok ({ fields := regular.map pydInField
             params := params
             kwargs := !d.opts.extraForbid         -- `None if extra == "forbid" else ParamKwargs(Any)`
             overriden := regular.map (·.name) },
           { fields := (regular ++ computed ++ privOrdered).map pydOutField
             overriden := (regular ++ computed ++ privOrdered).map (·.name) })

/-! ## SQLAlchemy — `introspection/sqlalchemy.py:get_sqlalchemy_shape` (declarative mapping to a `Table`) -/

def Ty.isOptional : Ty → Bool
  | .opt _ => true
  | _ => false

/-- column type affinity Integer / Numeric (`Float` is Numeric) after stripping `Optional` -/
def Ty.isNumericColumn : Ty → Bool
  | .int | .float => true
  | .opt .int | .opt .float => true
  | _ => false

def Ty.isModel : Ty → Bool
  | .model _ => true
  | .opt (.model _) => true
  | _ => false

/-- `column.default is not None` (a scalar `None` default is "no default" for SQLAlchemy) -/
def saHasDefault (f : DField) : Bool :=
  f.ctxDefault || (match f.default with
    | .none => false
    | .value .none => false
    | _ => true)

/-- `Column.nullable`: explicit, else inferred by the declarative scan from `Mapped[Optional[...]]`
    (also for a primary key column) -/
def saNullable (f : DField) : Bool :=
  match f.nullable with
  | .yes => true
  | .no => false
  | .unset => f.ty.isOptional

/-- SQLAlchemy's `PrimaryKeyConstraint._autoincrement_column` for a single-column primary key:
    `autoincrement=True`, or `"auto"` on a numeric column without default / server default / FK. -/
def saIsAutoinc (pks : List DField) (f : DField) : Bool :=
  f.pk && (match pks with
    | [_] => (match f.autoinc with
        | .yes => true
        | .no => false
        | .unset => f.ty.isNumericColumn && !saHasDefault f && !f.serverDefault && !f.fk)
    | _ => f.autoinc == .yes)

/-- `_is_input_required_for_column` -/
def saRequired (pks : List DField) (f : DField) : Bool :=
  !(saHasDefault f || saNullable f || f.serverDefault || f.fk || saIsAutoinc pks f)

/-- `_get_default`: scalar → `DefaultValue`; callable → `DefaultFactory` unless `_is_context_sensitive`
    (SQLAlchemy did not wrap it, i.e. it takes the execution context) → `NoDefault`.
    Repaired behaviour (fixes/C17-sqlalchemy-builtin-callable-default.patch): a callable SQLAlchemy
    calls without arguments is a factory whatever its signature looks like — before the repair
    `default=list` (signature `(iterable=(), /)`) was reported as `NoDefault` and `default=dict`
    (no signature) made the introspector raise `ValueError`. -/
def saShapeDefault (f : DField) : Dflt :=
  if f.ctxDefault then .none else
  match f.default with
  | .value .none => .none
  | .value v => .value v
  | .factory fa => .factory fa
  | _ => .none

def saColType (f : DField) : ShapeTy := { ty := f.ty }      -- `_unwrap_mapped_annotation(type_hints[column.name])`

def saRelType (f : DField) : ShapeTy :=
  match f.rel with
  | .many => { ty := .list f.ty }
  | _ => { ty := .opt f.ty }

def saInField (pks : List DField) (f : DField) : InField :=
  if f.rel == .none then
    { id := f.name, ty := saColType f, default := saShapeDefault f, required := saRequired pks f }
  else
    { id := f.name, ty := saRelType f, default := .none, required := false }

def saParam (f : DField) : Param := { fieldId := f.name, name := f.name, kind := .kwOnly }

def saOutField (f : DField) : OutField :=
  if f.rel == .none then
    { id := f.name, ty := saColType f, default := saShapeDefault f, accessor := .attr f.name false }
  else
    { id := f.name, ty := saRelType f, default := .none, accessor := .attr f.name false }

def sqlalchemyShape (d : Decl) : Except Unsupported Shape :=
  let cols := d.fields.filter (fun f => f.rel == .none)
  let rels := d.fields.filter (fun f => f.rel != .none)
  let pks := cols.filter (·.pk)
  if pks.isEmpty then
    .error (.declaration "mapper could not assemble any primary key columns")
  else if cols.any (fun f => f.ty.isModel) then
    .error (.declaration "a nested model needs a foreign key column and a relationship")
  else if cols.any (fun f => f.default.isFactorySelf) then
    .error (.declaration "SQLAlchemy has no factory taking self")
  else if cols.any (fun f => f.pk && f.autoinc == .yes && !f.ty.isNumericColumn) then
    .error (.declaration "column type is not compatible with autoincrement=True")
  else
    let all := cols ++ rels                    -- `mapper.columns` then `mapper.relationships`
    .ok ({ fields := all.map (saInField pks), params := all.map saParam, kwargs := false, overriden := [] },
         { fields := all.map saOutField, overriden := [] })

/-! ## `shapeOfDecl`, the canonical declaration and `shapeOf` -/

def shapeOfDecl (d : Decl) : Except Unsupported Shape :=
  match d.kind with
  | .dataclass => dataclassShape d
  | .namedTuple => namedTupleShape d
  | .typedDict => typedDictShape d
  | .attrs => attrsShape d
  | .pydantic => pydanticShape d
  | .sqlalchemy => sqlalchemyShape d

/-- How one writes a logical field in each kind.
    * TypedDict cannot carry a default: a defaulted field is declared `NotRequired[...]`;
    * NamedTuple / TypedDict / pydantic / SQLAlchemy have no keyword-only flag (their parameter kind is
      fixed by the kind), dataclass and attrs honour it;
    * SQLAlchemy needs a primary key: the first field. -/
def declField (k : Kind) (isFirst : Bool) (f : LField) : DField :=
  match k with
  | .dataclass | .attrs => { name := f.name, ty := f.ty, default := f.default.toDflt, kwOnly := f.kwOnly }
  | .namedTuple | .pydantic => { name := f.name, ty := f.ty, default := f.default.toDflt }
  | .typedDict =>
    { name := f.name, ty := f.ty, req := if f.default.isNone then .plain else .notRequired }
  | .sqlalchemy => { name := f.name, ty := f.ty, default := f.default.toDflt, pk := isFirst }

def declFields (k : Kind) : List LField → Bool → List DField
  | [], _ => []
  | f :: rest, isFirst => declField k isFirst f :: declFields k rest false

def declOf (k : Kind) (m : LogicalModel) : Decl :=
  { kind := k, fields := declFields k m.fields true }

/-- Names every kind can take as field ids and keys of the default layout. -/
def LogicalModel.namesOk (m : LogicalModel) : Bool :=
  m.fields.all (fun f => isIdentifier f.name) && !hasDup (m.fields.map (·.name))

def shapeOf (k : Kind) (m : LogicalModel) : Except Unsupported Shape :=
  if !m.namesOk then .error (.declaration "field names must be distinct identifiers")
  else shapeOfDecl (declOf k m)

/-! ## What the later stages read: the field specifications -/

/-- (id, type without tags, required, default) of an input field -/
structure InSpec where
  id : String
  ty : Ty
  required : Bool
  default : Dflt
  deriving DecidableEq, Repr, Inhabited

def InField.spec (f : InField) : InSpec := { id := f.id, ty := f.ty.ty, required := f.required, default := f.default }
def InputShape.specs (s : InputShape) : List InSpec := s.fields.map InField.spec

/-- (id, type without tags, optional access, default) of an output field -/
structure OutSpec where
  id : String
  ty : Ty
  optional : Bool
  default : Dflt
  deriving DecidableEq, Repr, Inhabited

def OutField.spec (f : OutField) : OutSpec :=
  { id := f.id, ty := f.ty.ty, optional := f.accessor.optional, default := f.default }
def OutputShape.specs (s : OutputShape) : List OutSpec := s.fields.map OutField.spec

/-- the specification a logical model asks for -/
def LField.inSpec (f : LField) : InSpec :=
  { id := f.name, ty := f.ty, required := f.default.isNone, default := f.default.toDflt }
def LField.outSpec (f : LField) : OutSpec :=
  { id := f.name, ty := f.ty, optional := false, default := f.default.toDflt }
def LogicalModel.inSpecs (m : LogicalModel) : List InSpec := m.fields.map LField.inSpec
def LogicalModel.outSpecs (m : LogicalModel) : List OutSpec := m.fields.map LField.outSpec

/-! ## Shape-generic semantics of the later stages

  Parameters (the same for every kind — they belong to other properties):
  * `ld : Ty → D → Option V`   the loader of a field type (`none` = it raised a `LoadError`),
  * `dp : Ty → V → D`          the dumper of a field type,
  * `lit : Scalar → V`, `call : Factory → V`   evaluation of defaults,
  * `nm : String → Option String`  the name layout: field id ↦ key, `none` = skipped
    (a function of the field *id* and the user's `name_mapping` only:
    `name_layout/component.py:_map_fields`). -/

inductive Input (D : Type)
  | notMapping
  | mapping (kvs : List (String × D))
  deriving Repr, Inhabited

/-- what a `AggregateLoadError` of a model loader says (debug trail ALL): the keys reported by
    `NoRequiredFieldsLoadError` and the keys whose field loader failed -/
structure LoadErr where
  notMapping : Bool
  missing : List String
  bad : List String
  deriving DecidableEq, Repr, Inhabited

inductive Outcome (V : Type)
  /-- constructor keyword arguments by field id (`loader_gen`: optional fields absent from the data
      are filled from the *shape's* default, or left to the constructor when the shape has none) -/
  | ok (args : List (String × V))
  | err (e : LoadErr)
  /-- a required field is skipped: "Required fields … are skipped", no loader is produced -/
  | noLoader
  deriving DecidableEq, Repr, Inhabited

inductive FieldRes (V : Type)
  | arg (v : V) | omitted | missing (key : String) | bad (key : String) | unskippable
  deriving Repr, Inhabited

section Semantics
variable {D V : Type}

/-- an optional field whose key is absent: `_get_default_clause_expr` / packed field -/
def absentRes (lit : Scalar → V) (call : Factory → V) (default : Dflt) : FieldRes V :=
  match default with
  | .value v => .arg (lit v)
  | .factory f => .arg (call f)
  | _ => .omitted

def fieldRes (ld : Ty → D → Option V) (lit : Scalar → V) (call : Factory → V) (nm : String → Option String)
    (kvs : List (String × D)) (f : InSpec) : FieldRes V :=
  match nm f.id with
  | none => if f.required then .unskippable else .omitted     -- skipped: never passed, the constructor decides
  | some k =>
    match kvs.lookup k with
    | some d =>
      (match ld f.ty d with
       | some v => .arg v
       | none => .bad k)
    | none => if f.required then .missing k else absentRes lit call f.default

def FieldRes.argOf (id : String) : FieldRes V → Option (String × V)
  | .arg v => some (id, v)
  | _ => none
def FieldRes.missingOf : FieldRes V → Option String
  | .missing k => some k
  | _ => none
def FieldRes.badOf : FieldRes V → Option String
  | .bad k => some k
  | _ => none
def FieldRes.isUnskippable : FieldRes V → Bool
  | .unskippable => true
  | _ => false

/-- the loader over a list of field specifications -/
def loadSpecs (ld : Ty → D → Option V) (lit : Scalar → V) (call : Factory → V) (nm : String → Option String)
    (specs : List InSpec) (inp : Input D) : Outcome V :=
  if specs.any (fun f => f.required && (nm f.id).isNone) then .noLoader else
  match inp with
  | .notMapping => .err { notMapping := true, missing := [], bad := [] }
  | .mapping kvs =>
    let missing := specs.filterMap (fun f => (fieldRes ld lit call nm kvs f).missingOf)
    let bad := specs.filterMap (fun f => (fieldRes ld lit call nm kvs f).badOf)
    if missing.isEmpty && bad.isEmpty then
      .ok (specs.filterMap (fun f => (fieldRes ld lit call nm kvs f).argOf f.id))
    else .err { notMapping := false, missing := missing, bad := bad }

/-- **the model loader generated from an input shape** -/
def loadModel (ld : Ty → D → Option V) (lit : Scalar → V) (call : Factory → V) (nm : String → Option String)
    (s : InputShape) (inp : Input D) : Outcome V :=
  loadSpecs ld lit call nm s.specs inp

/-- The loaded object, field by field: what the kind's own constructor makes of an argument that
    was not passed (an optional field that is skipped by the name layout, or one whose shape carries
    no default).  dataclass / NamedTuple / attrs / pydantic apply the declared default; a TypedDict
    simply lacks the key; a SQLAlchemy instance answers `None` (column defaults act at flush time). -/
def objectOf (k : Kind) (lit : Scalar → V) (call : Factory → V) (none_ : V) (m : LogicalModel)
    (args : List (String × V)) : List (String × Option V) :=
  m.fields.map fun f =>
    match args.lookup f.name with
    | some v => (f.name, some v)
    | none =>
      (f.name,
        match k with
        | .typedDict => none
        | .sqlalchemy => some none_
        | _ => (match f.default with
            | .value v => some (lit v)
            | .factory fa => some (call fa)
            | .none => none))

variable [DecidableEq V]

/-- `BuiltinSievesMaker._create_sieve`: is the value equal to the shape's default? -/
def isDefaultValue (lit : Scalar → V) (call : Factory → V) (default : Dflt) (v : V) : Bool :=
  match default with
  | .value d => v == lit d
  | .factory f => v == call f
  | _ => false

inductive OutRes (D : Type)
  | emit (key : String) (d : D) | skip | accessError
  deriving Repr, Inhabited

def outRes (dp : Ty → V → D) (lit : Scalar → V) (call : Factory → V) (nm : String → Option String)
    (omitD : String → Bool) (obj : List (String × V)) (f : OutSpec) : OutRes D :=
  match nm f.id with
  | none => .skip
  | some k =>
    match obj.lookup f.id with
    | none => if f.optional then .skip else .accessError
    | some v =>
      if omitD f.id && !f.default.isNone && isDefaultValue lit call f.default v then .skip
      else .emit k (dp f.ty v)

def OutRes.emitOf : OutRes D → Option (String × D)
  | .emit k d => some (k, d)
  | _ => none
def OutRes.isAccessError : OutRes D → Bool
  | .accessError => true
  | _ => false

def dumpSpecs (dp : Ty → V → D) (lit : Scalar → V) (call : Factory → V) (nm : String → Option String)
    (omitD : String → Bool) (specs : List OutSpec) (obj : List (String × V)) : Option (List (String × D)) :=
  if specs.any (fun f => (outRes dp lit call nm omitD obj f).isAccessError) then none
  else some (specs.filterMap (fun f => (outRes dp lit call nm omitD obj f).emitOf))

/-- **the model dumper generated from an output shape** (`obj`: field id ↦ value held by the object) -/
def dumpModel (dp : Ty → V → D) (lit : Scalar → V) (call : Factory → V) (nm : String → Option String)
    (omitD : String → Bool) (s : OutputShape) (obj : List (String × V)) : Option (List (String × D)) :=
  dumpSpecs dp lit call nm omitD s.specs obj

/-- `name_mapping(as_list=True)`: the key of a field is its *position in the shape*
    (`_generate_key`: `shape.fields.index(field)`), the dump is the list of values in shape order. -/
def dumpAsList (dp : Ty → V → D) (s : OutputShape) (obj : List (String × V)) : List (Option D) :=
  s.specs.map fun f => (obj.lookup f.id).map (dp f.ty)

end Semantics

/-! ## Conversion between two kinds: linking by equal field id (the default `conversion` linking) -/

/-- for every destination input field the id of the source output field it is linked to -/
def link (dst : InputShape) (src : OutputShape) : List (String × Option String) :=
  dst.fields.map fun f => (f.id, (src.fields.find? (fun g => g.id == f.id)).map (·.id))

/-- the arguments the converter passes to the destination constructor -/
def convertArgs {V : Type} (dst : InputShape) (src : OutputShape) (obj : List (String × V)) : List (String × Option V) :=
  (link dst src).map fun (d, s) => (d, s.bind (fun sid => obj.lookup sid))

end Adaptix.Kinds
