/-
  C17 — model kinds, converter side.  Executable model of what
  `conversion/model_coercer_provider.py` does with the *destination input shape* once the
  linkings are known, and of what Python then does with the generated constructor call:

    * `fetchLinking`   `_fetch_linkings.fetch_field_linking` under the default linking (a destination
                       field is linked to the source field of the same id) and the
                       `allow_unlinked_optional` / `forbid_unlinked_optional` policy;
    * `planCall`       `_make_constructor_call`: the loop over `dst_shape.params` with the sticky
                       flag `has_skipped_params` deciding positional vs keyword passing;
    * `bindCall`       Python's argument binding of `constructor(*positional, **keywords)` against
                       the parameter list the introspector reported (`InputShape.params`);
    * `convertModel`   the three composed: which destination field receives which source value.

  Unlike `loadModel` / `dumpModel` / `link` this stage reads `InputShape.params` (names, kinds,
  order), and here the six kinds differ: dataclass, NamedTuple and attrs report positional-or-keyword
  parameters (attrs under the init alias), TypedDict, pydantic and SQLAlchemy keyword-only ones.
  (The loader's own constructor call lives in `loader_gen._gen_constructor_call`: C02/C08.)

  Lean core only (no Mathlib).
-/
import AdaptixModel.Kinds.Shapes

namespace Adaptix.Kinds

/-! ## Linking of one destination field -/

/-- outcome of `fetch_field_linking` for one destination field -/
inductive Linking
  /-- `FieldLinking` to the source field with this id -/
  | linked (srcId : String)
  /-- no source: the field is optional and the policy allows it → `(dst_field, None)` -/
  | skipped
  /-- no source and (required or the policy forbids it) → `CannotProvide`, no converter -/
  | refused
  deriving DecidableEq, Repr, Inhabited

def Linking.isRefused : Linking → Bool
  | .refused => true
  | _ => false

/-- `allow id`: an `allow_unlinked_optional` predicate matches the destination field `id`
    (the retort's default is `forbid_unlinked_optional(P.ANY)`). -/
def fetchLinking (allow : String → Bool) (src : OutputShape) (f : InField) : Linking :=
  match src.fields.find? (fun g => g.id == f.id) with
  | some g => .linked g.id
  | none => if f.required then .refused else if allow f.id then .skipped else .refused

/-! ## `_make_constructor_call` -/

/-- `PositionalArg(sub_plan)` / `KeywordArg(param.name, sub_plan)` -/
inductive CallArg (P : Type)
  | pos (sub : P)
  | kw (name : String) (sub : P)
  deriving DecidableEq, Repr, Inhabited

/-- The loop of `_make_constructor_call`.  `look fieldId` is `field_to_sub_plan[field]`, `none` when
    `field_to_linking[field] is None`; the `Bool` is `has_skipped_params` (sticky: once a parameter
    was left out every later one must be passed by keyword).  `none` = `CannotProvide("… positional-only
    parameter is skipped")` — as in the source that test comes second and is never reached. -/
def planCall {P : Type} (look : String → Option P) : List Param → Bool → Option (List (CallArg P))
  | [], _ => some []
  | p :: rest, skipped =>
    match look p.fieldId with
    | none => planCall look rest true                      -- `has_skipped_params = True; continue`
    | some sub =>
      if p.kind == .kwOnly || skipped then (planCall look rest skipped).map (.kw p.name sub :: ·)
      else if p.kind == .posOnly && skipped then none
      else (planCall look rest skipped).map (.pos sub :: ·)

/-! ## Python's call binding -/

def CallArg.posOf {V : Type} : List (CallArg V) → List V
  | [] => []
  | .pos v :: rest => v :: posOf rest
  | .kw _ _ :: rest => posOf rest

def CallArg.kwOf {V : Type} : List (CallArg V) → List (String × V)
  | [] => []
  | .pos _ :: rest => kwOf rest
  | .kw n v :: rest => (n, v) :: kwOf rest

/-- Walk the signature: a parameter that accepts positional arguments takes the next one while there
    are any ("multiple values" if it is also named by a keyword), otherwise it takes its keyword if
    present (a positional-only parameter cannot); a keyword-only parameter takes its keyword only.
    Result: `(field id the parameter feeds, value)` in signature order; `none` = `TypeError`. -/
def bindParams {V : Type} (kws : List (String × V)) : List Param → List V → Option (List (String × V))
  | [], [] => some []
  | [], _ :: _ => none                                     -- too many positional arguments
  | p :: ps, pos =>
    if p.kind == .kwOnly then
      match kws.lookup p.name with
      | some v => (bindParams kws ps pos).map ((p.fieldId, v) :: ·)
      | none => bindParams kws ps pos
    else
      match pos with
      | v :: rest =>
        if (kws.lookup p.name).isSome then none            -- got multiple values for argument
        else (bindParams kws ps rest).map ((p.fieldId, v) :: ·)
      | [] =>
        match kws.lookup p.name with
        | some v => if p.kind == .posOnly then none        -- positional-only passed as keyword
                    else (bindParams kws ps []).map ((p.fieldId, v) :: ·)
        | none => bindParams kws ps []

/-- `constructor(*positional, **keywords)` against `params`; `kwargs`: the signature has `**kwargs`
    (pydantic without `extra="forbid"`), which swallows unknown keywords. -/
def bindCall {V : Type} (params : List Param) (kwargs : Bool) (args : List (CallArg V)) : Option (List (String × V)) :=
  let kws := CallArg.kwOf args
  if hasDup (kws.map (·.1)) then none                      -- SyntaxError: keyword argument repeated
  else if !kwargs && kws.any (fun kv => !(params.any (fun p => p.name == kv.1))) then none   -- unexpected keyword
  else bindParams kws params (CallArg.posOf args)

/-! ## The converter of one model pair -/

inductive ConvOutcome (V : Type)
  /-- `get_converter` raises (`ProviderNotFoundError`): a field cannot be linked / no consistent call -/
  | noConverter
  /-- the generated function raises: a source accessor fails or the constructor call is a `TypeError` -/
  | callError
  /-- the arguments the destination constructor receives, by destination field id -/
  | ok (args : List (String × V))
  deriving DecidableEq, Repr, Inhabited

/-- evaluating the accessor of a linked source field fails (`AttributeError` / `KeyError`) -/
def Linking.accessFails {V : Type} (obj : List (String × V)) : Linking → Bool
  | .linked sid => (obj.lookup sid).isNone
  | _ => false

/-- `field_to_sub_plan[field]`, evaluated on the source object: accessor, then the field's coercer;
    `none` when `field_to_linking[field] is None` -/
def subPlanOf {V W : Type} (co : String → V → W) (obj : List (String × V)) (links : List (String × Linking))
    (id : String) : Option W :=
  match links.lookup id with
  | some (.linked sid) => (obj.lookup sid).map (co id)
  | _ => none

/-- `co id` is the coercer of the destination field `id` (as-is for equal types, the nested model
    coercer for nested models — a parameter, C13/C14); `obj` is the source object, field id ↦ value
    (what the source shape's accessors return). -/
def convertModel {V W : Type} (allow : String → Bool) (co : String → V → W) (dst : InputShape) (src : OutputShape)
    (obj : List (String × V)) : ConvOutcome W :=
  let links := dst.fields.map fun f => (f.id, fetchLinking allow src f)
  if links.any (fun l => l.2.isRefused) then .noConverter
  else if links.any (fun l => l.2.accessFails obj) then .callError
  else
    match planCall (subPlanOf co obj links) dst.params false with
    | none => .noConverter
    | some args =>
      match bindCall dst.params dst.kwargs args with
      | none => .callError
      | some bound => .ok bound

end Adaptix.Kinds
