/-
  Python values, `==`/hash semantics and dict behaviour used by the enum / flag
  representation providers (C18).

  The universe is deliberately small: it is what the closures of
  `src/adaptix/_internal/morphing/enum_provider.py` can observe of a datum
  (exact type, `==`, hashability, iteration) and what enum member values are
  made of in the generated classes.  Containers are one level deep (their items
  are atoms); anything else travels as an opaque atom whose identity is chosen by
  the harness (equal objects get equal ids).

  Lean core only (no Mathlib): this file is linked into the model driver.
-/
namespace Adaptix.Enum

/-- A Python object without inner structure the closures can look into. -/
inductive Atom where
  | none
  | bool (b : Bool)
  | int (i : Int)
  | float (i : Int)              -- a float with integral value `i` (1.0, 0.0 …): `1.0 == 1 == True`
  | str (s : String)
  | opaque (k : Nat) (hashable : Bool)   -- any other object; equal only to the same `k`
  deriving DecidableEq, Repr, Inhabited

inductive PyVal where
  | atom (a : Atom)
  | list (xs : List Atom)          -- unhashable sequence
  | tuple (xs : List Atom)         -- hashable iff every item is
  | mapping (keys : List Atom)     -- a `dict` seen through `isinstance(_, Mapping)` and iteration over keys
  | self (name : String) (as : Atom)
      -- an instance of the enum class being loaded (member `name`); `as` is what it is
      -- equal to / hashes like: its value for classes with a mixed-in data type
      -- (`IntEnum`, `StrEnum`, `IntFlag`), an opaque atom otherwise
  deriving DecidableEq, Repr, Inhabited

/-- numeric tower: `True == 1 == 1.0` -/
def Atom.num : Atom → Option Int
  | .bool b => some (if b then 1 else 0)
  | .int i => some i
  | .float i => some i
  | _ => Option.none

/-- Python `==` on atoms (equal atoms hash equal in CPython). -/
def Atom.pyEq (a b : Atom) : Bool :=
  match a.num, b.num with
  | some x, some y => x == y
  | Option.none, Option.none => a == b
  | _, _ => false

def Atom.hashable : Atom → Bool
  | .opaque _ h => h
  | _ => true

/-- item-wise `==` of two sequences of the same type -/
def atomsEq : List Atom → List Atom → Bool
  | [], [] => true
  | a :: as, b :: bs => a.pyEq b && atomsEq as bs
  | _, _ => false

/-- Python `==`.  A member of a class with a mixed-in type compares like its value.
    Two mappings are never compared by the modelled code (a mapping is only ever a
    top-level datum), the answer `false` is a convention. -/
def PyVal.pyEq : PyVal → PyVal → Bool
  | .atom a, .atom b => a.pyEq b
  | .self _ a, .atom b => a.pyEq b
  | .atom a, .self _ b => a.pyEq b
  | .self _ a, .self _ b => a.pyEq b
  | .list a, .list b => atomsEq a b
  | .tuple a, .tuple b => atomsEq a b
  | _, _ => false

/-- `hash(x)` does not raise `TypeError` -/
def PyVal.hashable : PyVal → Bool
  | .atom a => a.hashable
  | .list _ => false
  | .tuple xs => xs.all Atom.hashable
  | .mapping _ => false
  | .self _ a => a.hashable

/-- `type(x) is int` -/
def PyVal.isExactInt : PyVal → Bool
  | .atom (.int _) => true
  | _ => false

/-- `type(x) is str` -/
def PyVal.isExactStr : PyVal → Bool
  | .atom (.str _) => true
  | _ => false

/-- `type(x) is bool` -/
def PyVal.isExactBool : PyVal → Bool
  | .atom (.bool _) => true
  | _ => false

/-- `type(x) is <the enum class being loaded>` -/
def PyVal.isSelf : PyVal → Bool
  | .self _ _ => true
  | _ => false

/-- data "from the outside world": anything but an instance of the class itself -/
def PyVal.plain (v : PyVal) : Bool := !v.isSelf

/-- The string a datum is equal to (with equal hash), if any: what a lookup in a
    dict with `str` keys, or `item in [str, …]`, can hit. -/
def Atom.strKey : Atom → Option String
  | .str s => some s
  | _ => Option.none

def PyVal.strKey : PyVal → Option String
  | .atom a => a.strKey
  | .self _ a => a.strKey
  | _ => Option.none

/-! ### `dict` as an insertion-ordered association list -/

/-- `d[k] = v`: an existing equal key keeps its position (and the old key object). -/
def dictSet {K V : Type} (eq : K → K → Bool) : List (K × V) → K → V → List (K × V)
  | [], k, v => [(k, v)]
  | (k', v') :: rest, k, v =>
    if eq k' k then (k', v) :: rest else (k', v') :: dictSet eq rest k v

/-- `d.get(k)` for a key whose hash can be taken -/
def dictGet {K V : Type} (eq : K → K → Bool) (d : List (K × V)) (k : K) : Option V :=
  (d.find? (fun p => eq p.1 k)).map (·.2)

/-- `{k: v for k, v in pairs}` -/
def dictOfPairs {K V : Type} (eq : K → K → Bool) : List (K × V) → List (K × V) → List (K × V)
  | acc, [] => acc
  | acc, (k, v) :: rest => dictOfPairs eq (dictSet eq acc k v) rest

/-! ### What running a loader yields -/

/-- The `LoadError` subclasses raised by the enum / flag closures (messages dropped). -/
inductive LoadErr where
  | badVariant (variants : List PyVal)                 -- BadVariantLoadError(allowed_values, data)
  | typeLoad                                           -- TypeLoadError(expected_type, data)
  | excludedType                                       -- ExcludedTypeLoadError(expected, Mapping, data)
  | outOfRange (lo hi : Int)                           -- OutOfRangeLoadError(lo, hi, data)
  | duplicatedValues                                   -- DuplicatedValuesLoadError(data)
  | multipleBadVariant (variants : List String) (invalid : List Atom)
  | msg (m : String)                                   -- MsgLoadError(msg, data)
  deriving DecidableEq, Repr

inductive Outcome (α : Type) where
  | ok (a : α)
  | loadErr (e : LoadErr)
  | escape (exc : String)          -- an exception that is not a LoadError leaves the loader
  deriving DecidableEq, Repr

def Outcome.isLoadErr {α : Type} : Outcome α → Bool
  | .loadErr _ => true
  | _ => false

/-- Creating a loader / dumper: the closure, a documented refusal, or a stray exception. -/
inductive Create (α : Type) where
  | ok (a : α)
  | cannotProvide (why : String)   -- CannotProvide → ProviderNotFoundError at the facade
  | raises (exc : String)

def Create.isOk {α : Type} : Create α → Bool
  | .ok _ => true
  | _ => false

end Adaptix.Enum
