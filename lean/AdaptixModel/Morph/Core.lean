/-
  Morphing core: types, errors, outcomes, the world (class table + scalar leaf
  behaviour) and the three element-mapping disciplines of the container
  providers (DISABLE / FIRST / ALL).

  Code modelled (hand-written; tied by the correspondence harness/morph.py):
    morphing/iterable_provider.py, dict_provider.py,
    constant_length_tuple_provider.py, generic_provider.py (Union, Literal),
    model/loader_gen.py + dumper_gen.py for the default flat dict layout,
    struct_trail.py, load_error.py.
  Scalar leaves are NOT hand-written: they are the translated closures of
  `Generated/Scalars.lean`, supplied through `World.scalarLoad`.
-/
import AdaptixModel.Py.Val

namespace Adaptix.Morph
open Adaptix.Py

inductive DebugTrail where
  | disable | first | all
  deriving Repr, DecidableEq, Inhabited

structure Cfg where
  trail : DebugTrail
  strict : Bool
  deriving Repr, DecidableEq, Inhabited

/-- which concrete class the iterable loader builds -/
inductive Factory where
  | list | tuple | set | frozenset | deque
  deriving Repr, DecidableEq, Inhabited

/-- normalised type expressions the morphing providers dispatch on -/
inductive Ty where
  | scalar (name : String)                  -- key of the translated closure table
  | any                                     -- Any / object: passed as is
  | literal (vals : List Val)               -- Literal[...] of None/bool/int/str values
  | union (cases : List Ty) (keys : List String)  -- normalised arg order; keys = origin class of each case
                                            -- (what the union dumper's ClassDispatcher is keyed by)
  | iter (f : Factory) (dumpList : Bool) (elem : Ty)
  | tuple (elems : List Ty)                 -- constant-length tuple
  | dict (k v : Ty)
  | model (cls : String)                    -- reference into the class table
  deriving Repr, Inhabited

inductive TrailEl where
  | idx (i : Nat)            -- sequence index
  | key (k : Val)            -- mapping key / field key: subscript with it
  | itemKey (k : Val)        -- `ItemKey(k)`: the key object itself is the offender
  | attr (name : String)     -- `Attr(name)`
  deriving Repr, Inhabited

/-- a raised LoadError: class, the trail attached to this exception object
    (relative to where it was caught last), offending input, extra detail
    (field names of NoRequiredFields/ExtraFields), sub-exceptions of groups -/
inductive LErr where
  | mk (cls : String) (trail : List TrailEl) (input : Option Val) (detail : List String)
       (children : List LErr)
  deriving Repr, Inhabited

namespace LErr
def cls : LErr → String | .mk c _ _ _ _ => c
def trail : LErr → List TrailEl | .mk _ t _ _ _ => t
def input : LErr → Option Val | .mk _ _ i _ _ => i
def children : LErr → List LErr | .mk _ _ _ _ ch => ch
def leaf (cls : String) (input : Val) : LErr := .mk cls [] (some input) [] []
def leafD (cls : String) (input : Val) (detail : List String) : LErr := .mk cls [] (some input) detail []
/-- `append_trail(e, el)`: prepend to the exception's own trail -/
def push (el : TrailEl) : LErr → LErr
  | .mk c t i d ch => .mk c (el :: t) i d ch
def pushO : Option TrailEl → LErr → LErr
  | some el, e => e.push el
  | none, e => e
def agg (children : List LErr) : LErr := .mk "AggregateLoadError" [] none [] children
def union (children : List LErr) : LErr := .mk "UnionLoadError" [] none [] children
def bare : LErr := .mk "LoadError" [] none [] []
end LErr

inductive Outcome (α : Type) where
  | ok (a : α)
  | err (e : LErr)               -- a LoadError (sub)class was raised
  | escape (exc : String)        -- any other exception escaped
  | diverge                      -- model ran out of fuel (never with sufficient fuel)
  deriving Repr, Inhabited

namespace Outcome
def isOk {α : Type} : Outcome α → Bool | .ok _ => true | _ => false
def isErr {α : Type} : Outcome α → Bool | .err _ => true | _ => false
def isEscape {α : Type} : Outcome α → Bool | .escape _ => true | _ => false
def pushTrail {α : Type} (el : TrailEl) : Outcome α → Outcome α
  | .err e => .err (e.push el)
  | o => o
end Outcome

structure Field where
  name : String
  ty : Ty
  required : Bool
  default : Val           -- used when not required and absent
  deriving Repr, Inhabited

/-- everything outside the container logic -/
structure World where
  classes : String → Option (List Field)
  scalarLoad : Bool → String → Val → Outcome Val     -- strict ↦ scalar ↦ datum ↦ outcome (translated closures)
  scalarDump : String → Val → Outcome Val

/-! ### the three element-processing disciplines

  The containers process their elements in order. Loaders are pure, so the
  outcomes of all elements can be computed up front; the three `debug_trail`
  code paths differ only in how they fold the per-element outcomes (each
  paired with the trail element `append_trail` would attach, if any). -/

/-- DISABLE: stop at the first failure, attach nothing -/
def seqDisable : List (Option TrailEl × Outcome Val) → Outcome (List Val)
  | [] => .ok []
  | (_, o) :: rest =>
    match o with
    | .ok y =>
      (match seqDisable rest with
       | .ok ys => .ok (y :: ys)
       | .err e => .err e
       | .escape e => .escape e
       | .diverge => .diverge)
    | .err e => .err e
    | .escape e => .escape e
    | .diverge => .diverge

/-- FIRST: stop at the first failure, `append_trail(e, el)` -/
def seqFirst : List (Option TrailEl × Outcome Val) → Outcome (List Val)
  | [] => .ok []
  | (el, o) :: rest =>
    match o with
    | .ok y =>
      (match seqFirst rest with
       | .ok ys => .ok (y :: ys)
       | .err e => .err e
       | .escape e => .escape e
       | .diverge => .diverge)
    | .err e => .err (e.pushO el)
    | .escape e => .escape e
    | .diverge => .diverge

/-- result of an ALL-mode sweep -/
structure Sweep where
  vals : List Val
  errs : List LErr          -- collected LoadErrors, each with its trail element pushed
  unexpected : Bool         -- a non-LoadError was collected
  diverged : Bool
  deriving Inhabited

/-- ALL: visit every element, collect every failure -/
def sweepAll : List (Option TrailEl × Outcome Val) → Sweep
  | [] => { vals := [], errs := [], unexpected := false, diverged := false }
  | (el, o) :: rest =>
    let r := sweepAll rest
    match o with
    | .ok y => { r with vals := y :: r.vals }
    | .err e => { r with errs := e.pushO el :: r.errs }
    | .escape _ => { r with unexpected := true }
    | .diverge => { r with diverged := true }

/-- how an ALL-mode sweep ends: ExceptionGroup / AggregateLoadError / the values -/
def Sweep.finish (s : Sweep) : Outcome (List Val) :=
  if s.diverged then .diverge
  else if s.unexpected then .escape "ExceptionGroup"
  else if s.errs.isEmpty then .ok s.vals
  else .err (LErr.agg s.errs)

def seqMode (t : DebugTrail) (items : List (Option TrailEl × Outcome Val)) : Outcome (List Val) :=
  match t with
  | .disable => seqDisable items
  | .first => seqFirst items
  | .all => (sweepAll items).finish

def Factory.build : Factory → List Val → Outcome Val
  | .list, xs => .ok (.list xs)
  | .tuple, xs => .ok (.tuple xs)
  | .deque, xs => .ok (.deque xs)
  | .set, xs => if Val.hashableAll xs then .ok (.set (Val.dedup xs)) else .escape "TypeError"
  | .frozenset, xs => if Val.hashableAll xs then .ok (.frozenset (Val.dedup xs)) else .escape "TypeError"

def bindO {α β : Type} (o : Outcome α) (k : α → Outcome β) : Outcome β :=
  match o with
  | .ok a => k a
  | .err e => .err e
  | .escape e => .escape e
  | .diverge => .diverge

end Adaptix.Morph
