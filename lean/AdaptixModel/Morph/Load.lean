/-
  `load`: the semantics of the loaders the builtin providers produce, for all
  three debug_trail modes and both coercion modes. Fuel-indexed (recursive
  models); `Outcome.diverge` marks exhausted fuel.
-/
import AdaptixModel.Morph.Core

namespace Adaptix.Morph
open Adaptix.Py

/-! ### Literal (generic_provider.LiteralProvider, values None/bool/int/str) -/

/-- `isinstance(arg, bool) or _is_exact_zero_or_one(arg)` for some literal value -/
def boolSensitive (vals : List Val) : Bool :=
  vals.any fun v =>
    match v with
    | .bool _ => true
    | .int i => i == 0 || i == 1
    | _ => false

/-- `(type(data), data) in allowed_values_with_types` -/
def typedMem (d : Val) (vals : List Val) : Bool :=
  vals.any fun v => v.tag == d.tag && Val.pyEq v d

def loadLiteral (strict : Bool) (vals : List Val) (d : Val) : Outcome Val :=
  let hit := if strict && boolSensitive vals then typedMem d vals else Val.memOf d vals
  if hit then .ok d else .err (LErr.leaf "BadVariantLoadError" d)

/-! ### iterables (iterable_provider.IterableProvider) -/

/-- strict mode's exclusions shared by the iterable and the tuple loader -/
def strictExcluded (cfg : Cfg) (d : Val) : Bool := cfg.strict && (d.isMapping || d.isStr)

def idxItems (os : List (Outcome Val)) : List (Option TrailEl × Outcome Val) :=
  os.zipIdx.map fun (o, i) => (some (TrailEl.idx i), o)

def loadIter (cfg : Cfg) (f : Factory) (elem : Val → Outcome Val) (d : Val) : Outcome Val :=
  if strictExcluded cfg d then .err (LErr.leaf "ExcludedTypeLoadError" d)
  else
    match d.iterElems with
    | none => .err (LErr.leaf "TypeLoadError" d)
    | some xs => bindO (seqMode cfg.trail (idxItems (xs.map elem))) f.build

/-! ### constant-length tuples (constant_length_tuple_provider) -/

/-- apply the i-th loader to the i-th element -/
def zipApply : List (Val → Outcome Val) → List Val → List (Outcome Val)
  | l :: ls, x :: xs => l x :: zipApply ls xs
  | _, _ => []

def loadTuple (cfg : Cfg) (loaders : List (Val → Outcome Val)) (d : Val) : Outcome Val :=
  if strictExcluded cfg d then .err (LErr.leaf "ExcludedTypeLoadError" d)
  else
    match d.iterElems with
    | none => .err (LErr.leaf "TypeLoadError" d)
    | some xs =>
      -- FIRST/ALL work on `value_tuple = tuple(data)`; DISABLE reports the original datum
      let shown := match cfg.trail with | .disable => d | _ => Val.tuple xs
      if xs.length > loaders.length then .err (LErr.leaf "ExtraItemsLoadError" shown)
      else if xs.length < loaders.length then .err (LErr.leaf "NoRequiredItemsLoadError" shown)
      else bindO (seqMode cfg.trail (idxItems (zipApply loaders xs))) (fun ys => .ok (.tuple ys))

/-! ### dict (dict_provider.DictProvider) -/

/-- per pair: the key outcome (trail `ItemKey(k)`) and the value outcome (trail `k`).
    FIRST/ALL load the key first. DISABLE executes `result[key_loader(k)] = value_loader(v)`,
    where Python evaluates the right-hand side before the subscript: the value is loaded first. -/
def dictItems (valueFirst : Bool) (key value : Val → Outcome Val) :
    List (Val × Val) → List (Option TrailEl × Outcome Val)
  | [] => []
  | (k, v) :: rest =>
    let ko := (some (TrailEl.itemKey k), key k)
    let vo := (some (TrailEl.key k), value v)
    if valueFirst then vo :: ko :: dictItems valueFirst key value rest
    else ko :: vo :: dictItems valueFirst key value rest

/-- `result[loaded_key] = loaded_value` over the flat list of loaded pairs -/
def buildDict (valueFirst : Bool) : List Val → List (Val × Val) → Outcome Val
  | a :: b :: rest, acc =>
    let k := if valueFirst then b else a
    let v := if valueFirst then a else b
    if k.hashable then buildDict valueFirst rest (Val.dictSet acc k v) else .escape "TypeError"
  | _, acc => .ok (.dict acc)

def loadDict (cfg : Cfg) (key value : Val → Outcome Val) (d : Val) : Outcome Val :=
  match d with
  | .dict kvs =>
    let vf := cfg.trail == .disable
    bindO (seqMode cfg.trail (dictItems vf key value kvs)) (fun flat => buildDict vf flat [])
  | _ => .err (LErr.leaf "TypeLoadError" d)      -- `data.items` raised AttributeError

/-! ### Union (generic_provider.UnionProvider) -/

def isNoneTy : Ty → Bool
  | .scalar "none" => true
  | _ => false

/-- DISABLE / FIRST: the first case that does not raise LoadError; a non-LoadError propagates -/
def unionFirstOk : List (Outcome Val) → List LErr → Outcome Val × List LErr
  | [], errs => (.err LErr.bare, errs)
  | o :: rest, errs =>
    match o with
    | .err e => unionFirstOk rest (errs ++ [e])
    | o => (o, errs)

/-- ALL: unexpected errors are collected too; a success after one is not returned -/
def unionAll : List (Outcome Val) → List LErr → Bool → Outcome Val
  | [], errs, unexpected => if unexpected then .escape "ExceptionGroup" else .err (LErr.union errs)
  | o :: rest, errs, unexpected =>
    match o with
    | .err e => unionAll rest (errs ++ [e]) unexpected
    | .escape _ => unionAll rest errs true
    | .diverge => .diverge
    | .ok v => if unexpected then unionAll rest errs unexpected else .ok v

def loadUnion (cfg : Cfg) (cases : List Ty) (ld : Ty → Val → Outcome Val) (d : Val) : Outcome Val :=
  -- `_is_single_optional`: exactly two cases, one of them None
  match cases with
  | [a, b] =>
    if isNoneTy a || isNoneTy b then
      let other := if isNoneTy a then b else a
      if d.isNone then .ok .none
      else
        match cfg.trail, ld other d with
        | .disable, o => o
        | _, .err e => .err (LErr.union [LErr.leaf "TypeLoadError" d, e])
        | _, o => o
    else general
  | _ => general
where
  general : Outcome Val :=
    let os := cases.map (fun c => ld c d)
    match cfg.trail with
    | .disable =>
      (match unionFirstOk os [] with
       | (.err _, _) => .err LErr.bare       -- `raise LoadError`
       | (o, _) => o)
    | .first =>
      (match unionFirstOk os [] with
       | (.err _, errs) => .err (LErr.union errs)
       | (o, _) => o)
    | .all => unionAll os [] false

/-! ### models: generated loader for the default flat dict layout (loader_gen.py) -/

/-- one event per field, in field order: a present field is loaded (trail = its key);
    the first missing required field raises NoRequiredFieldsLoadError (no trail, only once);
    an absent optional field takes its default -/
def modelItems (fl : Field → Val → Outcome Val) (kvs : List (Val × Val)) (missing : List String) :
    List Field → Bool → List (Option TrailEl × Outcome Val)
  | [], _ => []
  | f :: rest, reported =>
    match Val.lookup (.str f.name) kvs with
    | some v => (some (TrailEl.key (.str f.name)), fl f v) :: modelItems fl kvs missing rest reported
    | none =>
      if f.required then
        if reported then modelItems fl kvs missing rest reported
        else (none, .err (LErr.leafD "NoRequiredFieldsLoadError" (.dict kvs) missing))
              :: modelItems fl kvs missing rest true
      else (none, .ok f.default) :: modelItems fl kvs missing rest reported

/-- `required_keys - set(data)` -/
def missingRequired (fields : List Field) (kvs : List (Val × Val)) : List String :=
  (fields.filter fun f => f.required && (Val.lookup (.str f.name) kvs).isNone).map (·.name)

def loadModel (cfg : Cfg) (cls : String) (fields : List Field) (fl : Field → Val → Outcome Val) (d : Val) :
    Outcome Val :=
  match d with
  | .dict kvs =>
    bindO (seqMode cfg.trail (modelItems fl kvs (missingRequired fields kvs) fields false))
      (fun vals => .ok (.obj cls ((fields.map (·.name)).zip vals)))
  | _ =>
    -- `data[key]` raised TypeError / `data.get` raised AttributeError
    match cfg.trail with
    | .all => .err (LErr.agg [LErr.leaf "TypeLoadError" d])
    | _ => .err (LErr.leaf "TypeLoadError" d)

/-! ### the loader of a type -/

def load (W : World) (cfg : Cfg) : Nat → Ty → Val → Outcome Val
  | 0, _, _ => .diverge
  | n + 1, ty, d =>
    match ty with
    | .scalar s => W.scalarLoad cfg.strict s d
    | .any => .ok d
    | .literal vals => loadLiteral cfg.strict vals d
    | .union cases _ => loadUnion cfg cases (fun c x => load W cfg n c x) d
    | .iter f _ elem => loadIter cfg f (load W cfg n elem) d
    | .tuple elems => loadTuple cfg (elems.map fun t => load W cfg n t) d
    | .dict k v => loadDict cfg (load W cfg n k) (load W cfg n v) d
    | .model cls =>
      match W.classes cls with
      | none => .escape "NoSuchClass"
      | some fields => loadModel cfg cls fields (fun f x => load W cfg n f.ty x) d

end Adaptix.Morph
