/-
  Which representation provider applies to an Enum / Flag class.

  Follows, statement by statement,
    * `bound_by_any`                         (src/adaptix/_internal/provider/facade/provider.py)
    * `create_loc_stack_checker`, `ExactOriginLSC`, `ExactFieldNameLSC`, `ReFieldNameLSC`,
      `OrLocStackChecker` (`_reduce = any`), `LocStackEndChecker`, `P[...]`
                                             (src/adaptix/_internal/provider/loc_stack_filtering.py)
    * `LocStackBoundingProvider` + `@for_predicate(AnyEnumLSC())` / `@for_predicate(FlagEnumLSC())`
                                             (provider/located_request.py, morphing/enum_provider.py)
    * the recipe search of the retort: the first provider whose request checker accepts the request
      (retort/request_bus.py; the `CannotProvide` of the enum / flag providers is terminal, so the search
      does not go on after the checker has accepted)
    * `AdornedRetort.get_loader / get_dumper` with `_loader_cache` / `_dumper_cache`
                                             (morphing/facade/retort.py)
  for the request sites the enum / flag facade functions are used at: the class itself at top level, or
  the class as the type of a field of a dataclass.

  The checkers are *values* (a list of predicates that is walked on every check): nothing in a check
  depends on earlier checks.  That is the content of `served_independent_of_history` in Props/C18.lean.
-/
import AdaptixModel.Morph.Enum
import AdaptixModel.Morph.Flag

namespace Adaptix.Enum

inductive Family where
  | enum | flag
  deriving DecidableEq, Repr

/-- Where a loader / dumper of class `cls` is requested: the last location of the `LocStack` is a
    `TypeHintLoc(cls)` (top level) or a `FieldLoc(field_id, type = cls)` below the `TypeHintLoc` of the
    dataclass `holder`. -/
structure Site where
  cls : Nat
  family : Family
  field : Option (Nat × String) := none     -- (holder, field_id)
  deriving DecidableEq, Repr

/-- The predicates the facade functions are given (`EnumPred`), after `create_loc_stack_checker`. -/
inductive BindPred where
  | type (cls : Nat)                 -- the class object or `P[cls]`: `ExactOriginLSC(cls)`
  | types (cs : List Nat)            -- `P[a, b, …]`: `OrLocStackChecker([ExactOriginLSC(a), …])`
  | fieldName (name : String)        -- `"name"` (`ExactFieldNameLSC`) or a regex that matches only `name`
  | path (holder : Nat) (name : String)   -- `P[Holder].name`: `LocStackEndChecker([ExactOriginLSC, ExactFieldNameLSC])`
  deriving DecidableEq, Repr

/-- `check_loc_stack` of the checker of one predicate. `LastLocChecker`s look at the last location: a type
    checker is satisfied by a `FieldLoc` too (it is castable to `TypeHintLoc`), a field-name checker only
    by a `FieldLoc`. -/
def BindPred.matches : BindPred → Site → Bool
  | .type c, s => s.cls == c
  | .types cs, s => cs.any (fun c => s.cls == c)
  | .fieldName n, s =>
    match s.field with
    | some (_, f) => f == n
    | none => false
  | .path h n, s =>
    match s.field with
    | some (h', f) => h' == h && f == n
    | none => false

/-- What `bound_by_any(preds, provider)` wraps the provider with. -/
inductive Checker where
  | unbound                          -- `len(preds) == 0`: the provider itself
  | one (p : BindPred)               -- `len(preds) == 1`: `create_loc_stack_checker(preds[0])`
  | any (ps : List BindPred)         -- `OrLocStackChecker([create_loc_stack_checker(pred) for pred in preds])`
  deriving Repr

def boundByAny : List BindPred → Checker
  | [] => .unbound
  | [p] => .one p
  | ps => .any ps

/-- `LocStackBoundingProvider`'s request checker; `OrLocStackChecker.check_loc_stack` is `any(...)` over
    the stored list. -/
def Checker.check : Checker → Site → Bool
  | .unbound, _ => true
  | .one p, s => p.matches s
  | .any ps, s => ps.any (fun p => p.matches s)

/-- The five representation providers of enum_provider.py. -/
inductive ReprProvider where
  | enumExact
  | enumName (cfg : NameCfg)
  | enumValue (k : ValueKind)
  | flagExact
  | flagList (cfg : NameCfg) (o : ListOpts)

/-- `@for_predicate(AnyEnumLSC())` on `BaseEnumProvider`, `@for_predicate(FlagEnumLSC())` on `BaseFlagProvider` -/
def ReprProvider.family : ReprProvider → Family
  | .enumExact | .enumName _ | .enumValue _ => .enum
  | .flagExact | .flagList _ _ => .flag

structure Bound where
  checker : Checker
  provider : ReprProvider

/-- both request checkers must accept: the bounding one and the provider's own -/
def Bound.applies (b : Bound) (s : Site) : Bool :=
  b.checker.check s && b.provider.family == s.family

/-- The recipe search: position of the first provider of the user's recipe that accepts the request;
    `none`: the request reaches the built-in recipe. -/
def selectIdx : List Bound → Site → Option Nat
  | [], _ => none
  | b :: rest, s => if b.applies s then some 0 else (selectIdx rest s).map (· + 1)

/-- The built-in recipe ends with `EnumExactValueProvider()` / `FlagByExactValueProvider()`. -/
def builtinFor : Family → ReprProvider
  | .enum => .enumExact
  | .flag => .flagExact

def reprAt (recipe : List Bound) (fam : Family) : Option Nat → ReprProvider
  | none => builtinFor fam
  | some i =>
    match recipe[i]? with
    | some b => b.provider
    | none => builtinFor fam

/-- the representation in force at a site -/
def select (recipe : List Bound) (s : Site) : ReprProvider :=
  reprAt recipe s.family (selectIdx recipe s)

/-! ### the retort: `get_loader` / `get_dumper` with their caches -/

inductive Dir where
  | loader | dumper
  deriving DecidableEq, Repr

abbrev Key := Site × Dir

/-- `_loader_cache` and `_dumper_cache` together: (request, what was built for it) -/
abbrev Cache := List (Key × Option Nat)

def Cache.get : Cache → Key → Option (Option Nat)
  | [], _ => none
  | (k', a) :: rest, k => if k' = k then some a else Cache.get rest k

/-- `get_loader(tp)` / `get_dumper(tp)`: `try: return cache[tp]  except KeyError: …make, store, return` -/
def request (recipe : List Bound) (cache : Cache) (k : Key) : Cache × Option Nat :=
  match cache.get k with
  | some a => (cache, a)
  | none =>
    let a := selectIdx recipe k.1
    ((k, a) :: cache, a)

/-- a whole history of requests on one retort: the final cache and every answer -/
def serve (recipe : List Bound) : Cache → List Key → Cache × List (Option Nat)
  | cache, [] => (cache, [])
  | cache, k :: rest =>
    let (cache', a) := request recipe cache k
    let (cache'', as) := serve recipe cache' rest
    (cache'', a :: as)

/-! ### loaders / dumpers of a representation -/

def enumLoaderOf (c : EnumClass) : ReprProvider → Create (PyVal → Outcome Member)
  | .enumExact => .ok (enumExactLoader c)
  | .enumName cfg => enumNameLoader c cfg
  | .enumValue k => .ok (enumValueLoader c k)
  | _ => .cannotProvide "not a provider for Enum classes"

def enumDumperOf (c : EnumClass) : ReprProvider → Create (Member → Option PyVal)
  | .enumExact => .ok (enumExactDumper c)
  | .enumName cfg => enumNameDumper c cfg
  | .enumValue k => .ok (fun m => some (enumValueDumper k m))
  | _ => .cannotProvide "not a provider for Enum classes"

def flagLoaderOf (c : FlagClass) : ReprProvider → Create (PyVal → Outcome Nat)
  | .flagExact => flagExactLoader c
  | .flagList cfg o => flagListLoader c cfg o
  | _ => .cannotProvide "not a provider for Flag classes"

def flagDumperOf (c : FlagClass) : ReprProvider → Create (Nat → PyVal)
  | .flagExact => .ok flagExactDumper
  | .flagList cfg o =>
    match flagListDumper c cfg o with
    | .ok dp => .ok (fun v => .list ((dp v).map Atom.str))
    | .cannotProvide w => .cannotProvide w
    | .raises e => .raises e
  | _ => .cannotProvide "not a provider for Flag classes"

end Adaptix.Enum
