/-
  C20 — allocation provenance for the morphing model.

  `loadP` / `dumpP` are `load` / `dump` (Morph/Load.lean, Morph/Dump.lean) followed
  constructor by constructor, but every node of the value they return says where
  the Python object it stands for comes from:

    * `fresh`  created by this call (a container the provider builds:
               `iter_factory(...)`, `tuple(...)`, `result = {}`, the model
               constructor call, the dumper's `{...}` / `[...]`; a scalar the leaf
               loader computes; a default rendered as an inline literal or
               produced by calling a factory),
    * `arg`    the very object passed in, or a part of it (`Any`/`object`, the
               Literal loader's `return data`, identity scalar leaves,
               `as_is_stub`),
    * `const`  an object owned by the retort / the generated function / the model
               class and therefore shared between calls (`dfl_<field>` constants
               of `loader_gen._get_default_clause_expr`, the string constants used
               as keys of a dumped model).

  Nothing here writes to an existing value: the model is a pure function, so
  "the argument is not mutated" holds by construction and is established for the
  real code only by the harness (deep snapshots before / after).

  The provenance-annotated value is a rose tree `PVal.node prov shape kids`;
  `Shape` is the `Val` constructor with its non-recursive payload, so that
  `PVal.erase : PVal → Val` forgets the annotations (dict children are the
  flattened key/value pairs, object children the field values).

  Lean core only.
-/
import AdaptixModel.Morph.Load
import AdaptixModel.Morph.Dump

namespace Adaptix.Morph
open Adaptix.Py

inductive Prov where
  | fresh | arg | const
  deriving Repr, DecidableEq, Inhabited

/-- a `Val` constructor without its recursive arguments -/
inductive Shape where
  | none
  | bool (b : Bool)
  | int (i : Int)
  | float (f : Flt)
  | str (s : String)
  | bytes (b : List Nat)
  | bytearray (b : List Nat)
  | list | tuple | set | frozenset | deque | dict | iter
  | obj (cls : String) (names : List String)
  | atom (kind : String) (text : String)
  | opaque (tag : String)
  deriving Repr, DecidableEq, Inhabited

/-- `[k0, v0, k1, v1, …] ↦ [(k0, v0), (k1, v1), …]` (a trailing odd element is dropped) -/
def pairUp {α : Type} : List α → List (α × α)
  | a :: b :: rest => (a, b) :: pairUp rest
  | _ => []

/-- `[(k0, v0), (k1, v1), …] ↦ [k0, v0, k1, v1, …]` -/
def flatKV {α : Type} : List (α × α) → List α
  | [] => []
  | (k, v) :: rest => k :: v :: flatKV rest

namespace Shape

def build : Shape → List Val → Val
  | .none, _ => .none
  | .bool b, _ => .bool b
  | .int i, _ => .int i
  | .float f, _ => .float f
  | .str s, _ => .str s
  | .bytes b, _ => .bytes b
  | .bytearray b, _ => .bytearray b
  | .list, ks => .list ks
  | .tuple, ks => .tuple ks
  | .set, ks => .set ks
  | .frozenset, ks => .frozenset ks
  | .deque, ks => .deque ks
  | .dict, ks => .dict (pairUp ks)
  | .iter, ks => .iter ks
  | .obj c names, ks => .obj c (names.zip ks)
  | .atom k t, _ => .atom k t
  | .opaque t, _ => .opaque t

/-- objects whose state can change after creation: sharing one of these between two
    results, with the retort or with the argument is what C20 is about.
    (`iter`: a one-shot iterator; `opaque`: an arbitrary object — counted as mutable.) -/
def mutable : Shape → Bool
  | .bytearray _ | .list | .set | .deque | .dict | .iter | .obj _ _ | .opaque _ => true
  | _ => false

end Shape

/-- provenance-annotated value -/
inductive PVal where
  | node (prov : Prov) (shape : Shape) (kids : List PVal)
  deriving Repr, Inhabited

namespace PVal

def prov : PVal → Prov | .node p _ _ => p
def shape : PVal → Shape | .node _ s _ => s
def kids : PVal → List PVal | .node _ _ ks => ks
def isMutable (p : PVal) : Bool := p.shape.mutable

mutual
  /-- forget the provenance -/
  def erase : PVal → Val
    | .node _ sh ks => sh.build (eraseL ks)
  def eraseL : List PVal → List Val
    | [] => []
    | x :: xs => erase x :: eraseL xs
end

mutual
  /-- every sub-node, the root included (pre-order) -/
  def nodes : PVal → List PVal
    | .node p sh ks => .node p sh ks :: nodesL ks
  def nodesL : List PVal → List PVal
    | [] => []
    | x :: xs => nodes x ++ nodesL xs
end

mutual
  /-- annotate every node of a plain value with the same provenance -/
  def ofVal (p : Prov) : Val → PVal
    | .none => .node p .none []
    | .bool b => .node p (.bool b) []
    | .int i => .node p (.int i) []
    | .float f => .node p (.float f) []
    | .str s => .node p (.str s) []
    | .bytes b => .node p (.bytes b) []
    | .bytearray b => .node p (.bytearray b) []
    | .list xs => .node p .list (ofValL p xs)
    | .tuple xs => .node p .tuple (ofValL p xs)
    | .set xs => .node p .set (ofValL p xs)
    | .frozenset xs => .node p .frozenset (ofValL p xs)
    | .deque xs => .node p .deque (ofValL p xs)
    | .dict kvs => .node p .dict (ofValKV p kvs)
    | .iter xs => .node p .iter (ofValL p xs)
    | .obj c fs => .node p (.obj c (fs.map (·.1))) (ofValF p fs)
    | .atom k t => .node p (.atom k t) []
    | .opaque t => .node p (.opaque t) []
  def ofValL (p : Prov) : List Val → List PVal
    | [] => []
    | x :: xs => ofVal p x :: ofValL p xs
  def ofValKV (p : Prov) : List (Val × Val) → List PVal
    | [] => []
    | (k, v) :: rest => ofVal p k :: ofVal p v :: ofValKV p rest
  def ofValF (p : Prov) : List (String × Val) → List PVal
    | [] => []
    | (_, v) :: rest => ofVal p v :: ofValF p rest
end

/-- the argument of a call -/
abbrev ofArg : Val → PVal := ofVal .arg
/-- an object owned by the retort / a class -/
abbrev ofConst : Val → PVal := ofVal .const
/-- an object computed by this call -/
abbrev ofFresh : Val → PVal := ofVal .fresh

end PVal

namespace Outcome
def map {α β : Type} (f : α → β) : Outcome α → Outcome β
  | .ok a => .ok (f a)
  | .err e => .err e
  | .escape e => .escape e
  | .diverge => .diverge
end Outcome

/-! ### the element-processing disciplines of Core.lean, for any result type -/

def seqDisableG {α : Type} : List (Option TrailEl × Outcome α) → Outcome (List α)
  | [] => .ok []
  | (_, o) :: rest =>
    match o with
    | .ok y =>
      (match seqDisableG rest with
       | .ok ys => .ok (y :: ys)
       | .err e => .err e
       | .escape e => .escape e
       | .diverge => .diverge)
    | .err e => .err e
    | .escape e => .escape e
    | .diverge => .diverge

def seqFirstG {α : Type} : List (Option TrailEl × Outcome α) → Outcome (List α)
  | [] => .ok []
  | (el, o) :: rest =>
    match o with
    | .ok y =>
      (match seqFirstG rest with
       | .ok ys => .ok (y :: ys)
       | .err e => .err e
       | .escape e => .escape e
       | .diverge => .diverge)
    | .err e => .err (e.pushO el)
    | .escape e => .escape e
    | .diverge => .diverge

structure SweepG (α : Type) where
  vals : List α
  errs : List LErr
  unexpected : Bool
  diverged : Bool

def sweepAllG {α : Type} : List (Option TrailEl × Outcome α) → SweepG α
  | [] => { vals := [], errs := [], unexpected := false, diverged := false }
  | (el, o) :: rest =>
    let r := sweepAllG rest
    match o with
    | .ok y => { r with vals := y :: r.vals }
    | .err e => { r with errs := e.pushO el :: r.errs }
    | .escape _ => { r with unexpected := true }
    | .diverge => { r with diverged := true }

def SweepG.finish {α : Type} (s : SweepG α) : Outcome (List α) :=
  if s.diverged then .diverge
  else if s.unexpected then .escape "ExceptionGroup"
  else if s.errs.isEmpty then .ok s.vals
  else .err (LErr.agg s.errs)

def seqModeG {α : Type} (t : DebugTrail) (items : List (Option TrailEl × Outcome α)) : Outcome (List α) :=
  match t with
  | .disable => seqDisableG items
  | .first => seqFirstG items
  | .all => (sweepAllG items).finish

def seqModeDumpG {α : Type} (t : DebugTrail) (items : List (Option TrailEl × Outcome α)) :
    Outcome (List α) :=
  match t with
  | .disable => seqDisableG items
  | .first => seqFirstG items
  | .all =>
    let s := sweepAllG items
    if s.diverged then .diverge
    else if s.unexpected || !s.errs.isEmpty then .escape "ExceptionGroup"
    else .ok s.vals

def idxItemsG {α : Type} (os : List (Outcome α)) : List (Option TrailEl × Outcome α) :=
  os.zipIdx.map fun (o, i) => (some (TrailEl.idx i), o)

def zipApplyG {α : Type} : List (Val → Outcome α) → List Val → List (Outcome α)
  | l :: ls, x :: xs => l x :: zipApplyG ls xs
  | _, _ => []

def dictItemsG {α : Type} (valueFirst : Bool) (key value : Val → Outcome α) :
    List (Val × Val) → List (Option TrailEl × Outcome α)
  | [] => []
  | (k, v) :: rest =>
    let ko := (some (TrailEl.itemKey k), key k)
    let vo := (some (TrailEl.key k), value v)
    if valueFirst then vo :: ko :: dictItemsG valueFirst key value rest
    else ko :: vo :: dictItemsG valueFirst key value rest

/-! ### containers built from annotated elements -/

/-- `Val.dedup` on annotated elements: the first of `==`-equal objects is kept -/
def dedupP : List PVal → List PVal
  | [] => []
  | x :: xs => x :: (dedupP xs).filter (fun y => !Val.pyEq x.erase y.erase)

/-- `Val.dictSet` on annotated pairs: an existing key object stays, its value is replaced -/
def dictSetP (kvs : List (PVal × PVal)) (k v : PVal) : List (PVal × PVal) :=
  if kvs.any (fun p => Val.pyEq p.1.erase k.erase)
  then kvs.map (fun p => if Val.pyEq p.1.erase k.erase then (p.1, v) else p)
  else kvs ++ [(k, v)]

/-- `iter_factory(...)`: the container is a new object (iterable_provider.py: `iter_factory(map_iter)`,
    `iter_factory(iter_mapper(value_iter))`) -/
def buildP : Factory → List PVal → Outcome PVal
  | .list, xs => .ok (.node .fresh .list xs)
  | .tuple, xs => .ok (.node .fresh .tuple xs)
  | .deque, xs => .ok (.node .fresh .deque xs)
  | .set, xs =>
    if Val.hashableAll (xs.map PVal.erase) then .ok (.node .fresh .set (dedupP xs)) else .escape "TypeError"
  | .frozenset, xs =>
    if Val.hashableAll (xs.map PVal.erase) then .ok (.node .fresh .frozenset (dedupP xs))
    else .escape "TypeError"

/-- `result = {}; result[k] = v …; return result` (dict_provider.py; the same code shape in the
    loaders and the dumpers) -/
def buildDictP (valueFirst : Bool) : List PVal → List (PVal × PVal) → Outcome PVal
  | a :: b :: rest, acc =>
    let k := if valueFirst then b else a
    let v := if valueFirst then a else b
    if k.erase.hashable then buildDictP valueFirst rest (dictSetP acc k v) else .escape "TypeError"
  | _, acc => .ok (.node .fresh .dict (flatKV acc))

/-! ### load -/

/-- a scalar leaf (concrete_provider.py). The strict `int`/`str`/`bool`/`none` loaders `return data`;
    `float(data)`, `str(data)`, `int(data)` return their argument when it already is of the exact
    class; every other leaf computes a new object. The model cannot see identity, so a result that
    is the same value as the datum is classified `arg` (the conservative choice: it MAY be the
    argument), any other result `fresh`. -/
def scalarP (d : Val) (r : Val) : PVal :=
  if Val.same r d then PVal.ofVal .arg r else PVal.ofVal .fresh r

def loadIterP (cfg : Cfg) (f : Factory) (elem : Val → Outcome PVal) (d : Val) : Outcome PVal :=
  if strictExcluded cfg d then .err (LErr.leaf "ExcludedTypeLoadError" d)
  else
    match d.iterElems with
    | none => .err (LErr.leaf "TypeLoadError" d)
    | some xs => bindO (seqModeG cfg.trail (idxItemsG (xs.map elem))) (buildP f)

def loadTupleP (cfg : Cfg) (loaders : List (Val → Outcome PVal)) (d : Val) : Outcome PVal :=
  if strictExcluded cfg d then .err (LErr.leaf "ExcludedTypeLoadError" d)
  else
    match d.iterElems with
    | none => .err (LErr.leaf "TypeLoadError" d)
    | some xs =>
      let shown := match cfg.trail with | .disable => d | _ => Val.tuple xs
      if xs.length > loaders.length then .err (LErr.leaf "ExtraItemsLoadError" shown)
      else if xs.length < loaders.length then .err (LErr.leaf "NoRequiredItemsLoadError" shown)
      else bindO (seqModeG cfg.trail (idxItemsG (zipApplyG loaders xs)))
            (fun ys => .ok (.node .fresh .tuple ys))       -- `tuple(<generator>)`

def loadDictP (cfg : Cfg) (key value : Val → Outcome PVal) (d : Val) : Outcome PVal :=
  match d with
  | .dict kvs =>
    let vf := cfg.trail == .disable
    bindO (seqModeG cfg.trail (dictItemsG vf key value kvs)) (fun flat => buildDictP vf flat [])
  | _ => .err (LErr.leaf "TypeLoadError" d)

def unionFirstOkG {α : Type} : List (Outcome α) → List LErr → Outcome α × List LErr
  | [], errs => (.err LErr.bare, errs)
  | o :: rest, errs =>
    match o with
    | .err e => unionFirstOkG rest (errs ++ [e])
    | o => (o, errs)

def unionAllG {α : Type} : List (Outcome α) → List LErr → Bool → Outcome α
  | [], errs, unexpected => if unexpected then .escape "ExceptionGroup" else .err (LErr.union errs)
  | o :: rest, errs, unexpected =>
    match o with
    | .err e => unionAllG rest (errs ++ [e]) unexpected
    | .escape _ => unionAllG rest errs true
    | .diverge => .diverge
    | .ok v => if unexpected then unionAllG rest errs unexpected else .ok v

/-- `loadUnion` for any result type; `noneV` is what `return None` of the Optional fast path yields -/
def loadUnionG {α : Type} (noneV : α) (cfg : Cfg) (cases : List Ty) (ld : Ty → Val → Outcome α) (d : Val) :
    Outcome α :=
  match cases with
  | [a, b] =>
    if isNoneTy a || isNoneTy b then
      let other := if isNoneTy a then b else a
      if d.isNone then .ok noneV
      else
        match cfg.trail, ld other d with
        | .disable, o => o
        | _, .err e => .err (LErr.union [LErr.leaf "TypeLoadError" d, e])
        | _, o => o
    else general
  | _ => general
where
  general : Outcome α :=
    let os := cases.map (fun c => ld c d)
    match cfg.trail with
    | .disable =>
      (match unionFirstOkG os [] with
       | (.err _, _) => .err LErr.bare
       | (o, _) => o)
    | .first =>
      (match unionFirstOkG os [] with
       | (.err _, errs) => .err (LErr.union errs)
       | (o, _) => o)
    | .all => unionAllG os [] false

def modelItemsG {α : Type} (dflt : Field → α) (fl : Field → Val → Outcome α) (kvs : List (Val × Val))
    (missing : List String) : List Field → Bool → List (Option TrailEl × Outcome α)
  | [], _ => []
  | f :: rest, reported =>
    match Val.lookup (.str f.name) kvs with
    | some v => (some (TrailEl.key (.str f.name)), fl f v) :: modelItemsG dflt fl kvs missing rest reported
    | none =>
      if f.required then
        if reported then modelItemsG dflt fl kvs missing rest reported
        else (none, .err (LErr.leafD "NoRequiredFieldsLoadError" (.dict kvs) missing))
              :: modelItemsG dflt fl kvs missing rest true
      else (none, .ok (dflt f)) :: modelItemsG dflt fl kvs missing rest reported

/-- a default is never the argument: whatever the caller says that is not `const` is `fresh` -/
def dfltProv : Prov → Prov
  | .const => .const
  | _ => .fresh

/-- the generated model loader (loader_gen.py). An absent optional field takes
    `_get_default_clause_expr`: an inline literal evaluated by every call or `dfl_<id>()` (`fresh`),
    or the captured constant `dfl_<id>` (`const`); which one is the caller-supplied `dp cls field`.
    The constructor call `cls(...)` makes a new object. -/
def loadModelP (cfg : Cfg) (dp : String → String → Prov) (cls : String) (fields : List Field)
    (fl : Field → Val → Outcome PVal) (d : Val) : Outcome PVal :=
  match d with
  | .dict kvs =>
    bindO (seqModeG cfg.trail
            (modelItemsG (fun f => PVal.ofVal (dfltProv (dp cls f.name)) f.default) fl kvs
              (missingRequired fields kvs) fields false))
      (fun vals => .ok (.node .fresh (.obj cls (fields.map (·.name))) vals))
  | _ =>
    match cfg.trail with
    | .all => .err (LErr.agg [LErr.leaf "TypeLoadError" d])
    | _ => .err (LErr.leaf "TypeLoadError" d)

/-- `load` with provenance. `dp cls field` = provenance of the default of an absent optional field. -/
def loadP (W : World) (cfg : Cfg) (dp : String → String → Prov) : Nat → Ty → Val → Outcome PVal
  | 0, _, _ => .diverge
  | n + 1, ty, d =>
    match ty with
    | .scalar s => (W.scalarLoad cfg.strict s d).map (scalarP d)
    | .any => .ok (PVal.ofVal .arg d)                                       -- `as_is_stub`
    | .literal vals => (loadLiteral cfg.strict vals d).map (PVal.ofVal .arg) -- `return data`
    | .union cases _ =>
      -- `return None` of the Optional fast path is taken when `data is None`: the datum itself
      loadUnionG (PVal.ofVal .arg .none) cfg cases (fun c x => loadP W cfg dp n c x) d
    | .iter f _ elem => loadIterP cfg f (loadP W cfg dp n elem) d
    | .tuple elems => loadTupleP cfg (elems.map fun t => loadP W cfg dp n t) d
    | .dict k v => loadDictP cfg (loadP W cfg dp n k) (loadP W cfg dp n v) d
    | .model cls =>
      match W.classes cls with
      | none => .escape "NoSuchClass"
      | some fields => loadModelP cfg dp cls fields (fun f x => loadP W cfg dp n f.ty x) d

/-! ### dump -/

def dumpIterP (cfg : Cfg) (asList : Bool) (elem : Val → Outcome PVal) (x : Val) : Outcome PVal :=
  match x.iterElems with
  | none => .escape "TypeError"
  | some xs =>
    bindO (seqModeDumpG cfg.trail (idxItemsG (xs.map elem)))
      (fun ys => .ok (.node .fresh (if asList then Shape.list else Shape.tuple) ys))

def dumpTupleP (cfg : Cfg) (dumpers : List (Val → Outcome PVal)) (x : Val) : Outcome PVal :=
  match lenOf x with
  | none => .err (LErr.leaf "TypeLoadError" x)
  | some xs =>
    if xs.length > dumpers.length then .err (LErr.leaf "ExtraItemsLoadError" x)
    else if xs.length < dumpers.length then .err (LErr.leaf "NoRequiredItemsLoadError" x)
    else bindO (seqModeDumpG cfg.trail (idxItemsG (zipApplyG dumpers xs)))
          (fun ys => .ok (.node .fresh .tuple ys))

def dumpDictP (cfg : Cfg) (key value : Val → Outcome PVal) (x : Val) : Outcome PVal :=
  match x with
  | .dict kvs =>
    let vf := cfg.trail == .disable
    bindO (seqModeDumpG cfg.trail (dictItemsG vf key value kvs)) (fun flat => buildDictP vf flat [])
  | _ => .escape "AttributeError"

/-- `dumpUnion` with provenance: `None` and a Literal member are returned as they are -/
def dumpUnionP (DW : DumpWorld) (cases : List Ty) (keys : List String) (dm : Ty → Val → Outcome PVal)
    (x : Val) : Outcome PVal :=
  match cases with
  | [a, b] =>
    if isNoneTyD a || isNoneTyD b then
      let other := if isNoneTyD a then b else a
      if x.isNone then .ok (PVal.ofVal .arg .none) else dm other x
    else general
  | _ => general
where
  general : Outcome PVal :=
    match literalVals cases with
    | some vs =>
      if Val.memOf x vs then .ok (PVal.ofVal .arg x)
      else byClass
    | none => byClass
  byClass : Outcome PVal :=
    match dispatchCase DW (dispatchTable keys cases []) x with
    | some t => dm t x
    | none => .escape "KeyError"

/-- `[k0, k1, …]`, `[v0, v1, …]` ↦ `[k0, v0, k1, v1, …]` (the shorter list decides) -/
def interleave {α : Type} : List α → List α → List α
  | k :: ks, v :: vs => k :: v :: interleave ks vs
  | _, _ => []

/-- the generated model dumper (dumper_gen.py `_gen_dict_crown`): a new dict per call whose keys are
    string constants of the generated function (shared between calls, immutable) -/
def dumpModelP (cfg : Cfg) (fields : List Field) (fd : Field → Val → Outcome PVal) (x : Val) :
    Outcome PVal :=
  match x with
  | .obj _ fs =>
    let items := fields.map fun f =>
      (some (TrailEl.attr f.name),
        match getField f.name fs with
        | some v => fd f v
        | none => Outcome.escape "AttributeError")
    bindO (seqModeDumpG cfg.trail items)
      (fun vals => .ok (.node .fresh .dict
        (interleave (fields.map fun f => PVal.node .const (.str f.name) []) vals)))
  | _ => .escape "AttributeError"

def dumpP (W : World) (DW : DumpWorld) (cfg : Cfg) : Nat → Ty → Val → Outcome PVal
  | 0, _, _ => .diverge
  | n + 1, ty, x =>
    match ty with
    | .scalar s => (W.scalarDump s x).map (scalarP x)
    | .any => .ok (PVal.ofVal .arg x)
    | .literal _ => .ok (PVal.ofVal .arg x)
    | .union cases keys => dumpUnionP DW cases keys (fun c y => dumpP W DW cfg n c y) x
    | .iter _ asList elem => dumpIterP cfg asList (dumpP W DW cfg n elem) x
    | .tuple elems => dumpTupleP cfg (elems.map fun t => dumpP W DW cfg n t) x
    | .dict k v => dumpDictP cfg (dumpP W DW cfg n k) (dumpP W DW cfg n v) x
    | .model cls =>
      match W.classes cls with
      | none => .escape "NoSuchClass"
      | some fields => dumpModelP cfg fields (fun f y => dumpP W DW cfg n f.ty y) x

/-! ### allocation identities

  Every `fresh` node stands for one allocation of the call. `label start p` hands out the ids
  `start, start+1, …` to the fresh nodes of `p` (pre-order) and returns the next free id; `loadA` /
  `dumpA` are the calls run against an allocation counter. -/

inductive AVal where
  | node (prov : Prov) (id : Option Nat) (shape : Shape) (kids : List AVal)
  deriving Repr, Inhabited

mutual
  def label : Nat → PVal → AVal × Nat
    | s, .node p sh ks =>
      match p with
      | .fresh => let r := labelL (s + 1) ks; (.node .fresh (some s) sh r.1, r.2)
      | .arg => let r := labelL s ks; (.node .arg none sh r.1, r.2)
      | .const => let r := labelL s ks; (.node .const none sh r.1, r.2)
  def labelL : Nat → List PVal → List AVal × Nat
    | s, [] => ([], s)
    | s, x :: xs =>
      let a := label s x
      let r := labelL a.2 xs
      (a.1 :: r.1, r.2)
end

namespace AVal
mutual
  /-- the ids of all allocations reachable from the value (pre-order, with repetitions if any) -/
  def ids : AVal → List Nat
    | .node _ i _ ks => (match i with | some n => [n] | none => []) ++ idsL ks
  def idsL : List AVal → List Nat
    | [] => []
    | x :: xs => ids x ++ idsL xs
end
mutual
  def strip : AVal → PVal
    | .node p _ sh ks => .node p sh (stripL ks)
  def stripL : List AVal → List PVal
    | [] => []
    | x :: xs => strip x :: stripL xs
end
mutual
  /-- a node carries an id exactly when it is `fresh` -/
  def wellLabelled : AVal → Bool
    | .node p i _ ks => (decide (p = .fresh) == i.isSome) && wellLabelledL ks
  def wellLabelledL : List AVal → Bool
    | [] => true
    | x :: xs => wellLabelled x && wellLabelledL xs
end
end AVal

def loadA (W : World) (cfg : Cfg) (dp : String → String → Prov) (start : Nat) (n : Nat) (T : Ty) (d : Val) :
    Outcome (AVal × Nat) :=
  (loadP W cfg dp n T d).map (label start)

def dumpA (W : World) (DW : DumpWorld) (cfg : Cfg) (start : Nat) (n : Nat) (T : Ty) (x : Val) :
    Outcome (AVal × Nat) :=
  (dumpP W DW cfg n T x).map (label start)

end Adaptix.Morph
