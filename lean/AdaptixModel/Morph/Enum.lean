/-
  Model of the three representation providers of (non-Flag) Enum classes (C18).

  Source modelled (hand-written, tied by correspondence `harness/props/c18.py`):
    src/adaptix/_internal/morphing/enum_provider.py
        EnumNameProvider._make_loader / _make_dumper
        EnumValueProvider._make_loader / _make_dumper
        EnumExactValueProvider._make_loader / _get_exact_value_to_member / _make_dumper
    CPython 3.12 `Enum.__new__` (the call `enum(value)`), as far as the closures use it.

  An enum class is the ordered list of the entries of its body
  (name, value, aliasOf?).  Members are identified by their (unique) name.
-/
import AdaptixModel.Morph.EnumVal
import AdaptixModel.Morph.EnumNames

namespace Adaptix.Enum

/-- An enum member object: `member.name`, `member.value`. -/
structure Member where
  name : String
  value : PyVal
  deriving DecidableEq, Repr, Inhabited

/-- One `NAME = value` line of the class body.  `aliasOf = some n`: Python made this
    name an alias of the earlier member `n` (its value is equal to that member's). -/
structure EnumEntry where
  name : String
  value : PyVal
  aliasOf : Option String := none
  deriving Repr

structure EnumClass where
  entries : List EnumEntry
  /-- `some table`: the class overrides `_missing_` (the hook looks the value up in
      `table` — a dict — and returns that member, or `None`). -/
  missing : Option (List (PyVal × String)) := none
  deriving Repr

/-- `list(enum)`: the canonical members in definition order -/
def EnumClass.iter (c : EnumClass) : List Member :=
  c.entries.filterMap fun e => if e.aliasOf.isNone then some ⟨e.name, e.value⟩ else none

def EnumClass.byName (c : EnumClass) (n : String) : Option Member :=
  c.iter.find? (·.name == n)

/-- `enum.__members__.values()`: one item per entry, aliases resolved to their member -/
def EnumClass.membersValues (c : EnumClass) : List Member :=
  c.entries.filterMap fun e =>
    match e.aliasOf with
    | none => some ⟨e.name, e.value⟩
    | some n => c.byName n

/-- The overridden `_missing_` hook: a dict lookup that swallows `TypeError`. -/
def EnumClass.missingHook (c : EnumClass) (v : PyVal) : Option Member :=
  match c.missing with
  | none => none
  | some table =>
    if v.hashable then
      match dictGet PyVal.pyEq table v with
      | some n => c.byName n
      | none => none
    else none

/-- `enum(value)` — CPython 3.12 `Enum.__new__`; `none` is the `ValueError`. -/
def EnumClass.call (c : EnumClass) (v : PyVal) : Option Member :=
  match v with
  | .self n _ => c.byName n                      -- `if type(value) is cls: return value`
  | _ =>
    let found :=
      if v.hashable then
        -- cls._value2member_map_[value]: the hashable member values
        (c.iter.filter (·.value.hashable)).find? (fun m => m.value.pyEq v)
      else
        -- TypeError: linear search through cls._member_map_.values()
        c.membersValues.find? (fun m => m.value.pyEq v)
    match found with
    | some m => some m
    | none => c.missingHook v                    -- cls._missing_(value)

/-! ### EnumExactValueProvider -/

/-- `_get_exact_value_to_member`: `none` when a value is unhashable (the dict display
    raises `TypeError`) or `_missing_` is overridden. -/
def exactValueToMember (c : EnumClass) : Option (List (PyVal × Member)) :=
  if c.iter.all (·.value.hashable) then
    if c.missing.isSome then none
    else some (dictOfPairs PyVal.pyEq [] (c.iter.map fun m => (m.value, m)))
  else none

/-- `variants = [case.value for case in enum]` -/
def exactVariants (c : EnumClass) : List PyVal := c.iter.map (·.value)

/-- `EnumExactValueProvider._make_loader` -/
def enumExactLoader (c : EnumClass) : PyVal → Outcome Member :=
  let variants := exactVariants c
  match exactValueToMember c with
  | none => fun data =>                          -- enum_exact_loader
    if data.isSelf then .loadErr (.badVariant variants)
    else
      match c.call data with
      | some m => .ok m
      | none => .loadErr (.badVariant variants)
  | some v2m => fun data =>                      -- enum_exact_loader_v2m
    if data.hashable then
      match dictGet PyVal.pyEq v2m data with
      | some m => .ok m
      | none => .loadErr (.badVariant variants)  -- KeyError
    else .loadErr (.badVariant variants)         -- TypeError

/-- `EnumExactValueProvider._make_dumper`: `member_to_value[data]`; `none` = `KeyError` -/
def enumExactDumper (c : EnumClass) : Member → Option PyVal :=
  let memberToValue := dictOfPairs (· == ·) [] (c.iter.map fun m => (m, m.value))
  fun data => dictGet (· == ·) memberToValue data

/-! ### EnumNameProvider -/

def nameVariants (mapping : List (String × Member)) : List PyVal :=
  mapping.map fun p => .atom (.str p.1)

/-- `EnumNameProvider._make_loader`; creation fails when `convert_snake_style` raises. -/
def enumNameLoader (c : EnumClass) (cfg : NameCfg) : Create (PyVal → Outcome Member) :=
  match genForLoading Member.name cfg c.membersValues with
  | none => .raises "ValueError"
  | some mapping => .ok fun data =>
    let variants := nameVariants mapping
    if data.hashable then
      match data.strKey with
      | some s =>
        match dictGet (· == ·) mapping s with
        | some m => .ok m
        | none => .loadErr (.badVariant variants)      -- KeyError
      | none => .loadErr (.badVariant variants)        -- KeyError
    else .loadErr (.badVariant variants)               -- TypeError

/-- `EnumNameProvider._make_dumper` -/
def enumNameDumper (c : EnumClass) (cfg : NameCfg) : Create (Member → Option PyVal) :=
  match genForDumping Member.name cfg c.membersValues with
  | none => .raises "ValueError"
  | some mapping => .ok fun data => (dictGet (· == ·) mapping data).map fun s => .atom (.str s)

/-! ### EnumValueProvider -/

/-- The loader / dumper of `value_type` under strict coercion, for the value types the
    harness uses.  (Their own correctness is not part of C18.) -/
inductive ValueKind where
  | int | str | bool | any
  deriving DecidableEq, Repr

def ValueKind.accepts : ValueKind → PyVal → Bool
  | .int, v => v.isExactInt
  | .str, v => v.isExactStr
  | .bool, v => v.isExactBool
  | .any, _ => true

/-- `value_loader(data)`: the datum itself, or `TypeLoadError` -/
def ValueKind.load (k : ValueKind) (v : PyVal) : Outcome PyVal :=
  if k.accepts v then .ok v else .loadErr .typeLoad

/-- `value_dumper(data.value)`: these dumpers return their argument -/
def ValueKind.dump (_k : ValueKind) (v : PyVal) : PyVal := v

/-- `EnumValueProvider._make_loader` -/
def enumValueLoader (c : EnumClass) (k : ValueKind) (data : PyVal) : Outcome Member :=
  match k.load data with
  | .ok loaded =>
    match c.call loaded with
    | some m => .ok m
    | none => .loadErr (.msg "Bad enum value")
  | .loadErr e => .loadErr e
  | .escape x => .escape x

/-- `EnumValueProvider._make_dumper` -/
def enumValueDumper (k : ValueKind) (m : Member) : PyVal := k.dump m.value

end Adaptix.Enum
