/-
  Name mapping of enum / flag members (C18).

  Source modelled:
    src/adaptix/_internal/name_style.py          convert_snake_style, STYLE_CONVERSIONS
    src/adaptix/_internal/morphing/enum_provider.py
        BaseEnumMappingGenerator.generate_for_dumping / generate_for_loading
        ByNameEnumMappingGenerator._generate_mapping

  `convert_snake_style` is modelled for ASCII names (Python's `str.lower/upper/title`
  and `\w` are Unicode aware; the harness sends only ASCII names to this model).
-/
import AdaptixModel.Morph.EnumVal

namespace Adaptix.Enum

/-! ### name_style.py -/

/-- `str.lower`, `str.upper`, `str.title` -/
inductive CaseConv where
  | lower | upper | title
  deriving DecidableEq, Repr

/-- `StyleConversion(sep, first, other)` -/
structure Style where
  sep : String
  first : CaseConv
  other : CaseConv
  deriving DecidableEq, Repr

/-- `STYLE_CONVERSIONS`, keyed by the `NameStyle` member name -/
def styleOfName : String → Option Style
  | "LOWER_SNAKE" => some ⟨"_", .lower, .lower⟩
  | "CAMEL_SNAKE" => some ⟨"_", .lower, .title⟩
  | "PASCAL_SNAKE" => some ⟨"_", .title, .title⟩
  | "UPPER_SNAKE" => some ⟨"_", .upper, .upper⟩
  | "LOWER_KEBAB" => some ⟨"-", .lower, .lower⟩
  | "CAMEL_KEBAB" => some ⟨"-", .lower, .title⟩
  | "PASCAL_KEBAB" => some ⟨"-", .title, .title⟩
  | "UPPER_KEBAB" => some ⟨"-", .upper, .upper⟩
  | "LOWER" => some ⟨"", .lower, .lower⟩
  | "CAMEL" => some ⟨"", .lower, .title⟩
  | "PASCAL" => some ⟨"", .title, .title⟩
  | "UPPER" => some ⟨"", .upper, .upper⟩
  | "LOWER_DOT" => some ⟨".", .lower, .lower⟩
  | "CAMEL_DOT" => some ⟨".", .lower, .title⟩
  | "PASCAL_DOT" => some ⟨".", .title, .title⟩
  | "UPPER_DOT" => some ⟨".", .upper, .upper⟩
  | _ => none

/-- `str.title` on ASCII: a letter is upper-cased unless the previous character is a letter -/
def titleGo : Bool → List Char → List Char
  | _, [] => []
  | prevCased, c :: cs =>
    if c.isAlpha then (if prevCased then c.toLower else c.toUpper) :: titleGo true cs
    else c :: titleGo false cs

def applyCase : CaseConv → List Char → List Char
  | .lower, l => l.map Char.toLower
  | .upper, l => l.map Char.toUpper
  | .title, l => titleGo false l

/-- `\w` restricted to ASCII -/
def isWordChar (c : Char) : Bool := c.isAlphanum || c == '_'

/-- `REST_SUB.sub(partial(rest_sub, conv), raw_rest)`: maximal runs of `_` have every
    `_` replaced by the separator, the other maximal runs go through `conv.other`. -/
def restSub (st : Style) (rawRest : List Char) : List Char :=
  (rawRest.splitBy (fun a b => (a == '_') == (b == '_'))).flatMap fun run =>
    if run.head? == some '_' then run.flatMap (fun _ => st.sep.toList)
    else applyCase st.other run

/-- `convert_snake_style(name, style)`; `none` is the `ValueError` it raises
    (name not matching `\w+`, or made of underscores only). -/
def convertSnakeStyle (name : String) (st : Style) : Option String :=
  let chars := name.toList
  if chars.isEmpty || !chars.all isWordChar then none       -- is_snake_style
  else
    -- SNAKE_SPLITTER = (_*)([^_]+)(.*?)(_*)$
    let frontUs := chars.takeWhile (· == '_')
    let rem := chars.dropWhile (· == '_')
    if rem.isEmpty then none                                 -- match is None
    else
      let rawFirst := rem.takeWhile (· != '_')
      let rest0 := rem.dropWhile (· != '_')
      let trailingUs := rest0.reverse.takeWhile (· == '_')
      let rawRest := rest0.take (rest0.length - trailingUs.length)
      some (String.ofList (frontUs ++ applyCase st.first rawFirst ++ restSub st rawRest ++ trailingUs))

/-! ### ByNameEnumMappingGenerator -/

/-- A key of the user's `map`: a member name, a member of the class at hand (given by
    its canonical name: `key is case`), or anything that can match no case of the
    class (a member of another enum class). -/
inductive MapKey where
  | name (s : String)
  | member (name : String)
  | foreign
  deriving DecidableEq, Repr

structure NameCfg where
  style : Option Style := none
  map : List (MapKey × String) := []

/-- `_find_by_member`: keys that are enum members are matched by identity -/
def NameCfg.findByMember (cfg : NameCfg) (caseName : String) : Option String :=
  (cfg.map.find? (fun p => p.1 == MapKey.member caseName)).map (·.2)

/-- `self._name_map[case.name]` -/
def NameCfg.findByName (cfg : NameCfg) (caseName : String) : Option String :=
  (cfg.map.find? (fun p => p.1 == MapKey.name caseName)).map (·.2)

/-- The body of the loop of `_generate_mapping` for one case; `none` = `ValueError`
    out of `convert_snake_style`. -/
def NameCfg.mapped (cfg : NameCfg) (caseName : String) : Option String :=
  match cfg.findByMember caseName with
  | some m => some m
  | none =>
    match cfg.findByName caseName with
    | some m => some m
    | none =>
      match cfg.style with
      | some st => convertSnakeStyle caseName st
      | none => some caseName

/-- `_generate_mapping(cases)`: a dict keyed by the case objects, filled in order
    (a case met again — an alias — overwrites its own entry). -/
def genMappingGo {C : Type} [BEq C] (nm : C → String) (cfg : NameCfg) :
    List (C × String) → List C → Option (List (C × String))
  | acc, [] => some acc
  | acc, c :: cs =>
    match cfg.mapped (nm c) with
    | none => none
    | some m => genMappingGo nm cfg (dictSet (· == ·) acc c m) cs

/-- `generate_for_dumping` -/
def genForDumping {C : Type} [BEq C] (nm : C → String) (cfg : NameCfg) (cases : List C) :
    Option (List (C × String)) :=
  genMappingGo nm cfg [] cases

/-- `generate_for_loading`: the mapping inverted by a dict comprehension
    (a later case with the same mapped name overwrites the earlier one). -/
def genForLoading {C : Type} [BEq C] (nm : C → String) (cfg : NameCfg) (cases : List C) :
    Option (List (String × C)) :=
  (genForDumping nm cfg cases).map fun m => dictOfPairs (· == ·) [] (m.map fun p => (p.2, p.1))

end Adaptix.Enum
