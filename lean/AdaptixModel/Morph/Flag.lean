/-
  Model of the two representation providers of Flag classes (C18).

  Source modelled (hand-written, tied by correspondence `harness/props/c18.py`):
    src/adaptix/_internal/morphing/enum_provider.py
        FlagByExactValueProvider._make_loader, flag_exact_value_dumper
        _is_single_bit, _extract_non_compound_cases_from_flag
        FlagByListProvider._get_cases / _make_loader / _make_dumper
    CPython 3.12 `Flag._missing_` (the call `enum(data)` for 0 ≤ data ≤ mask),
    `Flag.__or__`, `Flag.__contains__`.

  A flag class is the ordered list of the (name, value) lines of its body, values
  being natural numbers (classes with negative values are excluded by the
  documentation); zero-valued, single-bit, multi-bit (compound or not) and repeated
  values (aliases) are all allowed.  A flag *value* (member or pseudo-member) is its
  bit pattern: CPython keeps one object per value and class.

  The model describes the repaired code (fixes/C18-flag-zero-member.patch,
  fixes/C18-flag-exact-strict-multibit.patch).
-/
import AdaptixModel.Morph.EnumVal
import AdaptixModel.Morph.EnumNames

namespace Adaptix.Enum

structure FlagEntry where
  name : String
  bits : Nat
  deriving DecidableEq, Repr

structure FlagClass where
  entries : List FlagEntry
  /-- `enum._boundary_ is STRICT` (plain `Flag`); `IntFlag` is `KEEP` -/
  strict : Bool := true
  deriving Repr

/-- An item of `enum.__members__.values()`: the member object, i.e. its canonical
    name (`case.name`) and value. -/
structure FlagCase where
  name : String
  bits : Nat
  deriving DecidableEq, Repr, Inhabited

/-- the name under which a value was first defined (`case.name` of an alias) -/
def FlagClass.canonName (c : FlagClass) (bits : Nat) : Option String :=
  (c.entries.find? (·.bits == bits)).map (·.name)

/-- `enum.__members__.values()` -/
def FlagClass.membersValues (c : FlagClass) : List FlagCase :=
  c.entries.map fun e => ⟨(c.canonName e.bits).getD e.name, e.bits⟩

/-- `other in self` for flags: `other._value_ & self._value_ == other._value_` -/
def flagIn (other self : Nat) : Bool := other &&& self == other

/-! ### FlagByExactValueProvider -/

/-- `reduce(or_, enum.__members__.values()).value` -/
def FlagClass.mask (c : FlagClass) : Nat := c.entries.foldl (fun acc e => acc ||| e.bits) 0

/-- `int.bit_length` -/
def bitLength (n : Nat) : Nat := if n = 0 then 0 else n.log2 + 1

/-- `all_bits = 2 ** flag_mask.bit_length() - 1` -/
def allBits (mask : Nat) : Nat := 2 ^ bitLength mask - 1

/-- what `Flag._missing_` can name inside `v`: the union of the members contained in `v` -/
def FlagClass.cover (c : FlagClass) (v : Nat) : Nat :=
  c.entries.foldl (fun acc e => if flagIn e.bits v then acc ||| e.bits else acc) 0

/-- `enum(data)` for `0 ≤ data ≤ flag_mask` on a class without skipped bits: only a
    STRICT class refuses (`ValueError`), namely a value that contains a member and also
    bits no member contained in it accounts for. -/
def FlagClass.call (c : FlagClass) (v : Nat) : Option Nat :=
  let cov := c.cover v
  if c.strict && cov != 0 && cov != v then none else some v

/-- `FlagByExactValueProvider._make_loader` -/
def flagExactLoader (c : FlagClass) : Create (PyVal → Outcome Nat) :=
  if c.entries.isEmpty then .raises "TypeError"          -- reduce() of an empty sequence
  else
    let flagMask := c.mask
    -- `flag_mask < 0` cannot happen: values are natural numbers
    if allBits flagMask != flagMask then
      .cannotProvide "Cannot create a loader for flag with skipped bits"
    else .ok fun data =>
      match data with
      | .atom (.int i) =>
        if i < 0 || i > (flagMask : Int) then .loadErr (.outOfRange 0 flagMask)
        else
          match c.call i.toNat with
          | some v => .ok v
          | none => .loadErr (.msg "Bad flag value")
      | _ => .loadErr .typeLoad                           -- type(data) is not int

/-- `flag_exact_value_dumper` -/
def flagExactDumper (v : Nat) : PyVal := .atom (.int v)

/-! ### FlagByListProvider -/

/-- `_is_single_bit` -/
def isSingleBit (value : Nat) : Bool := value > 0 && value &&& (value - 1) == 0

/-- `_extract_non_compound_cases_from_flag` -/
def FlagClass.nonCompound (c : FlagClass) : List FlagCase :=
  c.membersValues.filter fun case => isSingleBit case.bits

structure ListOpts where
  allowSingleValue : Bool := false
  allowDuplicates : Bool := true
  allowCompound : Bool := true
  strictCoercion : Bool := true
  deriving DecidableEq, Repr

/-- `_get_cases` -/
def FlagClass.getCases (c : FlagClass) (o : ListOpts) : List FlagCase :=
  if o.allowCompound then c.membersValues else c.nonCompound

/-- `len(process_data) != len(set(process_data))` for hashable items -/
def hasDuplicates : List Atom → Bool
  | [] => false
  | a :: rest => rest.any (fun b => a.pyEq b) || hasDuplicates rest

/-- the `for item in process_data` loop of `flag_loader`: (bad_variants, result) -/
def listLoadLoop (mapping : List (String × FlagCase)) :
    List Atom → List Atom → Nat → List Atom × Nat
  | [], bad, result => (bad, result)
  | item :: rest, bad, result =>
    -- `item not in variants` (== against the str keys), then `mapping[item]`
    match item.strKey.bind (fun s => dictGet (· == ·) mapping s) with
    | none => listLoadLoop mapping rest (bad ++ [item]) result
    | some case => listLoadLoop mapping rest bad (result ||| case.bits)

/-- the body of `flag_loader` after `process_data` has been computed -/
def listLoadItems (o : ListOpts) (mapping : List (String × FlagCase)) (items : List Atom) :
    Outcome Nat :=
  if !o.allowDuplicates && !items.all Atom.hashable then .escape "TypeError"   -- set(process_data)
  else if !o.allowDuplicates && hasDuplicates items then .loadErr .duplicatedValues
  else
    let (bad, result) := listLoadLoop mapping items [] 0
    if bad.isEmpty then .ok result
    else .loadErr (.multipleBadVariant (mapping.map (·.1)) bad)

/-- `FlagByListProvider._make_loader` -/
def flagListLoader (c : FlagClass) (cfg : NameCfg) (o : ListOpts) : Create (PyVal → Outcome Nat) :=
  let cases := c.getCases o
  match genForLoading FlagCase.name cfg cases with
  | none => .raises "ValueError"
  | some mapping =>
    if c.entries.isEmpty then .raises "TypeError"        -- zero_case = enum(0) on a class without members
    else .ok fun data =>
      match data with
      | .list xs => listLoadItems o mapping xs
      | .tuple xs => listLoadItems o mapping xs
      | .mapping ks =>
        if o.strictCoercion then .loadErr .excludedType
        else listLoadItems o mapping ks
      | .atom (.str s) =>
        if o.allowSingleValue then listLoadItems o mapping [.str s]
        else .loadErr .typeLoad
      | _ => .loadErr .typeLoad
      -- (instances of the flag class itself are iterable in CPython 3.12 — `Flag.__iter__` — and are
      --  not sent to this model; every theorem about this loader is stated for plain data)

/-- the `for case in cases` loop of `flag_dumper`: (cases_sum, result) -/
def listDumpLoop (mapping : List (FlagCase × String)) (value : Nat) :
    List FlagCase → Nat → List String → Nat × List String
  | [], casesSum, result => (casesSum, result)
  | case :: rest, casesSum, result =>
    if flagIn case.bits value && !flagIn case.bits casesSum then
      listDumpLoop mapping value rest (casesSum ||| case.bits)
        (result ++ [(dictGet (· == ·) mapping case).getD ""])
    else listDumpLoop mapping value rest casesSum result

/-- `FlagByListProvider._make_dumper` -/
def flagListDumper (c : FlagClass) (cfg : NameCfg) (o : ListOpts) : Create (Nat → List String) :=
  let cases0 := c.getCases o
  let needToReverse := o.allowCompound && cases0 != c.nonCompound
  let cases := if needToReverse then cases0.reverse else cases0
  match genForDumping FlagCase.name cfg cases with
  | none => .raises "ValueError"
  | some mapping =>
    if c.entries.isEmpty then .raises "TypeError"        -- zero_case = enum(0)
    else .ok fun value =>
      let (_, result) := listDumpLoop mapping value cases 0 []
      if needToReverse then result.reverse else result

end Adaptix.Enum
