/-
  Scalar leaves = the TRANSLATED closures of the working tree (Generated/Scalars.lean) run by the
  mini-Python evaluator; what each call site does comes from an oracle (in the driver: the outcomes
  the harness observed on the real stdlib; in the theorems: any oracle within the catalogue).
-/
import AdaptixModel.Morph.Core
import AdaptixModel.MiniPy.Eval
import AdaptixModel.Generated.Scalars

namespace Adaptix.Morph
open Adaptix.Py Adaptix.MiniPy

def objectFacts : Facts := { tag := "object", ancestors := [], isNone := false }

/-- the facts a closure can observe about a datum; a class outside the catalogued universe is
    treated as a plain object -/
def factsOf (d : Val) : Facts :=
  match Generated.Scalars.tagFacts.find? (fun f => f.tag == d.tag) with
  | some f => f
  | none => objectFacts

def isLoadErrorClass (e : String) : Bool := (Generated.Scalars.excAncestors e).contains "LoadError"

def closureOf (s : String) (strict : Bool) : Option (Block × (String → String → List SiteClass)) :=
  (Generated.Scalars.closures.find? (fun c => c.1 == (s, strict))).map (·.2)

abbrev SiteOracle := Bool → String → Val → String → SiteOut Val

def closureEnv (oracle : SiteOracle) (strict : Bool) (s : String) (d : Val) : Env Val :=
  { ancestors := Generated.Scalars.excAncestors, data := d, noneV := .none, facts := factsOf d,
    site := oracle strict s d }

def resToOutcome (d : Val) : Res Val → Outcome Val
  | .ret v => .ok v
  | .cont => .ok .none
  | .raised e => if isLoadErrorClass e then .err (LErr.leaf e d) else .escape e

/-- run the translated loader closure of scalar `s` on the datum -/
def scalarLoadGen (oracle : SiteOracle) (strict : Bool) (s : String) (d : Val) : Outcome Val :=
  match closureOf s strict with
  | none => .escape s!"NoTranslatedClosure:{s}"
  | some (prog, _) => resToOutcome d (runClosure (closureEnv oracle strict s d) prog)

def knownScalar (s : String) : Bool :=
  (closureOf s true).isSome && (closureOf s false).isSome

end Adaptix.Morph
