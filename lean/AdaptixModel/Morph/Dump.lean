/-
  `dump`: semantics of the dumpers the builtin providers produce.
  A dumper that fails raises an arbitrary exception (KeyError of the union
  dispatch, TypeError of `iter`, AttributeError of a field access, the
  LoadErrors the tuple dumper raises on a length mismatch …); ALL mode wraps
  whatever was collected in a plain ExceptionGroup.
-/
import AdaptixModel.Morph.Core

namespace Adaptix.Morph
open Adaptix.Py

/-- ALL-mode dumpers collect every exception and raise `ExceptionGroup` -/
def seqModeDump (t : DebugTrail) (items : List (Option TrailEl × Outcome Val)) : Outcome (List Val) :=
  match t with
  | .disable => seqDisable items
  | .first => seqFirst items
  | .all =>
    let s := sweepAll items
    if s.diverged then .diverge
    else if s.unexpected || !s.errs.isEmpty then .escape "ExceptionGroup"
    else .ok s.vals

def idxItemsD (os : List (Outcome Val)) : List (Option TrailEl × Outcome Val) :=
  os.zipIdx.map fun (o, i) => (some (TrailEl.idx i), o)

def dumpIter (cfg : Cfg) (asList : Bool) (elem : Val → Outcome Val) (x : Val) : Outcome Val :=
  match x.iterElems with
  | none => .escape "TypeError"
  | some xs =>
    bindO (seqModeDump cfg.trail (idxItemsD (xs.map elem)))
      (fun ys => .ok (if asList then .list ys else .tuple ys))

def zipApplyD : List (Val → Outcome Val) → List Val → List (Outcome Val)
  | l :: ls, x :: xs => l x :: zipApplyD ls xs
  | _, _ => []

/-- `len(data)` -/
def lenOf : Val → Option (List Val)
  | .iter _ => none
  | v => v.iterElems

def dumpTuple (cfg : Cfg) (dumpers : List (Val → Outcome Val)) (x : Val) : Outcome Val :=
  match lenOf x with
  | none => .err (LErr.leaf "TypeLoadError" x)
  | some xs =>
    if xs.length > dumpers.length then .err (LErr.leaf "ExtraItemsLoadError" x)
    else if xs.length < dumpers.length then .err (LErr.leaf "NoRequiredItemsLoadError" x)
    else bindO (seqModeDump cfg.trail (idxItemsD (zipApplyD dumpers xs))) (fun ys => .ok (.tuple ys))

def dictItemsD (valueFirst : Bool) (key value : Val → Outcome Val) :
    List (Val × Val) → List (Option TrailEl × Outcome Val)
  | [] => []
  | (k, v) :: rest =>
    let ko := (some (TrailEl.itemKey k), key k)
    let vo := (some (TrailEl.key k), value v)
    if valueFirst then vo :: ko :: dictItemsD valueFirst key value rest
    else ko :: vo :: dictItemsD valueFirst key value rest

def buildDictD (valueFirst : Bool) : List Val → List (Val × Val) → Outcome Val
  | a :: b :: rest, acc =>
    let k := if valueFirst then b else a
    let v := if valueFirst then a else b
    if k.hashable then buildDictD valueFirst rest (Val.dictSet acc k v) else .escape "TypeError"
  | _, acc => .ok (.dict acc)

def dumpDict (cfg : Cfg) (key value : Val → Outcome Val) (x : Val) : Outcome Val :=
  match x with
  | .dict kvs =>
    let vf := cfg.trail == .disable
    bindO (seqModeDump cfg.trail (dictItemsD vf key value kvs)) (fun flat => buildDictD vf flat [])
  | _ => .escape "AttributeError"

/-- `ClassDispatcher({origin: dumper ...})`: a later case with the same origin replaces the
    dumper of the earlier one but keeps its position -/
def dispatchTable : List String → List Ty → List (String × Ty) → List (String × Ty)
  | k :: ks, t :: ts, acc =>
    if acc.any (fun p => p.1 == k) then dispatchTable ks ts (acc.map fun p => if p.1 == k then (k, t) else p)
    else dispatchTable ks ts (acc ++ [(k, t)])
  | _, _, acc => acc

structure DumpWorld where
  mro : Val → List String              -- `type(x).__mro__` as class tags
  supers : Val → List String           -- classes `issubclass(type(x), ·)` holds for (incl. ABC registrations)

/-- `dispatch(type(data))`: the first class of the MRO that is a key; otherwise (repaired code)
    the first key, in dict order, the value's class is a virtual subclass of -/
def dispatchCase (DW : DumpWorld) (table : List (String × Ty)) (x : Val) : Option Ty :=
  match (DW.mro x).findSome? (fun c => (table.find? fun p => p.1 == c).map (·.2)) with
  | some t => some t
  | none => (table.find? fun p => (DW.supers x).contains p.1).map (·.2)

def isNoneTyD : Ty → Bool
  | .scalar "none" => true
  | _ => false

def literalVals : List Ty → Option (List Val)
  | [] => none
  | .literal vs :: _ => some vs
  | _ :: rest => literalVals rest

def dumpUnion (DW : DumpWorld) (cases : List Ty) (keys : List String) (dm : Ty → Val → Outcome Val) (x : Val) :
    Outcome Val :=
  match cases with
  | [a, b] =>
    if isNoneTyD a || isNoneTyD b then
      let other := if isNoneTyD a then b else a
      if x.isNone then .ok .none else dm other x
    else general
  | _ => general
where
  general : Outcome Val :=
    -- `if data in literal_cases: return literal_dumper(data)` (literal dumper is as-is here)
    match literalVals cases with
    | some vs =>
      if Val.memOf x vs then .ok x
      else byClass
    | none => byClass
  byClass : Outcome Val :=
    match dispatchCase DW (dispatchTable keys cases []) x with
    | some t => dm t x
    | none => .escape "KeyError"

def getField (name : String) : List (String × Val) → Option Val
  | [] => none
  | (n, v) :: rest => if n == name then some v else getField name rest

def dumpModel (cfg : Cfg) (fields : List Field) (fd : Field → Val → Outcome Val) (x : Val) : Outcome Val :=
  match x with
  | .obj _ fs =>
    let items := fields.map fun f =>
      (some (TrailEl.attr f.name),
        match getField f.name fs with
        | some v => fd f v
        | none => Outcome.escape "AttributeError")
    bindO (seqModeDump cfg.trail items)
      (fun vals => .ok (.dict ((fields.map fun f => Val.str f.name).zip vals)))
  | _ => .escape "AttributeError"

def dump (W : World) (DW : DumpWorld) (cfg : Cfg) : Nat → Ty → Val → Outcome Val
  | 0, _, _ => .diverge
  | n + 1, ty, x =>
    match ty with
    | .scalar s => W.scalarDump s x
    | .any => .ok x
    | .literal _ => .ok x
    | .union cases keys => dumpUnion DW cases keys (fun c y => dump W DW cfg n c y) x
    | .iter _ asList elem => dumpIter cfg asList (dump W DW cfg n elem) x
    | .tuple elems => dumpTuple cfg (elems.map fun t => dump W DW cfg n t) x
    | .dict k v => dumpDict cfg (dump W DW cfg n k) (dump W DW cfg n v) x
    | .model cls =>
      match W.classes cls with
      | none => .escape "NoSuchClass"
      | some fields => dumpModel cfg fields (fun f y => dump W DW cfg n f.ty y) x

end Adaptix.Morph
