/-
  `UnionProvider.provide_dumper`: "if all(dumper == as_is_stub for dumper in dumpers): return as_is_stub"
  (and the same for the single-optional case). A union all of whose case dumpers are the identity is
  dumped as is, WITHOUT the class dispatch. The frozen `dump` has no such shortcut, so the dumper of a
  type is `dump` of its *dump view*: those unions replaced by `.any`.
-/
import AdaptixModel.Morph.Dump
import AdaptixModel.Generated.Scalars

namespace Adaptix.Morph

mutual
  /-- the dumper the providers produce for this type is `as_is_stub` -/
  def Ty.asIsDump (asIs : String → Bool) : Ty → Bool
    | .scalar s => asIs s
    | .any => true
    | .literal _ => true
    | .union cs _ => Ty.asIsDumpAll asIs cs
    | _ => false
  def Ty.asIsDumpAll (asIs : String → Bool) : List Ty → Bool
    | [] => true
    | t :: ts => Ty.asIsDump asIs t && Ty.asIsDumpAll asIs ts
end

mutual
  def Ty.dumpView (asIs : String → Bool) : Ty → Ty
    | .union cs ks => if Ty.asIsDumpAll asIs cs then .any else .union (Ty.dumpViewAll asIs cs) ks
    | .iter f dl e => .iter f dl (Ty.dumpView asIs e)
    | .tuple es => .tuple (Ty.dumpViewAll asIs es)
    | .dict k v => .dict (Ty.dumpView asIs k) (Ty.dumpView asIs v)
    | t => t
  def Ty.dumpViewAll (asIs : String → Bool) : List Ty → List Ty
    | [] => []
    | t :: ts => Ty.dumpView asIs t :: Ty.dumpViewAll asIs ts
end

def builtinAsIs (s : String) : Bool := Generated.Scalars.asIsDumpScalars.contains s

/-- the class table as the dumpers see it -/
def World.dumpView (W : World) : World :=
  { W with classes := fun c => (W.classes c).map fun fs => fs.map fun f => { f with ty := f.ty.dumpView builtinAsIs } }

/-- the dumper of a type under the builtin recipe -/
def dumpTop (W : World) (DW : DumpWorld) (cfg : Cfg) (n : Nat) (T : Ty) (x : Py.Val) : Outcome Py.Val :=
  dump W.dumpView DW cfg n (T.dumpView builtinAsIs) x

end Adaptix.Morph
