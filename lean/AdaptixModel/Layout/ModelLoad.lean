/-
  Layout/ModelLoad — semantics of the code emitted by `BuiltinModelLoaderGen`
  (morphing/model/loader_gen.py), construct by construct:

    produce_code                       → `loadModel`
    _gen_dict_crown / _gen_list_crown  → `loadBranch` (+ `loadDictChildren` / `loadListChildren`)
    _gen_crown_dispatch                → the `match` on the child crown in the children functions
    _gen_assignment_from_parent_data   → `getFromDict` / `getFromList`
    _gen_field_crown, _gen_optional_field_extraction_from_mapping → `fieldFromDict` / `fieldFromList`
    _gen_field_assignment              → `assignField`
    _gen_raise_bad_type_error          → `raiseBadType`
    Namer.with_trail / emit_error      → `withTrail` / `emit`
    _maybe_wrap_with_type_load_error_catching → `wrap`
    _gen_extra_targets_assignment      → `assignTargets`
    state.type_checked_type_paths      → the `checked` flag threaded through the children of one node
        (the generator marks the parent path as type checked at the first child that is not a
        none-crown; every node path is visited once, so the set is a per-node flag)

  The data universe is `Val` (Layout/Basic.lean): in it the `except Exception` clauses that the
  FIRST/ALL modes add around subscription (`_gen_unexpected_exc_catching`) can never fire
  (subscription of None/bool/int/str/list/dict raises only KeyError/IndexError/TypeError) and are
  not modelled.  Field loaders are parameters: total functions returning a value or an error that
  already carries its own trail.
-/
import AdaptixModel.Layout.Crown

namespace Adaptix.Layout

inductive DebugTrail where
  | disable | first | all
deriving DecidableEq, Repr, Inhabited

/-- the load errors the generated code creates (classes of morphing/load_error.py) -/
inductive LErr where
  /-- `TypeLoadError(expected, input)`; `expected` is "Mapping" / "Sequence" for the container checks -/
  | typeLoad (expected : String) (input : Val)
  /-- `ExcludedTypeLoadError(CollectionsSequence, str, input)` -/
  | excludedType (input : Val)
  | noRequiredFields (fields : List String) (input : Val)
  | noRequiredItems (expectedLen : Nat) (input : Val)
  | extraFields (fields : List String) (input : Val)
  | extraItems (expectedLen : Nat) (input : Val)
  /-- any other exception (raised by a field loader, or escaping the generated code) -/
  | other (cls : String) (input : Val)
deriving Repr, Inhabited

/-- an error together with its struct trail (`_adaptix_struct_trail`) -/
structure TErr where
  trail : Path
  err : LErr
deriving Repr, Inhabited

structure LoadCfg where
  mode : DebugTrail
  strict : Bool
  move : InpExtraMove
  fields : List Field
  /-- field loaders (`loader_<id>`), parameters of the property -/
  loader : String → Val → Except TErr Val

def LoadCfg.field (cfg : LoadCfg) (id : String) : Field :=
  (cfg.fields.find? fun f => f.id == id).getD { id := id }

/-- `_can_collect_extra` -/
def LoadCfg.canCollect (cfg : LoadCfg) : Bool :=
  cfg.move != .none

/-- the Python locals the generated function mutates: `f_<id>` / `packed_fields[...]` and `errors` -/
structure LState where
  args : List (String × Val) := []
  errors : List TErr := []
deriving Repr, Inhabited

/-- how a fragment of generated code ends -/
inductive Res (α : Type) where
  | ok (a : α)
  /-- a `raise` travelling to the nearest handler -/
  | raised (e : TErr)
  /-- `raise AggregateLoadError(..., [e])` emitted by root-level code in ALL mode -/
  | fatal (es : List TErr)
deriving Repr

/-- `Namer.with_trail`: FIRST and ALL put the path in front of the trail, DISABLE leaves the error alone -/
def withTrail (mode : DebugTrail) (p : Path) (e : TErr) : TErr :=
  match mode with
  | .disable => e
  | _ => { e with trail := p ++ e.trail }

/-- `Namer.emit_error`: `errors.append(...)` in ALL, `raise ...` otherwise -/
def emit (cfg : LoadCfg) (p : Path) (e : LErr) (st : LState) : LState × Res Unit :=
  let te := withTrail cfg.mode p ⟨[], e⟩
  match cfg.mode with
  | .all => ({ st with errors := st.errors ++ [te] }, .ok ())
  | _ => (st, .raised te)

/-- `_gen_raise_bad_type_error(state, error, namer)` where `p` is the namer's path -/
def raiseBadType {α : Type} (cfg : LoadCfg) (p : Path) (e : LErr) (st : LState) : LState × Res α :=
  if p.isEmpty && cfg.mode == .all then (st, .fatal [⟨[], e⟩])
  else (st, .raised (withTrail cfg.mode p ⟨[], e⟩))

/-- `_gen_field_assignment(assign_to, field_id, loader_arg)` at crown path `p` -/
def assignField (cfg : LoadCfg) (p : Path) (id : String) (v : Val) (st : LState) : LState × Res Unit :=
  match cfg.loader id v with
  | .ok x => ({ st with args := st.args ++ [(id, x)] }, .ok ())
  | .error e =>
    match cfg.mode with
    | .disable => (st, .raised e)
    | .first => (st, .raised { e with trail := p ++ e.trail })
    | .all => ({ st with errors := st.errors ++ [{ e with trail := p ++ e.trail }] }, .ok ())

/-- `on_lookup_error` of an optional field: a packed field is not passed (`pass`), otherwise the
    default clause is assigned -/
def onLookupError (cfg : LoadCfg) (id : String) (st : LState) : LState :=
  match (cfg.field id).default with
  | some d => { st with args := st.args ++ [(id, d)] }
  | none => st

/-- `_get_dict_crown_required_keys` -/
def requiredKeys (cfg : LoadCfg) : List (String × InpCrown) → List String
  | [] => []
  | (k, .field id) :: r => if (cfg.field id).required then k :: requiredKeys cfg r else requiredKeys cfg r
  | (k, _) :: r => k :: requiredKeys cfg r

def knownKeys : List (String × InpCrown) → List String
  | [] => []
  | (k, _) :: r => k :: knownKeys r

/-- the items of a dict datum whose key is not known: `{key: data[key] for key in set(data) - known_keys}`
    (in the order of the datum; Python dict keys are unique) -/
def unknownItems (known : List String) : Val → List (String × Val)
  | .dict kvs => kvs.filter fun kv => !known.contains kv.1
  | _ => []

/-- `set(data) - known_keys` -/
def unknownKeys (known : List String) (d : Val) : List String :=
  (unknownItems known d).map (·.1)

/-- the `except KeyError:` clause of a required element of a dict node at `p`:
    DISABLE/FIRST raise, ALL records the error once per node (`has_not_found_error`) -/
def notFoundDict (cfg : LoadCfg) (p : Path) (d : Val) (req : List String) (hnf : Bool) (st : LState) :
    LState × Res Bool :=
  let e : LErr := .noRequiredFields (req.filter fun k => !d.keys.contains k) d
  match cfg.mode with
  | .all =>
    if hnf then (st, .ok true)
    else ({ st with errors := st.errors ++ [withTrail cfg.mode p ⟨[], e⟩] }, .ok true)
  | _ => (st, .raised (withTrail cfg.mode p ⟨[], e⟩))

/-- `_gen_assignment_from_parent_data` below a dict node at `p` with datum `d`:
    ```
    try: x = data[key]
    except KeyError: <not found>
    except (TypeError, IndexError): raise TypeLoadError(CollectionsMapping, data)   # only if not type checked yet
    ```
    returns the value (or `none` when ALL mode goes on after a missing key) and the new `has_not_found_error` -/
def getFromDict (cfg : LoadCfg) (p : Path) (d : Val) (req : List String) (k : String) (checked hnf : Bool)
    (st : LState) : LState × Res (Option Val × Bool) :=
  match d.getItem (.s k) with
  | .found v => (st, .ok (some v, hnf))
  | .keyError =>
    match notFoundDict cfg p d req hnf st with
    | (st', .ok hnf') => (st', .ok (none, hnf'))
    | (st', .raised e) => (st', .raised e)
    | (st', .fatal es) => (st', .fatal es)
  | _ =>
    if checked then (st, .raised ⟨[], .other "TypeError" d⟩)      -- unreachable: see `checked`
    else raiseBadType cfg p (.typeLoad "Mapping" d) st

/-- `_gen_assignment_from_parent_data` below a list node at `p` with datum `d` and `n = len(crown.map)`:
    ```
    try: x = data[i]
    except IndexError: raise NoRequiredItemsLoadError(n, data)      # ALL: pass (reported by the length check)
    except (TypeError, KeyError): raise TypeLoadError(CollectionsSequence, data)   # only if not type checked yet
    ``` -/
def getFromList (cfg : LoadCfg) (p : Path) (d : Val) (n i : Nat) (checked : Bool) (st : LState) :
    LState × Res (Option Val) :=
  match d.getItem (.i i) with
  | .found v => (st, .ok (some v))
  | .indexError =>
    match cfg.mode with
    | .all => (st, .ok none)
    | _ => (st, .raised (withTrail cfg.mode p ⟨[], .noRequiredItems n d⟩))
  | _ =>
    if checked then (st, .raised ⟨[], .other "TypeError" d⟩)      -- unreachable: see `checked`
    else raiseBadType cfg p (.typeLoad "Sequence" d) st

/-- `_gen_field_crown` for a field crown at key `k` of a dict node at `p` -/
def fieldFromDict (cfg : LoadCfg) (p : Path) (d : Val) (req : List String) (k id : String) (checked hnf : Bool)
    (st : LState) : LState × Res Bool :=
  if (cfg.field id).required then
    match getFromDict cfg p d req k checked hnf st with
    | (st', .ok (some v, hnf')) =>
      match assignField cfg (p ++ [.s k]) id v st' with
      | (st'', .ok ()) => (st'', .ok hnf')
      | (st'', .raised e) => (st'', .raised e)
      | (st'', .fatal es) => (st'', .fatal es)
    | (st', .ok (none, hnf')) => (st', .ok hnf')
    | (st', .raised e) => (st', .raised e)
    | (st', .fatal es) => (st', .fatal es)
  else
    -- `_gen_optional_field_extraction_from_mapping`:
    --   type checked parent:  `if key in data: ... else: <on_lookup_error>`
    --   otherwise:            `getter = data.get` (AttributeError → bad type), `getter(key, sentinel)`
    match d with
    | .dict _ =>
      match d.getItem (.s k) with
      | .found v =>
        match assignField cfg (p ++ [.s k]) id v st with
        | (st', .ok ()) => (st', .ok hnf)
        | (st', .raised e) => (st', .raised e)
        | (st', .fatal es) => (st', .fatal es)
      | _ => (onLookupError cfg id st, .ok hnf)
    | _ =>
      if checked then (st, .raised ⟨[], .other "TypeError" d⟩)    -- unreachable: see `checked`
      else raiseBadType cfg p (.typeLoad "Mapping" d) st

/-- `_gen_field_crown` for a (required) field crown at index `i` of a list node at `p` -/
def fieldFromList (cfg : LoadCfg) (p : Path) (d : Val) (n i : Nat) (id : String) (checked : Bool)
    (st : LState) : LState × Res Unit :=
  match getFromList cfg p d n i checked st with
  | (st', .ok (some v)) => assignField cfg (p ++ [.i i]) id v st'
  | (st', .ok none) => (st', .ok ())
  | (st', .raised e) => (st', .raised e)
  | (st', .fatal es) => (st', .fatal es)

/-- `_maybe_wrap_with_type_load_error_catching`: in ALL mode the body of a non-root node is run in
    `try: ... except TypeLoadError as e: errors.append(e)`; the only `raise` statements of ALL mode
    are those of `_gen_raise_bad_type_error` (TypeLoadError / ExcludedTypeLoadError) -/
def wrap (cfg : LoadCfg) (p : Path) (dflt : Val) (r : LState × Res Val) : LState × Res Val :=
  if cfg.mode == .all && !p.isEmpty then
    match r with
    | (st, .raised e) => ({ st with errors := st.errors ++ [e] }, .ok dflt)
    | other => other
  else r

def insertExtra (k : String) (v : Val) (extra : List (String × Val)) : List (String × Val) :=
  extra ++ [(k, v)]

/-- the literal `[{} if leaf else None for sub_crown in crown.map]` -/
def listExtraLiteral : List InpCrown → List Val
  | [] => []
  | .field _ :: r => .dict [] :: listExtraLiteral r
  | .none :: r => .dict [] :: listExtraLiteral r
  | _ :: r => .none :: listExtraLiteral r

/-- `emit_error(e)` followed by the rest of the node, whose value is `v` -/
def emitThen (cfg : LoadCfg) (p : Path) (e : LErr) (v : Val) (st : LState) : LState × Res Val :=
  match emit cfg p e st with
  | (st2, .ok ()) => (st2, .ok v)
  | (st2, .raised e) => (st2, .raised e)
  | (st2, .fatal es) => (st2, .fatal es)

/-- the extra-policy fragment at the end of `_gen_dict_crown`:
    ```
    ExtraForbid : extra_set = set(data) - known_keys; if extra_set: <emit ExtraFieldsLoadError(extra_set, data)>
    ExtraCollect: for key in set(data) - known_keys: extra[key] = data[key]
    ``` -/
def dictPolicy (cfg : LoadCfg) (p : Path) (pol : Policy) (known : List String) (d : Val)
    (extra : List (String × Val)) (st : LState) : LState × Res Val :=
  match pol with
  | .forbid =>
    if (unknownKeys known d).isEmpty then (st, .ok (.dict extra))
    else emitThen cfg p (.extraFields (unknownKeys known d) d) (.dict extra) st
  | .collect => (st, .ok (.dict (extra ++ unknownItems known d)))
  | .skip => (st, .ok (.dict extra))

/-- the length check at the end of `_gen_list_crown`:
    ```
    ExtraForbid: if len(data) != n: if len(data) < n: <emit NoRequiredItems(n)> else: <emit ExtraItems(n)>
    otherwise  : if len(data) < n: <emit NoRequiredItems(n)>
    ``` -/
def listLength (cfg : LoadCfg) (p : Path) (pol : Policy) (n : Nat) (d : Val) (extra : List Val) (st : LState) :
    LState × Res Val :=
  if pol == .forbid then
    if d.len != n then
      if d.len < n then emitThen cfg p (.noRequiredItems n d) (.list extra) st
      else emitThen cfg p (.extraItems n d) (.list extra) st
    else (st, .ok (.list extra))
  else
    if d.len < n then emitThen cfg p (.noRequiredItems n d) (.list extra) st
    else (st, .ok (.list extra))

/-- `type(data) is str` -/
def Val.isStr : Val → Bool
  | .str _ => true
  | _ => false

mutual
/-- code of `_gen_dict_crown` / `_gen_list_crown` for the node at path `p` once its datum `d` has been
    extracted; the result is the node's `extra_<n>` value -/
def loadBranch (cfg : LoadCfg) (p : Path) (d : Val) : InpCrown → LState → LState × Res Val
  | .dict m pol, st =>
    wrap cfg p (.dict []) <|
      match loadDictChildren cfg p d (requiredKeys cfg m) m false false [] st with
      | (st1, .raised e) => (st1, .raised e)
      | (st1, .fatal es) => (st1, .fatal es)
      | (st1, .ok (checked, extra)) =>
        -- `if not isinstance(data, CollectionsMapping): raise ...` unless already type checked
        if !checked && !d.isMapping then raiseBadType cfg p (.typeLoad "Mapping" d) st1
        else dictPolicy cfg p pol (knownKeys m) d extra st1
  | .list m pol, st =>
    wrap cfg p (.list (listExtraLiteral m)) <|
      -- `if type(data) is str: raise ExcludedTypeLoadError(...)` (strict_coercion only)
      if cfg.strict && d.isStr then raiseBadType cfg p (.excludedType d) st
      else
        match loadListChildren cfg p d m.length m 0 false [] st with
        | (st1, .raised e) => (st1, .raised e)
        | (st1, .fatal es) => (st1, .fatal es)
        | (st1, .ok (checked, extra)) =>
          if !checked && !d.isSequence then raiseBadType cfg p (.typeLoad "Sequence" d) st1
          else listLength cfg p pol m.length d extra st1
  | .field _, st => (st, .raised ⟨[], .other "TypeError" d⟩)    -- `_gen_root_crown_dispatch` refuses a leaf
  | .none, st => (st, .raised ⟨[], .other "TypeError" d⟩)

/-- the loop `for key, value in crown.map.items(): self._gen_crown_dispatch(state, value, key)` of a dict
    node; `checked` = parent path already in `type_checked_type_paths`, `hnf` = `has_not_found_error` -/
def loadDictChildren (cfg : LoadCfg) (p : Path) (d : Val) (req : List String) :
    List (String × InpCrown) → Bool → Bool → List (String × Val) → LState → LState × Res (Bool × List (String × Val))
  | [], checked, _, extra, st => (st, .ok (checked, extra))
  | (_, .none) :: r, checked, hnf, extra, st =>               -- `_gen_none_crown`: pass
    loadDictChildren cfg p d req r checked hnf extra st
  | (k, .field id) :: r, checked, hnf, extra, st =>
    match fieldFromDict cfg p d req k id checked hnf st with
    | (st', .ok hnf') => loadDictChildren cfg p d req r true hnf' extra st'
    | (st', .raised e) => (st', .raised e)
    | (st', .fatal es) => (st', .fatal es)
  | (k, c) :: r, checked, hnf, extra, st =>                   -- a nested dict / list crown
    match getFromDict cfg p d req k checked hnf st with
    | (st', .ok (some v, hnf')) =>
      match loadBranch cfg (p ++ [.s k]) v c st' with
      | (st'', .ok ex) => loadDictChildren cfg p d req r true hnf' (insertExtra k ex extra) st''
      | (st'', .raised e) => (st'', .raised e)
      | (st'', .fatal es) => (st'', .fatal es)
    | (st', .ok (none, hnf')) => loadDictChildren cfg p d req r true hnf' extra st'
    | (st', .raised e) => (st', .raised e)
    | (st', .fatal es) => (st', .fatal es)

/-- the loop `for key, value in enumerate(crown.map)` of a list node; `i` is the running index -/
def loadListChildren (cfg : LoadCfg) (p : Path) (d : Val) (n : Nat) :
    List InpCrown → Nat → Bool → List Val → LState → LState × Res (Bool × List Val)
  | [], _, checked, extra, st => (st, .ok (checked, extra))
  | .none :: r, i, checked, extra, st =>
    loadListChildren cfg p d n r (i + 1) checked (extra ++ [.dict []]) st
  | .field id :: r, i, checked, extra, st =>
    match fieldFromList cfg p d n i id checked st with
    | (st', .ok ()) => loadListChildren cfg p d n r (i + 1) true (extra ++ [.dict []]) st'
    | (st', .raised e) => (st', .raised e)
    | (st', .fatal es) => (st', .fatal es)
  | c :: r, i, checked, extra, st =>
    match getFromList cfg p d n i checked st with
    | (st', .ok (some v)) =>
      match loadBranch cfg (p ++ [.i i]) v c st' with
      | (st'', .ok ex) => loadListChildren cfg p d n r (i + 1) true (extra ++ [ex]) st''
      | (st'', .raised e) => (st'', .raised e)
      | (st'', .fatal es) => (st'', .fatal es)
    | (st', .ok none) => loadListChildren cfg p d n r (i + 1) true (extra ++ [.none]) st'
    | (st', .raised e) => (st', .raised e)
    | (st', .fatal es) => (st', .fatal es)
end

def InpCrown.policy : InpCrown → Policy
  | .dict _ p => p
  | .list _ p => p
  | _ => .skip

/-- `_gen_extra_targets_assignment` -/
def assignTargets (cfg : LoadCfg) (rootPolicy : Policy) (extra : Val) : List String → LState → LState × Res Unit
  | [], st => (st, .ok ())
  | t :: r, st =>
    if rootPolicy == .collect then
      match assignField cfg [] t extra st with
      | (st', .ok ()) => assignTargets cfg rootPolicy extra r st'
      | other => other
    else if (cfg.field t).required then
      match assignField cfg [] t (.dict []) st with
      | (st', .ok ()) => assignTargets cfg rootPolicy extra r st'
      | other => other
    else assignTargets cfg rootPolicy extra r st

inductive LoadOutcome where
  /-- the constructor is called: `args` are the `f_<id>` / `packed_fields` values that are passed,
      `extra` the collected extra data handed to `**kwargs` / the saturator (when the extra move asks for it) -/
  | ok (args : List (String × Val)) (extra : Option Val)
  /-- a single error is raised (DISABLE / FIRST) -/
  | error (e : TErr)
  /-- `AggregateLoadError` with these children (ALL) -/
  | aggregate (es : List TErr)
deriving Repr

/-- `produce_code`: the whole generated function up to the constructor call -/
def loadModel (cfg : LoadCfg) (crown : InpCrown) (data : Val) : LoadOutcome :=
  match loadBranch cfg [] data crown {} with
  | (_, .raised e) => .error e
  | (_, .fatal es) => .aggregate es
  | (st, .ok extra) =>
    match assignTargets cfg crown.policy extra cfg.move.targetIds st with
    | (_, .raised e) => .error e
    | (_, .fatal es) => .aggregate es
    | (st', .ok ()) =>
      if !st'.errors.isEmpty then .aggregate st'.errors
      else
        match cfg.move with
        | .kwargs => .ok st'.args (some extra)
        | .saturate => .ok st'.args (some extra)
        | _ => .ok st'.args none

end Adaptix.Layout
