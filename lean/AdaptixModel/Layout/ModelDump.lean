/-
  Layout/ModelDump — semantics of the code emitted by `BuiltinModelDumperGen`
  (morphing/model/dumper_gen.py), construct by construct:

    produce_code                         → `dumpModel`
    _gen_field_extraction (required / optional, three debug modes) → `extractFields`
    _gen_extra_extraction (targets / extractor) → `extractExtra`
    _gen_raising_extraction_errors       → the `group` outcome
    _gen_dict_crown / _gen_dict_optional_crown_fragment / _gen_dict_sieved_append → `dumpCrown` (dict case)
    _gen_list_crown, _get_element_expr   → `dumpCrown` (list / leaf cases)
    _get_sieve_condition                 → `sieveKeeps` (the `is not` / `!=` split of `is_singleton`)
    `return {**result, **extra}`         → `mergeExtra`

  omit_default (repaired behaviour, fixes/C03-omit-default-compare.patch): the sieve of a field
  compares the **raw field value** with the default; the value written is the dumped one.

  The object being dumped is a list of attribute/item bindings; a missing binding is the accessor's
  access error.  Field dumpers and the extractor are parameters.
-/
import AdaptixModel.Layout.ModelLoad

namespace Adaptix.Layout

structure DumpCfg where
  mode : DebugTrail
  move : OutExtraMove
  /-- output fields in shape order; `required` = `accessor.is_required` -/
  fields : List Field
  /-- field dumpers (`dumper_<id>`); the error is the exception class -/
  dumper : String → Val → Except String Val
  /-- result of `extractor(data)` (`extra_out=callable`), a parameter -/
  extracted : Except String Val

def DumpCfg.field (cfg : DumpCfg) (id : String) : Field :=
  (cfg.fields.find? fun f => f.id == id).getD { id := id }

inductive DumpOutcome where
  | ok (v : Val)
  /-- DISABLE / FIRST: the exception of the first failing element (`field` = its trail element, "" for the extractor) -/
  | error (field : String) (cls : String)
  /-- ALL: `CompatExceptionGroup` of all failing elements -/
  | group (errs : List (String × String))
  /-- an exception of the assembling code itself (`{**result, **extra}` on a list result) -/
  | escape (cls : String)
deriving Repr

/-- `_inner_collect_used_direct_fields` -/
def OutCrown.fieldIds : OutCrown → List String
  | .dict m _ => goD m
  | .list m => goL m
  | .field id => [id]
  | .none _ => []
where
  goD : List (String × OutCrown) → List String
    | [] => []
    | (_, c) :: r => OutCrown.fieldIds c ++ goD r
  goL : List OutCrown → List String
    | [] => []
    | c :: r => OutCrown.fieldIds c ++ goL r

/-- values gathered by the extraction stage: `f_<id>` of required fields and `opt_fields[id]` -/
structure DState where
  vals : List (String × Val) := []
  errors : List (String × String) := []
deriving Repr

/-- `_gen_required_field_extraction` / `_gen_optional_field_extraction` for one field:
    `none` result = the generated function stops here with that outcome -/
def extractOne (cfg : DumpCfg) (obj : List (String × Val)) (f : Field) (st : DState) : DState ⊕ DumpOutcome :=
  match Val.lookup f.id obj with
  | none =>
    if f.required then
      -- the access itself raises inside the same `try`
      match cfg.mode with
      | .all => .inl { st with errors := st.errors ++ [(f.id, "AccessError")] }
      | _ => .inr (.error f.id "AccessError")
    else .inl st                                  -- `except access_error: pass`
  | some raw =>
    match cfg.dumper f.id raw with
    | .ok v => .inl { st with vals := st.vals ++ [(f.id, v)] }
    | .error cls =>
      match cfg.mode with
      | .all => .inl { st with errors := st.errors ++ [(f.id, cls)] }
      | _ => .inr (.error f.id cls)

/-- the loop over `shape.fields` at the beginning of `produce_code` -/
def extractFields (cfg : DumpCfg) (obj : List (String × Val)) : List Field → DState → DState ⊕ DumpOutcome
  | [], st => .inl st
  | f :: r, st =>
    match extractOne cfg obj f st with
    | .inl st' => extractFields cfg obj r st'
    | .inr o => .inr o

/-- `{**a, **b}` on association lists: a key of `b` overrides in place, new keys are appended -/
def mergeDict (a b : List (String × Val)) : List (String × Val) :=
  b.foldl (fun acc (k, v) =>
    if acc.any (fun kv => kv.1 == k) then acc.map (fun kv => if kv.1 == k then (k, v) else kv) else acc ++ [(k, v)]) a

/-- `_gen_extra_target_extraction`: the dumped values of the target fields merged in order
    (one required/optional target, all-required `{**f_a, **f_b}`, or the `extra_stack` variant —
    the three variants compute the same mapping) -/
def extractTargets (cfg : DumpCfg) (obj : List (String × Val)) : List String → DState → List (String × Val) →
    (DState × List (String × Val)) ⊕ DumpOutcome
  | [], st, acc => .inl (st, acc)
  | t :: r, st, acc =>
    match Val.lookup t obj with
    | none =>
      if (cfg.field t).required then
        match cfg.mode with
        | .all => extractTargets cfg obj r { st with errors := st.errors ++ [(t, "AccessError")] } acc
        | _ => .inr (.error t "AccessError")
      else extractTargets cfg obj r st acc          -- `extra = {}` / `pass`
    | some raw =>
      match cfg.dumper t raw with
      | .ok (.dict kvs) => extractTargets cfg obj r st (mergeDict acc kvs)
      | .ok _ => .inr (.escape "TypeError")          -- the dumped target is not a mapping
      | .error cls =>
        match cfg.mode with
        | .all => extractTargets cfg obj r { st with errors := st.errors ++ [(t, cls)] } acc
        | _ => .inr (.error t cls)

/-- `_get_sieve_condition` for a `with_default_clause` sieve: `x is not <literal>` when the default is a
    singleton literal (None, True, False), `x != default` otherwise; `true` = the key is written -/
def sieveKeeps (dflt x : Val) : Bool :=
  match dflt with
  | .none => !Val.same x dflt
  | .bool _ => !Val.same x dflt
  | _ => !Val.pyEq x dflt

/-- `_is_required_crown` -/
def isRequiredCrown (cfg : DumpCfg) : OutCrown → Bool
  | .field id => (cfg.field id).required
  | _ => true

mutual
/-- the value of `result_<n>` for a crown (children first, then the node) -/
def dumpCrown (cfg : DumpCfg) (obj vals : List (String × Val)) : OutCrown → Val
  | .dict m sieves => .dict (dumpDictReq cfg obj vals sieves m ++ dumpDictOpt cfg obj vals sieves m)
  | .list m => .list (dumpList cfg obj vals m)
  | .field id => (Val.lookup id vals).getD .none      -- `f_<id>`
  | .none ph => ph

/-- the dict literal `{key: expr for key in required_keys}`:
    keys without sieve whose crown is required -/
def dumpDictReq (cfg : DumpCfg) (obj vals : List (String × Val)) (sieves : List (String × Val)) :
    List (String × OutCrown) → List (String × Val)
  | [] => []
  | (k, c) :: r =>
    if (sieves.lookup k).isNone && isRequiredCrown cfg c then
      (k, dumpCrown cfg obj vals c) :: dumpDictReq cfg obj vals sieves r
    else dumpDictReq cfg obj vals sieves r

/-- `_gen_dict_optional_crown_fragment` for the remaining keys, in map order -/
def dumpDictOpt (cfg : DumpCfg) (obj vals : List (String × Val)) (sieves : List (String × Val)) :
    List (String × OutCrown) → List (String × Val)
  | [] => []
  | (k, c) :: r =>
    let rest := dumpDictOpt cfg obj vals sieves r
    if (sieves.lookup k).isNone && isRequiredCrown cfg c then rest
    else
      match c with
      | .field id =>
        -- required sieved field: `if <cond>: result[key] = f_id`;
        -- optional field: `try: value = opt_fields[id] except KeyError: pass else: [if <cond>:] result[key] = value`
        match Val.lookup id vals with
        | none => rest
        | some v =>
          match sieves.lookup k with
          | some dflt =>
            -- repaired behaviour: the raw value `r_<id>` is compared with the default
            if sieveKeeps dflt ((Val.lookup id obj).getD .none) then (k, v) :: rest else rest
          | none => (k, v) :: rest
      | _ =>
        let v := dumpCrown cfg obj vals c
        match sieves.lookup k with
        | some dflt => if sieveKeeps dflt v then (k, v) :: rest else rest
        | none => (k, v) :: rest

def dumpList (cfg : DumpCfg) (obj vals : List (String × Val)) : List OutCrown → List Val
  | [] => []
  | c :: r => dumpCrown cfg obj vals c :: dumpList cfg obj vals r
end

/-- `return {**result, **extra}` -/
def mergeExtra (result : Val) (extra : List (String × Val)) : DumpOutcome :=
  match result with
  | .dict kvs => .ok (.dict (mergeDict kvs extra))
  | _ => .escape "TypeError"

/-- `produce_code`: the whole generated dumper -/
def dumpModel (cfg : DumpCfg) (crown : OutCrown) (obj : List (String × Val)) : DumpOutcome :=
  let used := crown.fieldIds
  let targets := cfg.move.targetIds
  -- skipped fields (`get_skipped_fields`) and extra targets are not extracted by the first loop
  let direct := cfg.fields.filter fun f => used.contains f.id && !targets.contains f.id
  match extractFields cfg obj direct {} with
  | .inr o => o
  | .inl st =>
    let finish (st : DState) (extra : Option (List (String × Val))) : DumpOutcome :=
      if !st.errors.isEmpty then .group st.errors
      else
        let result := dumpCrown cfg obj st.vals crown
        match extra with
        | none => .ok result
        | some ex => mergeExtra result ex
    match cfg.move with
    | .none => finish st none
    | .targets ts =>
      match extractTargets cfg obj ts st [] with
      | .inr o => o
      | .inl (st', ex) => finish st' (some ex)
    | .extract =>
      match cfg.extracted with
      | .ok (.dict kvs) => finish st (some kvs)
      | .ok _ => if !st.errors.isEmpty then .group st.errors else .escape "TypeError"
      | .error cls =>
        match cfg.mode with
        | .all => .group (st.errors ++ [("", cls)])
        | _ => .error "" cls

/-! ### well-formed output crowns (specification side)

  What `_validate_params`, the crown classes and the layout provider guarantee; a hypothesis of the dumper
  theorems, evaluated by the driver on every crown the layout model builds (op `layout`, field `wf`). -/

def keysNodup {α : Type} : List (String × α) → Bool
  | [] => true
  | (k, _) :: r => !(r.any fun kv => kv.1 == k) && keysNodup r

def OutCrown.isField : OutCrown → Bool
  | .field _ => true
  | _ => false

mutual
/-- dict keys are distinct (a Python dict), sieves are attached to field children only (all that
    `OutCrownBuilder` produces), a field directly under a list node is required
    (`get_optional_fields_at_list_crown`) -/
def OutCrown.wf (cfg : DumpCfg) : OutCrown → Bool
  | .dict m s => keysNodup m && OutCrown.wfD cfg s m
  | .list m => OutCrown.wfL cfg m
  | .field _ => true
  | .none _ => true
def OutCrown.wfD (cfg : DumpCfg) (s : List (String × Val)) : List (String × OutCrown) → Bool
  | [] => true
  | (k, c) :: r => (c.isField || (s.lookup k).isNone) && OutCrown.wf cfg c && OutCrown.wfD cfg s r
def OutCrown.wfL (cfg : DumpCfg) : List OutCrown → Bool
  | [] => true
  | c :: r =>
    (match c with
     | .field id => (cfg.field id).required
     | _ => true) && OutCrown.wf cfg c && OutCrown.wfL cfg r
end

end Adaptix.Layout
