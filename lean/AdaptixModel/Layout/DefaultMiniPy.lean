/-
  C08 — the mini-Python term language into which `extract/c08_literal.py`
  translates `code_tools/utils.py` (get_literal_expr & friends), and its
  interpreter.  The translator is syntax-directed (one Python AST node = one
  constructor below); every construct outside this subset makes it raise.

  Function calls between the translated functions are resolved through the
  open-recursion parameter `call`, which `callFn` closes with fuel (one unit
  per Python-level call), so everything else is structural recursion on syntax.
-/
import AdaptixModel.Layout.DefaultBase

namespace Adaptix.Default

inductive CmpOp where
  | is | isNot | isIn | eq
  deriving Repr, DecidableEq, Inhabited

/-- Expressions.  Names are resolved statically by the translator following
    Python's scoping: `loc` = parameter / assigned local, `fnRef` = module-level
    function of the translated file, `glob` = module-level table or imported
    module, `builtinName` = a name of `builtins`. -/
inductive Expr where
  | loc (x : String)
  | fnRef (f : String)
  | glob (g : String)
  | builtinName (n : String)
  | str (cs : List Char)
  | noneLit
  | int (n : Int)
  | tuple (es : List Expr)
  | callFn (f : String) (args : List Expr)        -- f(args), f a translated function
  | callBuiltin (f : String) (args : List Expr)   -- type / repr / len / sorted / map
  | callMeth (recv : Expr) (m : String) (args : List Expr)   -- recv.m(args)
  | attr (e : Expr) (a : String)
  | index (e : Expr) (i : Expr)
  | cmp (op : CmpOp) (a b : Expr)
  | or (a b : Expr)
  | add (a b : Expr)
  | fstr (parts : List Expr)                      -- f"{e1}: {e2}" without conversions
  | genPairs (elt : Expr) (k v : String) (iter : Expr)   -- (elt for k, v in iter)
  deriving Repr, Inhabited

inductive Stmt where
  | ret (e : Expr)
  | assign (x : String) (e : Expr)
  | raise (exc : String)
  | ifThen (c : Expr) (body orelse : List Stmt)
  | tryExcept (body : List Stmt) (excs : List String) (handler : List Stmt)
  deriving Repr, Inhabited

structure FuncDef where
  name : String
  params : List String
  body : List Stmt
  deriving Repr, Inhabited

/-- Runtime values of the interpreter. -/
inductive PV where
  | v (x : Val)              -- an object of the value universe
  | txt (t : Txt)            -- a `str` being built (symbolic)
  | seq (xs : List PV)       -- list / iterator of runtime values
  | fn (name : String)       -- a translated function as a first-class value
  | glob (name : String)     -- module-level table or module
  deriving Repr, Inhabited

inductive Res (α : Type) where
  | ok (a : α)
  | exc (cls : String)       -- a Python exception of that class propagates
  | stuck (msg : String)     -- outside the modelled subset / out of fuel
  deriving Repr, Inhabited

@[inline] def Res.bind {α β : Type} (r : Res α) (f : α → Res β) : Res β :=
  match r with
  | .ok a => f a
  | .exc c => .exc c
  | .stuck m => .stuck m

instance : Monad Res where
  pure := .ok
  bind := Res.bind

/-- The module-level data the functions read; extracted from the working tree
    by import-time introspection (contents) — the *definitions* of the three
    tables are checked by the translator against their pinned AST. -/
structure Ctx where
  funcs : List FuncDef
  builtinToName : List (Val × List Char)         -- BUILTIN_TO_NAME.items()
  nameToBuiltin : List (List Char × Val)         -- NAME_TO_BUILTIN.items()
  clsToFactoryLiteral : List (Val × List Char)   -- _CLS_TO_FACTORY_LITERAL.items()
  /-- Python's `sorted` on the elements of a set: `none` = TypeError.  Not
      modelled; the theorems hold for every oracle returning a permutation. -/
  sorted : List Val → Option (List Val)

abbrev Env := List (String × PV)

def Txt.asLit : Txt → Option (List Char)
  | [] => some []
  | .ch c :: t => (Txt.asLit t).map (c :: ·)
  | .reprOf _ :: _ => Option.none

/-- dict lookup `table[v]` by `==`/hash against flat keys -/
def lookupFlat {α : Type} (v : Val) : List (Val × α) → Option α
  | [] => Option.none
  | (k, a) :: rest => if pyEqFlat v k then some a else lookupFlat v rest

def lookupName (n : List Char) : List (List Char × Val) → Option Val
  | [] => Option.none
  | (k, a) :: rest => if k == n then some a else lookupName n rest

def pvBool (b : Bool) : PV := .v (.bool b)

/-- truth value of a runtime value as used by `if` / `or` -/
def truthy : PV → Res Bool
  | .v (.bool b) => .ok b
  | .v .none => .ok false
  | .v (.set xs) => .ok (!xs.isEmpty)
  | .v (.frozenset xs) => .ok (!xs.isEmpty)
  | .v (.list xs) => .ok (!xs.isEmpty)
  | .v (.tuple xs) => .ok (!xs.isEmpty)
  | .v (.dict xs) => .ok (!xs.isEmpty)
  | .txt t => .ok (!t.isEmpty)
  | _ => .stuck "truthy"

/-- the elements an iteration over the runtime value yields -/
def iterOf : PV → Res (List PV)
  | .seq xs => .ok xs
  | .v (.list xs) | .v (.tuple xs) | .v (.set xs) | .v (.frozenset xs) => .ok (xs.map PV.v)
  | _ => .stuck "iter"

def allVals : List PV → Option (List Val)
  | [] => some []
  | .v x :: rest => (allVals rest).map (x :: ·)
  | _ :: _ => Option.none

def allTxt : List PV → Option (List Txt)
  | [] => some []
  | .txt t :: rest => (allTxt rest).map (t :: ·)
  | _ :: _ => Option.none

def joinWith (sep : Txt) : List Txt → Txt
  | [] => []
  | [t] => t
  | t :: ts => t ++ sep ++ joinWith sep ts

def mapRes {α β : Type} (f : α → Res β) : List α → Res (List β)
  | [] => .ok []
  | a :: as =>
    match f a with
    | .ok b =>
      match mapRes f as with
      | .ok bs => .ok (b :: bs)
      | .exc c => .exc c
      | .stuck m => .stuck m
    | .exc c => .exc c
    | .stuck m => .stuck m

/-- `x is y` / `x == y` on runtime values -/
def pvIs (a b : PV) : Res Bool :=
  match a, b with
  | .v x, .v y => match pyIs x y with
    | some r => .ok r
    | Option.none => .stuck "identity not determined by the model"
  | .txt _, .v .none | .v .none, .txt _ => .ok false
  | _, _ => .stuck "is"

def primCall (cx : Ctx) (call : String → List PV → Res PV) (f : String) (args : List PV) : Res PV :=
  match f, args with
  | "type", [.v x] => .ok (.v x.typeOf)
  | "repr", [.v x] => .ok (.txt [Piece.reprOf x])
  | "len", [.v (.tuple xs)] => .ok (.v (.int xs.length))
  | "len", [.v (.list xs)] => .ok (.v (.int xs.length))
  | "sorted", [.v (.set xs)] | "sorted", [.v (.frozenset xs)] =>
    match cx.sorted xs with
    | some ys => .ok (.v (.list ys))
    | Option.none => .exc "TypeError"
  | "map", [.fn g, it] =>
    match iterOf it with
    | .ok xs =>
      match mapRes (fun x => call g [x]) xs with
      | .ok ys => .ok (.seq ys)
      | .exc c => .exc c
      | .stuck m => .stuck m
    | .exc c => .exc c
    | .stuck m => .stuck m
  | _, _ => .stuck ("builtin call " ++ f)

def methCall (cx : Ctx) (recv : PV) (m : String) (args : List PV) : Res PV :=
  match recv, m, args with
  | .glob "math", "isinf", [.v (.float h)] => .ok (pvBool (h == "inf" || h == "-inf"))
  | .glob "math", "isnan", [.v (.float h)] => .ok (pvBool (h == "nan"))
  | .txt sep, "join", [it] =>
    match iterOf it with
    | .ok xs =>
      match allTxt xs with
      | some ts => .ok (.txt (joinWith sep ts))
      | Option.none => .exc "TypeError"
    | .exc c => .exc c
    | .stuck msg => .stuck msg
  | .v (.dict kvs), "items", [] => .ok (.seq (kvs.map fun kv => .v (.tuple [kv.1, kv.2])))
  | .glob "_CLS_TO_FACTORY_LITERAL", "get", [.v x] =>
    if x.hashable then
      match lookupFlat x cx.clsToFactoryLiteral with
      | some cs => .ok (.txt (lit cs))
      | Option.none => .ok (.v .none)
    else .exc "TypeError"
  | _, _, _ => .stuck ("method call " ++ m)

def getAttr (p : PV) (a : String) : Res PV :=
  match p, a with
  | .v (.slice x _ _), "start" => .ok (.v x)
  | .v (.slice _ x _), "stop" => .ok (.v x)
  | .v (.slice _ _ x), "step" => .ok (.v x)
  | .v (.range x _ _), "start" => .ok (.v (.int x))
  | .v (.range _ x _), "stop" => .ok (.v (.int x))
  | .v (.range _ _ x), "step" => .ok (.v (.int x))
  | _, _ => .stuck ("attribute " ++ a)

def getIndex (cx : Ctx) (p i : PV) : Res PV :=
  match p, i with
  | .glob "BUILTIN_TO_NAME", .v x =>
    if x.hashable then
      match lookupFlat x cx.builtinToName with
      | some cs => .ok (.txt (lit cs))
      | Option.none => .exc "KeyError"
    else .exc "TypeError"
  | .glob "NAME_TO_BUILTIN", .txt t =>
    match t.asLit with
    | some cs =>
      match lookupName cs cx.nameToBuiltin with
      | some x => .ok (.v x)
      | Option.none => .exc "KeyError"
    | Option.none => .exc "KeyError"
  | .txt t, .v (.int k) =>
    match t[k.toNat]? with
    | some pc => if k < 0 then .stuck "negative index" else .ok (.txt [pc])
    | Option.none => .exc "IndexError"
  | .v (.tuple xs), .v (.int k) | .v (.list xs), .v (.int k) =>
    match xs[k.toNat]? with
    | some x => if k < 0 then .stuck "negative index" else .ok (.v x)
    | Option.none => .exc "IndexError"
  | _, _ => .stuck "subscript"

def doCmp (op : CmpOp) (a b : PV) : Res PV :=
  match op with
  | .is => do let r ← pvIs a b; pure (pvBool r)
  | .isNot => do let r ← pvIs a b; pure (pvBool !r)
  | .isIn =>
    -- `x in (t1, t2, …)`: only identity-determined elements (type objects)
    match b with
    | .v (.tuple ys) =>
      match mapRes (fun y => pvIs a (.v y)) ys with
      | .ok bs => .ok (pvBool (bs.any id))
      | .exc c => .exc c
      | .stuck m => .stuck m
    | _ => .stuck "in"
  | .eq =>
    match a, b with
    | .v (.int x), .v (.int y) => .ok (pvBool (x == y))
    | _, _ => .stuck "=="

def doAdd (a b : PV) : Res PV :=
  match a, b with
  | .txt x, .txt y => .ok (.txt (x ++ y))
  | _, _ => .stuck "+"

mutual
def evalE (cx : Ctx) (call : String → List PV → Res PV) (env : Env) : Expr → Res PV
  | .loc x => match env.lookup x with
    | some p => .ok p
    | Option.none => .stuck ("unbound local " ++ x)
  | .fnRef f => .ok (.fn f)
  | .glob g => .ok (.glob g)
  | .builtinName n => .ok (.v (.builtin n))
  | .str cs => .ok (.txt (lit cs))
  | .noneLit => .ok (.v .none)
  | .int n => .ok (.v (.int n))
  | .tuple es =>
    match evalEs cx call env es with
    | .ok ps => match allVals ps with
      | some vs => .ok (.v (.tuple vs))
      | Option.none => .stuck "tuple of non-objects"
    | .exc c => .exc c
    | .stuck m => .stuck m
  | .callFn f args =>
    match evalEs cx call env args with
    | .ok ps => call f ps
    | .exc c => .exc c
    | .stuck m => .stuck m
  | .callBuiltin f args =>
    match evalEs cx call env args with
    | .ok ps => primCall cx call f ps
    | .exc c => .exc c
    | .stuck m => .stuck m
  | .callMeth r m args =>
    match evalE cx call env r with
    | .ok rp =>
      match evalEs cx call env args with
      | .ok ps => methCall cx rp m ps
      | .exc c => .exc c
      | .stuck msg => .stuck msg
    | .exc c => .exc c
    | .stuck msg => .stuck msg
  | .attr e a =>
    match evalE cx call env e with
    | .ok p => getAttr p a
    | .exc c => .exc c
    | .stuck m => .stuck m
  | .index e i =>
    match evalE cx call env e with
    | .ok p =>
      match evalE cx call env i with
      | .ok q => getIndex cx p q
      | .exc c => .exc c
      | .stuck m => .stuck m
    | .exc c => .exc c
    | .stuck m => .stuck m
  | .cmp op a b =>
    match evalE cx call env a with
    | .ok p =>
      match evalE cx call env b with
      | .ok q => doCmp op p q
      | .exc c => .exc c
      | .stuck m => .stuck m
    | .exc c => .exc c
    | .stuck m => .stuck m
  | .or a b =>
    match evalE cx call env a with
    | .ok p =>
      match truthy p with
      | .ok true => .ok p
      | .ok false => evalE cx call env b
      | .exc c => .exc c
      | .stuck m => .stuck m
    | .exc c => .exc c
    | .stuck m => .stuck m
  | .add a b =>
    match evalE cx call env a with
    | .ok p =>
      match evalE cx call env b with
      | .ok q => doAdd p q
      | .exc c => .exc c
      | .stuck m => .stuck m
    | .exc c => .exc c
    | .stuck m => .stuck m
  | .fstr parts =>
    match evalEs cx call env parts with
    | .ok ps => match allTxt ps with
      | some ts => .ok (.txt ts.flatten)
      | Option.none => .stuck "f-string part is not a str"
    | .exc c => .exc c
    | .stuck m => .stuck m
  | .genPairs elt k v it =>
    match evalE cx call env it with
    | .ok s =>
      match iterOf s with
      | .ok xs =>
        match mapRes (fun x => match x with
            | .v (.tuple [a, b]) => evalE cx call ((v, .v b) :: (k, .v a) :: env) elt
            | _ => .stuck "unpacking") xs with
        | .ok ys => .ok (.seq ys)
        | .exc c => .exc c
        | .stuck m => .stuck m
      | .exc c => .exc c
      | .stuck m => .stuck m
    | .exc c => .exc c
    | .stuck m => .stuck m
def evalEs (cx : Ctx) (call : String → List PV → Res PV) (env : Env) : List Expr → Res (List PV)
  | [] => .ok []
  | e :: es =>
    match evalE cx call env e with
    | .ok p =>
      match evalEs cx call env es with
      | .ok ps => .ok (p :: ps)
      | .exc c => .exc c
      | .stuck m => .stuck m
    | .exc c => .exc c
    | .stuck m => .stuck m
end

inductive Flow where
  | next (env : Env)
  | ret (p : PV)
  deriving Inhabited

mutual
def execS (cx : Ctx) (call : String → List PV → Res PV) (env : Env) : Stmt → Res Flow
  | .ret e =>
    match evalE cx call env e with
    | .ok p => .ok (.ret p)
    | .exc c => .exc c
    | .stuck m => .stuck m
  | .assign x e =>
    match evalE cx call env e with
    | .ok p => .ok (.next ((x, p) :: env))
    | .exc c => .exc c
    | .stuck m => .stuck m
  | .raise c => .exc c
  | .ifThen c body orelse =>
    match evalE cx call env c with
    | .ok p =>
      match truthy p with
      | .ok true => execL cx call env body
      | .ok false => execL cx call env orelse
      | .exc c => .exc c
      | .stuck m => .stuck m
    | .exc c => .exc c
    | .stuck m => .stuck m
  | .tryExcept body excs handler =>
    match execL cx call env body with
    | .exc c => if excs.contains c then execL cx call env handler else .exc c
    | r => r
def execL (cx : Ctx) (call : String → List PV → Res PV) (env : Env) : List Stmt → Res Flow
  | [] => .ok (.next env)
  | s :: ss =>
    match execS cx call env s with
    | .ok (.next env') => execL cx call env' ss
    | r => r
end

def findFunc (f : String) : List FuncDef → Option FuncDef
  | [] => Option.none
  | d :: ds => if d.name == f then some d else findFunc f ds

/-- Python-level call of a translated function; one unit of fuel per call. -/
def callFn (cx : Ctx) : Nat → String → List PV → Res PV
  | 0, _, _ => .stuck "out of fuel"
  | fuel + 1, f, args =>
    match findFunc f cx.funcs with
    | Option.none => .stuck ("unknown function " ++ f)
    | some d =>
      if d.params.length != args.length then .stuck "arity" else
      match execL cx (callFn cx fuel) (d.params.zip args).reverse d.body with
      | .ok (.ret p) => .ok p
      | .ok (.next _) => .ok (.v .none)
      | .exc c => .exc c
      | .stuck m => .stuck m

/-! nesting depth of a value: the fuel a rendering needs is linear in it -/
mutual
def Val.depth : Val → Nat
  | .list xs | .tuple xs | .set xs | .frozenset xs => depthL xs + 1
  | .dict kvs => depthKV kvs + 1
  | .slice a b c => max a.depth (max b.depth c.depth) + 1
  | .range .. => 1
  | _ => 0
def depthL : List Val → Nat
  | [] => 0
  | x :: xs => max x.depth (depthL xs)
def depthKV : List (Val × Val) → Nat
  | [] => 0
  | (k, v) :: kvs => max (max k.depth v.depth) (depthKV kvs)
end

end Adaptix.Default
