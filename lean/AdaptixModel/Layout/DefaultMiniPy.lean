/-
  C08 — the mini-Python term language into which `extract/c08_literal.py`
  translates `code_tools/utils.py` (get_literal_expr & friends), and its
  interpreter.  The translator is syntax-directed (one Python AST node = one
  constructor below); every construct outside this subset makes it raise.

  The interpreter is in two stages.  `evalE`/`execS`/`execL` (structural
  recursion on syntax) turn a function body into an *interaction tree*: pure
  computation is done on the spot, while every effect that depends on data the
  body does not own — a call of another translated function, `map(f, xs)`,
  a generator expression, Python's `sorted` — is a node (`callK`, `mapK`,
  `genK`, `sortK`) carrying the continuation.  `run` answers the nodes, and
  `callFn` closes the recursion with fuel (one unit per Python-level call).
  The staging is what makes the proofs cheap: the kernel evaluates a body up
  to the next node by `rfl`, and the node exposes the call to reason about.
-/
import AdaptixModel.Layout.DefaultBase

namespace Adaptix.Default

inductive CmpOp where
  | is | isNot | isIn | eq
  deriving Repr, DecidableEq, Inhabited

/-- Expressions.  Names are resolved statically by the translator following
    Python's scoping: `loc` = parameter / assigned local, `fnRef` = module-level
    function of the translated file, `glob` = module-level table or imported
    module, `builtinName` = a name of `builtins`. -/
inductive Expr where
  | loc (x : String)
  | fnRef (f : String)
  | glob (g : String)
  | builtinName (n : String)
  | str (cs : List Char)
  | noneLit
  | int (n : Int)
  | tuple (es : List Expr)
  | callFn (f : String) (args : List Expr)        -- f(args), f a translated function
  | callBuiltin (f : String) (args : List Expr)   -- type / repr / len / sorted / map
  | callMeth (recv : Expr) (m : String) (args : List Expr)   -- recv.m(args)
  | attr (e : Expr) (a : String)
  | index (e : Expr) (i : Expr)
  | cmp (op : CmpOp) (a b : Expr)
  | or (a b : Expr)
  | add (a b : Expr)
  | fstr (parts : List Expr)                      -- f"{e1}: {e2}" without conversions
  | genPairs (elt : Expr) (k v : String) (iter : Expr)   -- (elt for k, v in iter)
  deriving Repr, Inhabited

/-- the exception classes the translated functions raise or catch (no subclass
    relation among them; the translator refuses any other class) -/
inductive Exc where
  | keyError | typeError | indexError | cannotBeRendered
  deriving Repr, DecidableEq, Inhabited

inductive Stmt where
  | ret (e : Expr)
  | assign (x : String) (e : Expr)
  | raise (exc : Exc)
  | ifThen (c : Expr) (body orelse : List Stmt)
  | tryExcept (body : List Stmt) (excs : List Exc) (handler : List Stmt)
  deriving Repr, Inhabited

structure FuncDef where
  name : String
  params : List String
  body : List Stmt
  deriving Repr, Inhabited

/-- Runtime values of the interpreter. -/
inductive PV where
  | v (x : Val)              -- an object of the value universe
  | txt (t : Txt)            -- a `str` being built (symbolic)
  | seq (xs : List PV)       -- list / iterator of runtime values
  | fn (name : String)       -- a translated function as a first-class value
  | glob (name : String)     -- module-level table or module
  deriving Repr, Inhabited

inductive Res (α : Type) where
  | ok (a : α)
  | exc (cls : Exc)          -- a Python exception of that class propagates
  | stuck (msg : String)     -- outside the modelled subset / out of fuel
  deriving Repr, Inhabited

@[inline] def Res.bind {α β : Type} (r : Res α) (f : α → Res β) : Res β :=
  match r with
  | .ok a => f a
  | .exc c => .exc c
  | .stuck m => .stuck m

instance : Monad Res where
  pure := .ok
  bind := Res.bind

/-- The module-level data the functions read; extracted from the working tree
    by import-time introspection (contents) — the *definitions* of the three
    tables are checked by the translator against their pinned AST. -/
structure Ctx where
  funcs : List FuncDef
  builtinToName : List (Val × List Char)         -- BUILTIN_TO_NAME.items()
  nameToBuiltin : List (List Char × Val)         -- NAME_TO_BUILTIN.items()
  clsToFactoryLiteral : List (Val × List Char)   -- _CLS_TO_FACTORY_LITERAL.items()

abbrev Env := List (String × PV)

def Txt.asLit : Txt → Option (List Char)
  | [] => some []
  | .ch c :: t => (Txt.asLit t).map (c :: ·)
  | _ :: _ => Option.none

/-- dict lookup `table[v]` by `==`/hash against flat keys -/
def lookupFlat {α : Type} (v : Val) : List (Val × α) → Option α
  | [] => Option.none
  | (k, a) :: rest => if pyEqFlat v k then some a else lookupFlat v rest

def pvBool (b : Bool) : PV := .v (.bool b)

/-- truth value of a runtime value as used by `if` / `or` -/
def truthy : PV → Res Bool
  | .v (.bool b) => .ok b
  | .v .none => .ok false
  | .v (.set xs) => .ok (!xs.isEmpty)
  | .v (.frozenset xs) => .ok (!xs.isEmpty)
  | .v (.list xs) => .ok (!xs.isEmpty)
  | .v (.tuple xs) => .ok (!xs.isEmpty)
  | .v (.dict xs) => .ok (!xs.isEmpty)
  | .txt t => .ok (!t.isEmpty)
  | _ => .stuck "truthy"

/-- the elements an iteration over the runtime value yields -/
def iterOf : PV → Res (List PV)
  | .seq xs => .ok xs
  | .v (.list xs) | .v (.tuple xs) | .v (.set xs) | .v (.frozenset xs) => .ok (xs.map PV.v)
  | _ => .stuck "iter"

def allVals : List PV → Option (List Val)
  | [] => some []
  | .v x :: rest => (allVals rest).map (x :: ·)
  | _ :: _ => Option.none

def allTxt : List PV → Option (List Txt)
  | [] => some []
  | .txt t :: rest => (allTxt rest).map (t :: ·)
  | _ :: _ => Option.none

/-- the text of a `str` value; a non-`str` yields a piece no expression renders
    to (Python raises `TypeError` in `join` / rejects it in an f-string; the
    model keeps going with text that can never be a literal). -/
def PV.toTxt : PV → Txt
  | .txt t => t
  | _ => [Piece.junk]

def mapRes {α β : Type} (f : α → Res β) : List α → Res (List β)
  | [] => .ok []
  | a :: as =>
    match f a with
    | .ok b =>
      match mapRes f as with
      | .ok bs => .ok (b :: bs)
      | .exc c => .exc c
      | .stuck m => .stuck m
    | .exc c => .exc c
    | .stuck m => .stuck m

/-- `x is y` / `x == y` on runtime values -/
def pvIs (a b : PV) : Res Bool :=
  match a, b with
  | .v x, .v y => match pyIs x y with
    | some r => .ok r
    | Option.none => .stuck "identity not determined by the model"
  | .txt _, .v .none | .v .none, .txt _ => .ok false
  | _, _ => .stuck "is"

/-! ## Interaction trees -/

inductive Out where
  | pv (p : PV)
  | pvs (ps : List PV)
  | next (env : Env)     -- statement finished normally
  | ret (p : PV)         -- `return p`
  deriving Inhabited

inductive Tree where
  | done (r : Res Out)
  | callK (f : String) (args : List PV) (k : Res PV → Tree)          -- f(*args)
  | mapK (g : String) (xs : List PV) (k : Res (List PV) → Tree)      -- [g(x) for x in xs], stopping at the first exception
  | sortK (xs : List Val) (k : Option (List Val) → Tree)             -- sorted(xs); none = TypeError
  | genK (f : PV → Tree) (xs : List PV) (k : Res (List PV) → Tree)   -- [f(x) for x in xs]
  | tblK (table : String) (get : Bool) (key : PV) (k : Res PV → Tree) -- TABLE[key] / TABLE.get(key)
  | cmpK (op : CmpOp) (a b : PV) (k : Res PV → Tree)                 -- a is b / a in b / a == b
  deriving Inhabited

def Tree.bind : Tree → (Out → Tree) → Tree
  | .done (.ok o), g => g o
  | .done (.exc c), _ => .done (.exc c)
  | .done (.stuck m), _ => .done (.stuck m)
  | .callK f a k, g => .callK f a (fun r => (k r).bind g)
  | .mapK f a k, g => .mapK f a (fun r => (k r).bind g)
  | .sortK a k, g => .sortK a (fun r => (k r).bind g)
  | .genK f a k, g => .genK f a (fun r => (k r).bind g)
  | .tblK t b a k, g => .tblK t b a (fun r => (k r).bind g)
  | .cmpK o a b k, g => .cmpK o a b (fun r => (k r).bind g)

/-- `try: t  except excs: handler` -/
def Tree.catch : Tree → List Exc → Tree → Tree
  | .done (.exc c), excs, handler => if excs.contains c then handler else .done (.exc c)
  | .done r, _, _ => .done r
  | .callK f a k, excs, handler => .callK f a (fun r => (k r).catch excs handler)
  | .mapK f a k, excs, handler => .mapK f a (fun r => (k r).catch excs handler)
  | .sortK a k, excs, handler => .sortK a (fun r => (k r).catch excs handler)
  | .genK f a k, excs, handler => .genK f a (fun r => (k r).catch excs handler)
  | .tblK t b a k, excs, handler => .tblK t b a (fun r => (k r).catch excs handler)
  | .cmpK o a b k, excs, handler => .cmpK o a b (fun r => (k r).catch excs handler)

def stuckT (m : String) : Tree := .done (.stuck m)
def okPV (p : PV) : Tree := .done (.ok (.pv p))

def Tree.bindPV (t : Tree) (g : PV → Tree) : Tree :=
  t.bind fun o => match o with
    | .pv p => g p
    | _ => stuckT "expected a value"

def Tree.bindPVs (t : Tree) (g : List PV → Tree) : Tree :=
  t.bind fun o => match o with
    | .pvs ps => g ps
    | _ => stuckT "expected values"

def ofRes (r : Res PV) : Tree :=
  match r with
  | .ok p => okPV p
  | .exc c => .done (.exc c)
  | .stuck m => .done (.stuck m)

def primCall (f : String) (args : List PV) : Tree :=
  match f, args with
  | "type", [.v x] => okPV (.v x.typeOf)
  | "repr", [.v x] => okPV (.txt [Piece.reprOf x])
  | "len", [.v (.tuple xs)] => okPV (.v (.int xs.length))
  | "len", [.v (.list xs)] => okPV (.v (.int xs.length))
  | "sorted", [.v (.set xs)] | "sorted", [.v (.frozenset xs)] =>
    .sortK xs fun r => match r with
      | some ys => okPV (.v (.list ys))
      | Option.none => .done (.exc .typeError)
  | "map", [.fn g, it] =>
    match iterOf it with
    | .ok xs => .mapK g xs fun r => match r with
      | .ok ys => okPV (.seq ys)
      | .exc c => .done (.exc c)
      | .stuck m => .done (.stuck m)
    | .exc c => .done (.exc c)
    | .stuck m => .done (.stuck m)
  | _, _ => stuckT ("builtin call " ++ f)

def methCall (recv : PV) (m : String) (args : List PV) : Tree :=
  match recv, m, args with
  | .glob "math", "isinf", [.v (.float .inf)] | .glob "math", "isinf", [.v (.float .negInf)] => okPV (pvBool true)
  | .glob "math", "isinf", [.v (.float _)] => okPV (pvBool false)
  | .glob "math", "isnan", [.v (.float .nan)] => okPV (pvBool true)
  | .glob "math", "isnan", [.v (.float _)] => okPV (pvBool false)
  | .txt sep, "join", [it] =>
    match iterOf it with
    | .ok xs => okPV (.txt (joinWith sep (xs.map PV.toTxt)))
    | .exc c => .done (.exc c)
    | .stuck msg => .done (.stuck msg)
  | .v (.dict kvs), "items", [] => okPV (.seq (kvs.map fun kv => .v (.tuple [kv.1, kv.2])))
  | .glob t, "get", [key] => .tblK t true key ofRes
  | _, _, _ => stuckT ("method call " ++ m)

def getAttr (p : PV) (a : String) : Res PV :=
  match p, a with
  | .v (.slice x _ _), "start" => .ok (.v x)
  | .v (.slice _ x _), "stop" => .ok (.v x)
  | .v (.slice _ _ x), "step" => .ok (.v x)
  | .v (.range x _ _), "start" => .ok (.v (.int x))
  | .v (.range _ x _), "stop" => .ok (.v (.int x))
  | .v (.range _ _ x), "step" => .ok (.v (.int x))
  | _, _ => .stuck ("attribute " ++ a)

/-- `TABLE[key]` (`get = false`) / `TABLE.get(key)` (`get = true`) on the
    module-level dicts: lookup by `==`/hash; unhashable key → TypeError. -/
def tableLookup (cx : Ctx) (table : String) (get : Bool) (key : PV) : Res PV :=
  match table, key with
  | "BUILTIN_TO_NAME", .v x =>
    if x.hashable then
      match lookupFlat x cx.builtinToName with
      | some cs => .ok (.txt (lit cs))
      | Option.none => if get then .ok (.v .none) else .exc .keyError
    else .exc .typeError
  | "_CLS_TO_FACTORY_LITERAL", .v x =>
    if x.hashable then
      match lookupFlat x cx.clsToFactoryLiteral with
      | some cs => .ok (.txt (lit cs))
      | Option.none => if get then .ok (.v .none) else .exc .keyError
    else .exc .typeError
  | "NAME_TO_BUILTIN", .txt t =>
    match t.asLit with
    | some cs =>
      match lookupName cs cx.nameToBuiltin with
      | some x => .ok (.v x)
      | Option.none => if get then .ok (.v .none) else .exc .keyError
    | Option.none => if get then .ok (.v .none) else .exc .keyError
  | _, _ => .stuck "table lookup"

def getIndex (p i : PV) : Tree :=
  match p, i with
  | .glob t, key => .tblK t false key ofRes
  | .txt t, .v (.int k) =>
    match t[k.toNat]? with
    | some pc => if k < 0 then stuckT "negative index" else okPV (.txt [pc])
    | Option.none => .done (.exc .indexError)
  | .v (.tuple xs), .v (.int k) | .v (.list xs), .v (.int k) =>
    match xs[k.toNat]? with
    | some x => if k < 0 then stuckT "negative index" else okPV (.v x)
    | Option.none => .done (.exc .indexError)
  | _, _ => stuckT "subscript"

def doCmp (op : CmpOp) (a b : PV) : Res PV :=
  match op with
  | .is => match pvIs a b with
    | .ok r => .ok (pvBool r)
    | .exc c => .exc c
    | .stuck m => .stuck m
  | .isNot => match pvIs a b with
    | .ok r => .ok (pvBool !r)
    | .exc c => .exc c
    | .stuck m => .stuck m
  | .isIn =>
    -- `x in (t1, t2, …)`: only identity-determined elements (type objects)
    match b with
    | .v (.tuple ys) =>
      match mapRes (fun y => pvIs a (.v y)) ys with
      | .ok bs => .ok (pvBool (bs.any id))
      | .exc c => .exc c
      | .stuck m => .stuck m
    | _ => .stuck "in"
  | .eq =>
    match a, b with
    | .v (.int x), .v (.int y) => .ok (pvBool (x == y))
    | _, _ => .stuck "=="

def doAdd (a b : PV) : Res PV :=
  match a, b with
  | .txt x, .txt y => .ok (.txt (x ++ y))
  | _, _ => .stuck "+"

mutual
def evalE (cx : Ctx) (env : Env) : Expr → Tree
  | .loc x => match env.lookup x with
    | some p => okPV p
    | Option.none => stuckT ("unbound local " ++ x)
  | .fnRef f => okPV (.fn f)
  | .glob g => okPV (.glob g)
  | .builtinName n => okPV (.v (.builtin n))
  | .str cs => okPV (.txt (lit cs))
  | .noneLit => okPV (.v .none)
  | .int n => okPV (.v (.int n))
  | .tuple es =>
    (evalEs cx env es).bindPVs fun ps => match allVals ps with
      | some vs => okPV (.v (.tuple vs))
      | Option.none => stuckT "tuple of non-objects"
  | .callFn f args =>
    (evalEs cx env args).bindPVs fun ps => .callK f ps ofRes
  | .callBuiltin f args =>
    (evalEs cx env args).bindPVs fun ps => primCall f ps
  | .callMeth r m args =>
    (evalE cx env r).bindPV fun rp => (evalEs cx env args).bindPVs fun ps => methCall rp m ps
  | .attr e a =>
    (evalE cx env e).bindPV fun p => ofRes (getAttr p a)
  | .index e i =>
    (evalE cx env e).bindPV fun p => (evalE cx env i).bindPV fun q => getIndex p q
  | .cmp op a b =>
    (evalE cx env a).bindPV fun p => (evalE cx env b).bindPV fun q => .cmpK op p q ofRes
  | .or a b =>
    (evalE cx env a).bindPV fun p => match truthy p with
      | .ok true => okPV p
      | .ok false => evalE cx env b
      | .exc c => .done (.exc c)
      | .stuck m => .done (.stuck m)
  | .add a b =>
    (evalE cx env a).bindPV fun p => (evalE cx env b).bindPV fun q => ofRes (doAdd p q)
  | .fstr parts =>
    (evalEs cx env parts).bindPVs fun ps => okPV (.txt (ps.map PV.toTxt).flatten)
  | .genPairs elt k v it =>
    (evalE cx env it).bindPV fun s => match iterOf s with
      | .ok xs =>
        .genK (fun x => match x with
            | .v (.tuple [a, b]) => evalE cx ((v, .v b) :: (k, .v a) :: env) elt
            | _ => stuckT "unpacking") xs
          fun r => match r with
            | .ok ys => okPV (.seq ys)
            | .exc c => .done (.exc c)
            | .stuck m => .done (.stuck m)
      | .exc c => .done (.exc c)
      | .stuck m => .done (.stuck m)
def evalEs (cx : Ctx) (env : Env) : List Expr → Tree
  | [] => .done (.ok (.pvs []))
  | e :: es =>
    (evalE cx env e).bindPV fun p => (evalEs cx env es).bindPVs fun ps => .done (.ok (.pvs (p :: ps)))
end

mutual
def execS (cx : Ctx) (env : Env) : Stmt → Tree
  | .ret e => (evalE cx env e).bindPV fun p => .done (.ok (.ret p))
  | .assign x e => (evalE cx env e).bindPV fun p => .done (.ok (.next ((x, p) :: env)))
  | .raise c => .done (.exc c)
  | .ifThen c body orelse =>
    (evalE cx env c).bindPV fun p => match truthy p with
      | .ok true => execL cx env body
      | .ok false => execL cx env orelse
      | .exc c => .done (.exc c)
      | .stuck m => .done (.stuck m)
  | .tryExcept body excs handler =>
    (execL cx env body).catch excs (execL cx env handler)
def execL (cx : Ctx) (env : Env) : List Stmt → Tree
  | [] => .done (.ok (.next env))
  | s :: ss =>
    (execS cx env s).bind fun o => match o with
      | .next env' => execL cx env' ss
      | .ret p => .done (.ok (.ret p))
      | _ => stuckT "statement result"
end

def outPV : Res Out → Res PV
  | .ok (.pv p) => .ok p
  | .ok _ => .stuck "expected a value"
  | .exc c => .exc c
  | .stuck m => .stuck m

/-- answer the nodes of a tree: `call` runs another translated function,
    `so` is Python's `sorted`. -/
def run (cx : Ctx) (so : List Val → Option (List Val)) (call : String → List PV → Res PV) : Tree → Res Out
  | .done r => r
  | .callK f a k => run cx so call (k (call f a))
  | .mapK g xs k => run cx so call (k (mapRes (fun x => call g [x]) xs))
  | .sortK xs k => run cx so call (k (so xs))
  | .genK f xs k => run cx so call (k (mapRes (fun x => outPV (run cx so call (f x))) xs))
  | .tblK t g key k => run cx so call (k (tableLookup cx t g key))
  | .cmpK op a b k => run cx so call (k (doCmp op a b))

def findFunc (f : String) : List FuncDef → Option FuncDef
  | [] => Option.none
  | d :: ds => if d.name == f then some d else findFunc f ds

/-- what a function call yields from the outcome of its body -/
def finish : Res Out → Res PV
  | .ok (.ret p) => .ok p
  | .ok (.next _) => .ok (.v .none)
  | .ok _ => .stuck "body result"
  | .exc c => .exc c
  | .stuck m => .stuck m

/-- Python-level call of a translated function; one unit of fuel per call. -/
def callFn (cx : Ctx) (so : List Val → Option (List Val)) : Nat → String → List PV → Res PV
  | 0, _, _ => .stuck "out of fuel"
  | fuel + 1, f, args =>
    match findFunc f cx.funcs with
    | Option.none => .stuck ("unknown function " ++ f)
    | some d =>
      if d.params.length != args.length then .stuck "arity" else
      finish (run cx so (callFn cx so fuel) (execL cx (d.params.zip args).reverse d.body))

/-! nesting depth of a value: the fuel a rendering needs is linear in it -/
mutual
def Val.depth : Val → Nat
  | .list xs | .tuple xs | .set xs | .frozenset xs => depthL xs + 1
  | .dict kvs => depthKV kvs + 1
  | .slice a b c => max a.depth (max b.depth c.depth) + 1
  | .range .. => 1
  | _ => 0
def depthL : List Val → Nat
  | [] => 0
  | x :: xs => max x.depth (depthL xs)
def depthKV : List (Val × Val) → Nat
  | [] => 0
  | (k, v) :: kvs => max (max k.depth v.depth) (depthKV kvs)
end

end Adaptix.Default
