/-
  Layout/Paths — from merged parameters to `paths_to_leaves`.

  Code modelled (morphing/name_layout/component.py, name_mapping.py):
    BuiltinStructureMaker._generate_key, _map_fields, _validate_structure,
    _iterate_sub_paths, _get_paths_to_list, _make_paths_to_leaves,
    make_inp_structure / make_out_structure,
    BuiltinExtraMoveAndPoliciesMaker.make_inp_extra_move / make_out_extra_move /
    _get_extra_policy / make_extra_policies, BuiltinSievesMaker.make_sieves,
    resolve_map_result, Dict/Const/Func/SkipPrivateFields NameMappingProvider.

  Specification side (independent of the crown builder): `pathOf`.
-/
import AdaptixModel.Layout.Overlay

namespace Adaptix.Layout

inductive Dir where
  | inp | out
deriving DecidableEq, Repr

/-- `if name.endswith("_") and not name.endswith("__"): name = name.rstrip("_")` -/
def trimRule (name : String) : String :=
  match name.toList.reverse with
  | '_' :: '_' :: _ => name
  | '_' :: rest => String.ofList rest.reverse     -- exactly one trailing underscore is removed
  | _ => name

/-- `shape.fields.index(field)` (field ids are unique inside a shape) -/
def fieldIndex (fields : List Field) (id : String) : Nat :=
  fields.findIdx (fun g => g.id == id)

/-- `BuiltinStructureMaker._generate_key`; `style st name` stands for
    `convert_snake_style(name, st)` (a parameter of the model) -/
def generateKey (sch : Schema) (style : Style → String → String) (fields : List Field) (f : Field) : Key :=
  if sch.asList then .i (fieldIndex fields f.id)
  else
    let name := if sch.trim then trimRule f.id else f.id
    match sch.style with
    | some st => .s (style st name)
    | none => .s name

/-- `resolve_map_result(generated_key, map_result)` -/
def resolveMapResult (gen : Key) : MapResult → Option Path
  | none => none
  | some raw => some (raw.map fun
      | .ellipsis => gen
      | .key k => k)

/-- one provider of the name-mapping retort; `none` = `CannotProvide` / predicate does not match -/
def MapEntry.apply (dir : Dir) (f : Field) : MapEntry → Option MapResult
  | .dict tbl => tbl.lookup f.id
  | .const p r => if p f then some r else none
  | .func p g => if p f then some (g f) else none
  | .skipPrivateOut => if dir = .out && f.id.startsWith "_" then some none else none

/-- `NameMappingRetort(recipe=schema.map).provide_name_mapping`: the first provider that
    answers wins (first-match of the recipe, C09) -/
def lookupMap (dir : Dir) (f : Field) : List MapEntry → Option MapResult
  | [] => none
  | e :: r =>
    match e.apply dir f with
    | some x => some x
    | none => lookupMap dir f r

/-- body of the loop of `_map_fields` for a field that is not an extra target -/
def mapField (dir : Dir) (sch : Schema) (style : Style → String → String) (fields : List Field)
    (f : Field) : Option Path :=
  let gen := generateKey sch style fields f
  let path := match lookupMap dir f sch.map with
    | some r => resolveMapResult gen r
    | none => some [gen]                      -- `except CannotProvide: path = (generated_key,)`
  match path with
  | none => none
  | some p => if !sch.skip f && sch.only f then some p else none

/-- `_map_fields`: extra targets are not yielded at all -/
def mapFields (dir : Dir) (sch : Schema) (style : Style → String → String) (fields : List Field)
    (extraTargets : List String) : List (Field × Option Path) :=
  (fields.filter fun f => !extraTargets.contains f.id).map fun f => (f, mapField dir sch style fields f)

/-! ### Specification: the documented rule as a plain function -/

/-- The path the documentation assigns to a field (extended-usage.rst, "Name mapping"):
    1. extra-target fields, fields matched by `skip`, fields not matched by `only` are not presented;
    2. otherwise the first `map` element matching the field decides: `None` skips, a key / path is
       used as is with `...` replaced by the generated key;
    3. otherwise the generated key: position if `as_list`, else the id with the trailing underscore
       trimmed (if enabled) and converted to the name style (if set). -/
def pathOf (dir : Dir) (sch : Schema) (style : Style → String → String) (fields : List Field)
    (extraTargets : List String) (f : Field) : Option Path :=
  if extraTargets.contains f.id then none
  else if sch.skip f then none
  else if !sch.only f then none
  else
    let generated : Key :=
      if sch.asList then .i (fieldIndex fields f.id)
      else .s ((match sch.style with | some st => style st | none => id) (if sch.trim then trimRule f.id else f.id))
    match (sch.map.filterMap (MapEntry.apply dir f)).head? with
    | some none => none
    | some (some raw) => some (raw.map fun r => match r with | .ellipsis => generated | .key k => k)
    | none => some [generated]

/-! ### Structure validation and gap filling -/

inductive Leaf where
  | field (id : String)
  | none
deriving DecidableEq, Repr, Inhabited

inductive StructErr where
  | requiredSkipped (ids : List String)   -- "Required fields ... are skipped"
  | inconsistent (at_ : Path)             -- "Inconsistent path elements at ..."
  | duplicates                            -- "Paths ... pointed to several fields"
  | prefix                                -- "Path to the field must not be a prefix of another path"
  | optionalAtList (ids : List String)    -- "Optional fields ... can not be mapped to list elements"
  | collectWithList                       -- "Can not use collecting extra_in with list mapping"
  | emptyPath                             -- a `map` result `()`; the real code escapes with IndexError
  | schema (e : SchemaErr)
  | build                                 -- ValueError of the crown builder (unreachable after validation)
deriving DecidableEq, Repr

/-- `_iterate_sub_paths` for one path: `(path[:i], path[i])` for `i = len-1 … 0`
    (the `yielded` set only avoids repeating pairs) -/
def subPathsOf (p : Path) : List (Path × Key) :=
  let rec go (pre : Path) : Path → List (Path × Key)
    | [] => []
    | k :: r => go (pre ++ [k]) r ++ [(pre, k)]
  go [] p

def subPaths (paths : List Path) : List (Path × Key) :=
  paths.flatMap subPathsOf

/-- insert an index into `paths_to_lists[sub_path]` -/
def addIndex (sub : Path) (n : Nat) : List (Path × List Nat) → List (Path × List Nat)
  | [] => [(sub, [n])]
  | (p, ns) :: r => if p = sub then (p, if ns.contains n then ns else ns ++ [n]) :: r else (p, ns) :: addIndex sub n r

/-- `_get_paths_to_list`: fold over the sub paths keeping `paths_to_lists` and `paths_to_dicts` -/
def pathsToListsAux : List (Path × Key) → List (Path × List Nat) → List Path → Except StructErr (List (Path × List Nat))
  | [], lists, _ => .ok lists
  | (sub, .i n) :: r, lists, dicts =>
    if dicts.contains sub then .error (.inconsistent sub)
    else pathsToListsAux r (addIndex sub n lists) dicts
  | (sub, .s _) :: r, lists, dicts =>
    if (lists.map (·.1)).contains sub then .error (.inconsistent sub)
    else pathsToListsAux r lists (if dicts.contains sub then dicts else dicts ++ [sub])

def pathsToLists (paths : List Path) : Except StructErr (List (Path × List Nat)) :=
  pathsToListsAux (subPaths paths) [] []

/-- the gap leaves of one list node: `for i in range(max(indexes)): if i not in indexes` -/
def gapsOf (path : Path) (indexes : List Nat) : List (Path × Leaf) :=
  ((List.range (indexes.foldl max 0)).filter fun i => !indexes.contains i).map fun i => (path ++ [.i i], Leaf.none)

/-- `_make_paths_to_leaves`: field leaves in field order, then the gap fillers -/
def makePathsToLeaves (fieldsToPaths : List (Field × Option Path)) : Except StructErr (List (Path × Leaf)) := do
  let leaves : List (Path × Leaf) := fieldsToPaths.filterMap fun (f, p) => p.map fun p => (p, Leaf.field f.id)
  let lists ← pathsToLists (leaves.map (·.1))
  return leaves ++ lists.flatMap fun (p, idx) => gapsOf p idx

/-- `True` iff the paths at two different positions are equal -/
def hasDuplicates : List Path → Bool
  | [] => false
  | p :: r => r.contains p || hasDuplicates r

/-- `get_prefix_groups(paths)` is non-empty: some path is a prefix of a path at another position
    (the real function sorts and scans; after the duplicate check both say the same, which the
    crown correspondence validates) -/
def hasPrefixPair (paths : List Path) : Bool :=
  paths.zipIdx.any fun (p, i) => paths.zipIdx.any fun (q, j) => i != j && p.isPrefixOf q

def lastIsIndex : Path → Bool
  | [] => false
  | [.i _] => true
  | [.s _] => false
  | _ :: r => lastIsIndex r

/-- `_validate_structure` -/
def validateStructure (fieldsToPaths : List (Field × Option Path)) : Except StructErr Unit := do
  let paths := fieldsToPaths.filterMap (·.2)
  if hasDuplicates paths then throw .duplicates
  if hasPrefixPair paths then throw .prefix
  let bad := fieldsToPaths.filterMap fun (f, p) =>
    match p with
    | some p => if !f.required && lastIsIndex p then some f.id else none
    | none => none
  if !bad.isEmpty then throw (.optionalAtList bad)

/-- `make_inp_structure` / `make_out_structure` (given the merged schema) -/
def makeStructure (dir : Dir) (sch : Schema) (style : Style → String → String) (fields : List Field)
    (extraTargets : List String) : Except StructErr (List (Path × Leaf)) := do
  let ftp := mapFields dir sch style fields extraTargets
  if ftp.any (fun (_, p) => p == some []) then throw .emptyPath
  if dir = .inp then
    let skippedRequired := ftp.filterMap fun (f, p) => if p.isNone && f.required then some f.id else none
    if !skippedRequired.isEmpty then throw (.requiredSkipped skippedRequired)
  let leaves ← makePathsToLeaves ftp
  validateStructure ftp
  return leaves

/-! ### Extra move, extra policies, sieves -/

inductive Policy where
  | skip | forbid | collect
deriving DecidableEq, Repr, Inhabited

inductive InpExtraMove where
  | none | kwargs | targets (ids : List String) | saturate
deriving DecidableEq, Repr, Inhabited

inductive OutExtraMove where
  | none | targets (ids : List String) | extract
deriving DecidableEq, Repr, Inhabited

/-- `make_inp_extra_move` -/
def makeInpExtraMove : ExtraIn → InpExtraMove
  | .skip => .none
  | .forbid => .none
  | .kwargs => .kwargs
  | .saturate => .saturate
  | .targets ids => .targets ids

/-- `make_out_extra_move` -/
def makeOutExtraMove : ExtraOut → OutExtraMove
  | .skip => .none
  | .extract => .extract
  | .targets ids => .targets ids

/-- `_get_extra_policy` -/
def extraPolicy : ExtraIn → Policy
  | .skip => .skip
  | .forbid => .forbid
  | _ => .collect

def InpExtraMove.targetIds : InpExtraMove → List String
  | .targets ids => ids
  | _ => []

def OutExtraMove.targetIds : OutExtraMove → List String
  | .targets ids => ids
  | _ => []

def pathHasIndex (p : Path) : Bool :=
  p.any fun | .i _ => true | .s _ => false

/-- `make_extra_policies`: one policy for every branch; collecting is refused if any branch key is an int -/
def checkExtraPolicies (policy : Policy) (leaves : List (Path × Leaf)) : Except StructErr Unit :=
  if policy = .collect && leaves.any (fun (p, _) => pathHasIndex p) then throw .collectWithList else pure ()

/-- `make_sieves`: path ↦ default value for every field leaf with a default selected by `omit_default` -/
def makeSieves (sch : Schema) (fields : List Field) (leaves : List (Path × Leaf)) : List (Path × Val) :=
  leaves.filterMap fun (p, l) =>
    match l with
    | .field id =>
      match fields.find? (fun f => f.id == id) with
      | some f =>
        match f.default with
        | some d => if sch.omitDefault f then some (p, d) else none
        | none => none
      | none => none
    | .none => none

end Adaptix.Layout
