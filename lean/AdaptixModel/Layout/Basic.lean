/-
  Layout/Basic — the small value universe shared by the name-layout models (C03).

  * `Key`   : one element of a crown path (`CrownPathElem = Union[str, int]`,
              morphing/model/crown_definitions.py).
  * `Val`   : JSON-like Python data as seen by a generated model loader/dumper:
              None, bool, int, str, list, dict (insertion ordered, **str keys** — the
              domain restriction of the model), and `opaque` for any other object
              (no `__getitem__`, no `.get`, not a Mapping/Sequence).
  * `getItem`, `getPath` : Python subscription `data[key]` restricted to that universe.
  * `pyEq`  : Python `==` on the universe (`True == 1`, dicts unordered, lists pointwise).
  * `same`  : identity of the singletons (`is`) — used by the omit_default sieve.
-/
namespace Adaptix.Layout

inductive Key where
  | s (v : String)
  | i (n : Nat)
deriving DecidableEq, Repr, Inhabited

abbrev Path := List Key

inductive Val where
  | none
  | bool (b : Bool)
  | int (n : Int)
  | str (s : String)
  | list (xs : List Val)
  | dict (kvs : List (String × Val))
  | opaque (tag : String)
deriving Repr, Inhabited

namespace Val

/-- first binding of `k` in an association list (Python dicts have unique keys) -/
def lookup (k : String) : List (String × Val) → Option Val
  | [] => Option.none
  | (k', v) :: r => if k' = k then some v else lookup k r

/-- result of the Python expression `data[key]` -/
inductive Item where
  | found (v : Val)
  | keyError          -- `KeyError`
  | indexError        -- `IndexError`
  | typeError         -- `TypeError` (not subscriptable / wrong index type)
deriving Repr

/-- `data[key]` for `key` a str or a (non-negative) int literal of generated code -/
def getItem : Val → Key → Item
  | .dict kvs, .s k => match lookup k kvs with
      | some v => .found v
      | Option.none => .keyError
  | .dict _, .i _ => .keyError            -- str-keyed dict never holds an int key
  | .list xs, .i n => match xs[n]? with
      | some v => .found v
      | Option.none => .indexError
  | .list _, .s _ => .typeError           -- list indices must be integers
  | .str s, .i n => match s.toList[n]? with
      | some c => .found (.str (String.singleton c))
      | Option.none => .indexError
  | .str _, .s _ => .typeError
  | _, _ => .typeError                    -- None, bool, int, other objects

/-- plain navigation used by the specification side -/
def getPath : Val → Path → Option Val
  | v, [] => some v
  | v, k :: r => match getItem v k with
      | .found w => getPath w r
      | _ => Option.none

/-- `isinstance(v, collections.abc.Mapping)` -/
def isMapping : Val → Bool
  | .dict _ => true
  | _ => false

/-- `isinstance(v, collections.abc.Sequence)` (str is a Sequence) -/
def isSequence : Val → Bool
  | .list _ => true
  | .str _ => true
  | _ => false

/-- `len(v)` for the sized values -/
def len : Val → Nat
  | .list xs => xs.length
  | .str s => s.length
  | .dict kvs => kvs.length
  | _ => 0

/-- keys of a dict datum in insertion order (`set(data)` up to order) -/
def keys : Val → List String
  | .dict kvs => kvs.map (·.1)
  | _ => []

mutual
/-- Python `==` restricted to the universe: `bool` is an `int`, lists pointwise,
    dicts as unordered mappings, everything else by constructor. -/
def pyEq : Val → Val → Bool
  | .none, .none => true
  | .bool a, .bool b => a == b
  | .bool a, .int b => (if a then 1 else 0) == b
  | .int a, .bool b => a == (if b then 1 else 0)
  | .int a, .int b => a == b
  | .str a, .str b => a == b
  | .list a, .list b => pyEqList a b
  | .dict a, .dict b => a.length == b.length && pyEqSub a b
  | .opaque a, .opaque b => a == b
  | _, _ => false
def pyEqList : List Val → List Val → Bool
  | [], [] => true
  | x :: xs, y :: ys => pyEq x y && pyEqList xs ys
  | _, _ => false
/-- every binding of the first list has an equal value in the second one -/
def pyEqSub : List (String × Val) → List (String × Val) → Bool
  | [], _ => true
  | (k, x) :: r, b =>
    (match lookup k b with
     | some y => pyEq x y
     | Option.none => false) && pyEqSub r b
end

/-- `a is b` for the singletons the sieve may compare by identity (None, True, False);
    on other values identity is not modelled and never used. -/
def same : Val → Val → Bool
  | .none, .none => true
  | .bool a, .bool b => a == b
  | _, _ => false

end Val

end Adaptix.Layout
