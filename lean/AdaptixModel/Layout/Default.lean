/-
  C08, part 2 — defaults.  `literalExpr` / `literalFromFactory` are the
  mini-Python interpreter (`DefaultMiniPy.lean`) applied to the term that
  `extract/c08_literal.py` regenerates from `code_tools/utils.py` on every
  check (`Generated/C08Literal.lean`); the three renderings of a default in the
  generated loader (`loader_gen.py: _get_default_clause_expr`) and the
  namespace-constant stage (`basic_gen.py: compile_closure_with_globals_capturing`)
  are hand-written below, statement by statement.
-/
import AdaptixModel.Layout.DefaultMiniPy
import AdaptixModel.Generated.C08Literal

namespace Adaptix.Default

/-- The context of the translated module. -/
def theCtx : Ctx :=
  { funcs := Generated.funcs
    builtinToName := Generated.builtinToName
    nameToBuiltin := Generated.nameToBuiltin
    clsToFactoryLiteral := Generated.clsToFactoryLiteral }

/-- Python's `sorted` on the elements of a set (`none` = TypeError) is not
    modelled: it is a parameter, and the theorems hold for every oracle that
    returns a permutation of its argument. -/
abbrev SortOracle := List Val → Option (List Val)

/-- outcome of `get_literal_expr(v)` / `get_literal_from_factory(f)`:
    `some t` the text, `none` Python `None`. -/
inductive LitRes where
  | text (t : Txt)
  | noLiteral
  | raised (cls : Exc)        -- an exception escapes the function
  | stuck (msg : String)      -- outside the model / out of fuel
  deriving Repr, Inhabited

def toLitRes : Res PV → LitRes
  | .ok (.txt t) => .text t
  | .ok (.v .none) => .noLiteral
  | .ok _ => .stuck "unexpected result type"
  | .exc c => .raised c
  | .stuck m => .stuck m

/-- `get_literal_expr(v)` as the source says now. -/
def literalExprFuel (sorted : SortOracle) (fuel : Nat) (v : Val) : LitRes :=
  toLitRes (callFn theCtx sorted fuel "get_literal_expr" [.v v])

/-- enough fuel for every value: 4 Python-level calls per nesting level
    (get_literal_expr → _get_complex_literal_expr → _parenthesize →
    _provide_lit_expr) plus `_try_sort`. -/
def fuelFor (v : Val) : Nat := 5 * v.depth + 5

def literalExpr (sorted : SortOracle) (v : Val) : LitRes :=
  literalExprFuel sorted (fuelFor v) v

/-- `get_literal_from_factory(f)`. -/
def literalFromFactory (f : Val) : LitRes :=
  toLitRes (callFn theCtx (fun _ => Option.none) 2 "get_literal_from_factory" [.v f])

/-! ## The three renderings of a default (loader_gen.py) -/

/-- `model_tools/definitions.py: Default` -/
inductive Default where
  | noDefault
  | value (v : Val)                -- DefaultValue(v)
  | factory (f : Val)              -- DefaultFactory(f)
  | factoryWithSelf (f : Val)      -- DefaultFactoryWithSelf(f)
  deriving Repr, Inhabited

/-- the expression `_get_default_clause_expr` emits for `f_x = …` -/
inductive Clause where
  | inline (t : Txt)               -- a literal evaluated at every load
  | captured (v : Val)             -- `dfl_x`: namespace constant holding the default object itself
  | callCaptured (f : Val)         -- `dfl_x()`: namespace constant holding the factory, called at every load
  deriving Repr, Inhabited

/-- `BuiltinModelLoaderGen._get_default_clause_expr`; `none` = `raise ValueError`
    (never reached: such fields are packed), or the renderer failed. -/
def defaultClause (sorted : SortOracle) : Default → Option Clause
  | .value v =>
    match literalExpr sorted v with
    | .text t => some (.inline t)
    | .noLiteral => some (.captured v)
    | _ => Option.none
  | .factory f =>
    match literalFromFactory f with
    | .text t => some (.inline t)
    | .noLiteral => some (.callCaptured f)
    | _ => Option.none
  | _ => Option.none

/-! ### Run-time meaning of a clause: objects carry an allocation id -/

/-- A reference to an object: what it is and which allocation it is.
    Pre-existing objects (the declared defaults, the factories) have the ids
    the caller gave them; everything created while loading gets a fresh id. -/
structure Ref where
  alloc : Nat
  val : Val
  deriving Repr, Inhabited

/-- World: the allocation counter and the log of factory invocations. -/
structure World where
  next : Nat
  factoryCalls : List Nat      -- allocation ids of the factories called, oldest first
  deriving Repr, Inhabited

/-- Semantics of the factory objects: what a call returns (value only; the
    result is a new allocation).  Unknown factories are the caller's. -/
abbrev FactorySem := Val → Val

/-- evaluation of an inline literal: a fresh object holding the value of the
    text.  `parse` stands for Python's parser on the emitted text (the theorems
    quantify over every `e` whose rendering is the text). -/
def evalClause (bi : Builtins) (sem : FactorySem) (dflAlloc : Nat) (e? : Option PyExpr)
    (c : Clause) (w : World) : Ref × World :=
  match c with
  | .inline _ =>
    match e? with
    | some e => ({ alloc := w.next, val := e.eval bi }, { w with next := w.next + 1 })
    | Option.none => ({ alloc := w.next, val := garbage }, { w with next := w.next + 1 })
  | .captured v => ({ alloc := dflAlloc, val := v }, w)
  | .callCaptured f =>
    ({ alloc := w.next, val := sem f }, { next := w.next + 1, factoryCalls := w.factoryCalls ++ [dflAlloc] })

/-- value of an omitted field in `n` successive loads, threading the world -/
def loadsOmitted (bi : Builtins) (sem : FactorySem) (dflAlloc : Nat) (e? : Option PyExpr) (c : Clause) :
    Nat → World → List Ref × World
  | 0, w => ([], w)
  | n + 1, w =>
    let (r, w1) := evalClause bi sem dflAlloc e? c w
    let (rs, w2) := loadsOmitted bi sem dflAlloc e? c n w1
    (r :: rs, w2)

/-- `compile_closure_with_globals_capturing`: a namespace constant is rebuilt
    from its literal when it has one (evaluated once, when the closure is
    created), otherwise passed by reference as `g_<name>`. -/
inductive NsBinding where
  | literal (t : Txt)
  | byRef (v : Val)
  deriving Repr, Inhabited

def nsConstant (sorted : SortOracle) (v : Val) : Option NsBinding :=
  match literalExpr sorted v with
  | .text t => some (.literal t)
  | .noLiteral => some (.byRef v)
  | _ => Option.none

end Adaptix.Default
