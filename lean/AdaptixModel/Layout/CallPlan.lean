/-
  C08, part 1 — the constructor call of a generated model loader.

  Source modelled (hand-written, tied by the `call_plan` / `load_model`
  correspondences of `harness/props/c08.py`):
    src/adaptix/_internal/morphing/model/loader_gen.py
        BuiltinModelLoaderGen._is_packed_field, _has_packed_fields,
        _gen_constructor_call, _gen_field_crown (which variable / dict slot a field goes to),
        produce_code (top-level structure: extraction, error check, constructor call, saturator)
    src/adaptix/_internal/model_tools/definitions.py
        InputShape._validate, BaseShape._validate          (`wfShape`)
    src/adaptix/_internal/morphing/model/loader_provider.py
        ModelLoaderProvider._validate_params               (`wfCfg`: skipped fields are optional)
  and Python's call binding (`bindArgs`: positional fill, then keywords;
  duplicates / unexpected names / too many positionals / missing ⇒ TypeError).

  `genParams` follows the loop of `_gen_constructor_call` statement by
  statement.  `fix = true` is the repaired code (fixes/C08-skipped-param-keywords.patch:
  a packed parameter that is left out switches the rest of the call to
  keywords, exactly like a skipped one); `fix = false` is the code before that
  patch, kept so that the defect stays stated and witnessed (`Props/C08.lean`).
-/
namespace Adaptix.CallPlan

/-- `ParamKind` with its ordering values 0, 1, 3. -/
inductive Kind where
  | posOnly | posOrKw | kwOnly
  deriving Repr, DecidableEq, Inhabited

def Kind.value : Kind → Nat
  | .posOnly => 0
  | .posOrKw => 1
  | .kwOnly => 3

/-- which class of `Default` the field carries -/
inductive DefaultKind where
  | noDefault | value | factory | factoryWithSelf
  deriving Repr, DecidableEq, Inhabited

structure Field where
  id : String
  required : Bool
  dflt : DefaultKind
  deriving Repr, DecidableEq, Inhabited

structure Param where
  fieldId : String
  name : String
  kind : Kind
  deriving Repr, DecidableEq, Inhabited

/-- `InputShape` (types, metadata and the constructor object are irrelevant here) -/
structure Shape where
  fields : List Field
  params : List Param
  kwargs : Bool                 -- `kwargs is not None`
  deriving Repr, Inhabited

/-- `fields_dict[id]` -/
def Shape.field? (s : Shape) (id : String) : Option Field := s.fields.find? (·.id == id)

/-- `pairs(params)`-condition of `InputShape._validate` -/
def pairsOk (s : Shape) : List Param → Bool
  | [] | [_] => true
  | past :: cur :: rest =>
    (past.kind.value ≤ cur.kind.value) &&
    (match s.field? past.fieldId, s.field? cur.fieldId with
      | some pf, some cf => !(!pf.required && cf.required && cur.kind != .kwOnly)
      | _, _ => false) &&
    pairsOk s (cur :: rest)

/-- `InputShape._validate` (incl. `BaseShape._validate`) as a decidable predicate. -/
def wfShape (s : Shape) : Bool :=
  (s.fields.map (·.id)).Nodup &&                                        -- field ids are not duplicated
  (s.params.map (·.name)).Nodup &&                                      -- parameter names are not duplicated
  s.params.all (fun p => (s.field? p.fieldId).isSome) &&                -- no parameter binds to a non-existing field
  s.fields.all (fun f => s.params.any (·.fieldId == f.id)) &&           -- every field is bound to a parameter
  pairsOk s s.params &&                                                 -- kind order; optional before required only for KW_ONLY
  s.params.all (fun p => match s.field? p.fieldId with                  -- positional-only ⇒ required
    | some f => !(p.kind == .posOnly && !f.required)
    | Option.none => false)

/-- `InpExtraMove` -/
inductive ExtraMove where
  | none
  | kwargs                       -- ExtraKwargs()
  | targets (ids : List String)  -- ExtraTargets(fields)
  | saturate                     -- ExtraSaturate(func)
  deriving Repr, DecidableEq, Inhabited

structure Cfg where
  skipped : List String           -- get_skipped_fields(shape, name_layout)
  useDefaultForOmitted : Bool     -- ModelLoaderProps.use_default_for_omitted
  extraMove : ExtraMove
  deriving Repr, Inhabited

def Cfg.isExtraTarget (c : Cfg) (id : String) : Bool :=
  match c.extraMove with
  | .targets ids => ids.contains id
  | _ => false

/-- `BuiltinModelLoaderGen._is_packed_field` -/
def isPacked (c : Cfg) (f : Field) : Bool :=
  if c.useDefaultForOmitted && (f.dflt == .value || f.dflt == .factory) then false
  else !f.required && !c.isExtraTarget f.id

/-- `_has_packed_fields` -/
def hasPacked (s : Shape) (c : Cfg) : Bool := s.fields.any (isPacked c)

/-- `ModelLoaderProvider._validate_params` (the part that concerns parameters):
    skipped fields are optional. -/
def wfCfg (s : Shape) (c : Cfg) : Bool :=
  s.fields.all fun f => !(f.required && c.skipped.contains f.id)

inductive GenError where
  | keyError      -- fields_dict[param.field_id]
  | valueError    -- "Can not generate consistent constructor call, positional-only parameter is skipped"
  deriving Repr, DecidableEq, Inhabited

/-- one argument of the emitted call -/
inductive ArgT where
  | pos (fieldId : String)                 -- `f_<id>,`
  | kw (name : String) (fieldId : String)  -- `<name>=f_<id>,`
  | starPacked                             -- `**packed_fields,`
  | starExtra                              -- `**extra,`
  deriving Repr, DecidableEq, Inhabited

/-- the `for param in self._shape.params` loop of `_gen_constructor_call`;
    `hs` is `has_skipped_params`. -/
def genParams (fix : Bool) (s : Shape) (c : Cfg) : Bool → List Param → Except GenError (List ArgT)
  | _, [] => .ok []
  | hs, p :: ps =>
    match s.field? p.fieldId with
    | Option.none => .error .keyError
    | some f =>
      if c.skipped.contains f.id then genParams fix s c true ps
      else if isPacked c f then genParams fix s c (hs || fix) ps
      else if p.kind == .kwOnly || hs then
        (genParams fix s c hs ps).map (ArgT.kw p.name f.id :: ·)
      else if p.kind == .posOnly && hs then .error .valueError
      else (genParams fix s c hs ps).map (ArgT.pos f.id :: ·)

/-- `_gen_constructor_call`: the argument list of `constructor(…)`. -/
def genCall (fix : Bool) (s : Shape) (c : Cfg) : Except GenError (List ArgT) :=
  (genParams fix s c false s.params).map fun args =>
    args ++ (if hasPacked s c then [ArgT.starPacked] else []) ++
      (if c.extraMove == .kwargs then [ArgT.starExtra] else [])

/-! ## Run time -/

/-- what the extraction part of the loader produced -/
structure Inputs (V : Type) where
  loaded : String → Option V     -- field id ↦ loaded value, for the fields present in the input
  dflt : String → Option V       -- field id ↦ value of the default clause (`f_x = <clause>`), when there is one
  extra : List (String × V)      -- the collected extra items (`extra` under ExtraKwargs)

/-- the local variable `f_<id>` after extraction (`_gen_field_crown`):
    the loaded value, else the default clause -/
def Inputs.fieldVar {V : Type} (i : Inputs V) (id : String) : Option V :=
  match i.loaded id with
  | some v => some v
  | Option.none => i.dflt id

/-- `self._field_id_to_param[field.id].name` where
    `_field_id_to_param = {param.field_id: param for param in params}` (last parameter wins) -/
def lastParamName (id : String) : List Param → Option String
  | [] => Option.none
  | p :: ps =>
    match lastParamName id ps with
    | some n => some n
    | Option.none => if p.fieldId == id then some p.name else Option.none

/-- the dict `packed_fields` after extraction (`_gen_field_crown`): the packed
    fields present in the input, keyed by `_field_id_to_param[field.id].name`.
    The real dict is filled in crown order; the model lists it in parameter
    order (a keyword mapping; Python's binding does not depend on its order). -/
def packedDict {V : Type} (s : Shape) (c : Cfg) (i : Inputs V) : List (String × V) :=
  s.params.filterMap fun p =>
    match s.field? p.fieldId with
    | some f =>
      if isPacked c f && !c.skipped.contains f.id && (lastParamName f.id s.params == some p.name) then
        (i.loaded f.id).map fun v => (p.name, v)
      else Option.none
    | Option.none => Option.none

inductive Arg (V : Type) where
  | pos (v : V)
  | kw (name : String) (v : V)
  | starStar (kvs : List (String × V))
  deriving Repr, Inhabited

inductive PlanError where
  | gen (e : GenError)
  | unboundLocal (fieldId : String)   -- `f_<id>` was never assigned
  deriving Repr, DecidableEq, Inhabited

def instArgs {V : Type} (s : Shape) (c : Cfg) (i : Inputs V) : List ArgT → Except PlanError (List (Arg V))
  | [] => .ok []
  | .pos id :: rest =>
    match i.fieldVar id with
    | some v => (instArgs s c i rest).map (Arg.pos v :: ·)
    | Option.none => .error (.unboundLocal id)
  | .kw n id :: rest =>
    match i.fieldVar id with
    | some v => (instArgs s c i rest).map (Arg.kw n v :: ·)
    | Option.none => .error (.unboundLocal id)
  | .starPacked :: rest => (instArgs s c i rest).map (Arg.starStar (packedDict s c i) :: ·)
  | .starExtra :: rest => (instArgs s c i rest).map (Arg.starStar i.extra :: ·)

/-- the evaluated argument list of the one `constructor(…)` call -/
def mkPlan {V : Type} (fix : Bool) (s : Shape) (c : Cfg) (i : Inputs V) : Except PlanError (List (Arg V)) :=
  match genCall fix s c with
  | .error e => .error (.gen e)
  | .ok ts => instArgs s c i ts

/-! ## Python's call binding -/

structure SigParam where
  name : String
  kind : Kind
  mustBind : Bool     -- no default in the real signature
  deriving Repr, DecidableEq, Inhabited

structure Sig where
  params : List SigParam
  varKw : Bool        -- has `**kwargs`
  deriving Repr, Inhabited

/-- the signature the shape describes: a parameter must be bound iff its field is required -/
def Shape.sig (s : Shape) : Sig :=
  { params := s.params.map fun p =>
      { name := p.name, kind := p.kind,
        mustBind := match s.field? p.fieldId with
          | some f => f.required
          | Option.none => true }
    varKw := s.kwargs }

inductive TypeError where
  | tooManyPositional
  | positionalAfterKeyword          -- (a SyntaxError of the generated source, in fact)
  | multipleValues (name : String)
  | unexpectedKeyword (name : String)
  | missing (name : String)
  deriving Repr, DecidableEq, Inhabited

abbrev Binding (V : Type) := List (String × V)

/-- positional phase: leading positional arguments fill the leading
    positional parameters in order -/
def bindPos {V : Type} : List SigParam → List (Arg V) → Except TypeError (Binding V × List (Arg V))
  | p :: ps, .pos v :: as =>
    if p.kind == .kwOnly then .error .tooManyPositional
    else (bindPos ps as).map fun (b, r) => ((p.name, v) :: b, r)
  | [], .pos _ :: _ => .error .tooManyPositional
  | _, as => .ok ([], as)

/-- the keyword items of the rest of the call, in order -/
def kwItems {V : Type} : List (Arg V) → Except TypeError (List (String × V))
  | [] => .ok []
  | .pos _ :: _ => .error .positionalAfterKeyword
  | .kw n v :: as => (kwItems as).map ((n, v) :: ·)
  | .starStar kvs :: as => (kwItems as).map (kvs ++ ·)

/-- keyword phase: by name; a name that is no (non-positional-only) parameter
    goes to `**kwargs` when there is one -/
def bindKw {V : Type} (sg : Sig) : Binding V → Binding V → List (String × V) →
    Except TypeError (Binding V × Binding V)
  | b, ex, [] => .ok (b, ex)
  | b, ex, (n, v) :: kws =>
    if sg.params.any (fun p => p.name == n && p.kind != .posOnly) then
      if (b.lookup n).isSome then .error (.multipleValues n)
      else bindKw sg ((n, v) :: b) ex kws
    else if sg.varKw then
      if (ex.lookup n).isSome then .error (.multipleValues n)
      else bindKw sg b (ex ++ [(n, v)]) kws
    else .error (.unexpectedKeyword n)

def firstMissing {V : Type} (b : Binding V) : List SigParam → Option String
  | [] => Option.none
  | p :: ps => if p.mustBind && (b.lookup p.name).isNone then some p.name else firstMissing b ps

/-- `constructor(*args, **kwargs)` binding: parameter name ↦ argument value
    (`lookup = none`: not passed, the constructor's own default applies), and
    the content of `**kwargs`. -/
def bindArgs {V : Type} (sg : Sig) (args : List (Arg V)) : Except TypeError (Binding V × Binding V) :=
  match bindPos sg.params args with
  | .error e => .error e
  | .ok (b0, rest) =>
    match kwItems rest with
    | .error e => .error e
    | .ok kws =>
      match bindKw sg b0 [] kws with
      | .error e => .error e
      | .ok (b, ex) =>
        match firstMissing b sg.params with
        | some n => .error (.missing n)
        | Option.none => .ok (b, ex)

/-! ## Top-level structure of the generated loader (`produce_code`) -/

/-- how error reporting is organised -/
inductive Trail where
  | disable | first | all
  deriving Repr, DecidableEq, Inhabited

/-- outcome of extracting + loading one crown field -/
inductive FieldRes (V E : Type) where
  | loaded (v : V)       -- present, field loader returned
  | absent               -- not in the input
  | failed (e : E)       -- the field loader (or the lookup) raised
  deriving Repr, Inhabited

inductive LoadOutcome (V E R : Type) where
  | ok (r : R)                           -- the constructed object
  | loadError (es : List E)              -- raised before the constructor was reached
  | constructorRaised                    -- the constructor call itself raised
  deriving Repr, Inhabited

/-- the extraction phase: `DISABLE`/`FIRST` raise at the first failing field,
    `ALL` collects (`errors.append`) and raises after the last field
    (`if errors: raise …`).  Returns the loaded values or the errors. -/
def extract {V E : Type} (trail : Trail) (missingErr : String → E) (s : Shape) :
    List (Field × FieldRes V E) → List (String × V) → List E → Except (List E) (List (String × V))
  | [], acc, errs => if errs.isEmpty then .ok acc else .error errs
  | (f, .loaded v) :: rest, acc, errs => extract trail missingErr s rest (acc ++ [(f.id, v)]) errs
  | (f, .absent) :: rest, acc, errs =>
    if f.required then
      match trail with
      | .all => extract trail missingErr s rest acc (errs ++ [missingErr f.id])
      | _ => .error [missingErr f.id]
    else extract trail missingErr s rest acc errs
  | (_, .failed e) :: rest, acc, errs =>
    match trail with
    | .all => extract trail missingErr s rest acc (errs ++ [e])
    | _ => .error [e]

/-- The whole generated loader.  `construct` is the model's constructor (any
    function of the evaluated argument list; `none` = it raised, e.g. the
    `TypeError` of a failed binding or an exception of `__post_init__`).
    Returns the outcome and **the number of constructor invocations**. -/
def loadModel {V E R : Type} (fix : Bool) (trail : Trail) (missingErr : String → E)
    (s : Shape) (c : Cfg) (dflt : String → Option V) (extra : List (String × V))
    (construct : List (Arg V) → Option R)
    (fieldResults : List (Field × FieldRes V E)) : LoadOutcome V E R × Nat :=
  match extract trail missingErr s fieldResults [] [] with
  | .error es => (.loadError es, 0)
  | .ok vals =>
    match mkPlan fix s c { loaded := fun id => vals.lookup id, dflt := dflt, extra := extra } with
    | .error _ => (.constructorRaised, 0)       -- NameError before the call: nothing was invoked
    | .ok args =>
      match construct args with
      | some r => (.ok r, 1)
      | Option.none => (.constructorRaised, 1)

end Adaptix.CallPlan
