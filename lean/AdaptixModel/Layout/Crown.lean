/-
  Layout/Crown — crowns and the crown builder.

  Code modelled:
    morphing/model/crown_definitions.py   Inp/Out Dict/List/Field/None crowns
    morphing/name_layout/crown_builder.py BaseCrownBuilder.build_crown / build_empty_crown /
        _build_crown / _get_dict_crown_map / _get_list_crown_map,
        InpCrownBuilder._make_dict_crown/_make_list_crown (extra_policy = extra_policies[path]),
        OutCrownBuilder._make_dict_crown (sieves of the direct field children)
    morphing/name_layout/provider.py      BuiltinNameLayoutProvider._provide_input_name_layout /
        _provide_output_name_layout

  Representation: `_build_crown(paths_with_leaves, path_offset)` receives full paths and an offset;
  the model carries `cur = path[:path_offset]` and, per item, the remaining suffix
  `path[path_offset:]` — the same data, which makes the recursion structural in the fuel.
-/
import AdaptixModel.Layout.Paths

namespace Adaptix.Layout

/-- the undecorated tree produced by `BaseCrownBuilder` -/
inductive Crown where
  | dict (map : List (String × Crown))
  | list (map : List Crown)
  | leaf (l : Leaf)
deriving Repr, Inhabited

inductive InpCrown where
  | dict (map : List (String × InpCrown)) (policy : Policy)
  | list (map : List InpCrown) (policy : Policy)
  | field (id : String)
  | none
deriving Repr, Inhabited

inductive OutCrown where
  /-- `sieves`: key ↦ default value of the `with_default_clause` sieve attached to the key -/
  | dict (map : List (String × OutCrown)) (sieves : List (String × Val))
  | list (map : List OutCrown)
  | field (id : String)
  | none (placeholder : Val)
deriving Repr, Inhabited

/-! ### ordering of paths (Python tuple comparison) -/

/-- `a <= b` on path elements; a str/int comparison is a `TypeError` in Python and
    cannot happen after `_get_paths_to_list` accepted the paths -/
def keyLe : Key → Key → Bool
  | .i a, .i b => a ≤ b
  | .s a, .s b => a ≤ b
  | .i _, .s _ => true
  | .s _, .i _ => false

/-- tuple comparison `a <= b`: lexicographic, a proper prefix is smaller -/
def pathLe : Path → Path → Bool
  | [], _ => true
  | _ :: _, [] => false
  | a :: r, b :: t => if a = b then pathLe r t else keyLe a b

/-! ### builder -/

/-- `x.path[len(current_path)]` for every item; `none` = IndexError (an exhausted path) -/
def splitHeads : List (Path × Leaf) → Option (List (Key × (Path × Leaf)))
  | [] => some []
  | ([], _) :: _ => none
  | (k :: p, l) :: r => (splitHeads r).map fun t => (k, (p, l)) :: t

/-- `itertools.groupby(items, key)`: maximal runs of consecutive items with equal key -/
def groupRuns {α : Type} : List (Key × α) → List (Key × List α)
  | [] => []
  | (k, a) :: r =>
    match groupRuns r with
    | (k', g) :: gs => if k = k' then (k, a :: g) :: gs else (k, [a]) :: (k', g) :: gs
    | [] => [(k, [a])]

/-- `self._paths_to_order.get(path, math.inf)` compared with `<=` -/
def orderLe : Option Nat → Option Nat → Bool
  | some a, some b => a ≤ b
  | some _, none => true
  | none, some _ => false
  | none, none => true

/-- `sorted(dict_crown_map, key=lambda key: self._paths_to_order.get((*current_path, key), math.inf))` -/
def sortEntries (order : Path → Option Nat) (cur : Path) (entries : List (String × Crown)) : List (String × Crown) :=
  entries.mergeSort fun a b => orderLe (order (cur ++ [.s a.1])) (order (cur ++ [.s b.1]))

/-- one entry of the dict comprehension of `_get_dict_crown_map`:
    `key: self._build_crown(list(path_group), len(current_path) + 1)`; `rec` is the recursive call -/
def buildEntry (rec : Path → List (Path × Leaf) → Except StructErr Crown) (cur : Path)
    (kg : Key × List (Path × Leaf)) : Except StructErr (String × Crown) :=
  match kg.1 with
  | .s name =>
    match rec (cur ++ [kg.1]) kg.2 with
    | .ok c => .ok (name, c)
    | .error e => .error e
  | .i _ => .error .build

/-- one element of the tuple of `_get_list_crown_map` -/
def buildItem (rec : Path → List (Path × Leaf) → Except StructErr Crown) (cur : Path)
    (kg : Key × List (Path × Leaf)) : Except StructErr Crown :=
  rec (cur ++ [kg.1]) kg.2

/-- `_build_crown` with `_get_dict_crown_map` / `_get_list_crown_map` inlined.
    `order` is `_paths_to_order`; errors are the `ValueError`/`IndexError`/`TypeError`
    the real builder would raise on paths that were not validated. -/
def build (order : Path → Option Nat) : Nat → Path → List (Path × Leaf) → Except StructErr Crown
  | 0, _, _ => .error .build
  | fuel + 1, cur, items =>
    match items with
    | [] => .error .build                                   -- `if not paths_with_leaves: raise ValueError`
    | ([], l0) :: rest =>                                   -- `except IndexError:` the path is exhausted
      if rest.isEmpty then .ok (.leaf l0) else .error .build
    | (.s _ :: _, _) :: _ =>                                -- `isinstance(first, str)` → dict crown
      match splitHeads items with
      | none => .error .build
      | some hs =>
        match (groupRuns hs).mapM (buildEntry (build order fuel) cur) with
        | .ok entries => .ok (.dict (sortEntries order cur entries))
        | .error e => .error e
    | (.i _ :: _, _) :: _ =>                                -- `isinstance(first, int)` → list crown
      match splitHeads items with
      | none => .error .build
      | some hs =>
        match (groupRuns hs).getLast? with
        | some (.i last, _) =>
          -- `if len(grouped_paths) != paths_with_leaves[-1].path[len(current_path)] + 1: raise ValueError`
          if (groupRuns hs).length != last + 1 then .error .build
          else
            match (groupRuns hs).mapM (buildItem (build order fuel) cur) with
            | .ok cs => .ok (.list cs)
            | .error e => .error e
        | _ => .error .build

/-- `self._paths_to_order = {path: i for i, path in enumerate(paths_to_leaves)}` -/
def orderOf (leaves : List (Path × Leaf)) (p : Path) : Option Nat :=
  let i := (leaves.map (·.1)).idxOf p
  if i < leaves.length then some i else none

def maxPathLen (leaves : List (Path × Leaf)) : Nat :=
  (leaves.map (·.1.length)).foldl max 0

/-- `build_crown`: sort by path, then `_build_crown(paths_with_leaves, 0)` -/
def buildCrown (leaves : List (Path × Leaf)) : Except StructErr Crown :=
  build (orderOf leaves) (maxPathLen leaves + 1) [] (leaves.mergeSort fun a b => pathLe a.1 b.1)

/-- `build_empty_crown` -/
def buildEmpty (asList : Bool) : Crown :=
  if asList then .list [] else .dict []

/-! ### decoration -/

/-- `InpCrownBuilder`: every branch gets `extra_policies[current_path]`, which
    `make_extra_policies` fills with one and the same policy -/
def Crown.toInp (policy : Policy) : Crown → InpCrown
  | .dict m => .dict (goD m) policy
  | .list m => .list (goL m) policy
  | .leaf (.field id) => .field id
  | .leaf .none => .none
where
  goD : List (String × Crown) → List (String × InpCrown)
    | [] => []
    | (k, c) :: r => (k, Crown.toInp policy c) :: goD r
  goL : List Crown → List InpCrown
    | [] => []
    | c :: r => Crown.toInp policy c :: goL r

/-- `OutCrownBuilder`: a dict crown carries the sieves of its direct children whose full path has
    one; gaps get `OutNoneCrown(placeholder=DefaultValue(None))` -/
def Crown.toOut (sieves : List (Path × Val)) : Path → Crown → OutCrown
  | cur, .dict m => .dict (goD cur m) (goS cur m)
  | cur, .list m => .list (goL cur 0 m)
  | _, .leaf (.field id) => .field id
  | _, .leaf .none => .none Val.none
where
  goD (cur : Path) : List (String × Crown) → List (String × OutCrown)
    | [] => []
    | (k, c) :: r => (k, Crown.toOut sieves (cur ++ [.s k]) c) :: goD cur r
  goS (cur : Path) : List (String × Crown) → List (String × Val)
    | [] => []
    | (k, _) :: r =>
      match sieves.lookup (cur ++ [.s k]) with
      | some d => (k, d) :: goS cur r
      | none => goS cur r
  goL (cur : Path) : Nat → List Crown → List OutCrown
    | _, [] => []
    | i, c :: r => Crown.toOut sieves (cur ++ [.i i]) c :: goL cur (i + 1) r

/-! ### the two layouts -/

structure InpLayout where
  crown : InpCrown
  move : InpExtraMove
deriving Repr

structure OutLayout where
  crown : OutCrown
  move : OutExtraMove
deriving Repr

/-- `BuiltinNameLayoutProvider._provide_input_name_layout` -/
def inputLayout (sch : Schema) (style : Style → String → String) (fields : List Field) :
    Except StructErr InpLayout := do
  let move := makeInpExtraMove sch.extraIn
  let leaves ← makeStructure .inp sch style fields move.targetIds
  let policy := extraPolicy sch.extraIn
  checkExtraPolicies policy leaves
  let crown ← if leaves.isEmpty then pure (buildEmpty sch.asList) else buildCrown leaves
  return { crown := crown.toInp policy, move }

/-- `BuiltinNameLayoutProvider._provide_output_name_layout` -/
def outputLayout (sch : Schema) (style : Style → String → String) (fields : List Field) :
    Except StructErr OutLayout := do
  let move := makeOutExtraMove sch.extraOut
  let leaves ← makeStructure .out sch style fields move.targetIds
  let sieves := makeSieves sch fields leaves
  let crown ← if leaves.isEmpty then pure (buildEmpty sch.asList) else buildCrown leaves
  return { crown := crown.toOut sieves [], move }

/-- the whole provider: merge the overlays, then build -/
def provideInputLayout (own : List OverlayProv) (parents : List (List OverlayProv))
    (style : Style → String → String) (fields : List Field) : Except StructErr InpLayout :=
  match provideSchema own parents with
  | .error e => .error (.schema e)
  | .ok sch => inputLayout sch style fields

def provideOutputLayout (own : List OverlayProv) (parents : List (List OverlayProv))
    (style : Style → String → String) (fields : List Field) : Except StructErr OutLayout :=
  match provideSchema own parents with
  | .error e => .error (.schema e)
  | .ok sch => outputLayout sch style fields

/-! ### reading a crown (specification side) -/

/-- all leaves of a crown with their paths -/
def Crown.leaves : Crown → List (Path × Leaf)
  | .dict m => goD m
  | .list m => goL 0 m
  | .leaf l => [([], l)]
where
  goD : List (String × Crown) → List (Path × Leaf)
    | [] => []
    | (k, c) :: r => (Crown.leaves c).map (fun x => (Key.s k :: x.1, x.2)) ++ goD r
  goL : Nat → List Crown → List (Path × Leaf)
    | _, [] => []
    | i, c :: r => (Crown.leaves c).map (fun x => (Key.i i :: x.1, x.2)) ++ goL (i + 1) r

/-- all leaves of an input crown with their paths -/
def InpCrown.leaves : InpCrown → List (Path × Leaf)
  | .dict m _ => goD m
  | .list m _ => goL 0 m
  | .field id => [([], .field id)]
  | .none => [([], .none)]
where
  goD : List (String × InpCrown) → List (Path × Leaf)
    | [] => []
    | (k, c) :: r => (InpCrown.leaves c).map (fun x => (Key.s k :: x.1, x.2)) ++ goD r
  goL : Nat → List InpCrown → List (Path × Leaf)
    | _, [] => []
    | i, c :: r => (InpCrown.leaves c).map (fun x => (Key.i i :: x.1, x.2)) ++ goL (i + 1) r

/-- all leaves of an output crown with their paths (a gap leaf keeps its placeholder in `OutCrown`) -/
def OutCrown.leaves : OutCrown → List (Path × Leaf)
  | .dict m _ => goD m
  | .list m => goL 0 m
  | .field id => [([], .field id)]
  | .none _ => [([], .none)]
where
  goD : List (String × OutCrown) → List (Path × Leaf)
    | [] => []
    | (k, c) :: r => (OutCrown.leaves c).map (fun x => (Key.s k :: x.1, x.2)) ++ goD r
  goL : Nat → List OutCrown → List (Path × Leaf)
    | _, [] => []
    | i, c :: r => (OutCrown.leaves c).map (fun x => (Key.i i :: x.1, x.2)) ++ goL (i + 1) r

def InpCrown.skel : InpCrown → Crown
  | .dict m _ => .dict (goD m)
  | .list m _ => .list (goL m)
  | .field id => .leaf (.field id)
  | .none => .leaf .none
where
  goD : List (String × InpCrown) → List (String × Crown)
    | [] => []
    | (k, c) :: r => (k, InpCrown.skel c) :: goD r
  goL : List InpCrown → List Crown
    | [] => []
    | c :: r => InpCrown.skel c :: goL r

def OutCrown.skel : OutCrown → Crown
  | .dict m _ => .dict (goD m)
  | .list m => .list (goL m)
  | .field id => .leaf (.field id)
  | .none _ => .leaf .none
where
  goD : List (String × OutCrown) → List (String × Crown)
    | [] => []
    | (k, c) :: r => (k, OutCrown.skel c) :: goD r
  goL : List OutCrown → List Crown
    | [] => []
    | c :: r => OutCrown.skel c :: goL r

end Adaptix.Layout
