/-
  C08, part 2 — default values: the Python value grammar, literal rendering and
  the three renderings of a default in the generated model loader.

  Source modelled:
    src/adaptix/_internal/code_tools/utils.py
        get_literal_expr, _provide_lit_expr, _parenthesize, _try_sort,
        _get_complex_literal_expr, get_literal_from_factory
      -- NOT hand-written: these functions are translated on every run by
         `extract/c08_literal.py` into the mini-Python term
         `AdaptixModel/Generated/C08Literal.lean`; `literalExpr` below is the
         INTERPRETER (`callFn`) applied to that term.
    src/adaptix/_internal/morphing/model/loader_gen.py
        BuiltinModelLoaderGen._get_default_clause_expr   (hand-written: `defaultClause`)
    src/adaptix/_internal/morphing/model/basic_gen.py
        compile_closure_with_globals_capturing           (hand-written: `nsConstant`)

  Strings built by the code are *symbolic*: a `Txt` is a list of pieces, each a
  character of literal program text or the placeholder `repr(v)` of an atom.
  Python's `repr` of int/str/bytes/bytearray/finite float and Python's parser
  are not modelled; the harness substitutes the real `repr` and `eval`s the
  real text on every case (trusted base, validated on each run).
-/
namespace Adaptix.Default

/-! ## Python values -/

/-- a Python float: the three specials, or a finite value as `float.hex()` text -/
inductive PyFloat where
  | nan | inf | negInf
  | finite (hex : String)
  deriving Repr, Inhabited, DecidableEq

/-- The value grammar of defaults.  A finite `float` travels as its `float.hex()` text.  `builtin n` is the object
    `builtins.n` other than `None/True/False` (canonical alias name).  `cls n`
    is a class object that is not in `builtins` (`NoneType`, `Decimal`, an enum
    class …).  `opaque cls id eqInt hashable` is any other object (Decimal,
    Fraction, complex, enum member, function, user object): `eqInt = some k`
    when it compares (and hashes) equal to the integer `k`, e.g.
    `Decimal('1')`, `Fraction(0)`, `1+0j`, `IntEnum` member. -/
inductive Val where
  | none
  | bool (b : Bool)
  | int (i : Int)
  | float (f : PyFloat)
  | str (s : String)
  | bytes (bs : List Nat)
  | bytearray (bs : List Nat)
  | list (xs : List Val)
  | tuple (xs : List Val)
  | set (xs : List Val)
  | frozenset (xs : List Val)
  | dict (kvs : List (Val × Val))
  | slice (start stop step : Val)
  | range (start stop step : Int)
  | builtin (name : String)
  | cls (name : String)
  | opaque (cls : String) (id : Nat) (eqInt : Option Int) (hashable : Bool)
  deriving Repr, Inhabited

/-- `type(x).__name__`-like tag; non-builtin classes are prefixed so that they
    never collide with a builtin type name. -/
def Val.typeOf : Val → Val
  | .none => .cls "NoneType"
  | .bool _ => .builtin "bool"
  | .int _ => .builtin "int"
  | .float _ => .builtin "float"
  | .str _ => .builtin "str"
  | .bytes _ => .builtin "bytes"
  | .bytearray _ => .builtin "bytearray"
  | .list _ => .builtin "list"
  | .tuple _ => .builtin "tuple"
  | .set _ => .builtin "set"
  | .frozenset _ => .builtin "frozenset"
  | .dict _ => .builtin "dict"
  | .slice .. => .builtin "slice"
  | .range .. => .builtin "range"
  | .builtin _ => .cls "<type of a builtins object>"   -- ellipsis / type / builtin_function_or_method …:
                                                       -- one token, never equal to a builtin type name
  | .cls _ => .builtin "type"
  | .opaque c _ _ _ => .cls c

/-- the integer a *number-like* value is equal to, when it is equal to one of
    the integers that occur as keys of the tables we look up (0 and 1) or is an
    exact integer itself.  Other floats are not equal to any `bool`. -/
def Val.numKey : Val → Option Int
  | .bool b => some (if b then 1 else 0)
  | .int i => some i
  | .float (.finite "0x0.0p+0") => some 0
  | .float (.finite "-0x0.0p+0") => some 0
  | .float (.finite "0x1.0000000000000p+0") => some 1
  | .opaque _ _ k _ => k
  | _ => Option.none

/-- Python `v == k` (and `hash v == hash k`) for a *flat* key `k`
    (`None`, `True/False`, a builtin object, a class): what a dict lookup in
    `BUILTIN_TO_NAME` / `_CLS_TO_FACTORY_LITERAL` decides. -/
def pyEqFlat (v k : Val) : Bool :=
  match k with
  | .none => match v with | .none => true | _ => false
  | .bool b => v.numKey == some (if b then 1 else 0)
  | .builtin n => match v with | .builtin m => m == n | _ => false
  | .cls n => match v with | .cls m => m == n | _ => false
  | _ => false

mutual
def Val.hashable : Val → Bool
  | .list _ | .set _ | .dict _ | .bytearray _ => false
  | .tuple xs => hashableL xs
  | .slice a b c => a.hashable && b.hashable && c.hashable     -- Python >= 3.12
  | .opaque _ _ _ h => h
  | _ => true
def hashableL : List Val → Bool
  | [] => true
  | x :: xs => x.hashable && hashableL xs
end

/-- Object identity `a is b` where it is determined by the value alone:
    one side is a singleton / builtin / class / identified opaque object.
    `none` = not determined by the model. -/
def pyIs (a b : Val) : Option Bool :=
  match a, b with
  | .none, .none => some true
  | .bool x, .bool y => some (x == y)
  | .builtin x, .builtin y => some (x == y)
  | .cls x, .cls y => some (x == y)
  | .opaque c i _ _, .opaque d j _ _ => some (c == d && i == j)
  | .none, _ | _, .none | .bool _, _ | _, .bool _ | .builtin _, _ | _, .builtin _
  | .cls _, _ | _, .cls _ | .opaque .., _ | _, .opaque .. => some false
  | _, _ => Option.none

/-! ## Symbolic text and Python expressions -/

inductive Piece where
  | ch (c : Char)
  | reprOf (v : Val)     -- the text `repr(v)`
  | junk                 -- text that is not a `str` at all (never produced by `render`)
  deriving Repr, Inhabited

abbrev Txt := List Piece

def lit (cs : List Char) : Txt := cs.map Piece.ch

/-- sep.join(parts) -/
def joinWith (sep : Txt) : List Txt → Txt
  | [] => []
  | [t] => t
  | t :: ts => t ++ sep ++ joinWith sep ts

/-- ", ".join(parts) -/
def joinComma (ts : List Txt) : Txt := joinWith (lit [',', ' ']) ts

/-- The expression fragment the literal renderer can emit. -/
inductive PyExpr where
  | atom (v : Val)                       -- `repr(v)` of int/str/bytes/bytearray/finite float
  | name (n : List Char)                 -- identifier looked up in `builtins`
  | list (es : List PyExpr)              -- [e1, e2]
  | tuple (es : List PyExpr)             -- (), (e,), (e1, e2)
  | paren (e : PyExpr)                   -- (e)   -- a parenthesised expression, NOT a tuple
  | set (es : List PyExpr)               -- {e1, e2}  (es ≠ [])
  | dict (kvs : List (PyExpr × PyExpr))  -- {k: v}, {}
  | call (f : List Char) (args : List PyExpr)   -- f(a1, a2)
  | emptyStr                             -- ""
  | emptyBytes                           -- b""
  deriving Repr, Inhabited

mutual
def PyExpr.render : PyExpr → Txt
  | .atom v => [Piece.reprOf v]
  | .name n => lit n
  | .list es => lit ['['] ++ joinComma (renderL es) ++ lit [']']
  | .tuple [e] => lit ['('] ++ e.render ++ lit [',', ')']
  | .tuple es => lit ['('] ++ joinComma (renderL es) ++ lit [')']
  | .paren e => lit ['('] ++ e.render ++ lit [')']
  | .set es => lit ['{'] ++ joinComma (renderL es) ++ lit ['}']
  | .dict kvs => lit ['{'] ++ joinComma (renderKV kvs) ++ lit ['}']
  | .call f args => lit f ++ lit ['('] ++ joinComma (renderL args) ++ lit [')']
  | .emptyStr => lit ['"', '"']
  | .emptyBytes => lit ['b', '"', '"']
def renderL : List PyExpr → List Txt
  | [] => []
  | e :: es => e.render :: renderL es
def renderKV : List (PyExpr × PyExpr) → List Txt
  | [] => []
  | (k, v) :: kvs => (k.render ++ lit [':', ' '] ++ v.render) :: renderKV kvs
end

/-- atoms whose `repr` evaluates back to the very value (Python fact, validated
    by the harness on every case). -/
def Val.atomOk : Val → Bool
  | .int _ | .str _ | .bytes _ | .bytearray _ => true
  | .float (.finite _) => true
  | _ => false

/-- what evaluation yields when the text is not a faithful literal -/
def garbage : Val := .opaque "<not-a-literal>" 0 Option.none false

def asIntVal : Val → Option Int
  | .int i => some i
  | _ => Option.none

/-- Python's builtins namespace as far as the renderer uses it: name ↦ object. -/
abbrev Builtins := List (List Char × Val)

def lookupName (n : List Char) : List (List Char × Val) → Option Val
  | [] => Option.none
  | (k, a) :: rest => if k == n then some a else lookupName n rest

mutual
/-- Evaluation of the emitted expression in a module whose globals do not
    shadow builtins (`bi` = the interpreter's `builtins` namespace). -/
def PyExpr.eval (bi : Builtins) : PyExpr → Val
  | .atom v => if v.atomOk then v else garbage
  | .name n => match lookupName n bi with
      | some v => v
      | Option.none => garbage
  | .list es => .list (evalL bi es)
  | .tuple es => .tuple (evalL bi es)
  | .paren e => e.eval bi
  | .set [] => .dict []                  -- `{}` is a dict display
  | .set (e :: es) => .set (evalL bi (e :: es))
  | .dict kvs => .dict (evalKV bi kvs)
  | .call f args =>
    match String.ofList f, evalL bi args with
    | "set", [] => .set []
    | "frozenset", [] => .frozenset []
    | "frozenset", [.set xs] => .frozenset xs
    | "slice", [a, b, c] => .slice a b c
    | "range", [a, b, c] =>
      match asIntVal a, asIntVal b, asIntVal c with
      | some x, some y, some z => .range x y z
      | _, _, _ => garbage
    | _, _ => garbage
  | .emptyStr => .str ""
  | .emptyBytes => .bytes []
def evalL (bi : Builtins) : List PyExpr → List Val
  | [] => []
  | e :: es => e.eval bi :: evalL bi es
def evalKV (bi : Builtins) : List (PyExpr × PyExpr) → List (Val × Val)
  | [] => []
  | (k, v) :: kvs => (k.eval bi, v.eval bi) :: evalKV bi kvs
end

/-! ## `same`: equal AND of exactly the same type, recursively -/

mutual
/-- `Same a b`: `a == b` holds in Python and every corresponding component has
    exactly the same type (constructor); sets up to element order; `nan` is
    not `Same` as anything (it is only ever passed by reference). -/
inductive Same : Val → Val → Prop where
  | none : Same .none .none
  | bool (b) : Same (.bool b) (.bool b)
  | int (i) : Same (.int i) (.int i)
  | float (f) : f ≠ .nan → Same (.float f) (.float f)
  | str (s) : Same (.str s) (.str s)
  | bytes (b) : Same (.bytes b) (.bytes b)
  | bytearray (b) : Same (.bytearray b) (.bytearray b)
  | list : SameL xs ys → Same (.list xs) (.list ys)
  | tuple : SameL xs ys → Same (.tuple xs) (.tuple ys)
  | set : SameL xs zs → zs.Perm ys → Same (.set xs) (.set ys)
  | frozenset : SameL xs zs → zs.Perm ys → Same (.frozenset xs) (.frozenset ys)
  | dict : SameKV xs ys → Same (.dict xs) (.dict ys)
  | slice : Same a a' → Same b b' → Same c c' → Same (.slice a b c) (.slice a' b' c')
  | range (a b c) : Same (.range a b c) (.range a b c)
  | builtin (n) : Same (.builtin n) (.builtin n)
  | cls (n) : Same (.cls n) (.cls n)
  | opaque (c i k h) : c ≠ "<not-a-literal>" →                    -- the very object (never the
      Same (.opaque c i k h) (.opaque c i k h)                     --  `garbage` token of a failed evaluation)
inductive SameL : List Val → List Val → Prop where
  | nil : SameL [] []
  | cons : Same x y → SameL xs ys → SameL (x :: xs) (y :: ys)
inductive SameKV : List (Val × Val) → List (Val × Val) → Prop where
  | nil : SameKV [] []
  | cons : Same k k' → Same v v' → SameKV xs ys → SameKV ((k, v) :: xs) ((k', v') :: ys)
end

end Adaptix.Default
