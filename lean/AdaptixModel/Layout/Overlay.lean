/-
  Layout/Overlay — merging of `name_mapping(...)` parameters.

  Code modelled:
    provider/overlay_schema.py   Overlay.merge, OverlayProvider._provide_overlay, provide_schema
    morphing/name_layout/component.py  StructureOverlay._merge_map (`new + old`)
    morphing/facade/provider.py  name_mapping (one OverlayProvider holding the three overlays;
                                 an omitted `map` is converted to `()`, so `map` is never omitted)

  The three overlay classes (Structure / Sieves / ExtraMoveAndPolicies) are created by the
  same `name_mapping` call and merged by the same algorithm; they are modelled as one record.
  Which providers match a request (the predicate of `name_mapping(pred, ...)`) is decided by
  the router / predicate system (C09, C10): the model receives, per class of the MRO, the
  list of matching providers in recipe order.
-/
import AdaptixModel.Layout.Basic

namespace Adaptix.Layout

/-- the model's view of a field of a shape (`BaseField` + what the generators consult) -/
structure Field where
  id : String
  /-- `is_required` (input: must be passed; output: accessor cannot fail) -/
  required : Bool := true
  /-- `DefaultValue v` / `DefaultFactory` producing `v`; `none` = `NoDefault` (or a default
      the loader cannot use as a clause, `DefaultFactoryWithSelf`) -/
  default : Option Val := none
deriving Repr, Inhabited

/-- a predicate on fields (`LocStackChecker` applied to the field location); abstract -/
abbrev Pred := Field → Bool

/-- one element of a `map` result before resolution (`RawKey = Union[Key, EllipsisType]`) -/
inductive RawKey where
  | key (k : Key)
  | ellipsis
deriving DecidableEq, Repr, Inhabited

/-- `MapResult`: `None` = skip the field; a single key / `...` is a one-element path -/
abbrev MapResult := Option (List RawKey)

/-- the providers a `map` argument is converted to (`_name_mapping_convert_map`) -/
inductive MapEntry where
  /-- `DictNameMappingProvider(name_map)` : matches iff the field id is a key -/
  | dict (tbl : List (String × MapResult))
  /-- `bound(pred, ConstNameMappingProvider(value))` -/
  | const (pred : Pred) (r : MapResult)
  /-- `bound(pred, FuncNameMappingProvider(func))`, `func(shape, field)` is a parameter -/
  | func (pred : Pred) (f : Field → MapResult)
  /-- `SkipPrivateFieldsNameMappingProvider()` of the builtin recipe: output fields whose
      id starts with `_` are skipped -/
  | skipPrivateOut

inductive Chain where
  | first | last
deriving DecidableEq, Repr

inductive ExtraIn where
  | skip | forbid | kwargs
  | targets (ids : List String)
  | saturate
deriving DecidableEq, Repr, Inhabited

inductive ExtraOut where
  | skip
  | targets (ids : List String)
  | extract
deriving DecidableEq, Repr, Inhabited

/-- name style is abstract: an identifier of the style; the conversion function is a parameter -/
abbrev Style := String

/-- the overlays of one `name_mapping(...)` call; `none` = `Omitted()` -/
structure Overlay where
  skip : Option Pred := none
  only : Option Pred := none
  map : List MapEntry := []
  trim : Option Bool := none
  style : Option (Option Style) := none
  asList : Option Bool := none
  omitDefault : Option Pred := none
  extraIn : Option ExtraIn := none
  extraOut : Option ExtraOut := none

/-- the merged, complete parameters (`StructureSchema` + `SievesSchema` + `ExtraMoveAndPoliciesSchema`) -/
structure Schema where
  skip : Pred
  only : Pred
  map : List MapEntry
  trim : Bool
  style : Option Style
  asList : Bool
  omitDefault : Pred
  extraIn : ExtraIn
  extraOut : ExtraOut

/-- `Overlay.merge` for one field with the default merger (`return new`):
    ```
    if self._is_omitted(old): merged = new
    elif self._is_omitted(new): merged = old
    else: merged = merger(self, old, new)
    ``` -/
def mergeOpt {α : Type} (old new : Option α) : Option α :=
  match old, new with
  | none, n => n
  | o, none => o
  | some _, some n => some n

/-- `self.merge(new)` (self = old).  `map` uses `_merge_map(old, new) = new + old`. -/
def Overlay.merge (old new : Overlay) : Overlay :=
  { skip := mergeOpt old.skip new.skip
    only := mergeOpt old.only new.only
    map := new.map ++ old.map
    trim := mergeOpt old.trim new.trim
    style := mergeOpt old.style new.style
    asList := mergeOpt old.asList new.asList
    omitDefault := mergeOpt old.omitDefault new.omitDefault
    extraIn := mergeOpt old.extraIn new.extraIn
    extraOut := mergeOpt old.extraOut new.extraOut }

/-- a `name_mapping(..., chain=...)` provider that matches the request -/
structure OverlayProv where
  chain : Option Chain
  ov : Overlay

/-- `mediator.provide(OverlayRequest)` over the matching providers in recipe order;
    `OverlayProvider._provide_overlay`:
    ```
    if self._chain is None: return overlay
    try: next_overlay = mediator.provide_from_next()
    except CannotProvide: return overlay
    if self._chain == Chain.FIRST: return next_overlay.merge(overlay)
    return overlay.merge(next_overlay)
    ```
    `none` = `CannotProvide` (no provider). -/
def provideOverlay : List OverlayProv → Option Overlay
  | [] => none
  | p :: rest =>
    match p.chain with
    | none => some p.ov
    | some c =>
      match provideOverlay rest with
      | none => some p.ov
      | some nxt => if c = .first then some (nxt.merge p.ov) else some (p.ov.merge nxt)

/-- `provide_schema`'s loop over `loc_stack.last.type.mro()[1:]`:
    `stacked_overlay = new_overlay.merge(stacked_overlay)` for every parent that provides one -/
def stackParents (stacked : Overlay) : List (List OverlayProv) → Overlay
  | [] => stacked
  | parent :: rest =>
    match provideOverlay parent with
    | none => stackParents stacked rest
    | some newOv => stackParents (newOv.merge stacked) rest

/-- `Overlay.to_schema`: every value must be present (else `ValueError`) -/
def Overlay.toSchema (o : Overlay) : Option Schema :=
  match o.skip, o.only, o.trim, o.style, o.asList, o.omitDefault, o.extraIn, o.extraOut with
  | some skip, some only, some trim, some style, some asList, some omitDefault, some extraIn, some extraOut =>
    some { skip, only, map := o.map, trim, style, asList, omitDefault, extraIn, extraOut }
  | _, _, _, _, _, _, _, _ => none

inductive SchemaErr where
  | cannotProvide      -- no provider for the class itself (`mandatory_provide` fails)
  | omittedValues      -- `to_schema` raises ValueError
deriving DecidableEq, Repr

/-- `provide_schema(overlay, mediator, loc_stack)`: `own` are the providers matching the class
    itself, `parents` those matching each further class of its MRO (in MRO order). -/
def provideSchema (own : List OverlayProv) (parents : List (List OverlayProv)) : Except SchemaErr Schema :=
  match provideOverlay own with
  | none => .error .cannotProvide
  | some ov =>
    match (stackParents ov parents).toSchema with
    | none => .error .omittedValues
    | some s => .ok s

end Adaptix.Layout
