/-
  `name_style`: conversion of a snake_case field name to one of the 16 naming conventions.

  Code modelled: src/adaptix/_internal/name_style.py
      NameStyle, STYLE_CONVERSIONS, is_snake_style, SNAKE_SPLITTER, REST_SUB, rest_sub,
      convert_snake_style
  Characters are code points (`Nat`); the model covers ASCII names (`[A-Za-z0-9_]`), where
  `str.lower / upper / title` are the ASCII maps; names with other word characters are outside
  the model (the correspondence counts them and sends them to the oracle only).
  Lean core only.  Tied to the code by the `name-style` correspondence of harness/props/c03.py.
-/
namespace Adaptix.Layout.NameStyle

inductive Case where
  | lower | title | upper
  deriving Repr, DecidableEq, Inhabited

/-- `StyleConversion(sep, first, other)` -/
structure Conv where
  sep : List Nat
  first : Case
  other : Case
  deriving Repr, DecidableEq, Inhabited

inductive Style where
  | lowerSnake | camelSnake | pascalSnake | upperSnake
  | lowerKebab | camelKebab | pascalKebab | upperKebab
  | lower | camel | pascal | upper
  | lowerDot | camelDot | pascalDot | upperDot
  deriving Repr, DecidableEq, Inhabited

def US : Nat := 95      -- '_'

/-- `STYLE_CONVERSIONS` -/
def conv : Style → Conv
  | .lowerSnake => ⟨[95], .lower, .lower⟩ | .camelSnake => ⟨[95], .lower, .title⟩
  | .pascalSnake => ⟨[95], .title, .title⟩ | .upperSnake => ⟨[95], .upper, .upper⟩
  | .lowerKebab => ⟨[45], .lower, .lower⟩ | .camelKebab => ⟨[45], .lower, .title⟩
  | .pascalKebab => ⟨[45], .title, .title⟩ | .upperKebab => ⟨[45], .upper, .upper⟩
  | .lower => ⟨[], .lower, .lower⟩ | .camel => ⟨[], .lower, .title⟩
  | .pascal => ⟨[], .title, .title⟩ | .upper => ⟨[], .upper, .upper⟩
  | .lowerDot => ⟨[46], .lower, .lower⟩ | .camelDot => ⟨[46], .lower, .title⟩
  | .pascalDot => ⟨[46], .title, .title⟩ | .upperDot => ⟨[46], .upper, .upper⟩

def isUpper (c : Nat) : Bool := decide (65 ≤ c ∧ c ≤ 90)
def isLower (c : Nat) : Bool := decide (97 ≤ c ∧ c ≤ 122)
def isDigit (c : Nat) : Bool := decide (48 ≤ c ∧ c ≤ 57)
def isLetter (c : Nat) : Bool := isUpper c || isLower c
/-- `\w` restricted to ASCII -/
def isWord (c : Nat) : Bool := isLetter c || isDigit c || c == US

def toLower (c : Nat) : Nat := if isUpper c then c + 32 else c
def toUpper (c : Nat) : Nat := if isLower c then c - 32 else c

/-- `str.title` on ASCII: a letter is upper-cased after a non-letter (or at the start) and
    lower-cased after a letter -/
def titleGo : Bool → List Nat → List Nat
  | _, [] => []
  | prevCased, c :: cs =>
    if isLetter c then (if prevCased then toLower c else toUpper c) :: titleGo true cs
    else c :: titleGo false cs

def applyCase : Case → List Nat → List Nat
  | .lower, w => w.map toLower
  | .upper, w => w.map toUpper
  | .title, w => titleGo false w

/-- `REST_SUB.sub(partial(rest_sub, conv), raw_rest)`: every underscore becomes the separator,
    every maximal run of other characters is passed through `conv.other` -/
def subRest (c : Conv) : Bool → List Nat → List Nat
  | _, [] => []
  | prevCased, x :: xs =>
    if x = US then c.sep ++ subRest c false xs
    else
      match c.other with
      | .lower => toLower x :: subRest c false xs
      | .upper => toUpper x :: subRest c false xs
      | .title =>
        if isLetter x then (if prevCased then toLower x else toUpper x) :: subRest c true xs
        else x :: subRest c false xs

/-- number of trailing underscores -/
def trailingUS (n : List Nat) : Nat := (n.reverse.takeWhile (· == US)).length

inductive Res where
  | ok (s : List Nat)
  | notSnake        -- ValueError("Cannot convert a name that not follows snake style")
  | noMatch         -- ValueError(f"Cannot convert {name!r}"): only underscores
  deriving Repr, DecidableEq, Inhabited

/-- the four groups of `SNAKE_SPLITTER` on a name that has a non-underscore character -/
structure Parts where
  front : List Nat
  first : List Nat
  rest : List Nat
  trailing : List Nat
  deriving Repr, DecidableEq, Inhabited

def split (n : List Nat) : Parts :=
  let front := n.takeWhile (· == US)
  let body := n.dropWhile (· == US)
  let first := body.takeWhile (· != US)
  let tail := body.dropWhile (· != US)
  let k := trailingUS tail
  ⟨front, first, tail.take (tail.length - k), tail.drop (tail.length - k)⟩

/-- `convert_snake_style(name, style)` -/
def convert (n : List Nat) (s : Style) : Res :=
  if n.isEmpty || !n.all isWord then .notSnake
  else if n.all (· == US) then .noMatch
  else
    let p := split n
    let c := conv s
    .ok (p.front ++ applyCase c.first p.first ++ subRest c false p.rest ++ p.trailing)

end Adaptix.Layout.NameStyle
