/-
  Layout/LocPred — where the skip / only / omit_default predicates of `name_mapping` are evaluated.

  Code modelled:
    morphing/name_layout/component.py   apply_lsc
        loc_stack = request.loc_stack.append_with(field_to_loc(field))
        return loc_stack_checker.check_loc_stack(mediator, loc_stack)
      called by BuiltinStructureMaker._map_fields   (schema.skip, schema.only)
      and       BuiltinSievesMaker.make_sieves      (schema.omit_default)
    provider/fields.py                  field_to_loc / input_field_to_loc / output_field_to_loc
    datastructures.py                   ImmutableStack.append_with  (`self._tuple + (item,)`)

  The rest of the layout model (Overlay / Paths / Crown) treats the three predicates as abstract truth
  tables `Field → Bool`.  This file says which truth table a `LocStackChecker` (model of C10,
  `Pred/Checker.lean`) induces for the model requested at a given location stack: the checker is run on the
  WHOLE stack of the request extended by the location of the field — not on `[owner, field]` — so a location
  pattern of k elements sees the k - 2 locations that enclose the owning model.
-/
import AdaptixModel.Layout.Paths
import AdaptixModel.Pred.Checker

namespace Adaptix.Layout
open Adaptix.Pred

/-- `field_to_loc(field)`: an `InputFieldLoc` for a field of an input shape, an `OutputFieldLoc` for a field
    of an output shape, carrying the field's type and id (the attributes the checkers read). -/
def fieldToLoc (dir : Dir) (fieldId : String) (type : Obj) : Loc :=
  { cls := if dir = .inp then .inputFieldLoc else .outputFieldLoc, type := type, fieldId := fieldId }

/-- `apply_lsc(mediator, request, loc_stack_checker, field)`; `reqStack` is `request.loc_stack`
    (root first, the requested model last). -/
def applyLsc (W : World) (reqStack : LocStack) (c : Checker) (fieldLoc : Loc) : Outcome :=
  check W c (reqStack ++ [fieldLoc])

/-- The truth table (`Pred` of `Layout/Overlay.lean`) a checker induces on the fields of the model requested at
    `reqStack`.  `typeOf` gives the type object of a field.  An escaping exception is not a truth value: the
    layout request fails; accepted predicates never raise on these stacks
    (`Props/C03.lean: filter_checked_on_full_stack`). -/
def lscPred (W : World) (dir : Dir) (reqStack : LocStack) (typeOf : String → Obj) (c : Checker) : Pred :=
  fun f => match applyLsc W reqStack c (fieldToLoc dir f.id (typeOf f.id)) with
    | .ok b => b
    | .error _ => false

end Adaptix.Layout
