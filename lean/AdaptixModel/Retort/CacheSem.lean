/-
  Behaviour of the closures of `Retort/Cache.lean` (`run`), facade operations,
  histories and observations (C11).

  Source modelled:
    morphing/concrete_provider.py   int/bool/str strict and lax loaders, none_loader
    morphing/generic_provider.py    LiteralProvider loaders, UnionProvider loaders (DebugTrail.ALL) and dumpers
    morphing/iterable_provider.py   iter_loader_dt_sc / iter_loader_dt (DebugTrail.ALL), dumper
    morphing/model/*                generated model loader / dumper (DebugTrail.ALL, default name layout:
                                    dict crown, extra fields skipped, defaults `None`)
    morphing/enum_provider.py       EnumNameProvider / EnumExactValueProvider loaders and dumpers (plain `Enum`
                                    classes with hashable values and the default `_missing_`)
    morphing/facade/retort.py       load = get_loader(tp)(data), dump, replace, extend
  Only `DebugTrail.ALL` retorts are modelled.  Where the behaviour of a closure
  on an ill-typed datum is not modelled the outcome is `unmodelled` (the
  harness does not compare those; they are counted).
-/
import AdaptixModel.Retort.Cache

namespace Adaptix.Cache

inductive Val where
  | none
  | bool (b : Bool)
  | int (i : Int)
  | str (s : String)
  | list (xs : List Val)
  | tuple (xs : List Val)
  | dict (kvs : List (String × Val))
  | obj (cid : Nat) (fields : List (String × Val))
  | enum (cid : Nat) (name : String)        -- the member `name` of the Enum class `cid`
  deriving Repr, Inhabited

/-- exception class and the classes of its sub-exceptions -/
inductive ErrTree where
  | node (cls : String) (kids : List ErrTree)
  deriving Repr, Inhabited

inductive Outcome where
  | ok (v : Val)
  | loadErr (e : ErrTree)       -- a `LoadError`
  | raised (e : ErrTree)        -- any other exception
  | unmodelled
  deriving Repr, Inhabited

def leafLoad (cls : String) : Outcome := .loadErr (.node cls [])
def leafRaise (cls : String) : Outcome := .raised (.node cls [])

/-- `(type(data), data) in allowed` -/
def litTypedMatch (U : Univ) (v : Val) : LitVal → Bool
  | .int i => match v with | .int j => i == j | _ => false
  | .bool b => match v with | .bool c => b == c | _ => false
  | .str c => match v with | .str s => U.strOf c == s | _ => false

/-- `data == allowed_value` -/
def litValueMatch (U : Univ) (v : Val) : LitVal → Bool
  | .int i => match v with | .int j => i == j | .bool c => i == (if c then 1 else 0) | _ => false
  | .bool b => match v with | .int j => j == (if b then 1 else 0) | .bool c => b == c | _ => false
  | .str c => match v with | .str s => U.strOf c == s | _ => false

def truthy : Val → Bool
  | .none => false
  | .bool b => b
  | .int i => i != 0
  | .str s => s != ""
  | .list xs => !xs.isEmpty
  | .tuple xs => !xs.isEmpty
  | .dict kvs => !kvs.isEmpty
  | .obj _ _ => true
  | .enum _ _ => true

def hasDigitish (s : String) : Bool :=
  s.toList.any fun c => c.isDigit || c == '_' || c == '+' || c == '-' || c.isWhitespace

def runScalar (s : Scalar) (strict : Bool) (v : Val) : Outcome :=
  match s, strict with
  | .int, true => match v with | .int _ => .ok v | _ => leafLoad "TypeLoadError"
  | .bool, true => match v with | .bool _ => .ok v | _ => leafLoad "TypeLoadError"
  | .str, true => match v with | .str _ => .ok v | _ => leafLoad "TypeLoadError"
  | .int, false =>
    match v with
    | .int _ => .ok v
    | .bool b => .ok (.int (if b then 1 else 0))
    | .str t => if hasDigitish t then .unmodelled else leafLoad "ValueLoadError"
    | _ => leafLoad "TypeLoadError"
  | .bool, false => .ok (.bool (truthy v))
  | .str, false =>
    match v with
    | .str _ => .ok v
    | .int i => .ok (.str (toString i))
    | .bool b => .ok (.str (if b then "True" else "False"))
    | .none => .ok (.str "None")
    | _ => .unmodelled
  | .bytes, _ => .unmodelled

/-- collect the outcomes of the element/field closures the way the
    `DebugTrail.ALL` wrappers do: all values, or an aggregate of all errors
    (`ExceptionGroup` as soon as one of them is not a `LoadError`). -/
def collect (aggCls : String) (rs : List Outcome) : Except Outcome (List Val) :=
  if rs.any (fun r => match r with | .unmodelled => true | _ => false) then .error .unmodelled else
  let errs := rs.filterMap fun r => match r with | .loadErr e => some e | .raised e => some e | _ => none
  let unexpected := rs.any fun r => match r with | .raised _ => true | _ => false
  if errs.isEmpty then .ok (rs.filterMap fun r => match r with | .ok v => some v | _ => none)
  else if unexpected then .error (.raised (.node "ExceptionGroup" errs))
  else .error (.loadErr (.node aggCls errs))

def unionLoop (rs : List Outcome) : Outcome :=
  -- `union_loader_dt_all`
  let rec go (errs : List ErrTree) (unexpected : Bool) : List Outcome → Outcome
    | [] => if unexpected then .raised (.node "ExceptionGroup" errs.reverse)
            else .loadErr (.node "UnionLoadError" errs.reverse)
    | .ok v :: rest => if unexpected then go errs unexpected rest else .ok v
    | .loadErr e :: rest => go (e :: errs) unexpected rest
    | .raised e :: rest => go (e :: errs) true rest
    | .unmodelled :: _ => .unmodelled
  go [] false rs

def mkSeq (origin : Nat) (xs : List Val) : Val := if origin == 0 then .list xs else .tuple xs

def lookupField (n : String) : List (String × Val) → Option Val
  | [] => none
  | (k, v) :: r => if k == n then some v else lookupField n r

/-- class of a value for `ClassDispatcher.dispatch(type(data))`: candidates along the MRO -/
def valClasses (U : Univ) : Val → List Nat
  | .none => [U.noneUid]
  | .bool _ => [U.boolUid, U.intUid]
  | .int _ => [U.intUid]
  | .str _ => [U.strUid]
  | .obj c _ => [c]
  | .enum c _ => [c]
  | _ => []

def enumMembers (U : Univ) (cid : Nat) : List (String × LitVal) :=
  match U.kind cid with
  | .enum ms => ms
  | _ => []

def litToVal (U : Univ) : LitVal → Val
  | .int i => .int i
  | .bool b => .bool b
  | .str c => .str (U.strOf c)

/-- `mapping[data]` of the enum dumpers, `mapping` keyed by the members of `cid` (plain `Enum` members are equal
    only to themselves): the member's entry, `KeyError` for another hashable object, `TypeError` for an unhashable
    one (list, dict, an `eq=True` dataclass instance); tuples are not modelled -/
def enumDump (U : Univ) (cid : Nat) (pick : String × LitVal → Val) (v : Val) : Outcome :=
  match v with
  | .enum c n =>
    if c == cid then
      match (enumMembers U cid).find? (fun m => m.1 == n) with
      | some m => .ok (pick m)
      | none => leafRaise "KeyError"
    else leafRaise "KeyError"
  | .none | .bool _ | .int _ | .str _ => leafRaise "KeyError"
  | .list _ | .dict _ | .obj _ _ => leafRaise "TypeError"
  | .tuple _ => .unmodelled

/-- Calling a closure.  `env` binds the recursion stubs (`FuncWrapper.set_func`). -/
def run (U : Univ) : Nat → List (Nat × Clo) → Clo → Val → Outcome
  | 0, _, _, _ => .unmodelled
  | fuel + 1, env, c, v =>
    match c with
    | .scalarL s strict => runScalar s strict v
    | .noneL => match v with | .none => .ok .none | _ => leafLoad "TypeLoadError"
    | .litTyped allowed => if allowed.any (litTypedMatch U v) then .ok v else leafLoad "BadVariantLoadError"
    | .litValue allowed => if allowed.any (litValueMatch U v) then .ok v else leafLoad "BadVariantLoadError"
    | .optL inner =>
      match v with
      | .none => .ok .none
      | _ =>
        match run U fuel env inner v with
        | .loadErr e => .loadErr (.node "UnionLoadError" [.node "TypeLoadError" [], e])
        | r => r
    | .unionL cases => unionLoop (cases.toList.map fun (_, _, l) => run U fuel env l v)
    | .seqL origin strict elem =>
      let items : Except Outcome (List Val) :=
        match v with
        | .list xs => .ok xs
        | .tuple xs => .ok xs
        | .dict kvs => if strict then .error (leafLoad "ExcludedTypeLoadError") else .ok (kvs.map fun kv => .str kv.1)
        | .str s => if strict then .error (leafLoad "ExcludedTypeLoadError")
                    else .ok (s.toList.map fun ch => .str (String.singleton ch))
        | _ => .error (leafLoad "TypeLoadError")
      match items with
      | .error o => o
      | .ok xs =>
        match collect "AggregateLoadError" (xs.map (run U fuel env elem)) with
        | .error o => o
        | .ok vs => .ok (mkSeq origin vs)
    | .modelL cid _ fields =>
      match v with
      | .dict kvs =>
        let fs := fields.toList
        let req : String → Bool := fun n =>
          match U.kind cid with
          | .model fl => (fl.find? (fun f => f.name == n)).map (·.required) |>.getD true
          | _ => true
        let rs : List (String × Option Outcome) := fs.map fun (_, n, l) =>
          match lookupField n kvs with
          | some x => (n, some (run U fuel env l x))
          | none => (n, if req n then none else some (.ok .none))
        let missing := rs.any fun r => r.2.isNone
        let present := rs.filterMap fun r => r.2
        let withMissing := if missing then present ++ [leafLoad "NoRequiredFieldsLoadError"] else present
        match collect "AggregateLoadError" withMissing with
        | .error o => o
        | .ok vs => .ok (.obj cid ((fs.map fun (_, n, _) => n).zip vs))
      | _ => .loadErr (.node "AggregateLoadError" [.node "TypeLoadError" []])
    | .asIs => .ok v
    | .bytesD => .unmodelled
    | .optD inner => match v with | .none => .ok .none | _ => run U fuel env inner v
    | .unionD cases =>
      let cs := cases.toList
      match (valClasses U v).findSome? (fun k => cs.find? (fun (t, _, _) => t == k)) with
      | some (_, _, d) => run U fuel env d v
      | none => match v with
        | .list _ | .tuple _ | .dict _ => leafRaise "KeyError"
        | _ => leafRaise "KeyError"
    | .seqD origin elem =>
      match v with
      | .list xs | .tuple xs =>
        match collect "ExceptionGroup" (xs.map (run U fuel env elem)) with
        | .error (.loadErr e) => .raised e
        | .error o => o
        | .ok vs => .ok (mkSeq origin vs)
      | _ => .unmodelled
    | .modelD _ fields =>
      match v with
      | .obj _ ofs =>
        let fs := fields.toList
        let rs := fs.map fun (_, n, d) =>
          match lookupField n ofs with
          | some x => run U fuel env d x
          | none => .unmodelled
        match collect "ExceptionGroup" rs with
        | .error (.loadErr e) => .raised e
        | .error o => o
        | .ok vs => .ok (.dict ((fs.map fun (_, n, _) => n).zip vs))
      | _ => .unmodelled
    | .user fid => .ok (.tuple [.str "user", .int fid, v])
    | .shapeTok _ => .unmodelled
    | .stub n =>
      match env.find? (fun e => e.1 == n) with
      | some e => run U fuel env e.2 v
      | none => leafRaise "TypeError"          -- 'NoneType' object is not callable
    | .mu n body => run U fuel ((n, .mu n body) :: env) body v
    | .convId => .ok v
    | .convModel cid fields =>
      match v with
      | .obj _ ofs =>
        let fs := fields.toList
        let rs := fs.map fun (_, n, d) =>
          match lookupField n ofs with
          | some x => run U fuel env d x
          | none => .unmodelled
        match collect "ExceptionGroup" rs with
        | .error o => o
        | .ok vs => .ok (.obj cid ((fs.map fun (_, n, _) => n).zip vs))
      | _ => .unmodelled
    | .convSeq origin elem =>
      match v with
      | .list xs | .tuple xs =>
        match collect "ExceptionGroup" (xs.map (run U fuel env elem)) with
        | .error o => o
        | .ok vs => .ok (mkSeq origin vs)
      | _ => .unmodelled
    | .enumNameL cid =>
      -- `try: return mapping[data]` / `except KeyError | TypeError: raise BadVariantLoadError`
      match v with
      | .str s =>
        match (enumMembers U cid).find? (fun m => m.1 == s) with
        | some m => .ok (.enum cid m.1)
        | none => leafLoad "BadVariantLoadError"
      | .tuple _ | .enum _ _ => .unmodelled
      | _ => leafLoad "BadVariantLoadError"
    | .enumNameD cid => enumDump U cid (fun m => .str m.1) v
    | .enumExactL cid =>
      -- `value_to_member[data]`: a dict lookup, i.e. `data == member.value` (and equal hashes)
      match v with
      | .tuple _ | .enum _ _ => .unmodelled
      | _ =>
        match (enumMembers U cid).find? (fun m => litValueMatch U v m.2) with
        | some m => .ok (.enum cid m.1)
        | none => leafLoad "BadVariantLoadError"
    | .enumExactD cid => enumDump U cid (fun m => litToVal U m.2) v

/-! ### Facade operations, histories, observations -/

inductive FOp where
  | getLoader (h : Hint)
  | load (h : Hint) (v : Val)
  | getDumper (h : Hint)
  | dump (h : Hint) (v : Val)
  | getConverter (s d : Hint)
  | convert (s d : Hint) (v : Val)
  deriving Repr, Inhabited

inductive Op where
  | call (i : Nat) (f : FOp)
  | replace (i : Nat) (strict : Option Bool)        -- Retort.replace(strict_coercion=…)
  | extend (i : Nat) (recipe : List RecipeEntry)    -- Retort.extend(recipe=[…])
  deriving Repr, Inhabited

def notFound : Outcome := leafRaise "ProviderNotFoundError"

def applyTo (P : Params) (U : Univ) (v : Option Val) (res : Option Clo × Retort × List Hint) :
    Outcome × Retort × List Hint :=
  match res.1 with
  | none => (notFound, res.2)
  | some c =>
    match v with
    | none => (.ok .none, res.2)
    | some x => (run U P.fuel [] c x, res.2)

/-- one facade call on one retort -/
def stepF (P : Params) (U : Univ) (f : FOp) (r : Retort) (N : List Hint) : Outcome × Retort × List Hint :=
  match f with
  | .getLoader h => applyTo P U none (getMorph P U .load h r N)
  | .load h v => applyTo P U (some v) (getMorph P U .load h r N)
  | .getDumper h => applyTo P U none (getMorph P U .dump h r N)
  | .dump h v => applyTo P U (some v) (getMorph P U .dump h r N)
  | .getConverter s d => applyTo P U none (getConv P U s d r N)
  | .convert s d v => applyTo P U (some v) (getConv P U s d r N)

/-- `_clone()` = `copy(self)` then `_calculate_derived()`: the clone gets new,
    empty caches; the original object is not touched. -/
def Retort.replace (r : Retort) (strict : Option Bool) : Retort :=
  Retort.fresh { r.cfg with strict := strict.getD r.cfg.strict }

def Retort.extend (r : Retort) (recipe : List RecipeEntry) : Retort :=
  Retort.fresh { r.cfg with recipe := recipe ++ r.cfg.recipe }

def stepOp (P : Params) (U : Univ) (op : Op) (w : Sys) : Sys :=
  match op with
  | .call i f =>
    match w.retorts[i]? with
    | none => w
    | some r =>
      let res := stepF P U f r w.norm
      { retorts := w.retorts.set i res.2.1, norm := res.2.2 }
  | .replace i strict =>
    match w.retorts[i]? with
    | none => w
    | some r => { w with retorts := w.retorts ++ [r.replace strict] }
  | .extend i recipe =>
    match w.retorts[i]? with
    | none => w
    | some r => { w with retorts := w.retorts ++ [r.extend recipe] }

def runHist (P : Params) (U : Univ) : List Op → Sys → Sys
  | [], w => w
  | op :: rest, w => runHist P U rest (stepOp P U op w)

/-- what a caller sees of a facade call on retort `i` -/
def observe (P : Params) (U : Univ) (w : Sys) (i : Nat) (f : FOp) : Option Outcome :=
  w.retorts[i]?.map fun r => (stepF P U f r w.norm).1

/-- the same call on a retort constructed the same way that was never used, in
    a process whose normalisation cache is empty -/
def observeFresh (P : Params) (U : Univ) (cfg : Cfg) (f : FOp) : Outcome :=
  (stepF P U f (Retort.fresh cfg) []).1

end Adaptix.Cache
