/-
  Concrete universe and hints used by the witnesses / non-vacuity examples of
  AdaptixProofs/Props/C11.lean.
-/
import AdaptixModel.Retort.CacheSem

namespace Adaptix.Cache

def exU : Univ where
  kind := fun u =>
    match u with
    | 0 => .scalar .int | 1 => .scalar .bool | 2 => .scalar .str | 3 => .scalar .bytes | 4 => .noneType
    | 5 => .model [⟨"x", .cls 0, true⟩]           -- class A (first definition)
    | 6 => .model [⟨"x", .cls 0, true⟩]           -- class A (second definition, same qualified name)
    | 7 => .model [⟨"v", .cls 0, true⟩, ⟨"next", .union [7, 4], false⟩]   -- recursive Node
    | 10 => .enum [("RED", .int 1), ("GREEN", .int 2)]                    -- class Color(Enum)
    | 11 => .enum [("SMALL", .int 1), ("BIG", .int 2)]                    -- class Size(Enum): the same values
    | _ => .unknown
  nameKey := fun u => if u == 6 then 5 else u
  strOf := fun _ => ""
  bytesUid := 3
  intUid := 0
  boolUid := 1
  strUid := 2
  noneUid := 4

def exCfg : Cfg := { strict := true, recipe := [] }
def L01 : Hint := .lit [.int 0, .int 1]
def LFT : Hint := .lit [.bool false, .bool true]

def Outcome.isOk : Outcome → Bool
  | .ok _ => true
  | _ => false

def Outcome.objCid : Outcome → Option Nat
  | .ok (.obj c _) => some c
  | _ => none

/-- the Enum member a load returned -/
def Outcome.member : Outcome → Option (Nat × String)
  | .ok (.enum c n) => some (c, n)
  | _ => none

/-- `Retort(recipe=[enum_by_name(Color, Size)])` -/
def exEnumCfg : Cfg := { strict := true, recipe := [⟨.enumByName, [.cls 10, .cls 11]⟩] }

end Adaptix.Cache
