/-
  The `mediator.cached_call` sites and facade caches the C11 model accounts for.

  `sites_covered` / `facade_caches_covered` (AdaptixProofs/Props/C11.lean) state that these lists equal
  the lists extracted from the working tree on every run (AdaptixModel/Generated/C11Sites.lean): a new
  site, a changed key argument or a changed facade-cache key breaks the build.

  Classification of a site:
    modelled k     the site is the constructor `Key.k` of Retort/Cache.lean (`key_sound` covers it);
    variantOf k    the DebugTrail.DISABLE / FIRST sibling of `Key.k`: same arguments minus the
                   message-only `norm.source`;
    selfOnly       no argument: the key is the bound method, the closure depends on the provider object only;
    identityArgs   outside the pool of the model; every argument is a closure or a class (compared by
                   identity), a bool or an enum member, and the cached function reads nothing else
                   (checked by reading the code; recorded here so that a change of the argument list is noticed).
-/
namespace Adaptix.Cache

inductive SiteClass where
  | modelled (key : String)
  | variantOf (key : String)
  | selfOnly
  | identityArgs
  deriving DecidableEq, Repr

def modelledSites : List ((String × String × List String) × SiteClass) := [
  (("adaptix/_internal/morphing/concrete_provider.py", "IsoFormatProvider.provide_loader -> self._make_loader", []), .selfOnly),
  (("adaptix/_internal/morphing/concrete_provider.py", "IsoFormatProvider.provide_dumper -> self._make_dumper", []), .selfOnly),
  (("adaptix/_internal/morphing/concrete_provider.py", "DatetimeFormatProvider.provide_loader -> self._make_loader", []), .selfOnly),
  (("adaptix/_internal/morphing/concrete_provider.py", "DatetimeFormatProvider.provide_dumper -> self._make_dumper", []), .selfOnly),
  (("adaptix/_internal/morphing/concrete_provider.py", "DatetimeTimestampProvider.provide_loader -> self._make_loader", []), .selfOnly),
  (("adaptix/_internal/morphing/concrete_provider.py", "DatetimeTimestampProvider.provide_dumper -> self._make_dumper", []), .selfOnly),
  (("adaptix/_internal/morphing/concrete_provider.py", "DateTimestampProvider.provide_loader -> self._make_loader", []), .selfOnly),
  (("adaptix/_internal/morphing/concrete_provider.py", "DateTimestampProvider.provide_dumper -> self._make_dumper", []), .selfOnly),
  (("adaptix/_internal/morphing/concrete_provider.py", "SecondsTimedeltaProvider.provide_loader -> self._make_loader", []), .selfOnly),
  (("adaptix/_internal/morphing/concrete_provider.py", "SecondsTimedeltaProvider.provide_dumper -> self._make_dumper", []), .selfOnly),
  (("adaptix/_internal/morphing/concrete_provider.py", "_Base64DumperMixin.provide_dumper -> self._make_dumper", []), .modelled "bytesD"),
  (("adaptix/_internal/morphing/concrete_provider.py", "BytesBase64Provider.provide_loader -> self._make_loader", []), .modelled "bytesL"),
  (("adaptix/_internal/morphing/concrete_provider.py", "BytesIOBase64Provider.provide_loader -> self._make_loader", ["loader=self._BYTES_PROVIDER.provide_loader(mediator, request)"]), .identityArgs),
  (("adaptix/_internal/morphing/concrete_provider.py", "BytesIOBase64Provider.provide_dumper -> self._make_dumper", []), .selfOnly),
  (("adaptix/_internal/morphing/concrete_provider.py", "IOBytesBase64Provider.provide_dumper -> self._make_dumper", []), .selfOnly),
  (("adaptix/_internal/morphing/concrete_provider.py", "BytearrayBase64Provider.provide_loader -> self._make_loader", ["loader=bytes_loader"]), .identityArgs),
  (("adaptix/_internal/morphing/concrete_provider.py", "RegexPatternProvider.provide_loader -> self._make_loader", []), .selfOnly),
  (("adaptix/_internal/morphing/concrete_provider.py", "ScalarProvider.provide_loader -> self._make_loader", ["strict_coercion=strict_coercion"]), .modelled "scalarL"),
  (("adaptix/_internal/morphing/constant_length_tuple_provider.py", "ConstantLengthTupleProvider.provide_loader -> self._make_loader", ["loaders=tuple(loaders)", "strict_coercion=strict_coercion", "debug_trail=debug_trail"]), .identityArgs),
  (("adaptix/_internal/morphing/constant_length_tuple_provider.py", "ConstantLengthTupleProvider.provide_dumper -> self._make_dumper", ["dumpers=tuple(dumpers)", "debug_trail=debug_trail"]), .identityArgs),
  (("adaptix/_internal/morphing/dict_provider.py", "DictProvider.provide_loader -> self._make_loader", ["key_loader=key_loader", "value_loader=value_loader", "debug_trail=debug_trail"]), .identityArgs),
  (("adaptix/_internal/morphing/dict_provider.py", "DictProvider.provide_dumper -> self._make_dumper", ["key_dumper=key_dumper", "value_dumper=value_dumper", "debug_trail=debug_trail"]), .identityArgs),
  (("adaptix/_internal/morphing/dict_provider.py", "DefaultDictProvider.provide_loader -> self._make_loader", ["loader=dict_loader"]), .identityArgs),
  (("adaptix/_internal/morphing/enum_provider.py", "EnumNameProvider.provide_loader -> self._make_loader", ["enum=request.last_loc.type"]), .modelled "enumNameL"),
  (("adaptix/_internal/morphing/enum_provider.py", "EnumNameProvider.provide_dumper -> self._make_dumper", ["enum=enum"]), .modelled "enumNameD"),
  (("adaptix/_internal/morphing/enum_provider.py", "EnumValueProvider.provide_loader -> self._make_loader", ["enum=enum", "value_loader=value_loader"]), .identityArgs),
  (("adaptix/_internal/morphing/enum_provider.py", "EnumValueProvider.provide_dumper -> self._make_dumper", ["value_dumper=value_dumper"]), .identityArgs),
  (("adaptix/_internal/morphing/enum_provider.py", "EnumExactValueProvider.provide_loader -> self._make_loader", ["enum=request.last_loc.type"]), .modelled "enumExactL"),
  (("adaptix/_internal/morphing/enum_provider.py", "EnumExactValueProvider.provide_dumper -> self._make_dumper", ["enum=request.last_loc.type"]), .modelled "enumExactD"),
  (("adaptix/_internal/morphing/enum_provider.py", "FlagByExactValueProvider.provide_loader -> self._make_loader", ["enum=request.last_loc.type"]), .identityArgs),
  (("adaptix/_internal/morphing/enum_provider.py", "FlagByListProvider.provide_loader -> self._make_loader", ["enum=enum", "strict_coercion=strict_coercion"]), .identityArgs),
  (("adaptix/_internal/morphing/enum_provider.py", "FlagByListProvider.provide_dumper -> self._make_dumper", ["enum=request.last_loc.type"]), .identityArgs),
  (("adaptix/_internal/morphing/generic_provider.py", "LiteralProvider.provide_loader -> self._make_loader", ["typed_cases=tuple(((type(arg), arg) for arg in norm.args))", "bytes_cases=bytes_cases", "strict_coercion=strict_coercion", "enum_loaders=enum_loaders", "bytes_loader=bytes_loader", "allowed_values_repr=allowed_values_repr"]), .modelled "literalL"),
  (("adaptix/_internal/morphing/generic_provider.py", "LiteralProvider.provide_dumper -> self._make_dumper", ["enum_dumpers_wrapper=MappingHashWrapper(enum_dumpers)", "bytes_dumper=bytes_dumper"]), .identityArgs),
  (("adaptix/_internal/morphing/generic_provider.py", "UnionProvider.provide_loader -> self._single_optional_dt_loader", ["norm.source", "not_none_loader"]), .modelled "optL"),
  (("adaptix/_internal/morphing/generic_provider.py", "UnionProvider.provide_loader -> self._single_optional_dt_disable_loader", ["not_none_loader"]), .variantOf "optL"),
  (("adaptix/_internal/morphing/generic_provider.py", "UnionProvider.provide_loader -> self._get_loader_dt_disable", ["tuple(loaders)"]), .variantOf "unionL"),
  (("adaptix/_internal/morphing/generic_provider.py", "UnionProvider.provide_loader -> self._get_loader_dt_first", ["norm.source", "tuple(loaders)"]), .variantOf "unionL"),
  (("adaptix/_internal/morphing/generic_provider.py", "UnionProvider.provide_loader -> self._get_loader_dt_all", ["norm.source", "tuple(loaders)"]), .modelled "unionL"),
  (("adaptix/_internal/morphing/generic_provider.py", "UnionProvider.provide_dumper -> self._get_single_optional_dumper", ["not_none_dumper"]), .modelled "optD"),
  (("adaptix/_internal/morphing/generic_provider.py", "UnionProvider.provide_dumper -> self._make_dumper", ["norm", "tuple(dumpers)"]), .modelled "unionD"),
  (("adaptix/_internal/morphing/iterable_provider.py", "IterableProvider.provide_loader -> self._make_loader", ["origin=norm.origin", "iter_factory=iter_factory", "arg_loader=arg_loader", "strict_coercion=strict_coercion", "debug_trail=debug_trail"]), .modelled "seqL"),
  (("adaptix/_internal/morphing/iterable_provider.py", "IterableProvider.provide_dumper -> self._make_dumper", ["origin=norm.origin", "iter_factory=iter_factory", "arg_dumper=arg_dumper", "debug_trail=debug_trail"]), .modelled "seqD"),
  (("adaptix/_internal/morphing/model/dumper_provider.py", "ModelDumperProvider.provide_dumper -> self._make_dumper", ["shape=shape", "name_layout=name_layout", "fields_dumpers=OrderedMappingHashWrapper(fields_dumpers)", "debug_trail=mediator.mandatory_provide(DebugTrailRequest(loc_stack=request.loc_stack))", "code_gen_hook=AlwaysEqualHashWrapper(fetch_code_gen_hook(mediator, request.loc_stack))", "model_identity=self._fetch_model_identity(mediator, request, shape, name_layout)", "closure_name=self._get_closure_name(request)", "file_name=self._get_file_name(request)"]), .modelled "modelD"),
  (("adaptix/_internal/morphing/model/loader_provider.py", "ModelLoaderProvider.provide_loader -> self._make_loader", ["shape=shape", "name_layout=name_layout", "field_loaders=OrderedMappingHashWrapper(field_loaders)", "strict_coercion=mediator.mandatory_provide(StrictCoercionRequest(loc_stack=request.loc_stack))", "debug_trail=mediator.mandatory_provide(DebugTrailRequest(loc_stack=request.loc_stack))", "code_gen_hook=AlwaysEqualHashWrapper(fetch_code_gen_hook(mediator, request.loc_stack))", "model_identity=self._fetch_model_identity(mediator, request, shape, name_layout)", "closure_name=self._get_closure_name(request)", "file_name=self._get_file_name(request)"]), .modelled "modelL"),
  (("adaptix/_internal/provider/shape_provider.py", "ShapeProvider._provide_input_shape -> self._get_shape", ["request.last_loc.type"]), .modelled "shape"),
  (("adaptix/_internal/provider/shape_provider.py", "ShapeProvider._provide_output_shape -> self._get_shape", ["request.last_loc.type"]), .modelled "shape")
]

/-- facade-level cache dicts with their key expressions, the key of `cached_call`, the process-wide
    `lru_cache`, and the special methods of the recursion stub class (none of which is `__eq__`/`__hash__`
    after fixes/C12-stub-identity.patch: stubs are compared by identity); the attributes assigned by every
    `_calculate_derived` (the whole per-retort state: `Retort` of Cache.lean carries the four cache dicts, the router and
    the error representors are functions of the recipe); the life cycle of the recursion stubs as `provide` models it:
    the resolver - the holder of `_loc_to_stub` - is created in `_create_request_bus`, i.e. once per facade call
    (`topProvide` starts every facade request with `loc := ⟨[], 0⟩`), `track_request` first counts the location in the stack and only then looks
    at the registered stubs, `track_response` pops and binds -/
def modelledFacadeCaches : List (String × String × String) := [
  ("adaptix/_internal/conversion/facade/retort.py", "AdornedConversionRetort._calculate_derived", "derived state: _simple_converter_cache"),
  ("adaptix/_internal/conversion/facade/retort.py", "AdornedConversionRetort._calculate_derived", "self._simple_converter_cache = {}"),
  ("adaptix/_internal/conversion/facade/retort.py", "AdornedConversionRetort.get_converter", "retort._simple_converter_cache[(src, dst, name)]"),
  ("adaptix/_internal/conversion/facade/retort.py", "AdornedConversionRetort.get_converter", "retort._simple_converter_cache[(src, dst, name)]"),
  ("adaptix/_internal/morphing/facade/retort.py", "AdornedRetort._calculate_derived", "derived state: _loader_cache, _dumper_cache"),
  ("adaptix/_internal/morphing/facade/retort.py", "AdornedRetort._calculate_derived", "self._loader_cache = {}"),
  ("adaptix/_internal/morphing/facade/retort.py", "AdornedRetort._calculate_derived", "self._dumper_cache = {}"),
  ("adaptix/_internal/morphing/facade/retort.py", "AdornedRetort.get_loader", "self._loader_cache[tp]"),
  ("adaptix/_internal/morphing/facade/retort.py", "AdornedRetort.get_loader", "self._loader_cache[tp]"),
  ("adaptix/_internal/morphing/facade/retort.py", "AdornedRetort.get_dumper", "self._dumper_cache[tp]"),
  ("adaptix/_internal/morphing/facade/retort.py", "AdornedRetort.get_dumper", "self._dumper_cache[tp]"),
  ("adaptix/_internal/retort/base_retort.py", "BaseRetort._calculate_derived", "derived state: _full_recipe"),
  ("adaptix/_internal/retort/builtin_mediator.py", "BuiltinMediator.__init__", "self._call_cache = call_cache"),
  ("adaptix/_internal/retort/builtin_mediator.py", "BuiltinMediator.cached_call", "key = (func, *args, *kwargs.items())"),
  ("adaptix/_internal/retort/builtin_mediator.py", "BuiltinMediator.cached_call", "key in self._call_cache"),
  ("adaptix/_internal/retort/builtin_mediator.py", "BuiltinMediator.cached_call", "self._call_cache[key]"),
  ("adaptix/_internal/retort/builtin_mediator.py", "BuiltinMediator.cached_call", "result = func(*args, **kwargs)"),
  ("adaptix/_internal/retort/builtin_mediator.py", "BuiltinMediator.cached_call", "self._call_cache[key]"),
  ("adaptix/_internal/retort/operating_retort.py", "FuncWrapper", "methods: __init__, set_func"),
  ("adaptix/_internal/retort/operating_retort.py", "LocatedRequestCallableRecursionResolver.track_request", "last_loc = request.last_loc"),
  ("adaptix/_internal/retort/operating_retort.py", "LocatedRequestCallableRecursionResolver.track_request", "if sum((loc == last_loc for loc in request.loc_stack)) == 1: return None"),
  ("adaptix/_internal/retort/operating_retort.py", "LocatedRequestCallableRecursionResolver.track_request", "if last_loc in self._loc_to_stub: return self._loc_to_stub[last_loc]"),
  ("adaptix/_internal/retort/operating_retort.py", "LocatedRequestCallableRecursionResolver.track_request", "stub = FuncWrapper(last_loc)"),
  ("adaptix/_internal/retort/operating_retort.py", "LocatedRequestCallableRecursionResolver.track_request", "self._loc_to_stub[last_loc] = stub"),
  ("adaptix/_internal/retort/operating_retort.py", "LocatedRequestCallableRecursionResolver.track_request", "return stub"),
  ("adaptix/_internal/retort/operating_retort.py", "LocatedRequestCallableRecursionResolver.track_response", "last_loc = request.last_loc"),
  ("adaptix/_internal/retort/operating_retort.py", "LocatedRequestCallableRecursionResolver.track_response", "if last_loc in self._loc_to_stub: self._loc_to_stub.pop(last_loc).set_func(response)"),
  ("adaptix/_internal/retort/operating_retort.py", "OperatingRetort._create_recursion_resolver", "creates: LocatedRequestCallableRecursionResolver()"),
  ("adaptix/_internal/retort/searching_retort.py", "SearchingRetort._calculate_derived", "derived state: _request_cls_to_router, _request_cls_to_error_representor, _call_cache"),
  ("adaptix/_internal/retort/searching_retort.py", "SearchingRetort._calculate_derived", "self._call_cache = {}"),
  ("adaptix/_internal/retort/searching_retort.py", "SearchingRetort._create_request_bus", "creates: self._create_recursion_resolver(request_cls)"),
  ("adaptix/_internal/type_tools/normalize_type.py", "<module>", "lru_cache(maxsize=128)"),
  ("adaptix/_internal/utils.py", "Cloneable._calculate_derived", "derived state: ")
]

/-- the constructors of `Key`, by name -/
def keyNames : List String :=
  ["scalarL", "bytesL", "bytesD", "literalL", "optL", "unionL", "optD", "unionD", "seqL", "seqD", "shape", "modelL", "modelD",
   "enumNameL", "enumNameD", "enumExactL", "enumExactD"]

end Adaptix.Cache
