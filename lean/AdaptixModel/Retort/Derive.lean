/-
  C12 — deriving a retort (`Retort.replace` / `Retort.extend`) from a shared retort that other threads are using.

  Code: `Cloneable._clone` (utils.py: `self_copy = copy(self)` ... `self_copy._calculate_derived()`),
  `SearchingRetort._calculate_derived` (retort/searching_retort.py: `self._call_cache = {}`),
  `AdornedRetort._calculate_derived` (morphing/facade/retort.py: `self._loader_cache = {}`, `self._dumper_cache = {}`).
  After `copy(self)` the clone still refers to the ORIGIN's cache dicts; `_calculate_derived` gives it its own.

  The model isolates the one question the interleaving semantics decides: what may the cloning thread do with the
  origin's cache while other threads store into it?  The origin's cache is a Python dict (entries in insertion
  order) that the environment - any number of other threads - stores into (`cached_call`: `self._call_cache[key] =
  result`; insert-only, theorem `call_cache_insert_only` of the thread model).  Three cloning programs:

    * `fresh`    - the code as it is: the clone starts with `{}` and never reads the origin's cache (one atomic step);
    * `snapshot` - `dict(cache)` / `cache.copy()`: one C-level copy under the GIL (one atomic step);
    * `iterate`  - a comprehension / `for` loop over the live dict: one step creates the iterator (it remembers the
                   size, `di_used`), every further step is one `next()` (Objects/dictobject.c, `dictiter_iternextitem`:
                   `if (di->di_used != d->ma_used) RuntimeError("dictionary changed size during iteration")`).

  A schedule is any list of actions `clone` (one step of the cloning thread) / `store k v` (another thread stores).
-/
namespace Adaptix.Derive

abbrev Key := Nat
abbrev Val := Nat

/-- a Python dict: the entries in insertion order -/
abbrev Dict := List (Key × Val)

def hasKey (d : Dict) (k : Key) : Bool := d.any (fun e => e.1 == k)

/-- `d[k] = v`: an existing key keeps its slot, a new key is appended (the size grows exactly then) -/
def store : Dict → Key → Val → Dict
  | [], k, v => [(k, v)]
  | e :: d, k, v => if e.1 == k then (k, v) :: d else e :: store d k v

inductive Strategy where
  | fresh | snapshot | iterate
  deriving DecidableEq, Repr

/-- state of the cloning thread with respect to the cache of the clone -/
inductive Clone where
  | start
  | iterating (used pos : Nat) (acc : Dict)
  | done (cache : Dict)
  | error                    -- RuntimeError: dictionary changed size during iteration
  deriving DecidableEq, Repr

inductive Act where
  | clone
  | store (k : Key) (v : Val)
  deriving DecidableEq, Repr

structure State where
  origin : Dict
  clone : Clone
  steps : Nat := 0           -- steps the cloning thread needed so far (ghost; compared with the real trace)
  deriving DecidableEq, Repr

def Clone.finished : Clone → Bool
  | .done _ => true
  | .error => true
  | _ => false

/-- one step of the cloning thread on the origin's cache as it is NOW -/
def cloneStep (st : Strategy) (origin : Dict) : Clone → Clone
  | .start =>
    match st with
    | .fresh => .done []
    | .snapshot => .done origin
    | .iterate => .iterating origin.length 0 []
  | .iterating used pos acc =>
    if origin.length ≠ used then .error
    else match origin[pos]? with
      | some e => .iterating used (pos + 1) (acc ++ [e])
      | none => .done acc
  | c => c

def step (st : Strategy) (s : State) : Act → State
  | .clone => { s with clone := cloneStep st s.origin s.clone,
                       steps := if s.clone.finished then s.steps else s.steps + 1 }
  | .store k v => { s with origin := store s.origin k v }

def run (st : Strategy) (s : State) (σ : List Act) : State := σ.foldl (step st) s

def init (origin : Dict) : State := { origin := origin, clone := .start }

end Adaptix.Derive
