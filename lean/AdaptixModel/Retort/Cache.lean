/-
  Model of the caches of an adaptix retort (C11).

  Source modelled (hand-written; tied by `harness/props/c11.py` and `extract/c11_sites.py`):
    retort/builtin_mediator.py      BuiltinMediator.cached_call  (key = (func, *args, *kwargs.items()), a dict lookup)
    retort/searching_retort.py      SearchingRetort._calculate_derived (`_call_cache = {}`), _create_mediator
    retort/request_bus.py           RecursiveRequestBus.send (track_request / _send_inner / track_response)
    retort/operating_retort.py      LocatedRequestCallableRecursionResolver, FuncWrapper (stubs)
    morphing/facade/retort.py       AdornedRetort.get_loader/get_dumper/load/dump/replace/extend, _calculate_derived
    conversion/facade/retort.py     AdornedConversionRetort.get_converter, _simple_converter_cache
    utils.py                        Cloneable._clone (copy + _calculate_derived)
    type_tools/normalize_type.py    normalize_type = lru_cache(128) keyed by hint `==`
    morphing/*_provider.py          every `mediator.cached_call(` site: which arguments form the key (`Key`),
                                    and what the produced closure depends on (`build`)
    provider/facade/provider.py     bound / bound_by_any: a recipe entry is guarded by 0, 1 or several predicates
    provider/loc_stack_filtering.py OrLocStackChecker (`any`), ExactTypeLSC / ExactOriginLSC (equality of norms)
    morphing/enum_provider.py       EnumNameProvider, EnumExactValueProvider (AnyEnumLSC; loaders / dumpers)
    morphing/facade/provider.py     loader, dumper, enum_by_name(*preds), enum_by_exact_value(*preds)

  Python equality is the crux: a dict compares keys with `==`.  Hints, literal
  values and key tuples therefore come with `pyEq`, not structural equality.

  `Mode` switches between the code before and after the repairs
    fixes/C11-literal-cache-key.patch   (litKeyTyped)
    fixes/C15-union-order-total.patch   (unionTotal)
  (fixes/C15-literal-dedup.patch concerns unions *of literals*, which are outside this grammar; a plain
  `Literal[...]` is deduplicated by `typing` itself, by (type, value).)
  The theorems are about `Mode.fixed`; the other modes exist so that the defects
  of the unrepaired code are exhibited by `decide` on concrete histories.
-/
namespace Adaptix.Cache

/-! ### Literal values and Python equality on them -/

/-- An argument of `Literal[...]` or a metadata item of `Annotated[...]`.
    String literals are codes into `Univ.strOf`. -/
inductive LitVal where
  | int (i : Int)
  | bool (b : Bool)
  | str (code : Nat)
  deriving DecidableEq, Repr, Inhabited

/-- Representative of the class of a literal value under Python `==`
    (`True == 1`, `False == 0`; a str equals only the same str). -/
def LitVal.valRep : LitVal → LitVal
  | .int i => .int i
  | .bool b => .int (if b then 1 else 0)
  | .str c => .str c

/-- Python `a == b`. -/
def LitVal.pyEq (a b : LitVal) : Bool := a.valRep == b.valRep

/-- total order key on *typed* literal values (type tag first) -/
def LitVal.key : LitVal → Nat × Int
  | .int i => (0, i)
  | .bool b => (1, if b then 1 else 0)
  | .str c => (2, Int.ofNat c)

def keyLt (a b : Nat × Int) : Bool := a.1 < b.1 || (a.1 == b.1 && a.2 < b.2)

/-- insertion into a strictly sorted list, dropping duplicates (by key) -/
def insertBy {α : Type} (lt : α → α → Bool) (x : α) : List α → List α
  | [] => [x]
  | y :: ys => if lt x y then x :: y :: ys else if lt y x then y :: insertBy lt x ys else y :: ys

/-- the canonical (sorted, duplicate free) list of the *set* of elements -/
def canonBy {α : Type} (lt : α → α → Bool) : List α → List α
  | [] => []
  | x :: xs => insertBy lt x (canonBy lt xs)

def LitVal.lt (a b : LitVal) : Bool := keyLt a.key b.key

/-- canonical form of the set of `(type(v), v)` pairs: what `typing.Literal.__eq__` compares -/
def canonLits (args : List LitVal) : List LitVal := canonBy LitVal.lt args

def canonNats (ms : List Nat) : List Nat := canonBy (fun a b => decide (a < b)) ms

/-! ### Type hints -/

/-- The hints of the pool.  `cls` is any class-like object compared by identity
    (a scalar type, `NoneType`, a model class, a `NewType`, a class without a
    provider); `seq` flavours are 0 `typing.List[T]`, 1 `list[T]`,
    2 `typing.Sequence[T]`, 3 `collections.abc.Sequence[T]`; a `union` is flat
    over classes, in written order. -/
inductive Hint where
  | cls (uid : Nat)
  | lit (args : List LitVal)
  | seq (flavor : Nat) (elem : Hint)
  | annotated (base : Hint) (md : List LitVal)
  | union (members : List Nat)
  deriving DecidableEq, Repr, Inhabited

/-- Representative of a hint under Python `==`:
    `Literal` compares the set of (type, value) pairs, `Union` the set of
    members, `Annotated` origin and metadata *by value*, generic aliases origin
    (hence flavour) and arguments. -/
def Hint.eqRep : Hint → Hint
  | .cls u => .cls u
  | .lit args => .lit (canonLits args)
  | .seq fl e => .seq fl e.eqRep
  | .annotated b m => .annotated b.eqRep (m.map LitVal.valRep)
  | .union ms => .union (canonNats ms)

/-- Python `a == b` on hints (hash-consistent: equal hints hash equal). -/
def Hint.pyEq (a b : Hint) : Bool := a.eqRep == b.eqRep

/-! ### The universe of classes -/

inductive Scalar where
  | int | bool | str | bytes
  deriving DecidableEq, Repr, Inhabited

structure Field where
  name : String
  type : Hint
  required : Bool        -- otherwise the default is `None`
  deriving DecidableEq, Repr, Inhabited

inductive ClsKind where
  | scalar (s : Scalar)
  | noneType
  | model (fields : List Field)
  | newtype (sup : Hint)
  | enum (members : List (String × LitVal))   -- a plain `Enum` class: (member name, member value), no aliases
  | unknown                 -- a class no provider accepts: the request fails
  deriving Repr, Inhabited

structure Univ where
  kind : Nat → ClsKind
  nameKey : Nat → Nat       -- order of `str(cls)`; equal for same-named classes
  strOf : Nat → String      -- string literal table
  bytesUid : Nat
  intUid : Nat
  boolUid : Nat
  strUid : Nat
  noneUid : Nat

/-! ### Modes: the code before / after the repairs -/

structure Mode where
  litKeyTyped : Bool     -- LiteralProvider passes (type, value) pairs to cached_call
  unionTotal : Bool      -- _UnionNormType orders by (str, id), not by str alone
  deriving DecidableEq, Repr, Inhabited

def Mode.fixed : Mode := ⟨true, true⟩
def Mode.legacy : Mode := ⟨false, false⟩

/-! ### Normalisation (`normalize_type`) -/

/-- `_LiteralNormType`: the arguments (already unique by (type, value): `typing` deduplicates) in a
    canonical order (the code sorts by `repr`; any fixed total order gives the same behaviour) -/
def normLits (args : List LitVal) : List LitVal := canonLits args

/-- stable insertion by `str()` only (the unrepaired `_order_args`) -/
def insertStable (U : Univ) (x : Nat) : List Nat → List Nat
  | [] => [x]
  | y :: ys => if U.nameKey y ≤ U.nameKey x then y :: insertStable U x ys else x :: y :: ys

def sortStable (U : Univ) : List Nat → List Nat
  | [] => []
  | x :: xs => insertStable U x (sortStable U xs)

def nameLt (U : Univ) (a b : Nat) : Bool :=
  U.nameKey a < U.nameKey b || (U.nameKey a == U.nameKey b && a < b)

def normUnion (M : Mode) (U : Univ) (ms : List Nat) : List Nat :=
  if M.unionTotal then canonBy (nameLt U) ms else (sortStable U ms.reverse)

def originOf (flavor : Nat) : Nat := if flavor < 2 then 0 else 1

/-- The normal form as far as `==` of `BaseNormType` sees it (the `source`
    attribute is not part of it).  Flavours collapse to origins. -/
def Hint.canon (M : Mode) (U : Univ) : Hint → Hint
  | .cls u => .cls u
  | .lit args => .lit (normLits args)
  | .seq fl e => .seq (originOf fl) (e.canon M U)
  | .annotated b m => .annotated (b.canon M U) (m.map LitVal.valRep)
  | .union ms => .union (normUnion M U ms)

/-- `normalize_type` behind `lru_cache(maxsize=cap)`: the cache is a list of the
    hints seen (most recent first); a hit returns the norm of the *stored*
    hint, i.e. the caller continues with the stored spelling. -/
def normSrc (cap : Nat) (h : Hint) (N : List Hint) : Hint × List Hint :=
  match N.find? (fun s => Hint.pyEq s h) with
  | some s => (s, s :: N.filter (fun t => !(Hint.pyEq t h)))
  | none => (h, (h :: N).take cap)

/-! ### Closures -/

mutual
/-- What a provider hands out.  A term *is* the closure: its behaviour is
    `run`; message-only captures (`norm.source` in union loaders,
    `allowed_values_repr`) are not part of it. -/
inductive Clo where
  | scalarL (s : Scalar) (strict : Bool)
  | bytesD
  | noneL
  | litTyped (allowed : List LitVal)
  | litValue (allowed : List LitVal)
  | optL (inner : Clo)
  | unionL (cases : CloList)
  | seqL (origin : Nat) (strict : Bool) (elem : Clo)
  | modelL (cid : Nat) (strict : Bool) (fields : CloList)
  | asIs
  | optD (inner : Clo)
  | unionD (cases : CloList)           -- tagged by class uid
  | seqD (origin : Nat) (elem : Clo)
  | modelD (cid : Nat) (fields : CloList)
  | user (fid : Nat)
  | shapeTok (cid : Nat)               -- the `Shape` returned by `ShapeProvider._get_shape`
  | stub (n : Nat)                     -- a recursion stub (`FuncWrapper`) of the running request
  | mu (n : Nat) (body : Clo)          -- `body`, with stub `n` bound to it (`track_response`)
  | convId
  | convModel (cid : Nat) (fields : CloList)
  | convSeq (origin : Nat) (elem : Clo)
  | enumNameL (cid : Nat)              -- EnumNameProvider._make_loader(enum): `mapping[data]`, name -> member
  | enumNameD (cid : Nat)              -- EnumNameProvider._make_dumper(enum): member -> name
  | enumExactL (cid : Nat)             -- EnumExactValueProvider._make_loader(enum): `value_to_member[data]`
  | enumExactD (cid : Nat)             -- EnumExactValueProvider._make_dumper(enum): member -> value
inductive CloList where
  | nil
  | cons (tag : Nat) (name : String) (c : Clo) (t : CloList)
end

deriving instance DecidableEq for Clo, CloList
deriving instance Repr for Clo, CloList
instance : Inhabited Clo := ⟨.asIs⟩

def CloList.ofList : List (Nat × String × Clo) → CloList
  | [] => .nil
  | (t, n, c) :: r => .cons t n c (CloList.ofList r)

def CloList.toList : CloList → List (Nat × String × Clo)
  | .nil => []
  | .cons t n c r => (t, n, c) :: r.toList

/-! ### Locations and request-local recursion state -/

/-- `TypeHintLoc`, `InputFieldLoc`/`OutputFieldLoc`, `GenericParamLoc`; frozen
    dataclasses compared field-wise with `==`, so the hint is stored as its
    `eqRep`. -/
inductive Loc where
  | th (h : Hint)
  | field (name : String) (required : Bool) (h : Hint)
  | gp (h : Hint) (pos : Nat)
  deriving DecidableEq, Repr, Inhabited

def Loc.setType (t : Hint) : Loc → Loc
  | .th _ => .th t
  | .field n r _ => .field n r t
  | .gp _ p => .gp t p

/-- `LocatedRequestCallableRecursionResolver` of one top-level request. -/
structure Local where
  stubs : List (Loc × Nat)
  next : Nat
  deriving DecidableEq, Repr, Inhabited

/-! ### Cache keys -/

/-- One constructor per `mediator.cached_call` site (the bound method is part
    of the key, so keys of different sites never collide); the fields are the
    arguments the site passes.  Arguments that are the same for every request
    of one retort in this model (`debug_trail`, `name_layout`, `code_gen_hook`,
    `model_identity`, `closure_name`, `file_name`, `iter_factory` = f(origin),
    `bytes_cases`/`enum_loaders` = empty) are omitted. -/
inductive Key where
  | scalarL (s : Scalar) (strict : Bool)                               -- ScalarProvider._make_loader(strict_coercion=)
  | bytesL                                                             -- BytesBase64Provider._make_loader()
  | bytesD                                                             -- _Base64DumperMixin._make_dumper()
  | literalL (cases : List LitVal) (strict : Bool) (bytesLoader : Clo) -- LiteralProvider._make_loader(cases|typed_cases=, strict_coercion=, bytes_loader=, allowed_values_repr=)
  | optL (src : Hint) (inner : Clo)                                    -- UnionProvider._single_optional_dt_loader(norm.source, loader)
  | unionL (src : Hint) (cases : List Clo)                             -- UnionProvider._get_loader_dt_all(norm.source, tuple(loaders))
  | optD (inner : Clo)                                                 -- UnionProvider._get_single_optional_dumper(dumper)
  | unionD (members : List Nat) (dumpers : List Clo)                   -- UnionProvider._make_dumper(norm, tuple(dumpers))
  | seqL (origin : Nat) (strict : Bool) (elem : Clo)                   -- IterableProvider._make_loader(origin=, iter_factory=, arg_loader=, strict_coercion=, debug_trail=)
  | seqD (origin : Nat) (elem : Clo)                                   -- IterableProvider._make_dumper(origin=, iter_factory=, arg_dumper=, debug_trail=)
  | shape (cid : Nat)                                                  -- ShapeProvider._get_shape(tp)
  | modelL (cid : Nat) (strict : Bool) (fields : List (String × Clo))  -- ModelLoaderProvider._make_loader(shape=, field_loaders=, strict_coercion=, ...)
  | modelD (cid : Nat) (fields : List (String × Clo))                  -- ModelDumperProvider._make_dumper(shape=, fields_dumpers=, ...)
  -- the bound method `self._make_loader` is part of the key: `pid` names the provider object (entry `pid` of the
  -- instance recipe; for the exact-value provider `none` is the EnumExactValueProvider of the class recipe)
  | enumNameL (pid : Nat) (cid : Nat)                                  -- EnumNameProvider._make_loader(enum=request.last_loc.type)
  | enumNameD (pid : Nat) (cid : Nat)                                  -- EnumNameProvider._make_dumper(enum=enum)
  | enumExactL (pid : Option Nat) (cid : Nat)                          -- EnumExactValueProvider._make_loader(enum=request.last_loc.type)
  | enumExactD (pid : Option Nat) (cid : Nat)                          -- EnumExactValueProvider._make_dumper(enum=request.last_loc.type)
  deriving DecidableEq, Repr, Inhabited

def listPyEq : List LitVal → List LitVal → Bool
  | [], [] => true
  | a :: as, b :: bs => LitVal.pyEq a b && listPyEq as bs
  | _, _ => false

/-- Python `==` of two key tuples.  Closures compare by identity, which for
    closures obtained through the cache coincides with equality of terms;
    hints compare with `Hint.pyEq`; the literal cases compare as *values*
    before the repair and as (type, value) pairs after it. -/
def Key.pyEq (M : Mode) : Key → Key → Bool
  | .literalL c s b, .literalL c' s' b' =>
      (if M.litKeyTyped then c == c' else listPyEq c c') && s == s' && b == b'
  | .optL src i, .optL src' i' => Hint.pyEq src src' && i == i'
  | .unionL src cs, .unionL src' cs' => Hint.pyEq src src' && cs == cs'
  | k, k' => k == k'

def tagged (l : List (String × Clo)) : CloList := CloList.ofList (l.map fun (n, c) => (0, n, c))

def isBoolOrZeroOne : LitVal → Bool
  | .bool _ => true
  | .int i => i == 0 || i == 1
  | .str _ => false

/-- `func(*args, **kwargs)`: what the cached function builds from its arguments. -/
def build : Key → Clo
  | .scalarL s strict => .scalarL s strict
  | .bytesL => .scalarL .bytes true
  | .bytesD => .bytesD
  | .literalL cases strict _ =>
      if strict && cases.any isBoolOrZeroOne then .litTyped cases else .litValue cases
  | .optL _ inner => .optL inner
  | .unionL _ cs => .unionL (CloList.ofList (cs.map fun c => (0, "", c)))
  | .optD inner => .optD inner
  | .unionD ms ds => .unionD (CloList.ofList ((ms.zip ds).map fun (m, d) => (m, "", d)))
  | .seqL o s e => .seqL o s e
  | .seqD o e => .seqD o e
  | .shape cid => .shapeTok cid
  | .modelL cid strict fs => .modelL cid strict (tagged fs)
  | .modelD cid fs => .modelD cid (tagged fs)
  | .enumNameL _ cid => .enumNameL cid
  | .enumNameD _ cid => .enumNameD cid
  | .enumExactL _ cid => .enumExactL cid
  | .enumExactD _ cid => .enumExactD cid

/-! ### The retort-wide call cache and one request -/

/-- `BuiltinMediator.cached_call`. -/
def cachedCall (M : Mode) (k : Key) (call : List (Key × Clo)) : Clo × List (Key × Clo) :=
  match call.find? (fun e => Key.pyEq M e.1 k) with
  | some e => (e.2, call)
  | none => (build k, call ++ [(k, build k)])

inductive Dir where
  | load | dump
  deriving DecidableEq, Repr, Inhabited

/-- the provider a recipe entry wraps -/
inductive Prov where
  | user (dir : Dir) (fid : Nat)   -- `loader(pred, func)` / `dumper(pred, func)`: ValueProvider(LoaderRequest | DumperRequest, func)
  | enumByName                     -- `enum_by_name(*preds)`: EnumNameProvider (no name_style, no map)
  | enumByExactValue               -- `enum_by_exact_value(*preds)`: EnumExactValueProvider
  deriving DecidableEq, Repr, Inhabited

/-- One entry of the instance recipe: a provider guarded by predicates.
    `targets` are type predicates.  `loader(h, f)` has one; `loader(P[h1, h2], f)` several (`LocStackPattern.__getitem__`
    of a tuple builds an `OrLocStackChecker`); `enum_by_name(*preds)` goes through `bound_by_any`: none (the bare
    provider), one (its checker) or several (`OrLocStackChecker` of the checkers). -/
structure RecipeEntry where
  prov : Prov
  targets : List Hint
  deriving DecidableEq, Repr, Inhabited

structure Cfg where
  strict : Bool
  recipe : List RecipeEntry
  deriving DecidableEq, Repr, Inhabited

/-- state threaded through one request -/
structure RS where
  loc : Local
  call : List (Key × Clo)
  norm : List Hint
  deriving Repr, Inhabited

abbrev Step := List Loc → Hint → RS → Option Clo × RS

/-- `Mediator.mandatory_provide_by_iterable`: every request is sent, also after a failure. -/
def mapReq (rec : Step) (σ : List Loc) : List (Loc × Hint) → RS → List (Option Clo) × RS
  | [], s => ([], s)
  | (l, t) :: rs, s =>
    let r1 := rec (l :: σ) t s
    let r2 := mapReq rec σ rs r1.2
    (r1.1 :: r2.1, r2.2)

def allSome {α : Type} : List (Option α) → Option (List α)
  | [] => some []
  | none :: _ => none
  | some a :: r => (allSome r).map (a :: ·)

def cached (M : Mode) (k : Key) (s : RS) : Option Clo × RS :=
  let r := cachedCall M k s.call
  (some r.1, { s with call := r.2 })

/-- what the instance recipe answers a request with -/
inductive Served where
  | user (fid : Nat)
  | enumName (pid : Nat) (cid : Nat)
  | enumExact (pid : Nat) (cid : Nat)
  deriving DecidableEq, Repr, Inhabited

/-- `bound_by_any(preds, provider)` / `bound(pred, provider)` on the norm `n` of the requested type:
    no predicate - the bare provider; otherwise `any` of the checkers (a single checker is the `any` of one), each
    `ExactTypeLSC` (equality of norms) resp. `ExactOriginLSC` (for classes).  The checkers are a *list*: they are
    consulted afresh, all of them, for every request. -/
def predsAccept (M : Mode) (U : Univ) (targets : List Hint) (n : Hint) : Bool :=
  match targets with
  | [] => true
  | ts => ts.any fun t => t.canon M U == n

/-- `AnyEnumLSC` (`@for_predicate` of BaseEnumProvider): the origin of the norm is an `Enum` class -/
def enumUid (U : Univ) (n : Hint) : Option Nat :=
  match n with
  | .cls u => match U.kind u with | .enum _ => some u | _ => none
  | _ => none

/-- the request checker of the wrapped provider itself, and what it hands out: a ValueProvider serves requests of its
    own direction, the enum providers serve `Enum` classes (`LocStackBoundingProvider._process_request_checker`:
    `bound & own`) -/
def serve (U : Univ) (e : RecipeEntry) (i : Nat) (dir : Dir) (n : Hint) : Option Served :=
  match e.prov with
  | .user d fid => if d == dir then some (.user fid) else none
  | .enumByName => (enumUid U n).map (Served.enumName i)
  | .enumByExactValue => (enumUid U n).map (Served.enumExact i)

/-- providers are tried in recipe order; `i` is the position of the head of the list in the recipe -/
def matchFrom (M : Mode) (U : Univ) (dir : Dir) (n : Hint) : Nat → List RecipeEntry → Option Served
  | _, [] => none
  | i, e :: r =>
    if predsAccept M U e.targets n then
      match serve U e i dir n with
      | some s => some s
      | none => matchFrom M U dir n (i + 1) r
    else matchFrom M U dir n (i + 1) r

/-- first provider of the instance recipe whose predicates accept the request and that serves it -/
def userMatch (M : Mode) (U : Univ) (cfg : Cfg) (dir : Dir) (src : Hint) : Option Served :=
  matchFrom M U dir (src.canon M U) 0 cfg.recipe

def replaceTop (t : Hint) : List Loc → List Loc
  | [] => []
  | l :: σ => l.setType t.eqRep :: σ

def isAsIs (c : Clo) : Bool := c == .asIs

abbrev Res := Option Clo × RS

/-- continue with the response of a sub-request, or propagate `CannotProvide` -/
def bindRes (r : Res) (k : Clo → RS → Res) : Res :=
  match r.1 with
  | none => (none, r.2)
  | some c => k c r.2

/-- continue with the responses of all sub-requests, or fail if one of them failed -/
def bindAll (r : List (Option Clo) × RS) (k : List Clo → RS → Res) : Res :=
  match allSome r.1 with
  | none => (none, r.2)
  | some cs => k cs r.2

/-- The provider reached by a request, after recursion tracking and
    normalisation: instance recipe first, then the builtin provider of the
    hint's origin.  `src` is the spelling the normalisation cache answered
    with; `rec` sends a sub-request. -/
def routeSrc (M : Mode) (U : Univ) (cfg : Cfg) (dir : Dir) (rec : Step) (σ : List Loc) (src : Hint) (s : RS) : Res :=
  match userMatch M U cfg dir src with
  | some (.user fid) => (some (.user fid), s)
  | some (.enumName pid cid) =>
    cached M (match dir with | .load => .enumNameL pid cid | .dump => .enumNameD pid cid) s
  | some (.enumExact pid cid) =>
    cached M (match dir with | .load => .enumExactL (some pid) cid | .dump => .enumExactD (some pid) cid) s
  | none =>
  match src with
  | .cls u =>
    match U.kind u with
    | .enum _ =>                                                       -- EnumExactValueProvider of the class recipe
      cached M (match dir with | .load => .enumExactL none u | .dump => .enumExactD none u) s
    | .scalar sc =>
      match dir with
      | .load => if sc == .bytes then cached M .bytesL s else cached M (.scalarL sc cfg.strict) s
      | .dump => if sc == .bytes then cached M .bytesD s else (some .asIs, s)
    | .noneType => (some (match dir with | .load => .noneL | .dump => .asIs), s)
    | .unknown => (none, s)
    | .newtype sup => rec (replaceTop sup σ) sup s                    -- NewTypeUnwrappingProvider
    | .model fields =>
      let s1 := (cached M (.shape u) s).2                              -- ShapeProvider._get_shape
      let reqs := fields.map fun f => (Loc.field f.name f.required f.type.eqRep, f.type)
      bindAll (mapReq rec σ reqs s1) fun cs t =>
        let fs := (fields.map (·.name)).zip cs
        match dir with
        | .load => cached M (.modelL u cfg.strict fs) t
        | .dump => cached M (.modelD u fs) t
  | .lit args =>
    match dir with
    | .dump => (some .asIs, s)
    | .load =>
      -- _fetch_bytes_loader, then the cached literal loader
      bindRes (rec (Loc.th (Hint.cls U.bytesUid) :: σ) (.cls U.bytesUid) s) fun bl t =>
        cached M (.literalL (normLits args) cfg.strict bl) t
  | .seq fl e =>
    bindRes (rec (Loc.gp e.eqRep 0 :: σ) e s) fun c t =>
      match dir with
      | .load => cached M (.seqL (originOf fl) cfg.strict c) t
      | .dump => cached M (.seqD (originOf fl) c) t
  | .annotated b _ => rec (replaceTop b σ) b s                         -- TypeHintTagsUnwrappingProvider
  | .union ms =>
    let order := normUnion M U ms
    if order.length == 2 && order.contains U.noneUid then
      -- `_is_single_optional`
      match order.find? (fun m => m != U.noneUid) with
      | none => (none, s)
      | some m =>
        bindRes (rec (Loc.gp (.cls m) 0 :: σ) (.cls m) s) fun c t =>
          match dir with
          | .load => cached M (.optL src c) t
          | .dump => if isAsIs c then (some .asIs, t) else cached M (.optD c) t
    else
      let reqs := order.zipIdx.map fun (m, i) => (Loc.gp (Hint.cls m) i, Hint.cls m)
      bindAll (mapReq rec σ reqs s) fun cs t =>
        match dir with
        | .load => cached M (.unionL src cs) t
        | .dump => if cs.all isAsIs then (some .asIs, t) else cached M (.unionD order cs) t

/-- normalise through the process-wide cache, then dispatch on the (possibly earlier-seen) spelling -/
def route (M : Mode) (U : Univ) (cap : Nat) (cfg : Cfg) (dir : Dir) (rec : Step) : Step :=
  fun σ h s0 =>
  let ns := normSrc cap h s0.norm
  routeSrc M U cfg dir rec σ ns.1 { s0 with norm := ns.2 }

/-- `RecursiveRequestBus.send`: `track_request`, `_send_inner`, `track_response`.
    The current location is the head of `σ`. -/
def provide (M : Mode) (U : Univ) (cap : Nat) (cfg : Cfg) (dir : Dir) : Nat → Step
  | 0, _, _, s => (none, s)
  | fuel + 1, σ, h, s =>
    match σ with
    | [] => (none, s)
    | loc :: _ =>
      if (σ.filter (· == loc)).length != 1 then
        match s.loc.stubs.find? (fun e => e.1 == loc) with
        | some e => (some (.stub e.2), s)
        | none =>
          (some (.stub s.loc.next),
           { s with loc := { stubs := (loc, s.loc.next) :: s.loc.stubs, next := s.loc.next + 1 } })
      else
        let r := route M U cap cfg dir (provide M U cap cfg dir fuel) σ h s
        match r.1 with
        | none => (none, r.2)
        | some c =>
          match r.2.loc.stubs.find? (fun e => e.1 == loc) with
          | some e =>
            (some (.mu e.2 c),
             { r.2 with loc := { r.2.loc with stubs := r.2.loc.stubs.filter (fun e => !(e.1 == loc)) } })
          | none => (some c, r.2)

/-! ### Conversion (no `cached_call` site; only the facade cache) -/

def convPlan (U : Univ) : Nat → Hint → Hint → Option Clo
  | 0, _, _ => none
  | fuel + 1, s, d =>
    if s == d then some .convId else
    match s, d with
    | .annotated b _, _ => convPlan U fuel b d          -- TypeHintTagsUnwrappingProvider
    | _, .annotated b _ => convPlan U fuel s b
    | .cls a, .cls b =>
      match U.kind a, U.kind b with
      | .model fa, .model fb =>
        let subs := fb.map fun f =>
          match fa.find? (fun g => g.name == f.name) with
          | none => none
          | some g => (convPlan U fuel g.type f.type).map fun c => (0, f.name, c)
        (allSome subs).map fun l => .convModel b (CloList.ofList l)
      | _, _ => none
    | .seq _ e, .seq o' e' => (convPlan U fuel e e').map (.convSeq o')
    | _, _ => none

/-! ### Retorts, the process, facade operations -/

structure Retort where
  cfg : Cfg
  loaderCache : List (Hint × Clo)
  dumperCache : List (Hint × Clo)
  convCache : List ((Hint × Hint) × Clo)
  call : List (Key × Clo)
  deriving Repr, Inhabited

/-- `__init__` / `_calculate_derived`: every cache starts empty. -/
def Retort.fresh (cfg : Cfg) : Retort := ⟨cfg, [], [], [], []⟩

/-- the process: retorts created so far and the process-wide `normalize_type` cache -/
structure Sys where
  retorts : List Retort
  norm : List Hint
  deriving Repr, Inhabited

structure Params where
  mode : Mode
  cap : Nat       -- lru_cache maxsize
  fuel : Nat

/-- `AdornedRetort._make_loader` / `_make_dumper` → `_facade_provide`: a new
    mediator (new recursion resolver) over the retort's `_call_cache`. -/
def topProvide (P : Params) (U : Univ) (cfg : Cfg) (dir : Dir) (h : Hint)
    (call : List (Key × Clo)) (N : List Hint) : Option Clo × RS :=
  provide P.mode U P.cap cfg dir P.fuel [Loc.th h.eqRep] h { loc := ⟨[], 0⟩, call := call, norm := N }

def getMorph (P : Params) (U : Univ) (dir : Dir) (h : Hint) (r : Retort) (N : List Hint) :
    Option Clo × Retort × List Hint :=
  let cache := match dir with | .load => r.loaderCache | .dump => r.dumperCache
  match cache.find? (fun e => Hint.pyEq e.1 h) with
  | some e => (some e.2, r, N)
  | none =>
    let res := topProvide P U r.cfg dir h r.call N
    match res.1 with
    | none => (none, { r with call := res.2.call }, res.2.norm)
    | some c =>
      let r' : Retort := match dir with
        | .load => { r with call := res.2.call, loaderCache := r.loaderCache ++ [(h, c)] }
        | .dump => { r with call := res.2.call, dumperCache := r.dumperCache ++ [(h, c)] }
      (some c, r', res.2.norm)

def convProduce (P : Params) (U : Univ) (s d : Hint) : Option Clo :=
  convPlan U P.fuel (s.canon P.mode U) (d.canon P.mode U)

/-- `AdornedConversionRetort.get_converter(src, dst)`: key `(src, dst, None)`. -/
def getConv (P : Params) (U : Univ) (s d : Hint) (r : Retort) (N : List Hint) :
    Option Clo × Retort × List Hint :=
  match r.convCache.find? (fun e => Hint.pyEq e.1.1 s && Hint.pyEq e.1.2 d) with
  | some e => (some e.2, r, N)
  | none =>
    let N1 := (normSrc P.cap s N).2
    let N2 := (normSrc P.cap d N1).2
    match convProduce P U s d with
    | none => (none, r, N2)
    | some c => (some c, { r with convCache := r.convCache ++ [((s, d), c)] }, N2)

end Adaptix.Cache
