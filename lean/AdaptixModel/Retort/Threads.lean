/-
  Model of one shared retort used by several threads (C12).

  Source modelled (hand-written, tied by correspondence `harness/props/c12.py`
  through the deterministic thread scheduler `harness/scheduler.py`):

    morphing/facade/retort.py      AdornedRetort.get_loader / get_dumper / load / dump
                                   (`_loader_cache` / `_dumper_cache`: plain dicts, check-then-insert)
    retort/searching_retort.py     `_provide_from_recipe` / `_create_mediator`: mediator, request buses and
                                   recursion resolver are created per top-level request; `_call_cache` is shared
    retort/builtin_mediator.py     BuiltinMediator.cached_call: `key in cache` / `cache[key]` / `func(..)` /
                                   `cache[key] = result`  (four separate statements)
    retort/request_bus.py          RecursiveRequestBus.send: track_request / _send_inner / track_response
    retort/operating_retort.py     LocatedRequestCallableRecursionResolver (`_loc_to_stub`), FuncWrapper
                                   (late-bound stub; `set_func` is one attribute store; `__eq__`/`__hash__`)
    code_tools/compiler.py         ConcurrentCounter.generate_idx: a lock around a straight-line read+increment
    morphing/model/loader_provider.py, dumper_provider.py, provider/shape_provider.py,
    morphing/generic_provider.py (UnionProvider), iterable_provider.py, concrete_provider.py (ScalarProvider):
                                   the `cached_call` sites, whose keys contain the sub-loaders (closures or stubs)

  A *labelled transition system*.  Shared state: closure heap (object identities), stub objects, call cache,
  loader cache.  Per request (= per thread, a thread performs one `load`): operand stack of the loaders produced so
  far, the resolver's `loc -> stub` map.  `step s t` lets thread `t` perform its next **GIL-atomic** action: one
  dict lookup, one dict store, one attribute store (thread-local work is merged into the preceding shared action,
  which is sound because it commutes with everything other threads do).  A schedule is a `List Tid`.

  What a request does is a straight-line *request program* (`Instr`), produced by `compile` from a type graph
  following RecursiveRequestBus.send and the providers statement by statement.

  A request may also FAIL: for a type no shape provider recognises (root node of kind `fail`) every `cached_call`
  of the program raises CannotProvide, nothing is stored, and `SearchingRetort._facade_provide` raises
  ProviderNotFoundError (`Sys.fails`, `stepRaise`, `Res.notFound`): the thread is finished without a loader and
  without having touched anything shared.  (A request that fails half-way, below a model, is not modelled.)

  `Mode.byLoc` is the unrepaired FuncWrapper (stubs equal when their locations are equal), `Mode.byId` the
  repaired one (`fixes/C12-stub-identity.patch`: default identity comparison).

  The only lock (`ConcurrentCounter._lock`) guards `idx = d[name]; d[name] += 1`, touches nothing else and is
  never held across a call that can block, so the critical section is one atomic action; it is part of the
  creation of a closure (`Kind.fresh`), which allocates a fresh heap index.
-/
namespace Adaptix.Threads

abbrev Tid := Nat
abbrev TyId := Nat
abbrev Loc := Nat
abbrev Site := Nat

/-- A Python object reference that can be a (sub-)loader: an already existing function (`prim`, e.g.
    `int_strict_coercion_loader`), a closure created by a provider (`clo`, index into the heap = identity) or a
    recursion stub (`stub`, index into the stub table = identity). -/
inductive Ref where
  | prim (p : Nat)
  | clo (i : Nat)
  | stub (x : Nat)
  deriving DecidableEq, Repr, Inhabited

/-- What the function handed to `cached_call` does. -/
inductive Kind where
  | fresh (nullable : Bool)  -- builds a new closure; `nullable`: Optional / list loaders stop on None / []
  | prim (p : Nat)           -- returns an existing object (ScalarProvider._make_loader)
  | aux                      -- builds a helper object (ShapeProvider._get_shape) that is not passed on as a loader
  | fail                     -- raises CannotProvide (the shape providers of the other model kinds): nothing is stored
  deriving DecidableEq, Repr, Inhabited

inductive Instr where
  /-- `mediator.cached_call(func, const, *args)` with the last `nargs` produced loaders as arguments -/
  | cached (site : Site) (const : Nat) (nargs : Nat) (kind : Kind)
  /-- `track_request` when the location re-occurs on the stack: reuse the request's stub or create one -/
  | stubGet (loc : Loc)
  /-- `track_response` of the outer occurrence: `_loc_to_stub.pop(loc).set_func(response)` -/
  | stubBind (loc : Loc)
  deriving DecidableEq, Repr, Inhabited

/-- `(func, *args, *kwargs.items())`; `aux` separates the bound methods of different providers. -/
structure Key where
  site : Site
  const : Nat
  aux : Bool
  args : List Ref
  deriving DecidableEq, Repr

structure CloData where
  site : Site
  const : Nat
  nullable : Bool
  aux : Bool
  args : List Ref
  /-- ghost: the request (thread) that created the closure -/
  creq : Tid
  /-- ghost: a stub is reachable through closure arguments (without following stub targets) -/
  tainted : Bool
  deriving DecidableEq, Repr

structure StubData where
  loc : Loc
  /-- ghost: the request (thread) whose resolver created the stub -/
  owner : Tid
  /-- `FuncWrapper.__call__` -/
  target : Option Ref
  deriving DecidableEq, Repr

/-- `FuncWrapper.__eq__/__hash__`: by location (unrepaired tree) or by identity (repaired). -/
inductive Mode where
  | byLoc
  | byId
  deriving DecidableEq, Repr

def refEq (m : Mode) (stubs : List StubData) : Ref → Ref → Bool
  | .prim p, .prim q => p == q
  | .clo i, .clo j => i == j
  | .stub x, .stub y =>
    match m with
    | .byId => x == y
    | .byLoc => (stubs[x]?.map (·.loc)) == (stubs[y]?.map (·.loc))
  | _, _ => false

def argsEq (m : Mode) (stubs : List StubData) : List Ref → List Ref → Bool
  | [], [] => true
  | a :: as, b :: bs => refEq m stubs a b && argsEq m stubs as bs
  | _, _ => false

/-- Python equality of two cache keys (tuples). -/
def keyEq (m : Mode) (stubs : List StubData) (k k' : Key) : Bool :=
  k.site == k'.site && k.const == k'.const && k.aux == k'.aux && argsEq m stubs k.args k'.args

/-- `cache[key]` on a dict: the entry whose key is equal. -/
def ccLookup (m : Mode) (stubs : List StubData) (cc : List (Key × Ref)) (k : Key) : Option Ref :=
  (cc.find? (fun e => keyEq m stubs e.1 k)).map (·.2)

/-- `cache[key] = v` on a dict: an equal key keeps the *old* key object and gets the new value. -/
def ccPut (m : Mode) (stubs : List StubData) : List (Key × Ref) → Key → Ref → List (Key × Ref)
  | [], k, v => [(k, v)]
  | e :: es, k, v => if keyEq m stubs e.1 k then (e.1, v) :: es else e :: ccPut m stubs es k v

def lcLookup (lc : List (TyId × Ref)) (ty : TyId) : Option Ref :=
  (lc.find? (fun e => e.1 == ty)).map (·.2)

def lcPut : List (TyId × Ref) → TyId → Ref → List (TyId × Ref)
  | [], ty, v => [(ty, v)]
  | e :: es, ty, v => if e.1 == ty then (e.1, v) :: es else e :: lcPut es ty v

/-- micro-state inside `cached_call` -/
inductive Sub where
  | look                -- about to run `if key in self._call_cache`
  | get                 -- about to run `return self._call_cache[key]`
  | store (r : Ref)     -- `result = func(..)` done, about to run `self._call_cache[key] = result`
  deriving DecidableEq, Repr

inductive Phase where
  | idle                      -- about to run `return self._loader_cache[tp]`
  | run (pc : Nat) (sub : Sub)
  | put                       -- about to run `self._loader_cache[tp] = loader_`
  | call (r : Ref)            -- about to call the loader
  | done
  deriving DecidableEq, Repr

/-- outcome of calling a loader on canonical data of the requested depth -/
inductive Res where
  | ok (out : List Nat)
  | unbound        -- `FuncWrapper.__call__` is still None: "'NoneType' object is not callable"
  | stubChain      -- a stub bound to a stub (does not occur for compiled requests)
  | outOfFuel
  | dangling       -- reference to a non-existing object (does not occur)
  | notFound       -- the request itself failed: `_facade_provide` raised ProviderNotFoundError (no loader, no call)
  deriving DecidableEq, Repr

structure Thread where
  ty : TyId
  depth : Nat
  phase : Phase
  stack : List Ref              -- head = most recently produced loader
  locToStub : List (Loc × Nat)  -- LocatedRequestCallableRecursionResolver._loc_to_stub of this request
  result : Option Res
  deriving DecidableEq, Repr

inductive Label where
  | lcGet (t : Tid) (ty : TyId) (hit : Option Ref)
  | ccContains (t : Tid) (site : Site) (args : List Ref) (hit : Bool)
  | ccGet (t : Tid) (site : Site) (v : Ref)
  | ccStore (t : Tid) (site : Site) (v : Ref)
  | stubNew (t : Tid) (loc : Loc) (x : Nat)
  | stubReuse (t : Tid) (loc : Loc) (x : Nat)
  | stubBind (t : Tid) (loc : Loc) (x : Nat) (r : Ref)
  | lcPut (t : Tid) (ty : TyId) (r : Ref)
  | call (t : Tid) (ty : TyId) (depth : Nat) (res : Res)
  | notFound (t : Tid) (ty : TyId)
  | noop (t : Tid)
  deriving DecidableEq, Repr

/-- static configuration of a run -/
structure Sys where
  mode : Mode
  /-- the request program of `get_loader(ty)` (a miss of the loader cache) -/
  body : TyId → List Instr
  /-- the request for `ty` cannot be satisfied: when its program has run (every `cached_call` of it raised
      CannotProvide) `_facade_provide` raises ProviderNotFoundError instead of returning a loader -/
  fails : TyId → Bool
  /-- recursion fuel of `eval` -/
  fuel : Nat

structure State where
  heap : List CloData
  stubs : List StubData
  callCache : List (Key × Ref)
  loaderCache : List (TyId × Ref)
  threads : List Thread
  /-- ghost: actions performed, newest first -/
  trace : List Label

def mkThread (ty : TyId) (depth : Nat) : Thread :=
  { ty := ty, depth := depth, phase := .idle, stack := [], locToStub := [], result := none }

def init (reqs : List (TyId × Nat)) : State :=
  { heap := [], stubs := [], callCache := [], loaderCache := [],
    threads := reqs.map (fun r => mkThread r.1 r.2), trace := [] }

/-! ### calling a loader -/

/-- results of the sub-loaders in order: the first failure wins, otherwise the outputs are concatenated -/
def seqRes (tag : Nat) : List Res → List Nat → Res
  | [], acc => .ok (tag :: acc ++ [0])
  | .ok o :: rest, acc => seqRes tag rest (acc ++ o)
  | r :: _, _ => r

def evalNode (heap : List CloData) (rec : Nat → Ref → Res) (d : Nat) (j : Nat) : Res :=
  match heap[j]? with
  | none => .dangling
  | some cd =>
    if cd.nullable && d == 0 then .ok [cd.const + 1]
    else seqRes (cd.const + 1) (cd.args.map (rec (if cd.nullable then d - 1 else d))) []

/-- Calling `r` on the canonical datum of nesting depth `d` (an `Optional` is `None` and a list is empty at
    depth 0, otherwise they hold data of depth `d - 1`).  Atomic in the model; see `Props/C12.lean` for why this
    loses nothing (stub targets only ever change from unbound to bound). -/
def eval (heap : List CloData) (stubs : List StubData) : Nat → Nat → Ref → Res
  | 0, _, _ => .outOfFuel
  | _ + 1, _, .prim p => .ok [p + 1]
  | n + 1, d, .clo j => evalNode heap (eval heap stubs n) d j
  | n + 1, d, .stub x =>
    match stubs[x]? with
    | none => .dangling
    | some sd =>
      match sd.target with
      | none => .unbound
      | some (.stub _) => .stubChain
      | some (.prim p) => .ok [p + 1]
      | some (.clo j) => evalNode heap (eval heap stubs n) d j

/-! ### one atomic action of one thread -/

def nextPhase (len pc : Nat) : Phase := if pc < len then .run pc .look else .put

def setThread (s : State) (t : Tid) (th : Thread) : State := { s with threads := s.threads.set t th }

def emit (s : State) (l : Label) : State := { s with trace := l :: s.trace }

def isTainted (heap : List CloData) : Ref → Bool
  | .prim _ => false
  | .stub _ => true
  | .clo j => match heap[j]? with
    | some cd => cd.tainted
    | none => false

def lookupLoc (m : List (Loc × Nat)) (loc : Loc) : Option Nat :=
  (m.find? (fun e => e.1 == loc)).map (·.2)

def eraseLoc (m : List (Loc × Nat)) (loc : Loc) : List (Loc × Nat) := m.filter (fun e => e.1 != loc)

/-- `get_loader`: `try: return self._loader_cache[tp]  except KeyError: pass` and, on a miss, the start of
    `_make_loader` (a fresh mediator and recursion resolver: thread-local). -/
def stepIdle (sys : Sys) (s : State) (t : Tid) (th : Thread) : State :=
  match lcLookup s.loaderCache th.ty with
  | some r => emit (setThread s t { th with phase := .call r }) (.lcGet t th.ty (some r))
  | none =>
    emit (setThread s t { th with phase := nextPhase (sys.body th.ty).length 0, stack := [], locToStub := [] })
      (.lcGet t th.ty none)

def Kind.isAux : Kind → Bool
  | .aux => true
  | .fail => true
  | _ => false

/-- `result = func(*args, **kwargs)`: the object the cached function returns (none: it raises CannotProvide).
    A new closure gets a fresh identity (the heap index); model loaders/dumpers additionally take their unique
    file-name index from `ConcurrentCounter` under its lock, which is the same kind of atomic fresh-id step. -/
def created (s : State) (t : Tid) (site : Site) (const : Nat) (args : List Ref) : Kind → Option (State × Ref)
  | .fail => none
  | .prim p => some (s, .prim p)
  | .aux =>
    some ({ s with heap := s.heap ++ [{ site := site, const := const, nullable := false, aux := true, args := args,
                                        creq := t, tainted := args.any (isTainted s.heap) }] }, .clo s.heap.length)
  | .fresh nullable =>
    some ({ s with heap := s.heap ++ [{ site := site, const := const, nullable := nullable, aux := false,
                                        args := args, creq := t, tainted := args.any (isTainted s.heap) }] },
          .clo s.heap.length)

def stepInstr (sys : Sys) (s : State) (t : Tid) (th : Thread) (pc : Nat) (sub : Sub) (ins : Instr) : State :=
  let len := (sys.body th.ty).length
  match ins with
  | .stubGet loc =>
    -- LocatedRequestCallableRecursionResolver.track_request (count != 1 was decided by `compile`)
    match lookupLoc th.locToStub loc with
    | some x =>
      emit (setThread s t { th with phase := nextPhase len (pc + 1), stack := .stub x :: th.stack })
        (.stubReuse t loc x)
    | none =>
      let x := s.stubs.length
      let s' := { s with stubs := s.stubs ++ [{ loc := loc, owner := t, target := none }] }
      emit (setThread s' t { th with phase := nextPhase len (pc + 1), stack := .stub x :: th.stack,
                                      locToStub := (loc, x) :: th.locToStub })
        (.stubNew t loc x)
  | .stubBind loc =>
    -- track_response: `if last_loc in self._loc_to_stub: self._loc_to_stub.pop(last_loc).set_func(response)`
    -- (`response` is the loader just produced; the default only totalises the function)
    match lookupLoc th.locToStub loc with
    | some x =>
      let r := th.stack.headD (.prim 0)
      let s' := { s with stubs := s.stubs.modify x (fun sd => { sd with target := some r }) }
      emit (setThread s' t { th with phase := nextPhase len (pc + 1), locToStub := eraseLoc th.locToStub loc })
        (.stubBind t loc x r)
    | none => emit (setThread s t { th with phase := nextPhase len (pc + 1) }) (.noop t)
  | .cached site const nargs kind =>
    let args := (th.stack.take nargs).reverse
    let rest := th.stack.drop nargs
    let isAux := kind.isAux
    let key : Key := { site := site, const := const, aux := isAux, args := args }
    let push (r : Ref) : List Ref := if isAux then rest else r :: rest
    -- `result = func(*args, **kwargs)` (thread-local, merged into the lookup that missed)
    let miss : State :=
      match created s t site const args kind with
      | none =>
        emit (setThread s t { th with phase := nextPhase len (pc + 1), stack := rest })
          (.ccContains t site args false)
      | some (s', r) =>
        emit (setThread s' t { th with phase := .run pc (.store r) }) (.ccContains t site args false)
    match sub with
    | .look =>
      -- `if key in self._call_cache:`
      match ccLookup sys.mode s.stubs s.callCache key with
      | some _ =>
        emit (setThread s t { th with phase := .run pc .get }) (.ccContains t site args true)
      | none => miss
    | .get =>
      -- `return self._call_cache[key]` (entries are never removed, so the second lookup succeeds; the fallback
      -- only totalises the function)
      match ccLookup sys.mode s.stubs s.callCache key with
      | some v =>
        emit (setThread s t { th with phase := nextPhase len (pc + 1), stack := push v }) (.ccGet t site v)
      | none => miss
    | .store r =>
      -- `self._call_cache[key] = result`
      let s' := { s with callCache := ccPut sys.mode s.stubs s.callCache key r }
      emit (setThread s' t { th with phase := nextPhase len (pc + 1), stack := push r }) (.ccStore t site r)

/-- `self._loader_cache[tp] = loader_` -/
def stepPut (s : State) (t : Tid) (th : Thread) : State :=
  let r := th.stack.headD (.prim 0)
  emit (setThread { s with loaderCache := lcPut s.loaderCache th.ty r } t { th with phase := .call r })
    (.lcPut t th.ty r)

/-- A request nobody can satisfy: `BasicRequestBus._send_inner` has run out of handlers, the `CannotProvide`
    reaches `SearchingRetort._facade_provide`, which raises `ProviderNotFoundError`.  Thread-local: NOTHING shared
    is touched - in particular the call cache and the loader cache keep every entry (other threads may sit between
    `key in self._call_cache` and `self._call_cache[key]`).  The thread is finished; there is no loader to call. -/
def stepRaise (s : State) (t : Tid) (th : Thread) : State :=
  emit (setThread s t { th with phase := .done, result := some .notFound }) (.notFound t th.ty)

/-- `loader(data)` -/
def stepCall (sys : Sys) (s : State) (t : Tid) (th : Thread) (r : Ref) : State :=
  let res := eval s.heap s.stubs sys.fuel th.depth r
  emit (setThread s t { th with phase := .done, result := some res }) (.call t th.ty th.depth res)

def step (sys : Sys) (s : State) (t : Tid) : State :=
  match s.threads[t]? with
  | none => s
  | some th =>
    match th.phase with
    | .idle => stepIdle sys s t th
    | .run pc sub =>
      match (sys.body th.ty)[pc]? with
      | some ins => stepInstr sys s t th pc sub ins
      | none => emit (setThread s t { th with phase := .put }) (.noop t)
    | .put => if sys.fails th.ty then stepRaise s t th else stepPut s t th
    | .call r => stepCall sys s t th r
    | .done => s

def run (sys : Sys) (s : State) : List Tid → State
  | [] => s
  | t :: σ => run sys (step sys s t) σ

/-- The specification side: the threads one after another, each to completion
    (`bound` actions are enough for a thread, see `Props/C12.lean`). -/
def sequentialSchedule (nThreads bound : Nat) : List Tid :=
  (List.range nThreads).flatMap (fun t => List.replicate bound t)

def results (s : State) : List (Option Res) := s.threads.map (·.result)

def allDone (s : State) : Bool := s.threads.all (fun th => th.phase == .done)

/-! ### type graphs and the request program of a type (`compile`) -/

structure Node where
  /-- the `cached_call` site that builds the loader of this type and what it returns -/
  site : Site
  kind : Kind
  /-- `cached_call`s made before the sub-requests (shape providers): site, constant part of the key, kind -/
  pre : List (Site × Nat × Kind)
  /-- locations of the sub-requests in order (fields of a model, the argument of Optional / list) -/
  children : List Loc
  deriving Repr, Inhabited

structure Graph where
  node : TyId → Node
  locTy : Loc → TyId
  topLoc : TyId → Loc

def preInstrs (nd : Node) : List Instr := nd.pre.map (fun p => .cached p.1 p.2.1 0 p.2.2)

/-- `RecursiveRequestBus.send` for the request located at `loc` below the locations `stack`; `opened` are the
    locations that currently have a stub in the resolver.  Returns the code and the new `opened`. -/
def provide (G : Graph) : Nat → List Loc → Loc → List Loc → List Instr × List Loc
  | 0, _, _, opened => ([], opened)
  | f + 1, stack, loc, opened =>
    let stack' := loc :: stack
    if stack'.count loc != 1 then
      -- track_request returns a stub
      ([.stubGet loc], if opened.contains loc then opened else loc :: opened)
    else
      let ty := G.locTy loc
      let nd := G.node ty
      let sub := nd.children.foldl
        (fun (acc : List Instr × List Loc) c =>
          let r := provide G f stack' c acc.2
          (acc.1 ++ r.1, r.2))
        (([] : List Instr), opened)
      let code := preInstrs nd ++ sub.1 ++ [.cached nd.site ty nd.children.length nd.kind]
      -- track_response
      if sub.2.contains loc then (code ++ [.stubBind loc], sub.2.filter (fun e => e != loc)) else (code, sub.2)

def compile (G : Graph) (fuel : Nat) (ty : TyId) : List Instr := (provide G fuel [] (G.topLoc ty) []).1

/-- Specification of a loader's result, read off the type graph alone: the unfolding of the type along the
    canonical datum of depth `d`. -/
def unfold (G : Graph) : Nat → Nat → TyId → Res
  | 0, _, _ => .outOfFuel
  | n + 1, d, ty =>
    let nd := G.node ty
    match nd.kind with
    | .prim p => .ok [p + 1]
    | .fresh nullable =>
      if nullable && d == 0 then .ok [ty + 1]
      else seqRes (ty + 1) (nd.children.map (fun c => unfold G n (if nullable then d - 1 else d) (G.locTy c))) []
    | _ => .dangling

/-- the request for `ty` fails as a whole: no shape provider recognises the type (`Kind.fail` at the root) -/
def failsTy (G : Graph) (ty : TyId) : Bool := (G.node ty).kind == .fail

/-- Specification of a whole request `retort.load(data, ty)`: ProviderNotFoundError for a type nobody can load,
    otherwise the unfolding. -/
def specRes (G : Graph) (n d : Nat) (ty : TyId) : Res :=
  if failsTy G ty then .notFound else unfold G n d ty

/-! ### static check of a request program (schedule independent)

  Abstract interpretation of the operand stack: every `cached_call` receives sub-loaders of the argument types of
  its own type, a stub is bound to a loader (not a stub) of the type of its location, and the request ends with
  exactly the loader of the requested type.  `compile` output passes the check for every well-formed graph with
  enough fuel; the driver evaluates it for every graph the correspondence explores. -/

/-- type of the loader in a stack slot, and whether the slot holds a stub -/
abbrev Abs := TyId × Bool

def absStep (G : Graph) (st : List Abs) : Instr → Option (List Abs)
  | .stubGet l => some ((G.locTy l, true) :: st)
  | .stubBind l =>
    match st with
    | (ty, false) :: _ => if ty = G.locTy l then some st else none
    | _ => none
  | .cached _ c n kind =>
    match kind with
    | .aux => if n = 0 then some st else none
    | .fail => if n = 0 then some st else none
    | .prim p => if n = 0 ∧ (G.node c).kind = .prim p then some ((c, false) :: st) else none
    | .fresh nl =>
      if (G.node c).kind = .fresh nl ∧ (st.take n).reverse.map (·.1) = (G.node c).children.map G.locTy ∧
          n ≤ st.length
      then some ((c, false) :: st.drop n) else none

def absRun (G : Graph) : List Instr → List Abs → Option (List Abs)
  | [], st => some st
  | i :: is, st =>
    match absStep G st i with
    | some st' => absRun G is st'
    | none => none

def typed (G : Graph) (code : List Instr) (ty : TyId) : Bool :=
  absRun G code [] == some (if failsTy G ty then [] else [(ty, false)])

end Adaptix.Threads
