/-
  Model of adaptix request routing (C09).

  Source modelled (hand-written, tied by correspondence `harness/props/c09.py`):
    src/adaptix/_internal/retort/routers.py       ExactOriginCombiner, LocatedRequestRouter
    src/adaptix/_internal/retort/request_bus.py   BasicRequestBus._send_inner
    src/adaptix/_internal/provider/provider_wrapper.py  ChainingProvider
    src/adaptix/_internal/retort/base_retort.py   full recipe assembly, extend()

  Origins, non-exact checkers and user functions are natural-number ids.
  A request is its origin plus the truth table of every non-exact checker on it
  (checkers are pure during one request).
-/
namespace Adaptix.Router

/-- `LocatedRequestChecker(ExactOriginLSC o)` or any other request checker. -/
inductive Checker where
  | exact (o : Nat)
  | other (id : Nat)
  deriving Repr, DecidableEq, Inhabited

structure Req where
  origin : Nat
  sat : Nat → Bool

def Checker.check (r : Req) : Checker → Bool
  | .exact o => r.origin == o
  | .other i => r.sat i

/-- A routing item of `LocatedRequestRouter`: a (checker, handler) tuple or an
    origin → handler dict (insertion-ordered association list). -/
inductive Item (H : Type) where
  | single (c : Checker) (h : H)
  | table (m : List (Nat × H))
  deriving Repr

def lookup {H : Type} (o : Nat) : List (Nat × H) → Option H
  | [] => none
  | (k, h) :: rest => if k == o then some h else lookup o rest

def hasKey {H : Type} (o : Nat) (m : List (Nat × H)) : Bool := m.any (fun p => p.1 == o)

/-- `ExactOriginCombiner._stop_combo`; returns emitted items. The combo is
    always reset by the caller (this is the behaviour of the repaired code:
    `self._combo = {}` after either branch). -/
def stopCombo {H : Type} (combo : List (Nat × H)) (extra : Option (Checker × H)) : List (Item H) :=
  let first : List (Item H) :=
    match combo with
    | [] => []
    | [(o, h)] => [Item.single (.exact o) h]
    | m => [Item.table m]
  match extra with
  | none => first
  | some (c, h) => first ++ [Item.single c h]

/-- `ExactOriginCombiner.register_item`: (emitted items, new combo). -/
def register {H : Type} (combo : List (Nat × H)) (c : Checker) (h : H) : List (Item H) × List (Nat × H) :=
  match c with
  | .exact o =>
    if hasKey o combo then (stopCombo combo (some (c, h)), [])
    else ([], combo ++ [(o, h)])
  | .other _ => (stopCombo combo (some (c, h)), [])

/-- `create_router_for_located_request` as a fold carrying the combo. -/
def combineGo {H : Type} : List (Nat × H) → List (Checker × H) → List (Item H)
  | combo, [] => stopCombo combo none
  | combo, (c, h) :: rest =>
    let (out, combo') := register combo c h
    out ++ combineGo combo' rest

def combine {H : Type} (cs : List (Checker × H)) : List (Item H) := combineGo [] cs

/-- does one item answer the request, and with which handler -/
def Item.answer {H : Type} (r : Req) : Item H → Option H
  | .single c h => if c.check r then some h else none
  | .table m => lookup r.origin m

/-- `LocatedRequestRouter.route_handler`: first item at index ≥ `off` that
    answers; returns the handler and the next search offset. -/
def routeAux {H : Type} (r : Req) : List (Item H) → Nat → Option (H × Nat)
  | [], _ => none
  | it :: rest, i =>
    match it.answer r with
    | some h => some (h, i + 1)
    | none => routeAux r rest (i + 1)

def route {H : Type} (items : List (Item H)) (r : Req) (off : Nat) : Option (H × Nat) :=
  routeAux r (items.drop off) off

/-- `SimpleRouter.route_handler` over the plain (checker, handler) list: the
    specification of first-match-in-recipe-order. -/
def linearAux {H : Type} (r : Req) : List (Checker × H) → Nat → Option (H × Nat)
  | [], _ => none
  | (c, h) :: rest, i => if c.check r then some (h, i + 1) else linearAux r rest (i + 1)

/-- all handlers whose checker accepts, in recipe order -/
def matching {H : Type} (r : Req) (cs : List (Checker × H)) : List H :=
  (cs.filter (fun p => p.1.check r)).map (·.2)

/-- The sequence of handlers the bus visits when every visited handler
    declines (or delegates with `provide_from_next`): route, take the returned
    offset, route again. `fuel` bounds the walk; `items.length + 1` suffices. -/
def visit {H : Type} (items : List (Item H)) (r : Req) : Nat → Nat → List H
  | 0, _ => []
  | fuel + 1, off =>
    match route items r off with
    | none => []
    | some (h, off') => h :: visit items r fuel off'

/-! ### Handlers, the bus and chaining -/

/-- What a provider's handler does with a request that reached it.
    A response (a loader/dumper) is represented by the word of user-function
    ids it applies, first applied first. -/
inductive Handler where
  | respond (word : List Nat)        -- plain provider: returns its own processor
  | decline                          -- raises CannotProvide
  | declineTerminal                  -- raises CannotProvide(is_terminal=True)
  | chainFirst (f : Nat)             -- ChainingProvider(Chain.FIRST, loader(_, f))
  | chainLast (f : Nat)              -- ChainingProvider(Chain.LAST, loader(_, f))
  deriving Repr, DecidableEq, Inhabited

inductive Result where
  | ok (word : List Nat)
  | notFound                         -- CannotProvide (→ ProviderNotFoundError at the facade)
  | terminal                         -- terminal CannotProvide
  deriving Repr, DecidableEq, Inhabited

/-- `BasicRequestBus._send_inner` with `ChainingProvider._wrap_handler` inlined.
    Fuel-indexed: each step strictly increases the offset. -/
def send (items : List (Item Handler)) (r : Req) : Nat → Nat → Result
  | 0, _ => .notFound
  | fuel + 1, off =>
    match route items r off with
    | none => .notFound
    | some (h, off') =>
      match h with
      | .respond w => .ok w
      | .decline => send items r fuel off'
      | .declineTerminal => .terminal
      | .chainFirst f =>
        -- current = f ; next = provide_from_next() = send_chaining(request, off')
        match send items r fuel off' with
        | .ok w => .ok (f :: w)
        | .terminal => .terminal
        | .notFound => send items r fuel off'   -- the chaining handler itself raised CannotProvide: continue
      | .chainLast f =>
        match send items r fuel off' with
        | .ok w => .ok (w ++ [f])
        | .terminal => .terminal
        | .notFound => send items r fuel off'

/-! ### the bus instrumented with its consultation log -/

/-- `BasicRequestBus._send_inner` + `ChainingProvider._wrap_handler` as in `send`, returning in addition the
    handlers invoked, in invocation order. -/
def sendLog {H : Type} (act : H → Handler) (items : List (Item H)) (r : Req) : Nat → Nat → Result × List H
  | 0, _ => (.notFound, [])
  | fuel + 1, off =>
    match route items r off with
    | none => (.notFound, [])
    | some (h, off') =>
      match act h with
      | .respond w => (.ok w, [h])
      | .decline => ((sendLog act items r fuel off').1, h :: (sendLog act items r fuel off').2)
      | .declineTerminal => (.terminal, [h])
      | .chainFirst f =>
        -- next = provide_from_next() = send_chaining(request, off')
        match (sendLog act items r fuel off').1 with
        | .ok w => (.ok (f :: w), h :: (sendLog act items r fuel off').2)
        | .terminal => (.terminal, h :: (sendLog act items r fuel off').2)
        | .notFound =>
          -- the chaining handler itself raised CannotProvide: the bus continues after it (a second walk)
          ((sendLog act items r fuel off').1,
            h :: (sendLog act items r fuel off').2 ++ (sendLog act items r fuel off').2)
      | .chainLast f =>
        match (sendLog act items r fuel off').1 with
        | .ok w => (.ok (w ++ [f]), h :: (sendLog act items r fuel off').2)
        | .terminal => (.terminal, h :: (sendLog act items r fuel off').2)
        | .notFound =>
          ((sendLog act items r fuel off').1,
            h :: (sendLog act items r fuel off').2 ++ (sendLog act items r fuel off').2)

/-- the recipe with every handler labelled by its position -/
def labelled (cs : List (Checker × Handler)) : List (Checker × (Handler × Nat)) :=
  cs.zipIdx.map fun p => (p.1.1, (p.1.2, p.2))

/-- Specification: the documented meaning, by recursion over the handlers
    that match, in recipe order. -/
def specSend : List Handler → Result
  | [] => .notFound
  | .respond w :: _ => .ok w
  | .decline :: rest => specSend rest
  | .declineTerminal :: _ => .terminal
  | .chainFirst f :: rest =>
    match specSend rest with
    | .ok w => .ok (f :: w)
    | r => r
  | .chainLast f :: rest =>
    match specSend rest with
    | .ok w => .ok (w ++ [f])
    | r => r

/-- A retort placed in a recipe (`SearchingRetort.get_request_handlers`): one provider with an always-true
    checker whose handler is `self._provide_from_recipe(request)` - it answers with whatever the retort's OWN
    recipe produces for the request; a `CannotProvide` of the inner search leaves the handler as it is (the
    outer bus continues on a non-terminal one, stops on a terminal one).  `inner` is the outcome of the inner
    retort's own bus for the request at hand. -/
def nestedHandler : Result → Handler
  | .ok w => .respond w
  | .notFound => .decline
  | .terminal => .declineTerminal

/-! ### Recipe assembly (`BaseRetort._calculate_derived`, `AdornedRetort.extend`) -/

structure RetortRecipe (P : Type) where
  head : List P
  inst : List P
  cls : List P          -- own class recipes along the MRO, already concatenated
  tail : List P

def RetortRecipe.full {P : Type} (r : RetortRecipe P) : List P :=
  r.head ++ r.inst ++ r.cls ++ r.tail

/-- `extend(recipe=new)` : `_instance_recipe = (*new, *old)` -/
def RetortRecipe.extend {P : Type} (r : RetortRecipe P) (new : List P) : RetortRecipe P :=
  { r with inst := new ++ r.inst }

/-! ### Retorts as recipe trees (a retort placed in the recipe of another retort, `extend`, `replace`) -/

/-- One entry of a full recipe.
    * `plain`   : a provider with its checker and handler;
    * `builtin` : a provider of the class recipe whose answer depends on the scalar option of the retort that OWNS the
                  recipe (the `int` loader reads `strict_coercion` through the mediator of that retort): it responds
                  with the word `[optWord opt]`;
    * `nested`  : a retort placed in the recipe (`SearchingRetort.get_request_handlers`; `c` is the always-true checker,
                  or the predicate of `bound(pred, retort)`), carrying its OWN option and its OWN full recipe. -/
inductive Prov where
  | plain (c : Checker) (h : Handler)
  | builtin (c : Checker)
  | nested (c : Checker) (opt : Nat) (recipe : List Prov)

def optWord (opt : Nat) : Nat := 1000 + opt

/-- one request through the whole bus of a retort whose full recipe is `cs` -/
def sendAll (r : Req) (cs : List (Checker × Handler)) : Result :=
  send (combine cs) r ((combine cs).length + 1) 0

/-- The (checker, handler) list the router of a retort with option `opt` is built from, for the request at hand.
    The handler of a nested retort is `retort_request_handler = self._provide_from_recipe(request)`: the outcome of the
    nested retort's own bus over its own recipe with its own option (`nestedHandler`).  Fuel = nesting depth. -/
def flat (r : Req) : Nat → Nat → List Prov → List (Checker × Handler)
  | 0, _, _ => []
  | d + 1, opt, ps => ps.map fun p =>
    match p with
    | .plain c h => (c, h)
    | .builtin c => (c, .respond [optWord opt])
    | .nested c o inner => (c, nestedHandler (sendAll r (flat r d o inner)))

/-- a request served by a retort with option `opt` and full recipe `ps` -/
def serveTree (r : Req) (d opt : Nat) (ps : List Prov) : Result := sendAll r (flat r d opt ps)

/-- A retort as a value: scalar option, instance recipe, class recipe (`_full_recipe = inst ++ cls`). -/
structure RetortV where
  opt : Nat
  inst : List Prov
  cls : List Prov

def RetortV.full (v : RetortV) : List Prov := v.inst ++ v.cls

/-- `AdornedRetort.extend(recipe=new)`: `_instance_recipe = (*new, *old)`, everything else kept -/
def RetortV.extend (v : RetortV) (new : List Prov) : RetortV := { v with inst := new ++ v.inst }

/-- `AdornedRetort.replace(strict_coercion=o)`: only the scalar option changes -/
def RetortV.replace (v : RetortV) (o : Nat) : RetortV := { v with opt := o }

/-- the retort placed in a recipe under checker `c` (`retort` itself: always-true; `bound(pred, retort)`: `pred`):
    a function of the retort's value only - nothing of what the retort (or the retort it was derived from) served
    before takes part -/
def RetortV.asProvider (v : RetortV) (c : Checker) : Prov := .nested c v.opt v.full

end Adaptix.Router
