import AdaptixModel.MiniPy.Syntax
namespace Adaptix.MiniPy

/-- environment of one run: exception-class ancestors, datum, facts, site oracle -/
structure Env (V : Type) where
  ancestors : String → List String       -- exception class ↦ its MRO names (incl. itself)
  data : V
  noneV : V
  facts : Facts
  site : String → SiteOut V

def excMatches (anc : String → List String) (classes : List String) (exc : String) : Bool :=
  classes.any (fun c => (anc exc).contains c)

def evalTest {V : Type} (env : Env V) : Test → Except String Bool
  | .typeIn names neg => .ok ((names.contains env.facts.tag) != neg)
  | .isInstance names neg => .ok ((names.any (fun n => env.facts.ancestors.contains n)) != neg)
  | .isNone neg => .ok (env.facts.isNone != neg)
  | .site n neg =>
    match env.site n with
    | .val _ => .ok (true != neg)
    | .falsy _ => .ok (false != neg)
    | .raises e => .error e

mutual
  def evalStmt {V : Type} (env : Env V) : Stmt → Res V
    | .ifS t thn els =>
      match evalTest env t with
      | .error e => .raised e
      | .ok true => evalBlock env thn
      | .ok false => evalBlock env els
    | .ret .data => .ret env.data
    | .ret .none => .ret env.noneV
    | .ret (.site n) =>
      match env.site n with
      | .val v => .ret v
      | .falsy v => .ret v
      | .raises e => .raised e
    | .raiseS cls => .raised cls
    | .assign n =>
      match env.site n with
      | .raises e => .raised e
      | _ => .cont
    | .tryS body hs =>
      match evalBlock env body with
      | .raised e => evalHandlers env e hs
      | r => r
  def evalBlock {V : Type} (env : Env V) : Block → Res V
    | .nil => .cont
    | .cons s rest =>
      match evalStmt env s with
      | .cont => evalBlock env rest
      | r => r
  /-- first handler whose class list matches runs; none matches: propagate -/
  def evalHandlers {V : Type} (env : Env V) (exc : String) : Handlers → Res V
    | .nil => .raised exc
    | .cons classes body rest =>
      if excMatches env.ancestors classes exc then evalBlock env body
      else evalHandlers env exc rest
end

/-- a closure: a function body; falling off the end returns None -/
def runClosure {V : Type} (env : Env V) (body : Block) : Res V :=
  match evalBlock env body with
  | .cont => .ret env.noneV
  | r => r

end Adaptix.MiniPy
