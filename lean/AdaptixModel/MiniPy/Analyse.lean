import AdaptixModel.MiniPy.Eval
namespace Adaptix.MiniPy

/-- static environment of the analysis: what each site may do on data with these facts -/
structure AEnv where
  ancestors : String → List String
  facts : Facts
  catalogue : String → List SiteClass

def testOutcomes (a : AEnv) : Test → List (Except String Bool)
  | .typeIn names neg => [.ok ((names.contains a.facts.tag) != neg)]
  | .isInstance names neg => [.ok ((names.any (fun n => a.facts.ancestors.contains n)) != neg)]
  | .isNone neg => [.ok (a.facts.isNone != neg)]
  | .site n neg =>
    (a.catalogue n).map fun c =>
      match c with
      | .val => .ok (true != neg)
      | .falsy => .ok (false != neg)
      | .raises e => .error e

mutual
  /-- every result class the statement can produce when sites behave within the catalogue -/
  def possibleStmt (a : AEnv) : Stmt → List ResClass
    | .ifS t thn els =>
      (testOutcomes a t).flatMap fun o =>
        match o with
        | .error e => [.raised e]
        | .ok true => possibleBlock a thn
        | .ok false => possibleBlock a els
    | .ret .data => [.ret]
    | .ret .none => [.ret]
    | .ret (.site n) =>
      (a.catalogue n).map fun c =>
        match c with
        | .raises e => .raised e
        | _ => .ret
    | .raiseS cls => [.raised cls]
    | .assign n =>
      (a.catalogue n).map fun c =>
        match c with
        | .raises e => .raised e
        | _ => .cont
    | .tryS body hs =>
      (possibleBlock a body).flatMap fun r =>
        match r with
        | .raised e => possibleHandlers a e hs
        | r => [r]
  def possibleBlock (a : AEnv) : Block → List ResClass
    | .nil => [.cont]
    | .cons s rest =>
      (possibleStmt a s).flatMap fun r =>
        match r with
        | .cont => possibleBlock a rest
        | r => [r]
  def possibleHandlers (a : AEnv) (exc : String) : Handlers → List ResClass
    | .nil => [.raised exc]
    | .cons classes body rest =>
      if excMatches a.ancestors classes exc then possibleBlock a body
      else possibleHandlers a exc rest
end

def possibleClosure (a : AEnv) (body : Block) : List ResClass :=
  (possibleBlock a body).map fun r =>
    match r with
    | .cont => .ret
    | r => r

/-- the oracle of a run stays within the catalogue -/
def Respects {V : Type} (env : Env V) (a : AEnv) : Prop :=
  env.ancestors = a.ancestors ∧ env.facts = a.facts ∧ ∀ n, (env.site n).cls ∈ a.catalogue n

end Adaptix.MiniPy
