/-
  Mini-Python deep embedding: the statement forms used by adaptix' scalar
  loader closures (`concrete_provider.py`, the raw constructor loaders of
  `FilledRetort.recipe`).  Terms of this language are *generated* from the
  Python source on every run by `extract/scalars.py`
  (-> `AdaptixModel/Generated/Scalars.lean`).

  A closure has one argument, `data`.  It can
    * test the datum (`type(data) is/in`, `isinstance`, `data is None`),
    * call things (every call expression is a named *site*; what the call does
      is outside the language: its outcome comes from an oracle),
    * return the datum, None, or the value of a site,
    * raise a LoadError subclass,
    * guard statements with try/except.
  Exception classes are names; the subclass relation is a table generated from
  the running interpreter.
-/
namespace Adaptix.MiniPy

/-- a test on the datum or on the result of a call site -/
inductive Test where
  | typeIn (names : List String) (neg : Bool)      -- `type(data) is X`, `type(data) in (..)`, `not in`
  | isInstance (names : List String) (neg : Bool)  -- `isinstance(data, X)`
  | isNone (neg : Bool)                            -- `data is None`
  | site (name : String) (neg : Bool)              -- truth value of a call, e.g. `not PATTERN.fullmatch(encoded)`
  deriving Repr, DecidableEq, Inhabited

inductive Expr where
  | data                      -- `return data`
  | none                      -- `return None` / bare `return`
  | site (name : String)      -- `return f(...)`
  deriving Repr, DecidableEq, Inhabited

mutual
  inductive Stmt where
    | ifS (t : Test) (thn : Block) (els : Block)
    | ret (e : Expr)
    | raiseS (cls : String)                 -- `raise SomeLoadError(..., data)`
    | assign (site : String)                -- `x = f(...)`: evaluated for its exceptions only
    | tryS (body : Block) (hs : Handlers)
  inductive Block where
    | nil
    | cons (s : Stmt) (rest : Block)
  inductive Handlers where
    | nil
    | cons (classes : List String) (body : Block) (rest : Handlers)   -- `except (A, B): body`
end

/-- what a call site did on this run -/
inductive SiteOut (V : Type) where
  | val (v : V)           -- returned a (truthy) value
  | falsy (v : V)         -- returned a falsy value (None, empty match, False)
  | raises (exc : String) -- raised an exception of this class
  deriving Repr, Inhabited

/-- outcome classes: all the analysis needs to know about a site outcome -/
inductive SiteClass where
  | val | falsy | raises (exc : String)
  deriving Repr, DecidableEq, Inhabited

def SiteOut.cls {V : Type} : SiteOut V → SiteClass
  | .val _ => .val
  | .falsy _ => .falsy
  | .raises e => .raises e

/-- facts about the datum a closure can observe without calling anything -/
structure Facts where
  tag : String                 -- `type(data).__name__`-style tag
  ancestors : List String      -- classes `isinstance(data, ·)` holds for (MRO + registered ABCs)
  isNone : Bool
  deriving Repr, DecidableEq, Inhabited

/-- result of running a block -/
inductive Res (V : Type) where
  | cont                     -- fell through
  | ret (v : V)              -- `return`
  | raised (exc : String)    -- an exception (LoadError subclass or anything else) propagates
  deriving Repr, Inhabited

inductive ResClass where
  | cont | ret | raised (exc : String)
  deriving Repr, DecidableEq, Inhabited

def Res.cls {V : Type} : Res V → ResClass
  | .cont => .cont
  | .ret _ => .ret
  | .raised e => .raised e

end Adaptix.MiniPy
