/-
  Symbolic evaluation of a mini-Python closure under an assignment of outcome CLASSES to its call
  sites: deterministic, and it tracks WHICH value is returned (the datum, None, or the value of a
  site). Used to relate two closures run on the same datum (C07: strict vs lax loader of a scalar).
-/
import AdaptixModel.MiniPy.Eval

namespace Adaptix.MiniPy

inductive SymVal where
  | data | none | site (n : String)
  deriving Repr, DecidableEq, Inhabited

inductive SymRes where
  | cont | ret (v : SymVal) | raised (e : String)
  deriving Repr, DecidableEq, Inhabited

structure SEnv where
  ancestors : String → List String
  facts : Facts
  cls : String → SiteClass          -- what each site does, by class

def symTest (a : SEnv) : Test → Except String Bool
  | .typeIn names neg => .ok ((names.contains a.facts.tag) != neg)
  | .isInstance names neg => .ok ((names.any (fun n => a.facts.ancestors.contains n)) != neg)
  | .isNone neg => .ok (a.facts.isNone != neg)
  | .site n neg =>
    match a.cls n with
    | .val => .ok (true != neg)
    | .falsy => .ok (false != neg)
    | .raises e => .error e

mutual
  def symStmt (a : SEnv) : Stmt → SymRes
    | .ifS t thn els =>
      match symTest a t with
      | .error e => .raised e
      | .ok true => symBlock a thn
      | .ok false => symBlock a els
    | .ret .data => .ret .data
    | .ret .none => .ret .none
    | .ret (.site n) =>
      match a.cls n with
      | .raises e => .raised e
      | _ => .ret (.site n)
    | .raiseS cls => .raised cls
    | .assign n =>
      match a.cls n with
      | .raises e => .raised e
      | _ => .cont
    | .tryS body hs =>
      match symBlock a body with
      | .raised e => symHandlers a e hs
      | r => r
  def symBlock (a : SEnv) : Block → SymRes
    | .nil => .cont
    | .cons s rest =>
      match symStmt a s with
      | .cont => symBlock a rest
      | r => r
  def symHandlers (a : SEnv) (exc : String) : Handlers → SymRes
    | .nil => .raised exc
    | .cons classes body rest =>
      if excMatches a.ancestors classes exc then symBlock a body
      else symHandlers a exc rest
end

def symClosure (a : SEnv) (body : Block) : SymRes :=
  match symBlock a body with
  | .cont => .ret .none
  | r => r

mutual
  /-- the call sites a statement mentions -/
  def sitesStmt : Stmt → List String
    | .ifS t thn els => (match t with | .site n _ => [n] | _ => []) ++ sitesBlock thn ++ sitesBlock els
    | .ret (.site n) => [n]
    | .ret _ => []
    | .raiseS _ => []
    | .assign n => [n]
    | .tryS body hs => sitesBlock body ++ sitesHandlers hs
  def sitesBlock : Block → List String
    | .nil => []
    | .cons s rest => sitesStmt s ++ sitesBlock rest
  def sitesHandlers : Handlers → List String
    | .nil => []
    | .cons _ body rest => sitesBlock body ++ sitesHandlers rest
end

/-- the value a symbolic value stands for in a concrete environment (a site that raised has no
    value: never asked for, see `symStmt`) -/
def SymVal.denote {V : Type} (env : Env V) : SymVal → V
  | .data => env.data
  | .none => env.noneV
  | .site n =>
    match env.site n with
    | .val v => v
    | .falsy v => v
    | .raises _ => env.noneV

/-- what a symbolic result means in a concrete environment -/
def interp {V : Type} (env : Env V) : SymRes → Res V
  | .cont => .cont
  | .ret v => .ret (v.denote env)
  | .raised e => .raised e

end Adaptix.MiniPy
