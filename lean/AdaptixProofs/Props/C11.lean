/-
  C11 — Results never depend on call history; retorts are immutable.
  Property theorems only; helper lemmas live in `AdaptixProofs/Lemmas/Cache*.lean`.

  The model (`AdaptixModel/Retort/Cache.lean`, `CacheSem.lean`) is the code with
  fixes/C11-literal-cache-key.patch, fixes/C12-stub-identity.patch and
  fixes/C15-union-order-total.patch applied (`Mode.fixed`); the `legacy_*`
  theorems refute the property for the unrepaired key functions.
-/
import AdaptixModel.Retort.CacheSem
import AdaptixModel.Retort.CacheSites
import AdaptixModel.Retort.CacheWitness
import AdaptixModel.Generated.C11Sites
import AdaptixProofs.Lemmas.CacheFacade
import AdaptixProofs.Lemmas.CacheRecipe

namespace Adaptix.Cache.C11
open Adaptix.Cache Adaptix.Generated.C11Sites

/-! ### Tie to the source: the modelled cache sites are the sites of the working tree -/

/-- every `mediator.cached_call(...)` call of the working tree, with its cached
    function and key arguments, is the modelled list (regenerated on every run) -/
theorem sites_covered : sites = modelledSites.map (·.1) := by decide +kernel

/-- the facade cache dicts with their key expressions, the key of `cached_call`,
    the `lru_cache` of `normalize_type` and the (absent) equality methods of the
    recursion stub are the modelled ones -/
theorem facade_caches_covered : facadeCaches = modelledFacadeCaches := by decide +kernel

/-- every constructor of `Key` stands for a site of the source, and every site
    classified as modelled names a constructor of `Key` -/
theorem keys_are_sites :
    (∀ k ∈ keyNames, ∃ s ∈ modelledSites, s.2 = .modelled k) ∧
    (∀ s ∈ modelledSites, ∀ k, s.2 = .modelled k → k ∈ keyNames) ∧
    (∀ s ∈ modelledSites, s.2 = .selfOnly → s.1.2.2 = []) := by
  refine ⟨by decide +kernel, ?_, by decide +kernel⟩
  have h : ∀ s ∈ modelledSites,
      (match s.2 with | .modelled k => decide (k ∈ keyNames) | _ => true) = true := by decide +kernel
  intro s hs k hk
  have := h s hs
  rw [hk] at this
  simpa using this

/-! ### Keys -/

/-- **key_sound**: for every modelled `cached_call` site, two argument tuples
    that the call cache identifies (Python `==` on the key tuple: literal cases
    as (type, value) pairs, hints by `==`, closures by identity) make the
    cached function build the same closure. -/
theorem key_sound (k k' : Key) (h : Key.pyEq Mode.fixed k k' = true) : build k = build k' :=
  key_sound_fixed k k' h

/-- the soundness condition of the facade caches and of the process-wide
    `lru_cache`: `==`-equal hints have the same normal form -/
theorem norm_respects_eq (U : Univ) (a b : Hint) (h : Hint.pyEq a b = true) :
    a.canon Mode.fixed U = b.canon Mode.fixed U :=
  canon_congr U a b ((Hint.pyEq_iff a b).mp h)

/-- a request — of any depth, recursive or not, succeeding or failing — is
    answered identically from any two call caches satisfying the invariant and
    any two normalisation caches, for `==`-equal hints; both caches keep the
    invariant.  (`StepOK` unfolds to exactly this statement.) -/
theorem request_independent (U : Univ) (cap : Nat) (cfg : Cfg) (dir : Dir) (fuel : Nat)
    (σ : List Loc) (h h' : Hint) (s s' : RS) (he : Hint.pyEq h h' = true)
    (hl : s.loc = s'.loc) (hc : CallInv s.call) (hc' : CallInv s'.call) :
    (provide Mode.fixed U cap cfg dir fuel σ h s).1 = (provide Mode.fixed U cap cfg dir fuel σ h' s').1 ∧
    CallInv (provide Mode.fixed U cap cfg dir fuel σ h s).2.call ∧
    CallInv (provide Mode.fixed U cap cfg dir fuel σ h' s').2.call := by
  have := provide_ok U cap cfg dir fuel σ h h' s s' ((Hint.pyEq_iff h h').mp he) ⟨hl, hc, hc'⟩
  exact ⟨this.1, this.2.inv, this.2.inv'⟩

/-! ### The invariant -/

/-- **cache_inv holds initially**: retorts that were never used, in a process
    whose normalisation cache holds anything whatsoever (a "polluted" cache) -/
theorem cache_inv_initial (P : Params) (U : Univ) (cfgs : List Cfg) (N : List Hint) :
    SysInv P U { retorts := cfgs.map Retort.fresh, norm := N } := by
  intro r hr
  simp only [List.mem_map] at hr
  obtain ⟨c, _, rfl⟩ := hr
  exact retInv_fresh P U c

/-- **cache_inv is preserved by every operation**: facade calls that succeed,
    facade calls whose request fails (`ProviderNotFoundError`), `replace`, `extend` -/
theorem cache_inv_preserved (P : Params) (hM : P.mode = Mode.fixed) (U : Univ) (op : Op) (w : Sys)
    (hw : SysInv P U w) : SysInv P U (stepOp P U op w) :=
  stepOp_inv P hM U op w hw

/-! ### History independence -/

/-- **history_independent**: after *any* history (any length, any operations,
    on any of the retorts, including failed requests and clones), every facade
    call on every retort returns what it returns on a never-used retort with
    the same configuration in a process that never normalised anything. -/
theorem history_independent (P : Params) (hM : P.mode = Mode.fixed) (U : Univ) (hist : List Op) (w : Sys)
    (hw : SysInv P U w) (i : Nat) (f : FOp) :
    observe P U (runHist P U hist w) i f =
      ((runHist P U hist w).retorts[i]?).map (fun r => observeFresh P U r.cfg f) := by
  have hinv := runHist_inv P hM U hist w hw
  unfold observe observeFresh
  cases hi : (runHist P U hist w).retorts[i]? with
  | none => rfl
  | some r =>
    simp only [Option.map_some]
    rw [(stepF_spec P hM U f r _ (hinv r (List.mem_of_getElem? hi))).1]

/-- the retort a history started with: the probe equals the probe on a fresh
    retort, whatever happened in between and whatever the normalisation cache
    held at the start -/
theorem history_independent_initial (P : Params) (hM : P.mode = Mode.fixed) (U : Univ) (cfgs : List Cfg)
    (N : List Hint) (hist : List Op) (i : Nat) (hi : i < cfgs.length) (f : FOp) :
    observe P U (runHist P U hist { retorts := cfgs.map Retort.fresh, norm := N }) i f =
      some (observeFresh P U cfgs[i] f) := by
  have hw := cache_inv_initial P U cfgs N
  rw [history_independent P hM U hist _ hw i f]
  obtain ⟨r', h1, h2⟩ := runHist_cfg P hM U hist _ hw i (Retort.fresh cfgs[i]) (by simp [hi])
  rw [h1]
  simp [h2, Retort.fresh]

/-- two arbitrary histories, two arbitrary initial normalisation caches: same answer -/
theorem histories_agree (P : Params) (hM : P.mode = Mode.fixed) (U : Univ) (cfg : Cfg) (N N' : List Hint)
    (hist hist' : List Op) (f : FOp) :
    observe P U (runHist P U hist { retorts := [Retort.fresh cfg], norm := N }) 0 f =
    observe P U (runHist P U hist' { retorts := [Retort.fresh cfg], norm := N' }) 0 f := by
  have a := history_independent_initial P hM U [cfg] N hist 0 (by simp) f
  have b := history_independent_initial P hM U [cfg] N' hist' 0 (by simp) f
  simp only [List.map_cons, List.map_nil] at a b
  rw [a, b]

/-! ### replace / extend -/

/-- **replace_extend_pure**: `replace`/`extend` add one retort whose caches are
    empty and whose configuration is the original's with the option replaced /
    the recipe prepended; every existing retort (state and configuration) and
    the normalisation cache are left exactly as they were. -/
theorem replace_extend_pure (P : Params) (U : Univ) (w : Sys) (i : Nat) (r : Retort) (hi : w.retorts[i]? = some r) :
    (∀ strict,
      stepOp P U (.replace i strict) w =
        { retorts := w.retorts ++ [Retort.fresh { r.cfg with strict := strict.getD r.cfg.strict }], norm := w.norm }) ∧
    (∀ recipe,
      stepOp P U (.extend i recipe) w =
        { retorts := w.retorts ++ [Retort.fresh { r.cfg with recipe := recipe ++ r.cfg.recipe }], norm := w.norm }) := by
  constructor <;> intro x <;> simp [stepOp, hi, Retort.replace, Retort.extend]

/-- the original retort is the very same state after a clone was made -/
theorem clone_leaves_original (P : Params) (U : Univ) (w : Sys) (i j : Nat) (hj : j < w.retorts.length) :
    (∀ strict, (stepOp P U (.replace i strict) w).retorts[j]? = w.retorts[j]?) ∧
    (∀ recipe, (stepOp P U (.extend i recipe) w).retorts[j]? = w.retorts[j]?) := by
  constructor <;> intro x <;> simp only [stepOp] <;> cases w.retorts[i]? <;> simp [List.getElem?_append_left hj]

/-- calls on a clone never change what the original answers (and vice versa):
    the answer is a function of the retort's own configuration -/
theorem clone_calls_do_not_leak (P : Params) (hM : P.mode = Mode.fixed) (U : Univ) (cfg : Cfg) (N : List Hint)
    (strict : Option Bool) (hist : List Op) (f : FOp) :
    observe P U (runHist P U (.replace 0 strict :: hist) { retorts := [Retort.fresh cfg], norm := N }) 0 f =
      some (observeFresh P U cfg f) :=
  history_independent_initial P hM U [cfg] N _ 0 (by simp) f

/-! ### Recipe entries guarded by several predicates (`bound_by_any`, `P[a, b]`)

The providers of a recipe are objects shared by a retort and all its `replace()` / `extend()` clones.  In the model an
entry is data (`RecipeEntry`): its predicates are a list that is consulted afresh, as a whole, for every request - so
`history_independent` and `clone_calls_do_not_leak` (quantified over every configuration) cover recipes whose entries
carry any number of predicates.  The theorems below say what such an entry does, independently of the search. -/

/-- **bound_by_any / P[a, b]**: an entry without predicates is unguarded; otherwise it accepts exactly the requests
    whose norm equals the norm of one of its predicates -/
theorem preds_accept_spec (M : Mode) (U : Univ) (ts : List Hint) (n : Hint) :
    predsAccept M U ts n = true ↔ ts = [] ∨ ∃ t ∈ ts, t.canon M U = n :=
  predsAccept_iff M U ts n

/-- only the *set* of predicates matters: neither their order nor repetitions (so it can not matter which of them
    was consulted by earlier requests) -/
theorem preds_accept_set (M : Mode) (U : Univ) (ts ts' : List Hint) (h : ∀ t, t ∈ ts ↔ t ∈ ts') (n : Hint) :
    predsAccept M U ts n = predsAccept M U ts' n := by
  rw [Bool.eq_iff_iff, predsAccept_iff, predsAccept_iff]
  have hnil : ts = [] ↔ ts' = [] := by
    simp only [List.eq_nil_iff_forall_not_mem]
    exact ⟨fun a t ht => a t ((h t).mpr ht), fun a t ht => a t ((h t).mp ht)⟩
  constructor
  · rintro (a | ⟨t, ht, e⟩)
    · exact Or.inl (hnil.mp a)
    · exact Or.inr ⟨t, (h t).mp ht, e⟩
  · rintro (a | ⟨t, ht, e⟩)
    · exact Or.inl (hnil.mpr a)
    · exact Or.inr ⟨t, (h t).mpr ht, e⟩

/-- **which provider serves a request**: the first entry, in recipe order, whose predicates accept the norm of the
    requested type and whose provider serves such a request (its own request checker: direction for `loader` /
    `dumper`, `AnyEnumLSC` for the enum providers) - a function of the recipe and the request alone -/
theorem recipe_match_first (M : Mode) (U : Univ) (cfg : Cfg) (dir : Dir) (src : Hint) (sv : Served) :
    userMatch M U cfg dir src = some sv ↔
      ∃ (k : Nat) (e : RecipeEntry), cfg.recipe[k]? = some e ∧
        predsAccept M U e.targets (src.canon M U) = true ∧ serve U e k dir (src.canon M U) = some sv ∧
        ∀ (j : Nat) (e' : RecipeEntry), j < k → cfg.recipe[j]? = some e' →
          takes M U dir (src.canon M U) e' j = false := by
  have := matchFrom_some M U dir (src.canon M U) sv cfg.recipe 0
  simpa [userMatch] using this

/-- `==`-equal requested hints are served by the same entry -/
theorem recipe_match_respects_eq (U : Univ) (cfg : Cfg) (dir : Dir) (a b : Hint) (h : Hint.pyEq a b = true) :
    userMatch Mode.fixed U cfg dir a = userMatch Mode.fixed U cfg dir b :=
  userMatch_congr U cfg dir a b ((Hint.pyEq_iff a b).mp h)

/-- **a multi-predicate `enum_by_name` keeps serving by name**: in a process with any number of retorts, let retort
    `i` be built from a recipe that starts with `enum_by_name(t₁, …, tₙ)` where some `tₖ` is the Enum class `u`.  After
    *any* history - requests for types none of the predicates accepts, requests accepted by a later predicate, failed
    requests, clones and requests on the clones - loading and dumping `u` on retort `i` run the by-name closures. -/
theorem multi_pred_enum_by_name_after_any_history (P : Params) (hM : P.mode = Mode.fixed) (f : Nat)
    (hf : P.fuel = f + 1) (U : Univ) (cfgs : List Cfg) (i : Nat) (hi : i < cfgs.length) (strict : Bool)
    (ts : List Hint) (rest : List RecipeEntry) (hcfg : cfgs[i] = ⟨strict, ⟨.enumByName, ts⟩ :: rest⟩)
    (u : Nat) (ms : List (String × LitVal)) (hk : U.kind u = .enum ms) (hu : Hint.cls u ∈ ts)
    (N : List Hint) (hist : List Op) (v : Val) :
    observe P U (runHist P U hist { retorts := cfgs.map Retort.fresh, norm := N }) i (.load (.cls u) v) =
        some (run U P.fuel [] (.enumNameL u) v) ∧
    observe P U (runHist P U hist { retorts := cfgs.map Retort.fresh, norm := N }) i (.dump (.cls u) v) =
        some (run U P.fuel [] (.enumNameD u) v) := by
  rw [history_independent_initial P hM U cfgs N hist i hi, history_independent_initial P hM U cfgs N hist i hi, hcfg,
    fresh_load_enum_by_name P U f hf strict ts rest u ms hk hu, fresh_dump_enum_by_name P U f hf strict ts rest u ms hk hu]
  exact ⟨rfl, rfl⟩

/-- ... in particular the name of a member loads to that member, whatever happened before -/
theorem multi_pred_enum_member_by_name (P : Params) (hM : P.mode = Mode.fixed) (f : Nat)
    (hf : P.fuel = f + 1) (U : Univ) (strict : Bool) (ts : List Hint) (rest : List RecipeEntry)
    (u : Nat) (ms : List (String × LitVal)) (hk : U.kind u = .enum ms) (hu : Hint.cls u ∈ ts)
    (name : String) (val : LitVal) (hm : (name, val) ∈ ms) (N : List Hint) (hist : List Op) :
    observe P U (runHist P U hist { retorts := [Retort.fresh ⟨strict, ⟨.enumByName, ts⟩ :: rest⟩], norm := N }) 0
      (.load (.cls u) (.str name)) = some (.ok (.enum u name)) := by
  have h := (multi_pred_enum_by_name_after_any_history P hM f hf U [⟨strict, ⟨.enumByName, ts⟩ :: rest⟩] 0 (by simp)
    strict ts rest rfl u ms hk hu N hist (.str name)).1
  simp only [List.map_cons, List.map_nil] at h
  rw [h, hf]
  simp only [run, enumMembers, hk]
  cases hfind : ms.find? (fun m => m.1 == name) with
  | none =>
    have := List.find?_eq_none.mp hfind (name, val) hm
    simp at this
  | some m =>
    have := List.find?_some hfind
    simp at this
    simp [this]

/-- the scenario on a concrete universe (`Retort(recipe=[enum_by_name(Color, Size)])`; non-vacuity): a request none of
    the predicates accepts, a failed request, a request for the *second* predicate's class, a `replace()` clone and a
    request on it come first; then both classes are still loaded by name on the original and on the clone, while a
    recipe-less retort loads by value -/
example :
    let P : Params := { mode := Mode.fixed, cap := 128, fuel := 12 }
    let w := runHist P exU
      [.call 0 (.load (.cls 0) (.int 10)), .call 0 (.getLoader (.cls 9)), .call 0 (.load (.cls 11) (.str "BIG")),
       .replace 0 (some false), .call 1 (.dump (.cls 0) (.int 10))]
      { retorts := [Retort.fresh exEnumCfg], norm := [] }
    (observe P exU w 0 (.load (.cls 10) (.str "RED"))).bind Outcome.member = some (10, "RED") ∧
    (observe P exU w 0 (.load (.cls 11) (.str "SMALL"))).bind Outcome.member = some (11, "SMALL") ∧
    (observe P exU w 1 (.load (.cls 10) (.str "GREEN"))).bind Outcome.member = some (10, "GREEN") ∧
    (observe P exU w 0 (.load (.cls 10) (.int 1))).map Outcome.isOk = some false ∧
    (observeFresh P exU exCfg (.load (.cls 10) (.int 1))).member = some (10, "RED") ∧
    (observeFresh P exU exCfg (.load (.cls 10) (.str "RED"))).isOk = false := by
  decide +kernel

/-- `recipe_match_first` is not vacuous: the second entry serves `Size` because the first one, although its predicates
    accept `Size`, is a `loader` asked for a dumper -/
example :
    userMatch Mode.fixed exU { strict := true, recipe := [⟨.user .load 1, [.cls 0, .cls 11]⟩, ⟨.enumByName, [.cls 10, .cls 11]⟩] }
      .dump (.cls 11) = some (.enumName 1 11) ∧
    takes Mode.fixed exU .dump (.cls 11) ⟨.user .load 1, [.cls 0, .cls 11]⟩ 0 = false ∧
    predsAccept Mode.fixed exU [.cls 0, .cls 11] (.cls 11) = true := by
  decide +kernel

/-! ### The unrepaired code violates the property (witnesses) and non-vacuity -/

/-- the key LiteralProvider used before the repair is not a sound proxy:
    `(0, 1) == (False, True)` but the strict loaders differ -/
theorem legacy_literal_key_unsound :
    ∃ k k', Key.pyEq Mode.legacy k k' = true ∧ build k ≠ build k' :=
  ⟨.literalL [.int 0, .int 1] true .asIs, .literalL [.bool false, .bool true] true .asIs, by decide, by decide⟩

/-- ... and the property fails on the unrepaired key: after `load(0, Literal[0, 1])`
    the same retort rejects `True` for `Literal[False, True]`, a fresh one accepts it -/
theorem legacy_literal_history_dependent :
    let P : Params := { mode := { litKeyTyped := false, unionTotal := true }, cap := 128, fuel := 8 }
    let w := runHist P exU [.call 0 (.load L01 (.int 0))] { retorts := [Retort.fresh exCfg], norm := [] }
    (observe P exU w 0 (.load LFT (.bool true))).map Outcome.isOk = some false ∧
    (observeFresh P exU exCfg (.load LFT (.bool true))).isOk = true := by
  decide +kernel

/-- with the name-only union order, `Union[A', A]` loads into the class that an
    earlier request for `Union[A, A']` put first; a fresh retort picks the other -/
theorem legacy_union_order_history_dependent :
    let P : Params := { mode := { litKeyTyped := true, unionTotal := false }, cap := 128, fuel := 8 }
    let d : Val := .dict [("x", .int 1)]
    let w := runHist P exU [.call 0 (.getLoader (.union [5, 6]))] { retorts := [Retort.fresh exCfg], norm := [] }
    (observe P exU w 0 (.load (.union [6, 5]) d)).bind Outcome.objCid = some 5 ∧
    (observeFresh P exU exCfg (.load (.union [6, 5]) d)).objCid = some 6 := by
  decide +kernel

/-- the same two histories under the repaired code (non-vacuity of the theorems:
    the requests succeed and return the expected values) -/
example :
    let P : Params := { mode := Mode.fixed, cap := 128, fuel := 8 }
    let w := runHist P exU [.call 0 (.load L01 (.int 0)), .call 0 (.getLoader (.union [5, 6]))]
      { retorts := [Retort.fresh exCfg], norm := [] }
    (observe P exU w 0 (.load LFT (.bool true))).map Outcome.isOk = some true ∧
    (observe P exU w 0 (.load (.union [6, 5]) (.dict [("x", .int 1)]))).bind Outcome.objCid = some 5 ∧
    (observeFresh P exU exCfg (.load (.union [6, 5]) (.dict [("x", .int 1)]))).objCid = some 5 := by
  decide +kernel

/-- a recursive model: the stub is bound (`mu`), a failed request before it changes nothing -/
example :
    let P : Params := { mode := Mode.fixed, cap := 128, fuel := 12 }
    let d : Val := .dict [("v", .int 1), ("next", .dict [("v", .int 2), ("next", .dict [("v", .int 3)])])]
    let w := runHist P exU [.call 0 (.getLoader (.cls 9)), .call 0 (.getLoader (.seq 0 (.cls 7)))]
      { retorts := [Retort.fresh exCfg], norm := [.union [4, 7]] }
    (observe P exU w 0 (.load (.cls 7) d)).bind Outcome.objCid = some 7 ∧
    (observe P exU w 0 (.getLoader (.cls 9))).map Outcome.isOk = some false := by
  decide +kernel

/-! ### witnesses for the hypotheses (`SysInv`, `CallInv`, the premises of `request_independent`) -/

/-- **`SysInv` has non-trivial instances**: not only never-used retorts (`cache_inv_initial`) satisfy it - after
    a history with successful and failed requests, a recursive model, a clone and calls on the clone, started
    from a polluted normalisation cache, the invariant holds and every cache it speaks about is non-empty
    (two retorts; each has call-cache entries and cached loaders). -/
example :
    let P : Params := { mode := Mode.fixed, cap := 128, fuel := 12 }
    let w := runHist P exU
      [.call 0 (.load L01 (.int 0)), .call 0 (.getLoader (.cls 9)), .call 0 (.getLoader (.cls 7)),
       .call 0 (.getDumper (.seq 0 (.cls 5))), .replace 0 (some false), .call 1 (.load (.union [6, 5]) (.dict [("x", .int 1)])),
       .call 1 (.getLoader LFT)]
      { retorts := [Retort.fresh exCfg], norm := [.union [4, 7]] }
    SysInv P exU w ∧ w.retorts.length = 2 ∧
      (w.retorts.all fun r => decide (2 ≤ r.call.length) && decide (2 ≤ r.loaderCache.length)) = true ∧
      (w.retorts.any fun r => decide (1 ≤ r.dumperCache.length)) = true := by
  intro P w
  refine ⟨?_, by decide +kernel, by decide +kernel, by decide +kernel⟩
  exact runHist_inv P rfl exU _ _ (cache_inv_initial P exU [exCfg] [.union [4, 7]])

/-- **the premises of `request_independent` hold together** for two different spellings of one `Literal`, a
    pristine state and a state whose call cache was filled by an earlier request (three entries) and whose
    normalisation cache is polluted -/
example :
    let s : RS := { loc := ⟨[], 0⟩, call := [], norm := [] }
    let s' : RS := (provide Mode.fixed exU 128 exCfg .load 8 [Loc.th (Hint.cls 5)] (.cls 5)
      { loc := ⟨[], 0⟩, call := [], norm := [LFT] }).2
    Hint.pyEq (.lit [.int 0, .int 1]) (.lit [.int 1, .int 0, .int 1]) = true ∧ s.loc = s'.loc ∧
      CallInv s.call ∧ CallInv s'.call ∧ s'.call.length = 3 := by
  intro s s'
  refine ⟨by decide +kernel, by decide +kernel, callInv_nil, ?_, by decide +kernel⟩
  exact (request_independent exU 128 exCfg .load 8 [Loc.th (Hint.cls 5)] (.cls 5) (.cls 5)
    { loc := ⟨[], 0⟩, call := [], norm := [LFT] } { loc := ⟨[], 0⟩, call := [], norm := [LFT] }
    (by decide +kernel) rfl callInv_nil callInv_nil).2.1

/-- `key_sound` is not vacuous either: distinct key tuples that the call cache identifies (two spellings of
    `Optional[int]` as the `norm.source` argument) -/
example : Key.pyEq Mode.fixed (.optL (.union [0, 4]) (.scalarL .int true)) (.optL (.union [4, 0, 4]) (.scalarL .int true)) = true ∧
    Key.optL (.union [0, 4]) (.scalarL .int true) ≠ .optL (.union [4, 0, 4]) (.scalarL .int true) := by
  decide +kernel

end Adaptix.Cache.C11
