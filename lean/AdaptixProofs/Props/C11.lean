import AdaptixModel.Retort.CacheSem
import AdaptixModel.Retort.CacheSites
import AdaptixModel.Generated.C11Sites

namespace Adaptix.Cache.C11
open Adaptix.Cache Adaptix.Generated.C11Sites

theorem sites_covered : sites = modelledSites.map (·.1) := by decide +kernel
theorem facade_caches_covered : facadeCaches = modelledFacadeCaches := by decide +kernel

end Adaptix.Cache.C11
