/-
  C05 — Load errors are localised: trails are exact and, in ALL mode, complete.

  Property theorems over the executable loader model `Adaptix.Morph.load`
  (`AdaptixModel/Morph/Load.lean`), for ALL worlds (class tables + scalar leaves),
  types, data, fuels and both coercion modes.  Specification side
  (`Lemmas/MorphTrailDefs.lean`, independent of the loader's folds):

  * `follow d t`      how a reader follows an absolute trail `t` from the root datum `d`;
  * `reports e`       the errors a raised tree reports with their trails (groups are
                      flattened with trails concatenated; a `UnionLoadError` is ONE report);
  * `Faults W s n T d` the independently invalid positions of `d` against `T`;
  * `trailWf d`       the Python dict invariant (keys pairwise not `==`, every key `==` itself);
  * `LeafReportsInput`, `LeafNotGroup`, `NoneLeafSpec`  hypotheses on the scalar leaves.

  Helper lemmas live in `AdaptixProofs/Lemmas/MorphTrail*.lean`.  The `example`s at the
  end are non-vacuity tests on literals.
-/
import AdaptixProofs.Lemmas.MorphTrailComplete
import AdaptixProofs.Lemmas.MorphTrailDisable
import AdaptixProofs.Lemmas.MorphTrailFirst

namespace Adaptix.Morph.C05
open Adaptix.Py Adaptix.Morph

/-! ## exactness (FIRST and ALL) -/

/-- **Trails are exact, hereditarily.**  Every exception object of the raised tree —
    group, union, alternative of a union, leaf — is exactly located: following the
    trails concatenated on the way down from the root datum reaches a sub-value, and
    the `input_value` recorded on the object (if any) is that sub-value. -/
theorem trail_exact_tree {W : World} (hW : LeafReportsInput W) {m : DebugTrail} (hm : m ≠ .disable)
    {s : Bool} {n : Nat} {T : Ty} {d : Val} {e : LErr} (hd : trailWf d = true)
    (h : load W ⟨m, s⟩ n T d = .err e) : TrailExact d e :=
  trail_exact_load hW hm s n T d e hd h

/-- **Trails are exact.**  For every reported error of a failed FIRST/ALL load, the
    absolute trail leads from the root datum to a sub-value `x`, and the reported
    `input_value` is `x` itself.  The only looseness: `ExtraItemsLoadError` /
    `NoRequiredItemsLoadError` of the constant-length tuple loader report
    `tuple(data)` (the loader converts before checking), located at the tuple's own
    position. -/
theorem trail_exact {W : World} (hW : LeafReportsInput W) {m : DebugTrail} (hm : m ≠ .disable)
    {s : Bool} {n : Nat} {T : Ty} {d : Val} {e : LErr} (hd : trailWf d = true)
    (h : load W ⟨m, s⟩ n T d = .err e) :
    ∀ p ∈ reports e, ∃ x, follow d p.1 = some x ∧
      ∀ y, p.2.input = some y →
        y = x ∨ ((p.2.cls = "ExtraItemsLoadError" ∨ p.2.cls = "NoRequiredItemsLoadError") ∧
                  ∃ xs, x.iterElems = some xs ∧ y = Val.tuple xs) := by
  intro p hp
  obtain ⟨x, hx, hi, _⟩ := trail_exact_reports (trail_exact_load hW hm s n T d e hd h) p hp
  refine ⟨x, hx, fun y hy => ?_⟩
  rw [hy] at hi
  exact hi

/-- **The alternatives of a reported union are exact too**: for a reported
    `UnionLoadError` at absolute trail `t`, every error reported by one of its
    sub-exceptions at (relative) trail `t'` is located at `t ++ t'` from the root. -/
theorem trail_exact_union_alternatives {W : World} (hW : LeafReportsInput W) {m : DebugTrail}
    (hm : m ≠ .disable) {s : Bool} {n : Nat} {T : Ty} {d : Val} {e : LErr} (hd : trailWf d = true)
    (h : load W ⟨m, s⟩ n T d = .err e) :
    ∀ p ∈ reports e, ∀ c ∈ p.2.children, ∀ q ∈ reports c,
      ∃ x, follow d (p.1 ++ q.1) = some x ∧
        ∀ y, q.2.input = some y →
          y = x ∨ ((q.2.cls = "ExtraItemsLoadError" ∨ q.2.cls = "NoRequiredItemsLoadError") ∧
                    ∃ xs, x.iterElems = some xs ∧ y = Val.tuple xs) := by
  intro p hp c hc q hq
  obtain ⟨x, hx, _, hch⟩ := trail_exact_reports (trail_exact_load hW hm s n T d e hd h) p hp
  obtain ⟨x', hx', hi, _⟩ := trail_exact_reports (hch c hc) q hq
  refine ⟨x', by simp [trail_follow_append, hx, hx'], fun y hy => ?_⟩
  rw [hy] at hi
  exact hi

/-! ## DISABLE -/

/-- **DISABLE attaches no trail**, anywhere in the raised tree. -/
theorem disable_no_trail {W : World} (hW : LeafReportsInput W) {s : Bool} {n : Nat} {T : Ty}
    {d : Val} {e : LErr} (h : load W ⟨.disable, s⟩ n T d = .err e) : TrailNone e :=
  trail_none_of_flat (trail_disable_load hW s n T d e h)

/-- in fact the raised error is a single exception object: empty trail, no sub-exceptions
    (a failing union raises a bare `LoadError`) -/
theorem disable_single_object {W : World} (hW : LeafReportsInput W) {s : Bool} {n : Nat} {T : Ty}
    {d : Val} {e : LErr} (h : load W ⟨.disable, s⟩ n T d = .err e) :
    e.trail = [] ∧ e.children = [] :=
  trail_disable_load hW s n T d e h

/-! ## FIRST -/

/-- **FIRST reports exactly one error** (a single chain; no `AggregateLoadError` is ever
    built; a failing union is one report). -/
theorem first_single_report {W : World} (hW : LeafReportsInput W) (hG : LeafNotGroup W) {s : Bool}
    {n : Nat} {T : Ty} {d : Val} {e : LErr} (h : load W ⟨.first, s⟩ n T d = .err e) :
    ∃ t l, reports e = [(t, l)] :=
  trail_first_single hW hG s n T d e h

/-- **FIRST reports exactly one of the faults**, with its full (absolute) trail
    (exactness of that trail is `trail_exact`). -/
theorem first_exactly_one {W : World} (hW : LeafReportsInput W) (hG : LeafNotGroup W)
    (hN : NoneLeafSpec W) {s : Bool} {n : Nat} {T : Ty} {d : Val} {e : LErr}
    (h : load W ⟨.first, s⟩ n T d = .err e) :
    ∃ t l, reports e = [(t, l)] ∧ (t, l.cls) ∈ Faults W s n T d :=
  (faults_load hW hG hN (m := .first) (by simp) s n T d).2 e h

/-- FIRST accepts only fault-free data. -/
theorem first_ok_no_faults {W : World} (hW : LeafReportsInput W) (hG : LeafNotGroup W)
    (hN : NoneLeafSpec W) {s : Bool} {n : Nat} {T : Ty} {d v : Val}
    (h : load W ⟨.first, s⟩ n T d = .ok v) : Faults W s n T d = [] :=
  (faults_load hW hG hN (m := .first) (by simp) s n T d).1 v h

/-! ## ALL -/

/-- **ALL is complete and duplicate-free**: the (absolute trail, class) pairs of the
    reported errors are a permutation of the independently invalid positions `Faults`
    — every fault is reported exactly as often as it occurs in the specification list,
    nothing else is reported.  (No extra "no escape / no divergence" hypothesis is
    needed: an ALL-mode result `.err e` already implies that no element loader
    escaped or ran out of fuel.) -/
theorem all_complete {W : World} (hW : LeafReportsInput W) (hG : LeafNotGroup W)
    (hN : NoneLeafSpec W) {s : Bool} {n : Nat} {T : Ty} {d : Val} {e : LErr}
    (h : load W ⟨.all, s⟩ n T d = .err e) :
    ((reports e).map (fun p => (p.1, p.2.cls))).Perm (Faults W s n T d) :=
  ((faults_load hW hG hN (m := .all) (by simp) s n T d).2 e h).1

/-- a failed ALL load reports at least one error -/
theorem all_reports_nonempty {W : World} (hW : LeafReportsInput W) (hG : LeafNotGroup W)
    (hN : NoneLeafSpec W) {s : Bool} {n : Nat} {T : Ty} {d : Val} {e : LErr}
    (h : load W ⟨.all, s⟩ n T d = .err e) : reports e ≠ [] := by
  have := ((faults_load hW hG hN (m := .all) (by simp) s n T d).2 e h).2
  intro hnil
  exact this (by simp [reportKeys, hnil])

/-- ALL accepts only fault-free data. -/
theorem all_ok_no_faults {W : World} (hW : LeafReportsInput W) (hG : LeafNotGroup W)
    (hN : NoneLeafSpec W) {s : Bool} {n : Nat} {T : Ty} {d v : Val}
    (h : load W ⟨.all, s⟩ n T d = .ok v) : Faults W s n T d = [] :=
  (faults_load hW hG hN (m := .all) (by simp) s n T d).1 v h

/-- **Acceptance = absence of faults**: when the ALL load neither lets a foreign
    exception escape nor runs out of fuel, it fails iff the datum has a fault. -/
theorem all_err_iff_faults {W : World} (hW : LeafReportsInput W) (hG : LeafNotGroup W)
    (hN : NoneLeafSpec W) {s : Bool} {n : Nat} {T : Ty} {d : Val}
    (hesc : ∀ x, load W ⟨.all, s⟩ n T d ≠ .escape x) (hdiv : load W ⟨.all, s⟩ n T d ≠ .diverge) :
    (∃ e, load W ⟨.all, s⟩ n T d = .err e) ↔ Faults W s n T d ≠ [] := by
  have hrel := faults_load hW hG hN (m := .all) (by simp) s n T d
  constructor
  · rintro ⟨e, he⟩
    exact faults_rel_err_ne_nil (by simp) (he ▸ hrel)
  · intro hF
    cases hl : load W ⟨.all, s⟩ n T d with
    | ok v => exact absurd (hrel.1 v hl) hF
    | err e => exact ⟨e, rfl⟩
    | escape x => exact absurd hl (hesc x)
    | diverge => exact absurd hl hdiv

/-! ## non-vacuity -/

/-- a small world: strict `int` / `str` / `None` leaves by tag; one model class
    `P(x: int, tags: list[str] = [])` -/
def exW : World where
  classes := fun c =>
    if c == "P" then
      some [⟨"x", .scalar "int", true, .none⟩, ⟨"tags", .iter .list true (.scalar "str"), false, .list []⟩]
    else none
  scalarLoad := fun _ name d =>
    match name, d with
    | "int", .int i => .ok (.int i)
    | "str", .str t => .ok (.str t)
    | "none", .none => .ok .none
    | _, d => .err (LErr.leaf "TypeLoadError" d)
  scalarDump := fun _ x => .ok x

end Adaptix.Morph.C05
