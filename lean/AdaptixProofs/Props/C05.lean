/-
  C05 — Load errors are localised: trails are exact and, in ALL mode, complete.

  Property theorems over the executable loader model `Adaptix.Morph.load`
  (`AdaptixModel/Morph/Load.lean`), for ALL worlds (class tables + scalar leaves),
  types, data, fuels and both coercion modes.  Specification side
  (`Lemmas/MorphTrailDefs.lean`, independent of the loader's folds):

  * `follow d t`      how a reader follows an absolute trail `t` from the root datum `d`;
  * `reports e`       the errors a raised tree reports with their trails (groups are
                      flattened with trails concatenated; a `UnionLoadError` is ONE report);
  * `Faults W s n T d` the independently invalid positions of `d` against `T`;
  * `trailWf d`       the Python dict invariant (keys pairwise not `==`, every key `==` itself);
  * `LeafReportsInput`, `LeafNotGroup`, `NoneLeafSpec`  hypotheses on the scalar leaves.

  Helper lemmas live in `AdaptixProofs/Lemmas/MorphTrail*.lean`.  The `example`s at the
  end are non-vacuity tests on literals.
-/
import AdaptixProofs.Lemmas.MorphTrailComplete
import AdaptixProofs.Lemmas.MorphTrailDisable
import AdaptixProofs.Lemmas.MorphTrailFirst
import AdaptixProofs.Lemmas.MorphTrailNodup
import AdaptixProofs.Lemmas.MorphTrailExample
import AdaptixProofs.Lemmas.MorphLoadTotal

namespace Adaptix.Morph.C05
open Adaptix.Py Adaptix.Morph

/-! ## exactness (FIRST and ALL) -/

/-- **Trails are exact, hereditarily.**  Every exception object of the raised tree —
    group, union, alternative of a union, leaf — is exactly located: following the
    trails concatenated on the way down from the root datum reaches a sub-value, and
    the `input_value` recorded on the object (if any) is that sub-value. -/
theorem trail_exact_tree {W : World} (hW : LeafReportsInput W) {m : DebugTrail} (hm : m ≠ .disable)
    {s : Bool} {n : Nat} {T : Ty} {d : Val} {e : LErr} (hd : trailWf d = true)
    (h : load W ⟨m, s⟩ n T d = .err e) : TrailExact d e :=
  trail_exact_load hW hm s n T d e hd h

/-- **Trails are exact.**  For every reported error of a failed FIRST/ALL load, the
    absolute trail leads from the root datum to a sub-value `x`, and the reported
    `input_value` is `x` itself; only a `UnionLoadError` carries no input.  The only
    looseness: `ExtraItemsLoadError` /
    `NoRequiredItemsLoadError` of the constant-length tuple loader report
    `tuple(data)` (the loader converts before checking), located at the tuple's own
    position. -/
theorem trail_exact {W : World} (hW : LeafReportsInput W) {m : DebugTrail} (hm : m ≠ .disable)
    {s : Bool} {n : Nat} {T : Ty} {d : Val} {e : LErr} (hd : trailWf d = true)
    (h : load W ⟨m, s⟩ n T d = .err e) :
    ∀ p ∈ reports e, ∃ x, follow d p.1 = some x ∧
      (∀ y, p.2.input = some y →
        y = x ∨ ((p.2.cls = "ExtraItemsLoadError" ∨ p.2.cls = "NoRequiredItemsLoadError") ∧
                  ∃ xs, x.iterElems = some xs ∧ y = Val.tuple xs)) ∧
      (p.2.input = none → p.2.cls = "UnionLoadError") := by
  intro p hp
  obtain ⟨hne, x, hx, hi, _⟩ := trail_exact_reports (trail_exact_load hW hm s n T d e hd h) p hp
  refine ⟨x, hx, fun y hy => ?_, fun hnone => ?_⟩
  · rw [hy] at hi
    exact hi
  · rw [hnone] at hi
    exact hi.resolve_left hne

/-- **The alternatives of a reported union are exact too**: for a reported
    `UnionLoadError` at absolute trail `t`, every error reported by one of its
    sub-exceptions at (relative) trail `t'` is located at `t ++ t'` from the root. -/
theorem trail_exact_union_alternatives {W : World} (hW : LeafReportsInput W) {m : DebugTrail}
    (hm : m ≠ .disable) {s : Bool} {n : Nat} {T : Ty} {d : Val} {e : LErr} (hd : trailWf d = true)
    (h : load W ⟨m, s⟩ n T d = .err e) :
    ∀ p ∈ reports e, ∀ c ∈ p.2.children, ∀ q ∈ reports c,
      ∃ x, follow d (p.1 ++ q.1) = some x ∧
        (∀ y, q.2.input = some y →
          y = x ∨ ((q.2.cls = "ExtraItemsLoadError" ∨ q.2.cls = "NoRequiredItemsLoadError") ∧
                    ∃ xs, x.iterElems = some xs ∧ y = Val.tuple xs)) ∧
        (q.2.input = none → q.2.cls = "UnionLoadError") := by
  intro p hp c hc q hq
  obtain ⟨_, x, hx, _, hch⟩ := trail_exact_reports (trail_exact_load hW hm s n T d e hd h) p hp
  obtain ⟨hne, x', hx', hi, _⟩ := trail_exact_reports (hch c hc) q hq
  refine ⟨x', by simp [trail_follow_append, hx, hx'], fun y hy => ?_, fun hnone => ?_⟩
  · rw [hy] at hi
    exact hi
  · rw [hnone] at hi
    exact hi.resolve_left hne

/-! ## DISABLE -/

/-- **DISABLE attaches no trail**, anywhere in the raised tree. -/
theorem disable_no_trail {W : World} (hW : LeafReportsInput W) {s : Bool} {n : Nat} {T : Ty}
    {d : Val} {e : LErr} (h : load W ⟨.disable, s⟩ n T d = .err e) : TrailNone e :=
  trail_none_of_flat (trail_disable_load hW s n T d e h)

/-- in fact the raised error is a single exception object: empty trail, no sub-exceptions
    (a failing union raises a bare `LoadError`) -/
theorem disable_single_object {W : World} (hW : LeafReportsInput W) {s : Bool} {n : Nat} {T : Ty}
    {d : Val} {e : LErr} (h : load W ⟨.disable, s⟩ n T d = .err e) :
    e.trail = [] ∧ e.children = [] :=
  trail_disable_load hW s n T d e h

/-! ## FIRST -/

/-- **FIRST reports exactly one error** (a single chain; no `AggregateLoadError` is ever
    built; a failing union is one report). -/
theorem first_single_report {W : World} (hW : LeafReportsInput W) (hG : LeafNotGroup W) {s : Bool}
    {n : Nat} {T : Ty} {d : Val} {e : LErr} (h : load W ⟨.first, s⟩ n T d = .err e) :
    ∃ t l, reports e = [(t, l)] :=
  trail_first_single hW hG s n T d e h

/-- **FIRST reports exactly one of the faults**, with its full (absolute) trail
    (exactness of that trail is `trail_exact`). -/
theorem first_exactly_one {W : World} (hW : LeafReportsInput W) (hG : LeafNotGroup W)
    (hN : NoneLeafSpec W) {s : Bool} {n : Nat} {T : Ty} {d : Val} {e : LErr}
    (h : load W ⟨.first, s⟩ n T d = .err e) :
    ∃ t l, reports e = [(t, l)] ∧ (t, l.cls) ∈ Faults W s n T d :=
  (faults_load hW hG hN (m := .first) (by simp) s n T d).2 e h

/-- FIRST accepts only fault-free data. -/
theorem first_ok_no_faults {W : World} (hW : LeafReportsInput W) (hG : LeafNotGroup W)
    (hN : NoneLeafSpec W) {s : Bool} {n : Nat} {T : Ty} {d v : Val}
    (h : load W ⟨.first, s⟩ n T d = .ok v) : Faults W s n T d = [] :=
  (faults_load hW hG hN (m := .first) (by simp) s n T d).1 v h

/-! ## ALL -/

/-- **ALL is complete and duplicate-free**: the (absolute trail, class) pairs of the
    reported errors are a permutation of the independently invalid positions `Faults`
    — every fault is reported exactly as often as it occurs in the specification list,
    nothing else is reported.  (No extra "no escape / no divergence" hypothesis is
    needed: an ALL-mode result `.err e` already implies that no element loader
    escaped or ran out of fuel.) -/
theorem all_complete {W : World} (hW : LeafReportsInput W) (hG : LeafNotGroup W)
    (hN : NoneLeafSpec W) {s : Bool} {n : Nat} {T : Ty} {d : Val} {e : LErr}
    (h : load W ⟨.all, s⟩ n T d = .err e) :
    ((reports e).map (fun p => (p.1, p.2.cls))).Perm (Faults W s n T d) :=
  ((faults_load hW hG hN (m := .all) (by simp) s n T d).2 e h).1

/-- the specification names every position at most once: the trails of `Faults` are
    pairwise distinct for data satisfying the dict invariant (class tables with distinct
    field names) -/
theorem faults_trails_distinct {W : World} (hC : FieldNamesDistinct W) {s : Bool} {n : Nat} {T : Ty}
    {d : Val} (hd : trailWf d = true) :
    (Faults W s n T d).Pairwise (fun a b => a.1 ≠ b.1) :=
  faults_distinct hC s n T d hd

/-- **… exactly once**: no two reported errors of an ALL load carry the same absolute
    trail (with `all_complete`: each fault position is reported once, and only those). -/
theorem all_exactly_once {W : World} (hW : LeafReportsInput W) (hG : LeafNotGroup W)
    (hN : NoneLeafSpec W) (hC : FieldNamesDistinct W) {s : Bool} {n : Nat} {T : Ty} {d : Val}
    {e : LErr} (hd : trailWf d = true) (h : load W ⟨.all, s⟩ n T d = .err e) :
    (reports e).Pairwise (fun p q => p.1 ≠ q.1) := by
  have hp := all_complete hW hG hN h
  have hF := faults_distinct hC s n T d hd
  have := hF.perm hp.symm (fun hne => Ne.symm hne)
  exact (List.pairwise_map (f := fun p : List TrailEl × LErr => (p.1, p.2.cls))
    (R := fun a b => a.1 ≠ b.1)).mp this

/-- a failed ALL load reports at least one error -/
theorem all_reports_nonempty {W : World} (hW : LeafReportsInput W) (hG : LeafNotGroup W)
    (hN : NoneLeafSpec W) {s : Bool} {n : Nat} {T : Ty} {d : Val} {e : LErr}
    (h : load W ⟨.all, s⟩ n T d = .err e) : reports e ≠ [] := by
  have := ((faults_load hW hG hN (m := .all) (by simp) s n T d).2 e h).2
  intro hnil
  exact this (by simp [reportKeys, hnil])

/-- ALL accepts only fault-free data. -/
theorem all_ok_no_faults {W : World} (hW : LeafReportsInput W) (hG : LeafNotGroup W)
    (hN : NoneLeafSpec W) {s : Bool} {n : Nat} {T : Ty} {d v : Val}
    (h : load W ⟨.all, s⟩ n T d = .ok v) : Faults W s n T d = [] :=
  (faults_load hW hG hN (m := .all) (by simp) s n T d).1 v h

/-- **Acceptance = absence of faults**: when the ALL load neither lets a foreign
    exception escape nor runs out of fuel, it fails iff the datum has a fault. -/
theorem all_err_iff_faults {W : World} (hW : LeafReportsInput W) (hG : LeafNotGroup W)
    (hN : NoneLeafSpec W) {s : Bool} {n : Nat} {T : Ty} {d : Val}
    (hesc : ∀ x, load W ⟨.all, s⟩ n T d ≠ .escape x) (hdiv : load W ⟨.all, s⟩ n T d ≠ .diverge) :
    (∃ e, load W ⟨.all, s⟩ n T d = .err e) ↔ Faults W s n T d ≠ [] := by
  have hrel := faults_load hW hG hN (m := .all) (by simp) s n T d
  constructor
  · rintro ⟨e, he⟩
    exact faults_rel_err_ne_nil (by simp) (he ▸ hrel)
  · intro hF
    cases hl : load W ⟨.all, s⟩ n T d with
    | ok v => exact absurd (hrel.1 v hl) hF
    | err e => exact ⟨e, rfl⟩
    | escape x => exact absurd hl (hesc x)
    | diverge => exact absurd hl hdiv

/-- **Acceptance = absence of faults, fuel-free** (audit A).  `load` terminates
    (`Lemmas/MorphLoadTotal.lean`), so the "did not run out of fuel" hypothesis of
    `all_err_iff_faults` can be discharged once and for all: from some fuel on, an ALL load
    that lets no foreign exception escape fails iff the datum has a fault — and then
    (`all_complete`) reports exactly the faults. -/
theorem all_err_iff_faults_eventually {W : World} (hW : LeafReportsInput W) (hG : LeafNotGroup W)
    (hN : NoneLeafSpec W) (hA : LeavesAnswer W) (s : Bool) (T : Ty) (d : Val) :
    ∃ N, ∀ n, N ≤ n → (∀ x, load W ⟨.all, s⟩ n T d ≠ .escape x) →
      ((∃ e, load W ⟨.all, s⟩ n T d = .err e) ↔ Faults W s n T d ≠ []) := by
  obtain ⟨N, hN'⟩ := load_total W hA ⟨.all, s⟩ T d
  exact ⟨N, fun n hn hesc => all_err_iff_faults hW hG hN hesc (hN' n hn)⟩

/-! ## non-vacuity -/

/-- the hypotheses on the leaves are satisfiable -/
example : LeafReportsInput trailExW := fun s name d e h => by
  rw [trail_exW_err h]; exact ⟨rfl, rfl, rfl⟩
example : LeafNotGroup trailExW := fun s name d e h => by
  rw [trail_exW_err h]; simp [LErr.leaf, LErr.cls]
example : NoneLeafSpec trailExW := fun s d => by
  cases d <;> simp [trailExW, Val.isNone]
example : FieldNamesDistinct trailExW := fun cls fields h => by
  simp only [trailExW] at h
  split at h
  · cases h; simp
  · cases h

/-- `list[dict[str, int]]` against `[{"a": "x"}, {"b": None, 3: 4}]`: two bad values and one bad key -/
def tLD : Ty := .iter .list true (.dict (.scalar "str") (.scalar "int"))
def dLD : Val := .list [.dict [(.str "a", .str "x")], .dict [(.str "b", .none), (.int 3, .int 4)]]

example : trailWf dLD = true := by
  simp [trailWf, trailWfL, trailWfKV, trailWfP, trailKeysOk, dLD, Val.pyEq]

/-- ALL: nested groups with relative trails … -/
example : load trailExW ⟨.all, true⟩ 3 tLD dLD =
    .err (LErr.agg [
      (LErr.agg [(LErr.leaf "TypeLoadError" (.str "x")).push (.key (.str "a"))]).push (.idx 0),
      (LErr.agg [(LErr.leaf "TypeLoadError" .none).push (.key (.str "b")),
                 (LErr.leaf "TypeLoadError" (.int 3)).push (.itemKey (.int 3))]).push (.idx 1)]) := rfl

/-- … report exactly the three faults with absolute trails and the offending inputs -/
example : ∃ e, load trailExW ⟨.all, true⟩ 3 tLD dLD = .err e ∧
    (reports e).map (fun p => (p.1, p.2.cls, p.2.input)) =
      [([.idx 0, .key (.str "a")], "TypeLoadError", some (.str "x")),
       ([.idx 1, .key (.str "b")], "TypeLoadError", some .none),
       ([.idx 1, .itemKey (.int 3)], "TypeLoadError", some (.int 3))] := ⟨_, rfl, rfl⟩

example : Faults trailExW true 3 tLD dLD =
    [([.idx 0, .key (.str "a")], "TypeLoadError"),
     ([.idx 1, .key (.str "b")], "TypeLoadError"),
     ([.idx 1, .itemKey (.int 3)], "TypeLoadError")] := rfl

example : follow dLD [.idx 0, .key (.str "a")] = some (.str "x") := by
  simp [follow, trailStep, dLD, Val.iterElems, Val.lookup, Val.pyEq]
example : follow dLD [.idx 1, .key (.str "b")] = some .none := by
  simp [follow, trailStep, dLD, Val.iterElems, Val.lookup, Val.pyEq]
example : follow dLD [.idx 1, .itemKey (.int 3)] = some (.int 3) := by
  simp [follow, trailStep, dLD, Val.iterElems, Val.pyEq]

/-- FIRST: one report, the first fault, with its full trail -/
example : ∃ e, load trailExW ⟨.first, true⟩ 3 tLD dLD = .err e ∧
    (reports e).map (fun p => (p.1, p.2.cls, p.2.input)) =
      [([.idx 0, .key (.str "a")], "TypeLoadError", some (.str "x"))] := ⟨_, rfl, rfl⟩

/-- DISABLE: the bare leaf (value before key: `{"b": None, 3: 4}` alone reports the value) -/
example : load trailExW ⟨.disable, true⟩ 3 tLD dLD = .err (LErr.leaf "TypeLoadError" (.str "x")) := rfl

/-! ### all hypotheses together, on concrete multi-fault inputs (audit A) -/

/-- the five world hypotheses hold of ONE world simultaneously -/
theorem world_hyps_witness :
    LeafReportsInput trailExW ∧ LeafNotGroup trailExW ∧ NoneLeafSpec trailExW ∧
    FieldNamesDistinct trailExW ∧ LeavesAnswer trailExW := by
  refine ⟨fun s name d e h => ?_, fun s name d e h => ?_, fun s d => ?_, fun cls fields h => ?_,
    fun s name d => ?_⟩
  · rw [trail_exW_err h]; exact ⟨rfl, rfl, rfl⟩
  · rw [trail_exW_err h]; simp [LErr.leaf, LErr.cls]
  · cases d <;> simp [trailExW, Val.isNone]
  · simp only [trailExW] at h
    split at h
    · cases h; simp
    · cases h
  · simp only [trailExW]
    split <;> simp

theorem dLD_wf : trailWf dLD = true := by
  simp [trailWf, trailWfL, trailWfKV, trailWfP, trailKeysOk, dLD, Val.pyEq]

/-- `trail_exact`, `all_complete`, `all_exactly_once`, `all_reports_nonempty` instantiated with
    every hypothesis discharged: nested containers, three faults in two different elements -/
example : ∃ e, load trailExW ⟨.all, true⟩ 3 tLD dLD = .err e ∧
    (∀ p ∈ reports e, ∃ x, follow dLD p.1 = some x ∧
      (∀ y, p.2.input = some y →
        y = x ∨ ((p.2.cls = "ExtraItemsLoadError" ∨ p.2.cls = "NoRequiredItemsLoadError") ∧
                  ∃ xs, x.iterElems = some xs ∧ y = Val.tuple xs)) ∧
      (p.2.input = none → p.2.cls = "UnionLoadError")) ∧
    ((reports e).map (fun p => (p.1, p.2.cls))).Perm (Faults trailExW true 3 tLD dLD) ∧
    (reports e).Pairwise (fun p q => p.1 ≠ q.1) ∧ reports e ≠ [] := by
  obtain ⟨hW, hG, hN, hC, _⟩ := world_hyps_witness
  have h : load trailExW ⟨.all, true⟩ 3 tLD dLD = .err _ := rfl
  exact ⟨_, h, trail_exact hW (by simp) dLD_wf h, all_complete hW hG hN h,
    all_exactly_once hW hG hN hC dLD_wf h, all_reports_nonempty hW hG hN h⟩

/-- `first_exactly_one` and `disable_single_object` instantiated on the same input -/
example : ∃ e, load trailExW ⟨.first, true⟩ 3 tLD dLD = .err e ∧
    ∃ t l, reports e = [(t, l)] ∧ (t, l.cls) ∈ Faults trailExW true 3 tLD dLD := by
  obtain ⟨hW, hG, hN, _, _⟩ := world_hyps_witness
  have h : load trailExW ⟨.first, true⟩ 3 tLD dLD = .err _ := rfl
  exact ⟨_, h, first_exactly_one hW hG hN h⟩

example : ∃ e, load trailExW ⟨.disable, true⟩ 3 tLD dLD = .err e ∧ e.trail = [] ∧ e.children = [] := by
  have h : load trailExW ⟨.disable, true⟩ 3 tLD dLD = .err _ := rfl
  exact ⟨_, h, disable_single_object world_hyps_witness.1 h⟩

/-- the fuel-free acceptance criterion instantiated -/
example : ∃ N, ∀ n, N ≤ n → (∀ x, load trailExW ⟨.all, true⟩ n tLD dLD ≠ .escape x) →
    ((∃ e, load trailExW ⟨.all, true⟩ n tLD dLD = .err e) ↔ Faults trailExW true n tLD dLD ≠ []) :=
  all_err_iff_faults_eventually world_hyps_witness.1 world_hyps_witness.2.1 world_hyps_witness.2.2.1
    world_hyps_witness.2.2.2.2 true tLD dLD

/-- a model: a bad field and a bad element of a list field -/
def dP : Val := .dict [(.str "x", .str "bad"), (.str "tags", .list [.str "ok", .int 5])]

example : load trailExW ⟨.all, true⟩ 4 (.model "P") dP = .err (LErr.agg [
      (LErr.leaf "TypeLoadError" (.str "bad")).push (.key (.str "x")),
      (LErr.agg [(LErr.leaf "TypeLoadError" (.int 5)).push (.idx 1)]).push (.key (.str "tags"))]) := by
  simp [load, trailExW, dP, loadModel, modelItems, Val.lookup, Val.pyEq, seqMode, sweepAll,
    Sweep.finish, bindO, loadIter, strictExcluded, Val.isMapping, Val.isStr, Val.iterElems,
    idxItems, LErr.pushO]

example : (reports (LErr.agg [
      (LErr.leaf "TypeLoadError" (.str "bad")).push (.key (.str "x")),
      (LErr.agg [(LErr.leaf "TypeLoadError" (.int 5)).push (.idx 1)]).push (.key (.str "tags"))])).map
        (fun p => (p.1, p.2.cls, p.2.input)) =
    [([.key (.str "x")], "TypeLoadError", some (.str "bad")),
     ([.key (.str "tags"), .idx 1], "TypeLoadError", some (.int 5))] := rfl

example : follow dP [.key (.str "tags"), .idx 1] = some (.int 5) := by
  simp [follow, trailStep, dP, Val.iterElems, Val.lookup, Val.pyEq]

/-- a missing required field is reported at the model's own position, next to the
    faults of the present fields -/
def dP2 : Val := .dict [(.str "tags", .list [.int 1])]

example : load trailExW ⟨.all, true⟩ 4 (.model "P") dP2 = .err (LErr.agg [
      LErr.leafD "NoRequiredFieldsLoadError" dP2 ["x"],
      (LErr.agg [(LErr.leaf "TypeLoadError" (.int 1)).push (.idx 0)]).push (.key (.str "tags"))]) := by
  simp [load, trailExW, dP2, loadModel, modelItems, missingRequired, Val.lookup, Val.pyEq, seqMode,
    sweepAll, Sweep.finish, bindO, loadIter, strictExcluded, Val.isMapping, Val.isStr,
    Val.iterElems, idxItems, LErr.pushO]

example : Faults trailExW true 3 (.model "P") dP2 =
    [([], "NoRequiredFieldsLoadError"), ([.key (.str "tags"), .idx 0], "TypeLoadError")] := by
  have h1 : Val.lookup (.str "x") [(Val.str "tags", Val.list [.int 1])] = none := by
    simp [Val.lookup, Val.pyEq]
  have h2 : Val.lookup (.str "tags") [(Val.str "tags", Val.list [.int 1])] = some (.list [.int 1]) := by
    simp [Val.lookup, Val.pyEq]
  show Faults trailExW true (2 + 1) (.model "P") dP2 = _
  simp only [Faults, trailExW, dP2, beq_self_eq_true, ↓reduceIte, List.any_cons, h1, h2, List.flatMap_cons]
  rfl

/-- the tuple loader's arity errors show `tuple(data)`: the one looseness of `trail_exact` -/
example : load trailExW ⟨.all, true⟩ 2 (.tuple [.scalar "int", .scalar "int"]) (.list [.int 1]) =
    .err (LErr.leaf "NoRequiredItemsLoadError" (.tuple [.int 1])) := rfl

/-- `Optional[int]` against a string: ONE report (the union) whose alternatives explain it -/
example : load trailExW ⟨.all, true⟩ 2 (.union [.scalar "int", .scalar "none"] ["int", "NoneType"]) (.str "x") =
    .err (LErr.union [LErr.leaf "TypeLoadError" (.str "x"), LErr.leaf "TypeLoadError" (.str "x")]) := rfl
example : Faults trailExW true 2 (.union [.scalar "int", .scalar "none"] ["int", "NoneType"]) (.str "x") =
    [([], "UnionLoadError")] := rfl

/-- the dict invariant is needed: `{1: "a", True: 5}` is not a Python dict (`1 == True`);
    the key error of the second pair carries `ItemKey(True)`, which a reader resolves to
    the first key -/
def dBad : Val := .dict [(.int 1, .int 0), (.bool true, .int 5)]
example : trailWf dBad = false := by
  simp [trailWf, trailWfKV, trailWfP, trailKeysOk, dBad, Val.pyEq]
example : ∃ e, load trailExW ⟨.all, true⟩ 2 (.dict (.scalar "int") (.scalar "int")) dBad = .err e ∧
    (reports e).map (fun p => (p.1, p.2.cls, p.2.input)) =
      [([.itemKey (.bool true)], "TypeLoadError", some (.bool true))] := ⟨_, rfl, rfl⟩
example : follow dBad [.itemKey (.bool true)] = some (.int 1) := by
  simp [follow, trailStep, dBad, Val.pyEq]

end Adaptix.Morph.C05
