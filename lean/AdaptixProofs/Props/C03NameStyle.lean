/-
  C03 — `name_style`: what the conversion of a field name may change.

  `Props/C03.lean` treats the style conversion as an abstract function of the field name.
  Here it is the concrete model of `name_style.py` (`AdaptixModel/Layout/NameStyle.lean`), and
  the documented reading "a name style changes the letter case and the word separator, and
  nothing else" is proved for every ASCII snake-case name and all 16 styles.  Consequence for
  the layout: under a style with a separator two different lower-case field names never get
  the same key (`styled_keys_distinct`), and it is exhibited that the separator-less styles
  do not have this property (`camel_collision`).

  Property theorems only; helper lemmas in `Lemmas/NameStyle.lean`.  Tie: the `name-style`
  correspondence of harness/props/c03_namestyle.py (real `convert_snake_style` vs `convert`,
  exhaustive over short names, all styles) and the end-to-end oracle through `name_mapping`.
-/
import AdaptixProofs.Lemmas.NameStyle

namespace Adaptix.Layout.NameStyle.Props
open Adaptix.Layout.NameStyle

variable {n r : List Nat} {st : Style}

/-- the names the model covers: non-empty, ASCII word characters -/
def Snake (n : List Nat) : Prop := n ≠ [] ∧ ∀ c ∈ n, isWord c = true

/-- a separator is never a word character other than `_` -/
theorem sep_not_word (st : Style) : ∀ s ∈ (conv st).sep, isWord s = false ∨ s = US := by
  cases st <;> simp [conv, isWord, isLetter, isUpper, isLower, isDigit, US]

/-- every style has no separator or a one-character separator -/
theorem sep_shape (st : Style) : (conv st).sep = [] ∨ ∃ s, (conv st).sep = [s] := by
  cases st <;> simp [conv]

/-- **when the conversion fails**: exactly for the empty name, a name with a character that is
    no word character, and a name of underscores only -/
theorem convert_fails_iff (n : List Nat) (st : Style) :
    (∀ r, convert n st ≠ .ok r) ↔ (n = [] ∨ (∃ c ∈ n, isWord c = false) ∨ ∀ c ∈ n, c = US) := by
  unfold convert
  constructor
  · intro h
    by_cases h1 : (n.isEmpty || !n.all isWord) = true
    · simp only [Bool.or_eq_true, List.isEmpty_iff, Bool.not_eq_true', List.all_eq_false] at h1
      rcases h1 with h1 | ⟨c, hc, hw⟩
      · exact .inl h1
      · exact .inr (.inl ⟨c, hc, by simpa using hw⟩)
    · by_cases h2 : n.all (· == US) = true
      · exact .inr (.inr (by simpa using h2))
      · simp only [h1, h2] at h
        exact absurd rfl (h _)
  · rintro (rfl | ⟨c, hc, hw⟩ | h) r
    · simp
    · have : (n.isEmpty || !n.all isWord) = true := by
        simp only [Bool.or_eq_true, Bool.not_eq_true', List.all_eq_false]
        exact .inr ⟨c, hc, by simp [hw]⟩
      simp [this]
    · by_cases h1 : (n.isEmpty || !n.all isWord) = true
      · simp [h1]
      · have h2 : n.all (· == US) = true := by simpa using h
        simp [h1, h2]

/-- the shape of a successful conversion -/
theorem convert_ok_eq (h : convert n st = .ok r) :
    r = (split n).front ++ applyCase (conv st).first (split n).first ++
      subRest (conv st) false (split n).rest ++ (split n).trailing := by
  unfold convert at h
  split at h
  · cases h
  split at h
  · cases h
  · cases h; rfl

/-- **a style with a separator changes only letter case and the separator**: mapping the
    separator back to `_` and lower-casing the key gives the lower-cased field name — for
    every snake-case name, leading / trailing / repeated underscores and digits included. -/
theorem style_changes_only_case_and_separator {s : Nat} (hn : Snake n) (hsep : (conv st).sep = [s])
    (h : convert n st = .ok r) : r.map (unstyle s) = n.map toLower := by
  have hs : isWord s = false ∨ s = US := sep_not_word st s (by simp [hsep])
  have hw : ∀ {c}, (c ∈ (split n).front ∨ c ∈ (split n).first ∨ c ∈ (split n).rest ∨ c ∈ (split n).trailing) →
      isWord c = true := fun hc => hn.2 _ (mem_parts hc)
  rw [convert_ok_eq h]
  simp only [List.map_append]
  rw [map_unstyle_of_words hs (fun c hc => hw (.inl hc)),
    map_unstyle_of_words hs (applyCase_words _ (fun c hc => hw (.inr (.inl hc)))),
    applyCase_lower, subRest_unstyle hsep hs false (fun c hc => hw (.inr (.inr (.inl hc)))),
    map_unstyle_of_words hs (fun c hc => hw (.inr (.inr (.inr hc))))]
  simp only [← List.map_append, split_concat]

/-- **a style without a separator changes only letter case and drops the inner underscores** -/
theorem nosep_style_changes_only_case (hsep : (conv st).sep = []) (h : convert n st = .ok r) :
    r.map toLower =
      ((split n).front ++ (split n).first ++ (split n).rest.filter (· != US) ++ (split n).trailing).map toLower := by
  rw [convert_ok_eq h]
  simp only [List.map_append, applyCase_lower, subRest_nosep hsep]

/-- lower-case names (what PEP 8 field names are): no upper-case letter -/
def LowerName (n : List Nat) : Prop := ∀ c ∈ n, toLower c = c

theorem lowerName_map {n : List Nat} (h : LowerName n) : n.map toLower = n := by
  induction n with
  | nil => rfl
  | cons c cs ih =>
    simp only [List.map_cons, h c (by simp), ih (fun x hx => h x (by simp [hx]))]

/-- **keys stay distinct**: under a style with a separator, two lower-case snake names with the
    same key are the same name — a style never merges two fields of a model. -/
theorem styled_keys_distinct {n₁ n₂ : List Nat} {s : Nat} (h₁ : Snake n₁) (h₂ : Snake n₂)
    (l₁ : LowerName n₁) (l₂ : LowerName n₂) (hsep : (conv st).sep = [s])
    (c₁ : convert n₁ st = .ok r) (c₂ : convert n₂ st = .ok r) : n₁ = n₂ := by
  have e₁ := style_changes_only_case_and_separator h₁ hsep c₁
  have e₂ := style_changes_only_case_and_separator h₂ hsep c₂
  rw [lowerName_map l₁] at e₁
  rw [lowerName_map l₂] at e₂
  exact e₁.symm.trans e₂

/-- … which the separator-less styles do not guarantee: `a_b` and `a__b` are both `aB` -/
theorem camel_collision :
    convert [97, 95, 98] .camel = .ok [97, 66] ∧ convert [97, 95, 95, 98] .camel = .ok [97, 66] := by
  decide

/-- **LOWER_SNAKE is the identity on lower-case names** (the default spelling is kept) -/
theorem lower_snake_identity (hn : Snake n) (hl : LowerName n) (h : convert n .lowerSnake = .ok r) : r = n := by
  have e := style_changes_only_case_and_separator (s := US) hn rfl h
  rw [lowerName_map hl] at e
  -- every character of the result is already lower case and no separator other than `_` occurs
  have hr : r.map (unstyle US) = r.map toLower := by
    apply List.map_congr_left
    intro c _
    unfold unstyle
    split
    · rename_i hc; rw [hc]; exact toLower_us.symm
    · rfl
  rw [hr] at e
  have hlow : r.map toLower = r := by
    rw [convert_ok_eq h]
    simp only [List.map_append, conv, applyCase, List.map_map]
    have hf : ∀ l : List Nat, (∀ c ∈ l, c ∈ n) → l.map toLower = l :=
      fun l hl' => lowerName_map (fun c hc => hl c (hl' c hc))
    have hsub : ∀ (b : Bool) (xs : List Nat), (subRest ⟨[95], .lower, .lower⟩ b xs).map toLower =
        subRest ⟨[95], .lower, .lower⟩ b xs := by
      intro b xs
      induction xs generalizing b with
      | nil => rfl
      | cons x xs ih =>
        unfold subRest
        split
        · simp [ih false]; decide
        · simp [ih false, toLower_toLower]
    rw [hf _ (fun c hc => mem_parts (.inl hc)), hf _ (fun c hc => mem_parts (.inr (.inr (.inr hc)))), hsub]
    congr 2
    congr 1
    apply List.map_congr_left
    intro c _
    exact toLower_toLower c
  rw [hlow] at e
  exact e

/-! non-vacuity / documented examples (tests of the model on the documentation's table) -/
-- "a_b_c1" under every style family
example : convert [97, 95, 98] .camel = .ok [97, 66] := by decide                                  -- a_b -> aB
example : convert [95, 97, 98, 95, 99, 100, 95] .pascalKebab = .ok [95, 65, 98, 45, 67, 100, 95] := by decide  -- _ab_cd_ -> _Ab-Cd_
example : convert [97, 49, 98, 95, 99] .pascal = .ok [65, 49, 66, 67] := by decide                 -- a1b_c -> A1BC (title after a digit)
example : convert [95, 95] .camel = .noMatch := by decide
example : convert [97, 45] .camel = .notSnake := by decide
example : Snake [97, 95, 98] ∧ LowerName [97, 95, 98] := by
  refine ⟨⟨by simp, ?_⟩, ?_⟩ <;> intro c hc <;> simp at hc <;> rcases hc with rfl | rfl | rfl <;> decide

end Adaptix.Layout.NameStyle.Props
