/-
  C19 — Generated code treats names and keys purely as data.
  Property theorems only; helper lemmas live in `AdaptixProofs/Lemmas/Quote*.lean`.

  Strings are lists of code points (`Str`), quantified without bound.  `printable`
  (`str.isprintable` of one character) and `idCont` (`("_" + c).isidentifier()`) are
  parameters: tables of the Unicode database of the interpreter, not of adaptix.
-/
import AdaptixModel.Gen.Quote
import AdaptixModel.Gen.Names
import AdaptixModel.Gen.Skeleton
import AdaptixModel.Gen.CtorCall
import AdaptixModel.Generated.C19Sites
import AdaptixProofs.Lemmas.Quote
import AdaptixProofs.Lemmas.QuoteNames
import AdaptixProofs.Lemmas.QuoteSkeleton
import AdaptixProofs.Lemmas.QuoteCtorCall
import AdaptixProofs.Lemmas.QuoteBroach

namespace Adaptix.Gen.C19

open Adaptix.Gen
open Adaptix.Generated.C19

/-! ## data of the witnesses (`…_witness` theorems show that the hypotheses of a theorem hold TOGETHER on
    concrete, non-degenerate data, and apply the theorem to it) -/

private def codes (s : String) : Str := s.toList.map Char.toNat
private def ascii : Nat → Bool := fun _ => false

/-- a non-trivial `str.isprintable` oracle: from U+00A1 on, except the soft hyphen, LS / PS and the surrogates -/
def demoPrintable : Nat → Bool :=
  fun c => decide (161 ≤ c) && !(decide (0xD800 ≤ c) && decide (c ≤ 0xDFFF)) && c != 173 && c != 0x2028 && c != 0x2029

/-- the hypothesis on the oracle is satisfiable by an oracle that does print non-ASCII characters -/
theorem demoPrintable_ok : SurrogatesNotPrintable demoPrintable := by
  intro c h1 h2
  simp [demoPrintable, h1, h2]

/-- `"]+__import__('os').system("x")+["\\\n{}$é` + LS + a lone surrogate: both quotes, backslash, newline,
    braces, `$`, printable and non-printable non-ASCII -/
def hostileKey : Str :=
  [34, 93, 43, 95, 95, 105, 109, 112, 111, 114, 116, 95, 95, 40, 39, 111, 115, 39, 41, 46, 115, 121, 115, 116, 101,
   109, 40, 34, 120, 34, 41, 43, 91, 34, 92, 10, 123, 125, 36, 233, 0x2028, 0xDC80, 0x1F600]

theorem hostileKey_wf : Str.WF hostileKey := by
  intro c hc
  simp only [hostileKey, List.mem_cons, List.not_mem_nil, or_false] at hc
  omega

/-! ## 1. quoting -/

/-- **A `!r`-quoted string is exactly one string literal whose value is the string.**
    For every Python string `s` (any length, any code points incl. quotes, backslashes,
    braces, `$`, newlines, control and non-printable characters, lone surrogates) and every
    following text `rest`, the Python lexer reads `repr(s) ++ rest` as one literal with value
    `s` and continues at `rest`: the text of a key can neither end its literal early nor
    contribute a token of its own.  (`''` directly followed by `'` would open a triple-quoted
    literal; the generators never put a quote after an interpolation — `sites_classified`.) -/
theorem repr_lex_roundtrip (printable : Nat → Bool) (hp : SurrogatesNotPrintable printable)
    (s : Str) (hs : Str.WF s) (rest : Str) (hrest : s = [] → rest.head? ≠ some 39) :
    lexString (pyRepr printable s ++ rest) = some (s, rest) := by
  have hq := chooseQuote_cases s
  have hshape : pyRepr printable s ++ rest
      = chooseQuote s :: (reprBody printable (chooseQuote s) s ++ chooseQuote s :: rest) := by
    simp [pyRepr]
  rw [hshape, lexString_cons (chooseQuote s) hq]
  · apply lexBody_reprBody printable hp (chooseQuote s) hq s hs rest
    have := reprBody_length printable (chooseQuote s) s
    simp; omega
  · intro tl heq
    cases s with
    | nil =>
      have h39 : chooseQuote ([] : Str) = 39 := by simp [chooseQuote]
      rw [h39] at heq
      simp [reprBody] at heq
      exact hrest rfl (by rw [heq]; rfl)
    | cons c t =>
      have hne := escChar_head_ne_quote printable (chooseQuote (c :: t)) hq c
      have hpos := escChar_length_pos printable (chooseQuote (c :: t)) c
      cases he : escChar printable (chooseQuote (c :: t)) c with
      | nil => simp [he] at hpos
      | cons e es =>
        rw [he] at hne
        simp [reprBody, List.flatMap_cons, he] at heq
        exact hne (by rw [heq.1]; rfl)

/-- witness for `repr_lex_roundtrip`: all hypotheses hold together for a printing oracle, a 43-character hostile key
    and the text `] = 1` after it (and for the empty key in front of `]`) -/
theorem repr_lex_roundtrip_witness :
    SurrogatesNotPrintable demoPrintable ∧ Str.WF hostileKey
    ∧ lexString (pyRepr demoPrintable hostileKey ++ [93, 32, 61, 32, 49]) = some (hostileKey, [93, 32, 61, 32, 49])
    ∧ lexString (pyRepr demoPrintable [] ++ [93]) = some ([], [93]) :=
  ⟨demoPrintable_ok, hostileKey_wf,
   repr_lex_roundtrip demoPrintable demoPrintable_ok hostileKey hostileKey_wf _ (by intro h; cases h),
   repr_lex_roundtrip demoPrintable demoPrintable_ok [] (by intro c hc; cases hc) _ (by intro _; decide)⟩

/-- **Different keys give different literals**: `repr` is injective on well-formed strings, so two distinct
    external keys can never be confused inside the generated function (consequence of the round trip — the
    literal determines its value). -/
theorem repr_injective (printable : Nat → Bool) (hp : SurrogatesNotPrintable printable)
    (s t : Str) (hs : Str.WF s) (ht : Str.WF t) (h : pyRepr printable s = pyRepr printable t) : s = t := by
  have h1 := repr_lex_roundtrip printable hp s hs [] (by intro _; simp)
  have h2 := repr_lex_roundtrip printable hp t ht [] (by intro _; simp)
  rw [h] at h1
  rw [h1] at h2
  simpa using h2

/-- **`repr` output is one printable line**: every ASCII character of `repr(s)` is in
    `0x20..0x7e` (no raw newline, tab, NUL or DEL), every non-ASCII character is one the
    interpreter calls printable.  So a quoted key cannot break the line or indentation
    structure of the generated function, also inside the `# …` header comments. -/
theorem repr_output_printable (printable : Nat → Bool) (s : Str) :
    ∀ c ∈ pyRepr printable s, (c < 128 → 32 ≤ c ∧ c ≠ 127) ∧ (128 ≤ c → printable c = true) := by
  have hq := chooseQuote_cases s
  intro c hc
  simp only [pyRepr, reprBody, List.mem_cons, List.mem_append, List.mem_flatMap, List.mem_singleton,
    List.not_mem_nil, or_false] at hc
  rcases hc with rfl | ⟨x, _, hx⟩ | rfl
  · exact okOut_ascii printable _ (by omega) (by omega)
  · exact escChar_ok printable (chooseQuote s) hq x c hx
  · exact okOut_ascii printable _ (by omega) (by omega)

/-- **A quoted key inside a header comment keeps the comment well formed**: whatever the key, the comment
    `# <pre><repr(key)><post>` contains no newline (it is a well-formed `Piece.comment`, so `lex_render` /
    `skeleton_independent` apply to programs whose comments quote keys — `# suffix to path` header of the dumper). -/
theorem repr_in_comment_ok (printable : Nat → Bool) (pre post s : Str)
    (hpre : ∀ c ∈ pre, c ≠ 10) (hpost : ∀ c ∈ post, c ≠ 10) :
    (Piece.comment (pre ++ pyRepr printable s ++ post)).ok := by
  intro c hc
  rcases List.mem_append.mp hc with hc | hc
  · rcases List.mem_append.mp hc with hc | hc
    · exact hpre c hc
    · have := repr_output_printable printable s c hc
      intro h10
      have := this.1 (by omega)
      omega
  · exact hpost c hc

/-! ## 2. names -/

/-- **No collision between generated names, fixed names and builtins** — for ANY name
    table that passes the decidable separation check, all field ids `a b` (arbitrary strings)
    and all families `p q`:
    * `p ++ a = q ++ b` only if `p = q` and `a = b` (distinct ids or families give distinct names),
    * `p ++ a` is never a fixed identifier of the templates,
    * never a path-suffixed generator variable (`h ++ anything`),
    * never a builtin name.
    This is exactly what the prefix mangling of loader_gen / dumper_gen guarantees; the
    concrete tables are discharged below on the lists regenerated from the source. -/
theorem no_name_collision (builtins : List Str) (spec : NameSpec) (hsep : spec.separated builtins = true)
    (p : Str) (hp : p ∈ spec.families) (a : Str) :
    (∀ q ∈ spec.families, ∀ b, p ++ a = q ++ b → p = q ∧ a = b)
    ∧ p ++ a ∉ spec.fixed
    ∧ (∀ h ∈ spec.heads, ∀ t, p ++ a ≠ h ++ t)
    ∧ p ++ a ∉ builtins := by
  simp only [NameSpec.separated, Bool.and_eq_true, List.all_eq_true, Bool.not_eq_true'] at hsep
  obtain ⟨⟨⟨hpw, hfix⟩, hheads⟩, hbi⟩ := hsep
  refine ⟨?_, ?_, ?_, ?_⟩
  · intro q hq b hab
    by_cases hpq : p = q
    · subst hpq
      exact ⟨rfl, List.append_cancel_left hab⟩
    · have hc := append_eq_append_comparable hab
      have := pairwiseB_spec (fun p q => !comparable p q)
        (by intro x y; simp [comparable_comm]) spec.families hpw p hp q hq hpq
      simp [hc] at this
  · intro hmem
    have := hfix p hp (p ++ a) hmem
    simp [isPrefixOf_append_self] at this
  · intro h hh t hab
    have hc := append_eq_append_comparable hab
    have := hheads p hp h hh
    simp [hc] at this
  · intro hmem
    have := hbi p hp (p ++ a) hmem
    simp [isPrefixOf_append_self] at this

/-- The name tables extracted from loader_gen.py of the tree under test are separated. -/
theorem loader_names_separated : loaderSpec.separated builtinNames = true := by decide +kernel

/-- The name tables extracted from dumper_gen.py of the tree under test are separated. -/
theorem dumper_names_separated : dumperSpec.separated builtinNames = true := by decide +kernel

/-- the extracted tables are not degenerate (an empty family / fixed / builtin list would make the two
    `decide`s above true for no reason): at least two families, the template identifiers, path-suffixed heads
    and the builtins are there — the completeness of the tables is what the `names` correspondence checks
    (every identifier of the real sources is accounted for by them) -/
theorem name_tables_nontrivial :
    2 ≤ loaderSpec.families.length ∧ 5 ≤ loaderSpec.fixed.length ∧ 1 ≤ loaderSpec.heads.length
    ∧ 2 ≤ dumperSpec.families.length ∧ 5 ≤ dumperSpec.fixed.length ∧ 1 ≤ dumperSpec.heads.length
    ∧ 20 ≤ builtinNames.length ∧ [] ∉ loaderSpec.families ∧ [] ∉ dumperSpec.families := by decide +kernel

/-- `no_name_collision` on the tables of loader_gen.py of the tree under test: its hypotheses hold together
    (`loader_names_separated`, four families), e.g. `f_x ≠ r_x`, `f_data ≠ data`, `r_eturn ≠ return`,
    `f_` ++ id is never `data_<n>` … for every id. -/
theorem no_name_collision_loader (p : Str) (hp : p ∈ loaderSpec.families) (a : Str) :
    (∀ q ∈ loaderSpec.families, ∀ b, p ++ a = q ++ b → p = q ∧ a = b)
    ∧ p ++ a ∉ loaderSpec.fixed
    ∧ (∀ h ∈ loaderSpec.heads, ∀ t, p ++ a ≠ h ++ t)
    ∧ p ++ a ∉ builtinNames :=
  no_name_collision builtinNames loaderSpec loader_names_separated p hp a

/-- the same for dumper_gen.py -/
theorem no_name_collision_dumper (p : Str) (hp : p ∈ dumperSpec.families) (a : Str) :
    (∀ q ∈ dumperSpec.families, ∀ b, p ++ a = q ++ b → p = q ∧ a = b)
    ∧ p ++ a ∉ dumperSpec.fixed
    ∧ (∀ h ∈ dumperSpec.heads, ∀ t, p ++ a ≠ h ++ t)
    ∧ p ++ a ∉ builtinNames :=
  no_name_collision builtinNames dumperSpec dumper_names_separated p hp a

/-- witness: the family `f_` of the loader with the ids `data` (a fixed name), `print` (a builtin), `_3`
    (would complete the head `data_` if the family were `data`) -/
theorem no_name_collision_witness :
    [102, 95] ∈ loaderSpec.families ∧ [100, 97, 116, 97] ∈ loaderSpec.fixed
    ∧ [102, 95] ++ [100, 97, 116, 97] ∉ loaderSpec.fixed
    ∧ [102, 95] ++ [112, 114, 105, 110, 116] ∉ builtinNames
    ∧ [102, 95] ++ [100, 97, 116, 97] ≠ [114, 95] ++ [100, 97, 116, 97] := by
  have hf : [102, 95] ∈ loaderSpec.families := by decide
  have h1 := no_name_collision_loader [102, 95] hf [100, 97, 116, 97]
  have h2 := no_name_collision_loader [102, 95] hf [112, 114, 105, 110, 116]
  refine ⟨hf, by decide, h1.2.1, h2.2.2.2, ?_⟩
  intro heq
  have := (h1.1 [114, 95] (by decide) _ heq).1
  exact absurd this (by decide)

/-- **A generated name is never a keyword** — for any table whose family prefixes are prefixes of no keyword
    (decidable, discharged below) and every field id: `p ++ id ∉ keyword.kwlist`.  So a field called `class_`,
    `None_` or (TypedDict) `class` itself can never put a keyword where the templates expect a variable. -/
theorem generated_name_not_keyword (keywords : List Str) (spec : NameSpec) (hk : spec.keywordFree keywords = true)
    (p : Str) (hp : p ∈ spec.families) (a : Str) : p ++ a ∉ keywords := by
  simp only [NameSpec.keywordFree, List.all_eq_true, Bool.not_eq_true'] at hk
  intro hmem
  have := hk p hp (p ++ a) hmem
  simp [isPrefixOf_append_self] at this

theorem loader_names_keyword_free : loaderSpec.keywordFree pyKeywords = true := by decide +kernel
theorem dumper_names_keyword_free : dumperSpec.keywordFree pyKeywords = true := by decide +kernel

-- the check can fail: a family `cl` would make the id `ass` a keyword
example : ¬ (NameSpec.keywordFree pyKeywords { families := [[99, 108]], fixed := [], heads := [] } = true) := by decide

/-- the extracted tables spell every family prefix, fixed name and head like an identifier -/
theorem loader_names_well_spelled : loaderSpec.wellSpelled = true := by decide +kernel
theorem dumper_names_well_spelled : dumperSpec.wellSpelled = true := by decide +kernel

/-- **A generated name is exactly ONE name token of its own family, and not a keyword — whatever the field id.**
    For any table passing the three decidable checks, any family `p`, any id `i` made of identifier characters
    (every validated field id: `field_ids_validated`; non-ASCII included) and any following text that does not
    continue an identifier: the lexer reads `p ++ i` followed by the rest as the single token NAME(`p ++ i`), the
    skeleton classifies it as a member of family `p` (of no other family, not as a fixed word), and the parser
    does not take it for a keyword.  The name-side counterpart of `repr_lex_roundtrip`. -/
theorem generated_name_one_token (spec : NameSpec)
    (hpw : pairwiseB (fun p q => !comparable p q) spec.families = true)
    (hws : spec.wellSpelled = true) (hkw : spec.keywordFree pyKeywords = true)
    (p : Str) (hp : p ∈ spec.families) (i : Str) (hi : ∀ c ∈ i, isIdCont c = true)
    (rest : Str) (hrest : ∀ x, rest.head? = some x → isIdCont x = false) (ts : List Tok) (f : Nat)
    (h : lexToks f rest = some ts) :
    lexToks (f + 1) (p ++ i ++ rest) = some (Tok.name (p ++ i) :: ts)
    ∧ skelTok spec.families (Tok.name (p ++ i)) = Skel.gen p
    ∧ (Tok.name (p ++ i)).isKeyword pyKeywords = false := by
  simp only [NameSpec.wellSpelled, Bool.and_eq_true, List.all_eq_true] at hws
  have hpl : identLike p := identLike_of_B (hws.1.1 p hp)
  refine ⟨lex_word f (p ++ i) rest ts (identLike_append hpl hi) hrest h, ?_, ?_⟩
  · simp [skelTok, find_family spec.families hpw p i hp]
  · have := generated_name_not_keyword pyKeywords spec hkw p hp i
    simpa [Tok.isKeyword] using this

/-- witness for `generated_name_one_token`: the loader's tables satisfy the three checks; the id `classé_` in
    family `f_`, followed by ` = 1` -/
theorem generated_name_one_token_witness :
    lexToks 6 ([102, 95] ++ [99, 108, 97, 115, 115, 233, 95] ++ [32, 61, 32, 49])
        = some [Tok.name [102, 95, 99, 108, 97, 115, 115, 233, 95], Tok.op 61, Tok.num [49]]
    ∧ skelTok loaderSpec.families (Tok.name ([102, 95] ++ [99, 108, 97, 115, 115, 233, 95])) = Skel.gen [102, 95] := by
  have hsep := loader_names_separated
  simp only [NameSpec.separated, Bool.and_eq_true] at hsep
  have := generated_name_one_token loaderSpec hsep.1.1.1 loader_names_well_spelled loader_names_keyword_free
    [102, 95] (by decide) [99, 108, 97, 115, 115, 233, 95] (by decide) [32, 61, 32, 49]
    (by intro x hx; simp at hx; subst hx; decide) [Tok.op 61, Tok.num [49]] 5 (by decide)
  exact ⟨this.1, this.2.1⟩

/-- Field ids reaching the generators are Python identifiers: `BaseField.__post_init__`
    still refuses everything else (so an id has no newline, quote, space or operator). -/
theorem field_ids_validated : fieldIdValidated = true := by decide

/-- **`register_mangled` hands out only free names.**  Whatever name the converter's
    mangling returns (the sanitised base, or `base_i` for the first accepted `i`) is not a
    parameter of the generated function nor its own name (`occupied`), not a registered
    variable, not an outer constant, not a builtin (unless builtins are allowed), and it is
    bound to this very object: an already existing constant of that name is accepted only
    if it is the identical object (`value is self._constants[name]`). -/
theorem register_mangled_fresh (builtins : List Str) (ns : Namespace) (base : Str) (obj fuel : Nat)
    (name : Str) (ns' : Namespace) (h : registerMangled builtins ns base obj fuel = some (name, ns')) :
    FreshFor builtins ns ns' name obj := by
  unfold registerMangled at h
  split at h
  · rename_i ns1 hadd
    simp at h
    obtain ⟨hn, hns⟩ := h
    subst hn; subst hns
    exact tryAddConstant_fresh builtins ns ns1 _ obj hadd
  · exact mangleLoop_fresh builtins ns base obj fuel 1 name ns' h

/-- **`register_mangled` changes nothing else**: the namespace after the call differs from the one before at most
    by the ONE new binding `name ↦ obj`, and only if `name` was unbound — parameters, variables, outer constants
    stay, and every constant bound before keeps its object (a hostile name cannot rebind `coercer`, `constant_0` …). -/
theorem register_mangled_frame (builtins : List Str) (ns : Namespace) (base : Str) (obj fuel : Nat)
    (name : Str) (ns' : Namespace) (h : registerMangled builtins ns base obj fuel = some (name, ns')) :
    Frame ns ns' name obj ∧ ∀ n o, lookupName ns.constants n = some o → lookupName ns'.constants n = some o := by
  have hf : Frame ns ns' name obj := by
    unfold registerMangled at h
    split at h
    · rename_i ns1 hadd
      simp at h
      obtain ⟨hn, hns⟩ := h
      subst hn; subst hns
      exact tryAddConstant_frame builtins ns ns1 _ obj hadd
    · exact mangleLoop_frame builtins ns base obj fuel 1 name ns' h
  exact ⟨hf, hf.keeps⟩

/-- **`register_mangled` always finds a name** (the generation-succeeds half): whatever the namespace contains and
    whatever the base, with fuel above the number of names the namespace can refuse (`Namespace.blockers`: finite)
    the loop returns — the names `base_1, base_2, …` are pairwise distinct (`decimal_injective`), so they cannot all
    be taken (pigeonhole, `distinct_run_le_length`).  The real loop is `itertools.count(1)`: unbounded fuel. -/
theorem register_mangled_total (builtins : List Str) (ns : Namespace) (base : Str) (obj : Nat) :
    ∀ fuel, (ns.blockers builtins).length + 1 ≤ fuel → (registerMangled builtins ns base obj fuel).isSome = true := by
  intro fuel hfuel
  unfold registerMangled
  split
  · rfl
  · cases hm : mangleLoop builtins ns base obj fuel 1 with
    | some r => rfl
    | none =>
      exfalso
      have hb := mangleLoop_none_blocked builtins ns base obj fuel 1 hm
      have := distinct_run_le_length (fun j => base ++ 95 :: decimal j)
        (by
          intro a b hab
          have h1 := List.append_cancel_left hab
          simp only [List.cons.injEq, true_and] at h1
          exact decimal_injective h1)
        fuel (ns.blockers builtins) 1 hb
      omega

/-- … and the name found does not depend on how much fuel was left over -/
theorem register_mangled_fuel_irrelevant (builtins : List Str) (ns : Namespace) (base : Str) (obj fuel : Nat)
    (r : Str × Namespace) (h : registerMangled builtins ns base obj fuel = some r) (k : Nat) :
    registerMangled builtins ns base obj (fuel + k) = some r := by
  unfold registerMangled at h ⊢
  split
  · rename_i ns1 hadd
    rw [hadd] at h
    exact h
  · rename_i ns1 hadd
    rw [hadd] at h
    exact mangleLoop_mono builtins ns base obj fuel 1 r h k

/-- a namespace where `src` is a parameter, `src_1` a variable and `src_2` bound to another object -/
def demoNs : Namespace :=
  { occupied := [[115, 114, 99]], variables := [[115, 114, 99, 95, 49]], constants := [([115, 114, 99, 95, 50], 1)] }

/-- witness for `register_mangled_fresh` / `_frame`: on `demoNs` the call with base `src` succeeds (the hypothesis
    of the two theorems is satisfiable), returns `src_3`, and the conclusions hold for it: the old binding of
    `src_2` is kept, `src_3` is bound to the new object; any larger fuel gives the same answer -/
theorem register_mangled_witness :
    ∃ ns' : Namespace,
      (∀ k, registerMangled builtinNames demoNs [115, 114, 99] 7 (5 + k) = some ([115, 114, 99, 95, 51], ns'))
      ∧ lookupName ns'.constants [115, 114, 99, 95, 50] = some 1
      ∧ lookupName ns'.constants [115, 114, 99, 95, 51] = some 7 := by
  have h5 : (registerMangled builtinNames demoNs [115, 114, 99] 7 5).map (·.1) = some [115, 114, 99, 95, 51] := by
    decide +kernel
  obtain ⟨⟨name5, ns5⟩, h5'⟩ : ∃ r, registerMangled builtinNames demoNs [115, 114, 99] 7 5 = some r := by
    cases hr : registerMangled builtinNames demoNs [115, 114, 99] 7 5 with
    | none => rw [hr] at h5; simp at h5
    | some r => exact ⟨r, rfl⟩
  rw [h5'] at h5
  simp at h5
  subst h5
  have hfresh := register_mangled_fresh builtinNames demoNs _ 7 _ _ ns5 h5'
  have hframe := register_mangled_frame builtinNames demoNs _ 7 _ _ ns5 h5'
  exact ⟨ns5, register_mangled_fuel_irrelevant builtinNames demoNs _ 7 5 _ h5', hframe.2 _ 1 (by decide),
    hfresh.2.2.2.2.2⟩

/-- **The sanitizer returns an identifier that is not a keyword** — for every non-empty
    input string whatsoever (any characters, any length): the first character is an ASCII
    letter or `_`, every other character is accepted by `str.isidentifier` (`idCont`), and
    the result is not in `keyword.kwlist`.  (`sanitize("") = ""`; its callers use
    `sanitize(x) or "_"` or prepend a fixed prefix.) -/
theorem sanitize_is_identifier (idCont : Nat → Bool) (hu : idCont 95 = true) (name : Str) (hne : name ≠ []) :
    IdentShaped idCont (sanitize idCont pyKeywords name) ∧ sanitize idCont pyKeywords name ∉ pyKeywords := by
  cases name with
  | nil => exact absurd rfl hne
  | cons c cs =>
    generalize hh0 : (if isAsciiLetter c = true then c else 95) = h0
    have hhead : isAsciiLetter h0 = true ∨ h0 = 95 := by
      by_cases hc : isAsciiLetter c = true
      · simp [hc] at hh0; subst hh0; exact Or.inl hc
      · simp [hc] at hh0; exact Or.inr hh0.symm
    generalize htl : (cs.map translateChar).filter idCont = tl
    have htail : ∀ x ∈ tl, idCont x = true := by
      intro x hx; rw [← htl] at hx; exact (List.mem_filter.mp hx).2
    have hkw : ∀ k ∈ pyKeywords, k.getLast? ≠ some 95 := by decide
    have hform : sanitize idCont pyKeywords (c :: cs)
        = if pyKeywords.contains (h0 :: tl) = true then (h0 :: tl) ++ [95] else h0 :: tl := by
      simp [sanitize, hh0, htl]
    rw [hform]
    by_cases hk : pyKeywords.contains (h0 :: tl) = true
    · rw [if_pos hk]
      refine ⟨?_, ?_⟩
      · refine ⟨hhead, ?_⟩
        intro x hx
        rcases List.mem_append.mp hx with hx | hx
        · exact htail x hx
        · simp at hx; subst hx; exact hu
      · intro hmem
        have := hkw _ hmem
        apply this
        rw [show h0 :: tl ++ [95] = (h0 :: tl) ++ [95] from rfl, List.getLast?_append]
        simp
    · rw [if_neg hk]
      refine ⟨⟨hhead, htail⟩, ?_⟩
      intro hmem
      apply hk
      simpa using hmem

/-- witness for `sanitize_is_identifier`: the model's own identifier-character table satisfies the hypothesis, and
    the theorem applies to a name made of a digit, a quote, a bracket, a newline and a hidden keyword -/
theorem sanitize_is_identifier_witness :
    isIdCont 95 = true
    ∧ IdentShaped (fun c => isIdCont c) (sanitize (fun c => isIdCont c) pyKeywords [49, 39, 91, 10, 105, 102, 33])
    ∧ sanitize (fun c => isIdCont c) pyKeywords [99, 108, 97, 115, 115, 33] = [99, 108, 97, 115, 115, 95] :=
  ⟨by decide, (sanitize_is_identifier (fun c => isIdCont c) (by decide) _ (by simp)).1, by decide⟩

/-! ## 3. skeleton -/

/-- **Tokenizing rendered code gives back the pieces.**  For every well-formed piece list
    (any template structure; keys arbitrary well-formed strings, ids arbitrary identifier
    characters) the character-level text lexes to exactly one token per piece: a key is one
    STRING token whose value is the key, a generated name one NAME token.
    (Well-formed = `WFList`: every piece is spelled correctly and neighbours obey `adjOk`; since the audit `adjOk`
    also refuses a key glued to the END of an identifier-like piece — `f` + `'{x}'` is an f-string for CPython, a
    position the character-level model does not cover and `Site.ctxOk` excludes for the real generators.) -/
theorem lex_render (printable : Nat → Bool) (hp : SurrogatesNotPrintable printable) :
    ∀ (ps : List Piece), WFList ps →
      ∀ f, (render printable ps).length + 1 ≤ f →
        lexToks f (render printable ps) = some (ps.filterMap Piece.toTok) := by
  intro ps
  induction ps with
  | nil =>
    intro _ f hf
    obtain ⟨f', rfl⟩ : ∃ f', f = f' + 1 := ⟨f - 1, by omega⟩
    simp [render, lexToks]
  | cons a t ih =>
    intro hwf f hf
    obtain ⟨f', rfl⟩ : ∃ f', f = f' + 1 := ⟨f - 1, by omega⟩
    have ha : a.ok := WFList_head_ok hwf
    have hwt : WFList t := by
      cases t with
      | nil => trivial
      | cons b t' => exact hwf.2.2
    have hlen : (render printable (a :: t)).length
        = (a.render printable).length + (render printable t).length := by
      simp [render_cons]
    have hposa : 1 ≤ (a.render printable).length := by
      obtain ⟨x, tl, h, _⟩ := piece_head printable a ha
      simp [h]
    have hrec := ih hwt f' (by omega)
    -- what the rest starts with
    have hnext : ∀ x, (render printable t).head? = some x →
        ∃ b t', t = b :: t' ∧ adjOk a b = true ∧ HeadOf b x := by
      intro x hx
      cases t with
      | nil => simp [render] at hx
      | cons b t' =>
        obtain ⟨y, tl, hy, hh⟩ := render_head printable b t' (WFList_head_ok hwt)
        rw [hy] at hx
        simp at hx
        subst hx
        exact ⟨b, t', rfl, hwf.2.1, hh⟩
    rw [render_cons]
    cases a with
    | op c =>
      simpa [Piece.render, Piece.toTok] using lex_op f' c ha _ _ hrec
    | sp =>
      simpa [Piece.render, Piece.toTok, lex_sp, List.filterMap_cons] using hrec
    | nl k =>
      have hR : ∀ x, (render printable t).head? = some x → x ≠ 32 := by
        intro x hx
        obtain ⟨b, t', rfl, hadj, hh⟩ := hnext x hx
        cases hh with
        | op h => exact (op_facts' h).1
        | sp => simp [adjOk, Piece.isWordy, Piece.isKey] at hadj
        | nl => decide
        | word h => exact (idStart_facts h).1
        | gname h => exact (idStart_facts h).1
        | key h => omega
        | int h => exact (digit_facts h).1
        | comment => decide
      simpa [Piece.render, Piece.toTok] using lex_nl f' k _ _ hR hrec
    | word w =>
      have hR : ∀ x, (render printable t).head? = some x → isIdCont x = false := by
        intro x hx
        obtain ⟨b, t', rfl, hadj, hh⟩ := hnext x hx
        cases hh with
        | op h => exact (op_facts' h).2.2.2.2.2.2.2
        | sp => decide
        | nl => decide
        | word h => simp [adjOk, Piece.isWordy] at hadj
        | gname h => simp [adjOk, Piece.isWordy] at hadj
        | key h => rcases h with rfl | rfl <;> decide
        | int h => simp [adjOk, Piece.isWordy] at hadj
        | comment => decide
      simpa [Piece.render, Piece.toTok] using lex_word f' w _ _ ha hR hrec
    | gname p i =>
      have hR : ∀ x, (render printable t).head? = some x → isIdCont x = false := by
        intro x hx
        obtain ⟨b, t', rfl, hadj, hh⟩ := hnext x hx
        cases hh with
        | op h => exact (op_facts' h).2.2.2.2.2.2.2
        | sp => decide
        | nl => decide
        | word h => simp [adjOk, Piece.isWordy] at hadj
        | gname h => simp [adjOk, Piece.isWordy] at hadj
        | key h => rcases h with rfl | rfl <;> decide
        | int h => simp [adjOk, Piece.isWordy] at hadj
        | comment => decide
      have hw : identLike (p ++ i) := by
        cases p with
        | nil => exact absurd ha.1 (by simp [identLike])
        | cons h tl =>
          refine ⟨ha.1.1, ?_⟩
          intro c hc
          rcases List.mem_append.mp hc with hc | hc
          · exact ha.1.2 c hc
          · exact ha.2 c hc
      simpa [Piece.render, Piece.toTok] using lex_word f' (p ++ i) _ _ hw hR hrec
    | int d =>
      have hR : ∀ x, (render printable t).head? = some x → isIdCont x = false := by
        intro x hx
        obtain ⟨b, t', rfl, hadj, hh⟩ := hnext x hx
        cases hh with
        | op h => exact (op_facts' h).2.2.2.2.2.2.2
        | sp => decide
        | nl => decide
        | word h => simp [adjOk, Piece.isWordy] at hadj
        | gname h => simp [adjOk, Piece.isWordy] at hadj
        | key h => rcases h with rfl | rfl <;> decide
        | int h => simp [adjOk, Piece.isWordy] at hadj
        | comment => decide
      simpa [Piece.render, Piece.toTok] using lex_int f' d _ _ ha hR hrec
    | comment txt =>
      have hR : ∀ x, (render printable t).head? = some x → x = 10 := by
        intro x hx
        obtain ⟨b, t', rfl, hadj, hh⟩ := hnext x hx
        cases hh with
        | nl => rfl
        | op h => simp [adjOk, Piece.isWordy, Piece.isKey] at hadj
        | sp => simp [adjOk, Piece.isWordy, Piece.isKey] at hadj
        | word h => simp [adjOk, Piece.isWordy, Piece.isKey] at hadj
        | gname h => simp [adjOk, Piece.isWordy, Piece.isKey] at hadj
        | key h => simp [adjOk, Piece.isWordy, Piece.isKey] at hadj
        | int h => simp [adjOk, Piece.isWordy, Piece.isKey] at hadj
        | comment => simp [adjOk, Piece.isWordy, Piece.isKey] at hadj
      simpa [Piece.render, Piece.toTok] using lex_comment f' txt _ _ ha hR hrec
    | key k =>
      have hR : ∀ x, (render printable t).head? = some x → x ≠ 39 ∧ x ≠ 34 := by
        intro x hx
        obtain ⟨b, t', rfl, hadj, hh⟩ := hnext x hx
        cases hh with
        | op h => exact ⟨(op_facts' h).2.2.2.1, (op_facts' h).2.2.2.2.1⟩
        | sp => decide
        | nl => decide
        | word h => exact ⟨(idStart_facts h).2.2.2.1, (idStart_facts h).2.2.2.2.1⟩
        | gname h => exact ⟨(idStart_facts h).2.2.2.1, (idStart_facts h).2.2.2.2.1⟩
        | key h => simp [adjOk, Piece.isWordy, Piece.isKey] at hadj
        | int h => exact ⟨(digit_facts h).2.2.2.1, (digit_facts h).2.2.2.2.1⟩
        | comment => decide
      have hround := repr_lex_roundtrip printable hp k ha (render printable t)
        (by intro _ h; exact (hR 39 h).1 rfl)
      have hq := chooseQuote_cases k
      simp only [Piece.render, Piece.toTok, List.filterMap_cons]
      have hshape : pyRepr printable k ++ render printable t
          = chooseQuote k :: (reprBody printable (chooseQuote k) k ++ [chooseQuote k] ++ render printable t) := by
        simp [pyRepr]
      rw [hshape] at hround ⊢
      have h32 : chooseQuote k ≠ 32 := by omega
      have h10 : chooseQuote k ≠ 10 := by omega
      have h35 : chooseQuote k ≠ 35 := by omega
      simp only [lexToks, if_neg h32, if_neg h10, if_neg h35, if_pos hq, hround, hrec]

/-- **A literal list / tuple / set of keys of ANY length is its brackets, one string token per key and single
    commas** (`_parenthesize` of code_tools/utils.py applied to strings: the way `get_literal_expr` writes key
    collections and container defaults into the closure preamble).  For every number of keys and every contents:
    no key can add an element, close the bracket or merge with its neighbour. -/
theorem key_sequence_tokens (printable : Nat → Bool) (hp : SurrogatesNotPrintable printable)
    (opn close : Nat) (ho : isOpChar opn = true) (hc : isOpChar close = true)
    (ks : List Str) (hks : ∀ k ∈ ks, Str.WF k) :
    WFList (keySeq opn close ks)
    ∧ tokenize (render printable (keySeq opn close ks)) = some (keySeqToks opn close ks) := by
  have hwf : WFList (keySeq opn close ks) := by
    cases ks with
    | nil => exact ⟨ho, rfl, hc⟩
    | cons k t =>
      exact ⟨ho, rfl, keySeqTail_wf close hc t k (hks k (by simp)) (fun x hx => hks x (List.mem_cons_of_mem _ hx))⟩
  refine ⟨hwf, ?_⟩
  unfold tokenize
  rw [lex_render printable hp _ hwf _ (Nat.le_refl _)]
  cases ks with
  | nil => rfl
  | cons k t => simp [keySeq, keySeqToks, Piece.toTok, List.filterMap_cons, keySeqTail_toks]

/-- witness: the set `{<hostile key>, '', 'k'}` — three keys, one of them empty, one hostile -/
theorem key_sequence_witness :
    tokenize (render demoPrintable (keySeq 123 125 [hostileKey, [], [107]]))
      = some [.op 123, .str hostileKey, .op 44, .str [], .op 44, .str [107], .op 125] :=
  (key_sequence_tokens demoPrintable demoPrintable_ok 123 125 (by decide) (by decide) [hostileKey, [], [107]]
    (by
      intro k hk
      simp only [List.mem_cons, List.not_mem_nil, or_false] at hk
      rcases hk with rfl | rfl | rfl
      · exact hostileKey_wf
      · intro c hc; cases hc
      · intro c hc; simp at hc; omega)).2

/-- **The token skeleton is a function of the shape only.**  Two generated programs that
    differ only in the contents of their keys, in their field ids and in comment text —
    same template structure, same families, same integers, same layout — tokenize (at the
    character level, by the model of Python's lexer) successfully and to the same skeleton:
    hostile text in a key or name can neither add, remove nor change a token of the
    generated function, nor its line / indentation structure. -/
theorem skeleton_independent (printable : Nat → Bool) (hp : SurrogatesNotPrintable printable)
    (fams : List Str) (hpw : pairwiseB (fun p q => !comparable p q) fams = true)
    (ps ps' : List Piece) (hshape : sameShapeList ps ps') (hwf : WFList ps) (hwf' : WFList ps')
    (hfam : ∀ p i, Piece.gname p i ∈ ps → p ∈ fams) :
    (tokenize (render printable ps)).isSome = true
    ∧ (tokenize (render printable ps)).map (skeleton fams)
      = (tokenize (render printable ps')).map (skeleton fams) := by
  have h1 := lex_render printable hp ps hwf _ (Nat.le_refl _)
  have h2 := lex_render printable hp ps' hwf' _ (Nat.le_refl _)
  unfold tokenize
  rw [h1, h2]
  refine ⟨rfl, ?_⟩
  simp only [Option.map_some]
  rw [skel_pieces fams hpw ps ps' hshape hfam]

/-- `skeleton_independent` for the name families extracted from loader_gen.py (both programs DO tokenize:
    the equation is not `none = none`) -/
theorem skeleton_independent_loader (printable : Nat → Bool) (hp : SurrogatesNotPrintable printable)
    (ps ps' : List Piece) (hshape : sameShapeList ps ps') (hwf : WFList ps) (hwf' : WFList ps')
    (hfam : ∀ p i, Piece.gname p i ∈ ps → p ∈ loaderSpec.families) :
    (tokenize (render printable ps)).isSome = true ∧ (tokenize (render printable ps')).isSome = true
    ∧ (tokenize (render printable ps)).map (skeleton loaderSpec.families)
      = (tokenize (render printable ps')).map (skeleton loaderSpec.families) := by
  have hsep := loader_names_separated
  simp only [NameSpec.separated, Bool.and_eq_true] at hsep
  have h := skeleton_independent printable hp _ hsep.1.1.1 ps ps' hshape hwf hwf' hfam
  have h2 := lex_render printable hp ps' hwf' _ (Nat.le_refl _)
  exact ⟨h.1, by unfold tokenize; rw [h2]; rfl, h.2⟩

/-- `skeleton_independent` for the name families extracted from dumper_gen.py -/
theorem skeleton_independent_dumper (printable : Nat → Bool) (hp : SurrogatesNotPrintable printable)
    (ps ps' : List Piece) (hshape : sameShapeList ps ps') (hwf : WFList ps) (hwf' : WFList ps')
    (hfam : ∀ p i, Piece.gname p i ∈ ps → p ∈ dumperSpec.families) :
    (tokenize (render printable ps)).isSome = true ∧ (tokenize (render printable ps')).isSome = true
    ∧ (tokenize (render printable ps)).map (skeleton dumperSpec.families)
      = (tokenize (render printable ps')).map (skeleton dumperSpec.families) := by
  have hsep := dumper_names_separated
  simp only [NameSpec.separated, Bool.and_eq_true] at hsep
  have h := skeleton_independent printable hp _ hsep.1.1.1 ps ps' hshape hwf hwf' hfam
  have h2 := lex_render printable hp ps' hwf' _ (Nat.le_refl _)
  exact ⟨h.1, by unfold tokenize; rw [h2]; rfl, h.2⟩

/-- a two-line program of the loader's shape, for ANY key `k` and field id `i`:
    ```
    f_<i> = data[<repr k>]
        # path <i>
    r_<i>[0] = <repr k>
    ``` -/
def demoProgram (k i : Str) : List Piece :=
  [.gname [102, 95] i, .sp, .op 61, .sp, .word [100, 97, 116, 97], .op 91, .key k, .op 93,
   .nl 4, .comment (32 :: 112 :: 97 :: 116 :: 104 :: 32 :: i),
   .nl 0, .gname [114, 95] i, .op 91, .int [48], .op 93, .sp, .op 61, .sp, .key k]

/-- … is well formed whatever the key (any well-formed string) and the id (identifier characters) -/
theorem demoProgram_wf (k i : Str) (hk : Str.WF k) (hi : ∀ c ∈ i, isIdCont c = true) : WFList (demoProgram k i) := by
  have hin : ∀ c ∈ i, c ≠ 10 := by
    intro c hc h10; subst h10; exact absurd (hi 10 hc) (by decide)
  have hg1 : (Piece.gname [102, 95] i).ok := ⟨⟨by decide, by decide⟩, hi⟩
  have hg2 : (Piece.gname [114, 95] i).ok := ⟨⟨by decide, by decide⟩, hi⟩
  have hc : (Piece.comment (32 :: 112 :: 97 :: 116 :: 104 :: 32 :: i)).ok := by
    intro c hc
    simp only [List.mem_cons] at hc
    rcases hc with rfl | rfl | rfl | rfl | rfl | rfl | hc <;> first | decide | exact hin c hc
  have hw : (Piece.word [100, 97, 116, 97]).ok := ⟨by decide, by decide⟩
  have hint : (Piece.int [48]).ok := ⟨by decide, by decide⟩
  have hop : ∀ c, isOpChar c = true → (Piece.op c).ok := fun c h => h
  have hkey : (Piece.key k).ok := hk
  unfold demoProgram
  refine ⟨hg1, rfl, trivial, rfl, hop 61 (by decide), rfl, trivial, rfl, hw, rfl, hop 91 (by decide), rfl, hkey, rfl,
    hop 93 (by decide), rfl, trivial, rfl, hc, rfl, trivial, rfl, hg2, rfl, hop 91 (by decide), rfl, hint, rfl,
    hop 93 (by decide), rfl, trivial, rfl, hop 61 (by decide), rfl, trivial, rfl, hkey⟩

/-- **witness for `lex_render` and `skeleton_independent(_loader)`**: all hypotheses hold together for the
    two-line program with the hostile key / the id `classé_` on one side and the key `k` / the id `x` on the
    other — two keys, two generated names of two families, a comment, an indented line — and the theorems give:
    the hostile program tokenizes to one token per piece (the key is ONE string token with the key as value) and
    has the skeleton of its benign twin. -/
theorem skeleton_independent_witness :
    WFList (demoProgram hostileKey [99, 108, 97, 115, 115, 233, 95]) ∧ WFList (demoProgram [107] [120])
    ∧ sameShapeList (demoProgram hostileKey [99, 108, 97, 115, 115, 233, 95]) (demoProgram [107] [120])
    ∧ tokenize (render demoPrintable (demoProgram hostileKey [99, 108, 97, 115, 115, 233, 95]))
        = some [.name [102, 95, 99, 108, 97, 115, 115, 233, 95], .op 61, .name [100, 97, 116, 97], .op 91,
                .str hostileKey, .op 93, .nl 4, .comment, .nl 0, .name [114, 95, 99, 108, 97, 115, 115, 233, 95],
                .op 91, .num [48], .op 93, .op 61, .str hostileKey]
    ∧ (tokenize (render demoPrintable (demoProgram hostileKey [99, 108, 97, 115, 115, 233, 95]))).map
          (skeleton loaderSpec.families)
        = (tokenize (render demoPrintable (demoProgram [107] [120]))).map (skeleton loaderSpec.families) := by
  have hw1 : WFList (demoProgram hostileKey [99, 108, 97, 115, 115, 233, 95]) :=
    demoProgram_wf _ _ hostileKey_wf (by decide)
  have hw2 : WFList (demoProgram [107] [120]) := demoProgram_wf _ _ (by intro c hc; simp at hc; omega) (by decide)
  have hs : sameShapeList (demoProgram hostileKey [99, 108, 97, 115, 115, 233, 95]) (demoProgram [107] [120]) := by
    simp [demoProgram, sameShapeList, sameShape]
  have hfam : ∀ p i, Piece.gname p i ∈ demoProgram hostileKey [99, 108, 97, 115, 115, 233, 95] →
      p ∈ loaderSpec.families := by
    intro p i hm
    simp [demoProgram] at hm
    rcases hm with ⟨rfl, _⟩ | ⟨rfl, _⟩ <;> decide
  refine ⟨hw1, hw2, hs, ?_, (skeleton_independent_loader demoPrintable demoPrintable_ok _ _ hs hw1 hw2 hfam).2.2⟩
  have := lex_render demoPrintable demoPrintable_ok _ hw1 _ (Nat.le_refl _)
  unfold tokenize
  rw [this]
  rfl

/-! ## 4. translator obligation -/

/-- **Every interpolation site of the generators is classified safe** (list regenerated
    from the source on every run): no site pastes user-controlled text as code, and every
    `!r` site stands where a string literal can stand (not glued to an identifier or a
    quote).  A new or changed site the analysis cannot classify is emitted as `raw` and
    this `decide` fails. -/
theorem sites_classified : sites.all Site.safe = true := by decide +kernel

/-! ## 4. function names (converters, stubs, linked functions): arbitrary text -> the name in the source -/

/-- **Whatever text is given as a function name, the name written into the source is an identifier
    and not a keyword** — for EVERY string (empty, only punctuation, a keyword, a keyword hidden
    behind characters that are dropped: `"class!"`, `"de f"`, `"None\x00"` …).  `closureName` is
    `sanitize(name) or "_"`, the expression every caller uses. -/
theorem closure_name_is_identifier (idCont : Nat → Bool) (hu : idCont 95 = true) (name : Str) :
    IdentShaped idCont (closureName idCont pyKeywords name) ∧ closureName idCont pyKeywords name ∉ pyKeywords := by
  cases name with
  | nil =>
    have : closureName idCont pyKeywords [] = [95] := by simp [closureName, sanitize]
    rw [this]
    exact ⟨⟨Or.inr rfl, by simp⟩, by decide⟩
  | cons c cs =>
    have h := sanitize_is_identifier idCont hu (c :: cs) (by simp)
    have hne := identShaped_ne_nil h.1
    have : closureName idCont pyKeywords (c :: cs) = sanitize idCont pyKeywords (c :: cs) := by
      unfold closureName
      split
      · rename_i heq; exact absurd heq hne
      · rfl
    rw [this]
    exact h

/-- **Legal names are left as they are**: a string that already is an identifier (ASCII letter or
    `_`, then identifier characters) and not a keyword is a fixed point of the sanitizer — the
    sanitizer is the identity exactly where nothing has to be repaired, so it cannot merge two
    distinct legal names.  (`.` and `[` are not identifier characters.) -/
theorem sanitize_keeps_identifiers (idCont : Nat → Bool) (h46 : idCont 46 = false) (h91 : idCont 91 = false)
    (name : Str) (hid : IdentShaped idCont name) (hk : name ∉ pyKeywords) :
    sanitize idCont pyKeywords name = name ∧ closureName idCont pyKeywords name = name := by
  cases name with
  | nil => exact absurd hid (by simp [IdentShaped])
  | cons c cs =>
    obtain ⟨hhead, htail⟩ := hid
    have h0 : (if isAsciiLetter c = true then c else 95) = c := by
      rcases hhead with h | h
      · simp [h]
      · subst h; simp [isAsciiLetter]
    have hmap : cs.map translateChar = cs := by
      have : ∀ x ∈ cs, translateChar x = x := by
        intro x hx
        have hx' := htail x hx
        unfold translateChar
        split
        · rename_i hor
          rcases hor with h | h <;> subst h <;> simp_all
        · rfl
      calc cs.map translateChar = cs.map id := List.map_congr_left this
        _ = cs := List.map_id cs
    have hfil : cs.filter idCont = cs := List.filter_eq_self.mpr htail
    have hnk : pyKeywords.contains (c :: cs) = false := by
      simpa using hk
    have hs : sanitize idCont pyKeywords (c :: cs) = c :: cs := by
      simp only [sanitize, h0, hmap, hfil, hnk]
      simp
    refine ⟨hs, ?_⟩
    unfold closureName
    rw [hs]

/-- the sanitizer is idempotent: its image consists of names it keeps -/
theorem sanitize_idempotent (idCont : Nat → Bool) (hu : idCont 95 = true) (h46 : idCont 46 = false)
    (h91 : idCont 91 = false) (name : Str) :
    closureName idCont pyKeywords (closureName idCont pyKeywords name) = closureName idCont pyKeywords name := by
  have h := closure_name_is_identifier idCont hu name
  exact (sanitize_keeps_identifiers idCont h46 h91 _ h.1 h.2).2

/-- **The head of a generated function definition does not depend on the function's name.**
    For every text `fn` given as the name and every following text, `def <closureName fn>(`
    is read as exactly three tokens — the keyword `def`, ONE name token that is not a keyword,
    and `(` — and lexing continues at the parameter list: a function name cannot add, remove
    or re-classify a token (`hsub`: an identifier character is an ASCII letter, a digit, `_` or
    non-ASCII — validated against `str.isidentifier` on every run). -/
theorem def_header_tokens (idCont : Nat → Bool) (hu : idCont 95 = true)
    (hsub : ∀ c, idCont c = true → isIdCont c = true) (fn rest : Str) (ts : List Tok) (f : Nat)
    (h : lexToks f rest = some ts) :
    lexToks (f + 4) (defHeader (closureName idCont pyKeywords fn) ++ rest)
        = some (Tok.name [100, 101, 102] :: Tok.name (closureName idCont pyKeywords fn) :: Tok.op 40 :: ts)
      ∧ (Tok.name (closureName idCont pyKeywords fn)).isKeyword pyKeywords = false := by
  obtain ⟨hid, hnk⟩ := closure_name_is_identifier idCont hu fn
  generalize closureName idCont pyKeywords fn = cn at hid hnk
  have hcn : identLike cn := by
    cases cn with
    | nil => exact absurd hid (by simp [IdentShaped])
    | cons a t =>
      refine ⟨?_, fun c hc => hsub c (hid.2 c hc)⟩
      rcases hid.1 with h1 | h1
      · simp [isIdStart, h1]
      · subst h1; decide
  refine ⟨?_, by simpa [Tok.isKeyword] using hnk⟩
  have h1 : lexToks (f + 1) (40 :: rest) = some (Tok.op 40 :: ts) := lex_op f 40 (by decide) rest ts h
  have h2 : lexToks (f + 2) (cn ++ 40 :: rest) = some (Tok.name cn :: Tok.op 40 :: ts) :=
    lex_word (f + 1) cn (40 :: rest) _ hcn (by intro x hx; simp at hx; subst hx; decide) h1
  have h3 : lexToks (f + 3) (32 :: (cn ++ 40 :: rest)) = some (Tok.name cn :: Tok.op 40 :: ts) := by
    rw [lex_sp]; exact h2
  have h4 := lex_word (f + 3) [100, 101, 102] (32 :: (cn ++ 40 :: rest)) _
    (by refine ⟨by decide, ?_⟩; decide) (by intro x hx; simp at hx; subst hx; decide) h3
  have hshape : defHeader cn ++ rest = [100, 101, 102] ++ 32 :: (cn ++ 40 :: rest) := by
    simp [defHeader]
  rw [hshape]
  exact h4

/-- the same for a call of a registered function, `<name>(`: one name token that is not a keyword -/
theorem call_head_tokens (idCont : Nat → Bool) (hu : idCont 95 = true)
    (hsub : ∀ c, idCont c = true → isIdCont c = true) (fn rest : Str) (ts : List Tok) (f : Nat)
    (h : lexToks f rest = some ts) :
    lexToks (f + 2) (callHead (closureName idCont pyKeywords fn) ++ rest)
        = some (Tok.name (closureName idCont pyKeywords fn) :: Tok.op 40 :: ts)
      ∧ (Tok.name (closureName idCont pyKeywords fn)).isKeyword pyKeywords = false := by
  obtain ⟨hid, hnk⟩ := closure_name_is_identifier idCont hu fn
  generalize closureName idCont pyKeywords fn = cn at hid hnk
  have hcn : identLike cn := by
    cases cn with
    | nil => exact absurd hid (by simp [IdentShaped])
    | cons a t =>
      refine ⟨?_, fun c hc => hsub c (hid.2 c hc)⟩
      rcases hid.1 with h1 | h1
      · simp [isIdStart, h1]
      · subst h1; decide
  refine ⟨?_, by simpa [Tok.isKeyword] using hnk⟩
  have h1 : lexToks (f + 1) (40 :: rest) = some (Tok.op 40 :: ts) := lex_op f 40 (by decide) rest ts h
  have h2 := lex_word (f + 1) cn (40 :: rest) _ hcn (by intro x hx; simp at hx; subst hx; decide) h1
  have hshape : callHead cn ++ rest = cn ++ 40 :: rest := by simp [callHead]
  rw [hshape]
  exact h2

/-- **Every name the mangling hands out for raw text is an identifier and not a keyword**:
    `register_mangled(func.__name__, func)` returns `sanitize(..) or "_"` or that with `_<number>`
    appended, whatever the namespace already contains. -/
theorem mangled_name_is_identifier (idCont : Nat → Bool) (hu : idCont 95 = true)
    (hd : ∀ c, (48 ≤ c && c ≤ 57) = true → idCont c = true)
    (builtins : List Str) (ns : Namespace) (raw : Str) (obj fuel : Nat) (name : Str) (ns' : Namespace)
    (h : registerMangledRaw idCont pyKeywords builtins ns raw obj fuel = some (name, ns')) :
    IdentShaped idCont name ∧ name ∉ pyKeywords := by
  obtain ⟨hid, hnk⟩ := closure_name_is_identifier idCont hu raw
  unfold registerMangledRaw registerMangled at h
  generalize closureName idCont pyKeywords raw = base at hid hnk h
  split at h
  · simp at h
    rw [← h.1]
    exact ⟨hid, hnk⟩
  · obtain ⟨j, hj⟩ := mangleLoop_name builtins ns base obj fuel 1 name ns' h
    subst hj
    refine ⟨identShaped_append hid ?_, ?_⟩
    · intro c hc
      rcases List.mem_cons.mp hc with hc | hc
      · subst hc; exact hu
      · exact hd c (decimal_digits j c hc)
    · intro hmem
      have hno : ∀ k ∈ pyKeywords, (95 : Nat) ∉ k := by decide
      exact hno _ hmem (by simp)

/-- **witness for the function-name theorems**: the model's identifier table `isIdCont` satisfies `hu`, `hsub`,
    `hd`, `h46`, `h91` together; for the name `class!` (a keyword hidden behind a dropped character) followed by
    the text `x):` the header theorem gives the tokens `def class_ ( x ) :`; `dfl_x` is a legal name and is kept;
    raw text `class!` with `class_` taken is handed out as `class__1`, an identifier. -/
theorem function_name_witness :
    (isIdCont 95 = true ∧ isIdCont 46 = false ∧ isIdCont 91 = false
      ∧ (∀ c, (48 ≤ c && c ≤ 57) = true → isIdCont c = true))
    ∧ lexToks 9 (defHeader (closureName (fun c => isIdCont c) pyKeywords [99, 108, 97, 115, 115, 33]) ++ [120, 41, 58])
        = some [Tok.name [100, 101, 102], Tok.name [99, 108, 97, 115, 115, 95], Tok.op 40, Tok.name [120], Tok.op 41,
                Tok.op 58]
    ∧ lexToks 7 (callHead (closureName (fun c => isIdCont c) pyKeywords [99, 108, 97, 115, 115, 33]) ++ [120, 41, 58])
        = some [Tok.name [99, 108, 97, 115, 115, 95], Tok.op 40, Tok.name [120], Tok.op 41, Tok.op 58]
    ∧ sanitize (fun c => isIdCont c) pyKeywords [100, 102, 108, 95, 120] = [100, 102, 108, 95, 120]
    ∧ (∃ name ns', registerMangledRaw (fun c => isIdCont c) pyKeywords builtinNames
          { occupied := [[99, 108, 97, 115, 115, 95]] } [99, 108, 97, 115, 115, 33] 7 5 = some (name, ns')
        ∧ IdentShaped (fun c => isIdCont c) name ∧ name ∉ pyKeywords) := by
  have hd : ∀ c, (48 ≤ c && c ≤ 57) = true → isIdCont c = true := by
    intro c hc
    simp only [isIdCont, isDigit, Bool.or_eq_true]
    exact Or.inr hc
  have hcn : closureName (fun c => isIdCont c) pyKeywords [99, 108, 97, 115, 115, 33] = [99, 108, 97, 115, 115, 95] := by
    decide
  refine ⟨⟨by decide, by decide, by decide, hd⟩, ?_, ?_, ?_, ?_⟩
  · have := (def_header_tokens (fun c => isIdCont c) (by decide) (fun c h => h) [99, 108, 97, 115, 115, 33]
      [120, 41, 58] [Tok.name [120], Tok.op 41, Tok.op 58] 5 (by decide)).1
    rw [hcn] at this ⊢
    exact this
  · have := (call_head_tokens (fun c => isIdCont c) (by decide) (fun c h => h) [99, 108, 97, 115, 115, 33]
      [120, 41, 58] [Tok.name [120], Tok.op 41, Tok.op 58] 5 (by decide)).1
    rw [hcn] at this ⊢
    exact this
  · exact (sanitize_keeps_identifiers (fun c => isIdCont c) (by decide) (by decide) [100, 102, 108, 95, 120]
      ⟨Or.inl (by decide), by decide⟩ (by decide)).1
  · have hsome : (registerMangledRaw (fun c => isIdCont c) pyKeywords builtinNames
        { occupied := [[99, 108, 97, 115, 115, 95]] } [99, 108, 97, 115, 115, 33] 7 5).isSome = true := by decide +kernel
    obtain ⟨⟨name, ns'⟩, h⟩ := Option.isSome_iff_exists.mp hsome
    exact ⟨name, ns', h, mangled_name_is_identifier (fun c => isIdCont c) (by decide) hd _ _ _ _ _ _ _ h⟩

/-! ## 5. constructor parameter names: a name of its own, passed as data

  `Param(field_id, name, kind)`: for a pydantic alias, an attrs private attribute or a hand-made shape the parameter
  name is NOT the field id.  Its legal domain is `str.isidentifier()` — keywords and identifiers the parser rewrites
  (NFKC) included. -/

/-- **The constructor receives every loaded field under exactly the name of its parameter.**
    For every list of parameters — names arbitrary Python strings, independent of the field ids; any kinds, any
    parameters left out — the text `_gen_constructor_call` writes is lexed into one token per piece, and the parser's
    reading of these tokens (`parseCall`: a `NAME=` keyword is refused when NAME is a Python keyword and delivered
    NFKC-normalised otherwise; a `**{'…': v}` entry is delivered untouched) is the call plan of the shape
    (`expectedArgs`): positional while possible, then each value under the parameter's own name, then `**packed_fields`
    / `**extra`.  No name can be refused by the parser, renamed by it, or change the number or order of the arguments.
    `hs` / `hc`: an identifier character is an ASCII letter, digit, `_` or non-ASCII (validated on every run). -/
theorem ctor_call_delivers (printable : Nat → Bool) (hp : SurrogatesNotPrintable printable)
    (idStart idCont : Nat → Bool) (nfkc : Str → Str)
    (hs : ∀ c, idStart c = true → isIdStart c = true) (hc : ∀ c, idCont c = true → isIdCont c = true)
    (ind : Nat) (hasPacked : Bool) (extra : Option Str) (hextra : ∀ v, extra = some v → identLike v)
    (ps : List CParam) (hname : ∀ p ∈ ps, Str.WF p.name) (hfid : ∀ p ∈ ps, ∀ c ∈ p.fieldId, isIdCont c = true) :
    ∃ toks,
      tokenize (render printable
          (ctorCall (canBeKeywordArgName idStart idCont pyKeywords nfkc) ind hasPacked extra ps)) = some toks
      ∧ parseCall pyKeywords nfkc toks
          = some (constructorWord, expectedArgs false ps ++ expectedTail hasPacked extra) := by
  generalize hcanKw : canBeKeywordArgName idStart idCont pyKeywords nfkc = canKw
  have hok : ParamsOk canKw ps := by
    intro p hpm
    refine ⟨hname p hpm, hfid p hpm, fun hcan => ?_⟩
    rw [← hcanKw] at hcan
    simp [canBeKeywordArgName] at hcan
    exact identLike_of_isIdentifier idStart idCont hs hc hcan.1.1
  have hwf := ctorCall_wf canKw ind hasPacked extra ps hok hextra
  refine ⟨_, lex_render printable hp _ hwf _ (Nat.le_refl _), ?_⟩
  have hparse := parse_ctorArgs idStart idCont pyKeywords nfkc (ind + 4) ps false (ctorTail ind hasPacked extra) _
    (parse_ctorTail pyKeywords nfkc ind hasPacked extra)
  rw [hcanKw] at hparse
  have hshape : (List.filterMap Piece.toTok (ctorCall canKw ind hasPacked extra ps)).filter (fun t => !t.isNl)
      = Tok.name constructorWord :: Tok.op 40
          :: argToks (ctorArgs canKw (ind + 4) false ps ++ ctorTail ind hasPacked extra) := by
    simp [ctorCall, argToks, Piece.toTok, Tok.isNl]
  unfold parseCall
  rw [hshape]
  simp [hparse]

/-- an NFKC table for the witnesses: the ligature U+FB01 reads `fi`, fullwidth `ｃ` (U+FF43) reads `c` -/
def demoNfkc : Str → Str :=
  fun s => s.flatMap (fun c => if c = 0xFB01 then [102, 105] else if c = 0xFF43 then [99] else [c])

/-- `(a, /, b0=…, class=…, ﬁ=…, *, data=…)` with fields `a, b0, class_, x, y`; `b0` is left out -/
def demoParams : List CParam :=
  [{ fieldId := codes "a", name := codes "a", kind := .posOnly, leftOut := false },
   { fieldId := codes "b0", name := codes "b0", kind := .posOrKw, leftOut := true },
   { fieldId := codes "class_", name := codes "class", kind := .posOrKw, leftOut := false },
   { fieldId := codes "x", name := [0xFB01], kind := .posOrKw, leftOut := false },
   { fieldId := codes "y", name := codes "data", kind := .kwOnly, leftOut := false }]

/-- witness for `ctor_call_delivers`: all hypotheses hold together for the model's own identifier tables, a
    non-trivial NFKC table and a parameter list with a keyword name, an NFKC-unstable name, a name that is a local of
    the generated function, a left-out parameter and a positional one; the conclusion is the concrete plan:
    `constructor(f_a, **{'class': f_class_}, **{'ﬁ': f_x}, data=f_y, **packed_fields)` -/
theorem ctor_call_delivers_witness :
    ∃ toks,
      tokenize (render demoPrintable (ctorCall
          (canBeKeywordArgName (fun c => isIdStart c) (fun c => isIdCont c) pyKeywords demoNfkc) 4 true none demoParams))
        = some toks
      ∧ parseCall pyKeywords demoNfkc toks
          = some (constructorWord,
              [Arg.pos (codes "f_a"), Arg.kw (codes "class") (codes "f_class_"), Arg.kw [0xFB01] (codes "f_x"),
               Arg.kw (codes "data") (codes "f_y"), Arg.unpack packedFieldsWord]) := by
  have h := ctor_call_delivers demoPrintable demoPrintable_ok (fun c => isIdStart c) (fun c => isIdCont c) demoNfkc
    (fun _ h => h) (fun _ h => h) 4 true none (by simp) demoParams
    (show ∀ p ∈ demoParams, ∀ c ∈ p.name, c < 0x110000 by decide) (by decide)
  have hplan : expectedArgs false demoParams ++ expectedTail true none
      = [Arg.pos (codes "f_a"), Arg.kw (codes "class") (codes "f_class_"), Arg.kw [0xFB01] (codes "f_x"),
         Arg.kw (codes "data") (codes "f_y"), Arg.unpack packedFieldsWord] := by decide
  rw [hplan] at h
  exact h

/-- the decision has to be taken on the parameter NAME.  Taking it on the field id (`class_` is a fine keyword
    token, so `class=f_class_` is written) gives text the parser refuses … -/
example : parseCall pyKeywords demoNfkc
    ((ctorCall (fun _ => canBeKeywordArgName (fun c => isIdStart c) (fun c => isIdCont c) pyKeywords demoNfkc (codes "class_"))
        4 false none [{ fieldId := codes "class_", name := codes "class", kind := .kwOnly, leftOut := false }]).filterMap
      Piece.toTok) = none := by decide
/-- … and for a name that is not NFKC-normalised the callee receives ANOTHER key than the shape declares -/
example : parseCall pyKeywords demoNfkc
    ((ctorCall (fun _ => true) 4 false none
        [{ fieldId := codes "x", name := [0xFB01], kind := .kwOnly, leftOut := false }]).filterMap Piece.toTok)
    = some (constructorWord, [Arg.kw (codes "fi") (codes "f_x")]) := by decide
example : canBeKeywordArgName (fun c => isIdStart c) (fun c => isIdCont c) pyKeywords demoNfkc (codes "class") = false := by decide
example : canBeKeywordArgName (fun c => isIdStart c) (fun c => isIdCont c) pyKeywords demoNfkc [0xFF43, 108] = false := by decide
example : canBeKeywordArgName (fun c => isIdStart c) (fun c => isIdCont c) pyKeywords demoNfkc (codes "data") = true := by decide

/-! ## 6. names the converter generator invents (`constant_<n>`, `func_<n>`, `accessor_<n>`) vs names the user chose

  The body of a generated coercer refers to objects by name: the destination constructor and every linked function
  under (the sanitised form of) its own `__name__` — arbitrary user text —, values without literal form, callables
  without `__name__` and custom accessors under a numbered name the generator makes up.  Nothing stops a user function
  or model from being CALLED `constant_0`, `func_1`, `constant[0]` (sanitised: `constant_0`) …: the numbered name is
  therefore only a basis for `register_mangled`, exactly like a user name.  The theorems below are about ANY sequence
  of requests (`Reg`), i.e. any broaching plan, with arbitrary strings as user names and as prefixes. -/

/-- **`register_next_id` always succeeds**, whatever the namespace already contains — in particular when the numbered
    name itself is already bound to a user object. -/
theorem register_next_id_total (idCont : Nat → Bool) (builtins : List Str) (st : GenSt) (pre : Str) (obj : Nat) :
    ∀ fuel, (st.ns.blockers builtins).length + 1 ≤ fuel →
      (registerNextId idCont pyKeywords builtins st pre obj fuel).isSome = true :=
  fun fuel h => regStep_total idCont pyKeywords builtins st (.nextId pre obj) fuel h

/-- **… and hands out a free identifier bound to this object**: the name is not a parameter / the function's own name,
    not a variable, outer constant or builtin, it was unbound or bound to the identical object, it is bound to `obj`
    afterwards, every older binding (e.g. of a user function called `constant_0`) is untouched, the name is
    identifier-shaped and not a keyword — for every prefix text. -/
theorem register_next_id_fresh (idCont : Nat → Bool) (hu : idCont 95 = true)
    (hd : ∀ c, (48 ≤ c && c ≤ 57) = true → idCont c = true)
    (builtins : List Str) (st : GenSt) (pre : Str) (obj fuel : Nat) (name : Str) (st' : GenSt)
    (h : registerNextId idCont pyKeywords builtins st pre obj fuel = some (name, st')) :
    FreshFor builtins st.ns st'.ns name obj
    ∧ (∀ n o, lookupName st.ns.constants n = some o → lookupName st'.ns.constants n = some o)
    ∧ IdentShaped idCont name ∧ name ∉ pyKeywords := by
  obtain ⟨raw, hr⟩ := regStep_is_mangled idCont pyKeywords builtins st (.nextId pre obj) fuel name st' h
  have hid := mangled_name_is_identifier idCont hu hd builtins st.ns raw _ fuel name st'.ns hr
  unfold registerMangledRaw at hr
  exact ⟨register_mangled_fresh builtins st.ns _ _ fuel name st'.ns hr,
    (register_mangled_frame builtins st.ns _ _ fuel name st'.ns hr).2, hid.1, hid.2⟩

/-- **Name allocation of a whole generated function never fails**: for every list of requests — user-named objects with
    arbitrary text as name, numbered helpers with any prefix, in any order and number — every request is served
    (fuel above the number of names that can be refused at the end: the real loop is unbounded). -/
theorem alloc_names_total (idCont : Nat → Bool) (builtins : List Str) :
    ∀ (regs : List Reg) (st : GenSt) (fuel : Nat),
      (st.ns.blockers builtins).length + regs.length + 1 ≤ fuel →
      (allocNames idCont pyKeywords builtins regs st fuel).isSome = true := by
  intro regs
  induction regs with
  | nil => intro st fuel _; rfl
  | cons r rs ih =>
    intro st fuel hfuel
    have h1 := regStep_total idCont pyKeywords builtins st r fuel (by simp at hfuel; omega)
    obtain ⟨⟨n, st1⟩, hs⟩ := Option.isSome_iff_exists.mp h1
    obtain ⟨raw, hr⟩ := regStep_is_mangled idCont pyKeywords builtins st r fuel n st1 hs
    unfold registerMangledRaw at hr
    have hlen := (register_mangled_frame builtins st.ns _ _ fuel n st1.ns hr).1.blockers_length builtins
    have h2 := ih st1 fuel (by simp at hfuel; omega)
    obtain ⟨⟨ns, st2⟩, hs2⟩ := Option.isSome_iff_exists.mp h2
    simp [allocNames, hs, hs2]

/-- **Every request gets a usable name bound to ITS object, and keeps it**: after the whole allocation, for the
    `i`-th request and the `i`-th name handed out: the name is identifier-shaped, not a keyword, not a parameter nor
    the function's own name, not an outer constant, not a builtin, and in the FINAL namespace it is bound to the object
    of that request — no later request (a numbered helper after a user function called `constant_0`, a user function
    called `func_0` after an anonymous callable, two functions with the same name …) takes it over. -/
theorem alloc_names_sound (idCont : Nat → Bool) (hu : idCont 95 = true)
    (hd : ∀ c, (48 ≤ c && c ≤ 57) = true → idCont c = true) (builtins : List Str) :
    ∀ (regs : List Reg) (st : GenSt) (fuel : Nat) (names : List Str) (st' : GenSt),
      allocNames idCont pyKeywords builtins regs st fuel = some (names, st') →
      names.length = regs.length
      ∧ st'.ns.occupied = st.ns.occupied ∧ st'.ns.outer = st.ns.outer ∧ st'.ns.allowBuiltins = st.ns.allowBuiltins
      ∧ (∀ n o, lookupName st.ns.constants n = some o → lookupName st'.ns.constants n = some o)
      ∧ ∀ p ∈ names.zip regs,
          IdentShaped idCont p.1 ∧ p.1 ∉ pyKeywords ∧ p.1 ∉ st.ns.occupied ∧ (∀ o, (p.1, o) ∉ st.ns.outer)
          ∧ (st.ns.allowBuiltins = false → p.1 ∉ builtins)
          ∧ lookupName st'.ns.constants p.1 = some p.2.obj := by
  intro regs
  induction regs with
  | nil =>
    intro st fuel names st' h
    simp [allocNames] at h
    obtain ⟨h1, h2⟩ := h
    subst h1; subst h2
    simp
  | cons r rs ih =>
    intro st fuel names st' h
    unfold allocNames at h
    split at h
    · simp at h
    · rename_i n st1 hs
      split at h
      · simp at h
      · rename_i ns st2 hs2
        simp only [Option.some.injEq, Prod.mk.injEq] at h
        obtain ⟨hn, hst⟩ := h
        subst hn; subst hst
        obtain ⟨raw, hr⟩ := regStep_is_mangled idCont pyKeywords builtins st r fuel n st1 hs
        have hid := mangled_name_is_identifier idCont hu hd builtins st.ns raw _ fuel n st1.ns hr
        unfold registerMangledRaw at hr
        have hfresh := register_mangled_fresh builtins st.ns _ _ fuel n st1.ns hr
        obtain ⟨hframe, hkeep⟩ := register_mangled_frame builtins st.ns _ _ fuel n st1.ns hr
        obtain ⟨hout, hocc, _, hallow, _⟩ := hframe
        obtain ⟨hlen, hocc2, hout2, hallow2, hkeep2, hall⟩ := ih st1 fuel ns st2 hs2
        refine ⟨by simp [hlen], by rw [hocc2, hocc], by rw [hout2, hout], by rw [hallow2, hallow],
          fun n' o hb => hkeep2 n' o (hkeep n' o hb), ?_⟩
        intro p hp
        simp only [List.zip_cons_cons, List.mem_cons] at hp
        rcases hp with hp | hp
        · subst hp
          exact ⟨hid.1, hid.2, hfresh.1, hfresh.2.2.1, hfresh.2.2.2.1, hkeep2 _ _ hfresh.2.2.2.2.2⟩
        · obtain ⟨a, b, c, d, e, f⟩ := hall p hp
          exact ⟨a, b, by rw [← hocc]; exact c, by rw [← hout]; exact d, by rw [← hallow]; exact e, f⟩

/-- **Two requests for different objects never share a name** (and so no reference in the generated body can reach
    the wrong object), whatever the user called his functions and models. -/
theorem alloc_names_injective (idCont : Nat → Bool) (hu : idCont 95 = true)
    (hd : ∀ c, (48 ≤ c && c ≤ 57) = true → idCont c = true) (builtins : List Str)
    (regs : List Reg) (st : GenSt) (fuel : Nat) (names : List Str) (st' : GenSt)
    (h : allocNames idCont pyKeywords builtins regs st fuel = some (names, st')) :
    ∀ p ∈ names.zip regs, ∀ q ∈ names.zip regs, p.1 = q.1 → p.2.obj = q.2.obj := by
  intro p hp q hq hpq
  have hall := (alloc_names_sound idCont hu hd builtins regs st fuel names st' h).2.2.2.2.2
  have h1 := (hall p hp).2.2.2.2.2
  have h2 := (hall q hq).2.2.2.2.2
  rw [hpq, h2] at h1
  exact (Option.some.inj h1).symm

/-- **Generation of the names of any broaching plan succeeds**: whatever `__name__` the functions and the destination
    model of the plan carry, whatever parameters / own name / signature variable the function has. -/
theorem plan_names_total (idCont : Nat → Bool) (builtins : List Str) (occupied : List Str) (outer : List (Str × Nat))
    (plan : Plan) (fuel : Nat)
    (hfuel : occupied.length + outer.length + builtins.length + (planRegs plan).length + 1 ≤ fuel) :
    (planNames idCont pyKeywords builtins occupied outer plan fuel).isSome = true := by
  unfold planNames
  apply alloc_names_total
  simp [Namespace.blockers]
  omega

/-- the prefixes `register_next_id` is called with in the tree under test are the ones `planRegs` knows -/
theorem next_id_prefixes_modelled : nextIdPrefixes = modelledNextIdPrefixes := by decide

/-- in the tree under test every `return` of `GenState.register_next_id` is `self.register_mangled(<numbered name>, obj)`
    (translator fact; the behaviour itself is compared by the `namespace` / `broach` correspondences) -/
theorem next_id_goes_through_mangling : nextIdThroughMangling = true := by decide

/-- `D(constant_0(data), <object>, <partial>(), func_0())` inside `coerce_S_to_D(data, ctx)`: the destination model,
    a linked function the user called `constant[0]` (sanitised: `constant_0`), a value without literal form, a
    callable without `__name__`, a factory the user called `func_0` -/
def demoPlan : Plan :=
  .func false false (some [68]) 1
    [.accessor none (.param [100, 97, 116, 97]),
     .func false false (some [99, 111, 110, 115, 116, 97, 110, 116, 91, 48, 93]) 2 [.param [100, 97, 116, 97]],
     .const false 3,
     .func false false none 4 [],
     .func false false (some [102, 117, 110, 99, 95, 48]) 5 []]

/-- **witness**: the hypotheses of `alloc_names_sound` hold for the model's identifier table, allocation for
    `demoPlan` succeeds, and the names are `D`, `constant_0` (the user function), `constant_0_1` (the numbered helper
    steps aside), `func_0` (the anonymous callable came first), `func_0_1` (now the user function steps aside);
    all five are bound to their own objects at the end. -/
theorem alloc_names_witness :
    (isIdCont 95 = true ∧ ∀ c, (48 ≤ c && c ≤ 57) = true → isIdCont c = true)
    ∧ ∃ st', planNames (fun c => isIdCont c) pyKeywords builtinNames
          [[100, 97, 116, 97], [99, 116, 120]] [([95, 115], 0)] demoPlan 400
        = some ([[68], [99, 111, 110, 115, 116, 97, 110, 116, 95, 48], [99, 111, 110, 115, 116, 97, 110, 116, 95, 48, 95, 49],
                 [102, 117, 110, 99, 95, 48], [102, 117, 110, 99, 95, 48, 95, 49]], st')
      ∧ lookupName st'.ns.constants [99, 111, 110, 115, 116, 97, 110, 116, 95, 48] = some 2
      ∧ lookupName st'.ns.constants [99, 111, 110, 115, 116, 97, 110, 116, 95, 48, 95, 49] = some 3 := by
  have hd : ∀ c, (48 ≤ c && c ≤ 57) = true → isIdCont c = true := by
    intro c hc
    simp only [isIdCont, isDigit, Bool.or_eq_true]
    exact Or.inr hc
  refine ⟨⟨by decide, hd⟩, ?_⟩
  have hnames : (planNames (fun c => isIdCont c) pyKeywords builtinNames
      [[100, 97, 116, 97], [99, 116, 120]] [([95, 115], 0)] demoPlan 400).map (·.1)
      = some [[68], [99, 111, 110, 115, 116, 97, 110, 116, 95, 48], [99, 111, 110, 115, 116, 97, 110, 116, 95, 48, 95, 49],
              [102, 117, 110, 99, 95, 48], [102, 117, 110, 99, 95, 48, 95, 49]] := by decide +kernel
  cases hr : planNames (fun c => isIdCont c) pyKeywords builtinNames
      [[100, 97, 116, 97], [99, 116, 120]] [([95, 115], 0)] demoPlan 400 with
  | none => rw [hr] at hnames; simp at hnames
  | some r =>
    obtain ⟨names, st'⟩ := r
    rw [hr] at hnames
    simp only [Option.map_some, Option.some.injEq] at hnames
    subst hnames
    refine ⟨st', rfl, ?_, ?_⟩
    · have hall := (alloc_names_sound (fun c => isIdCont c) (by decide) hd builtinNames _ _ _ _ _ hr).2.2.2.2.2
      exact (hall ([99, 111, 110, 115, 116, 97, 110, 116, 95, 48],
        Reg.mangled [99, 111, 110, 115, 116, 97, 110, 116, 91, 48, 93] 2) (by decide)).2.2.2.2.2
    · have hall := (alloc_names_sound (fun c => isIdCont c) (by decide) hd builtinNames _ _ _ _ _ hr).2.2.2.2.2
      exact (hall ([99, 111, 110, 115, 116, 97, 110, 116, 95, 48, 95, 49], Reg.nextId constantPrefix 3) (by decide)).2.2.2.2.2

/-- NOT the code — the numbered name stored with `add_constant` (which raises `KeyError` when the name is refused)
    instead of going through `register_mangled`: "numbered names are unique by construction" -/
def registerNextIdStrict (builtins : List Str) (st : GenSt) (pre : Str) (obj : Nat) : Option (Str × GenSt) :=
  let name := nextIdBase pre (counterOf st.counters pre)
  match st.ns.tryAddConstant builtins name obj with
  | (true, ns') => some (name, { ns := ns', counters := bumpCounter st.counters pre })
  | (false, _) => none

/-- … is not total: after a user function called `constant[0]` (registered as `constant_0`) the first value without
    literal form has no name, while the real `register_next_id` steps aside to `constant_0_1` -/
example : (regStep (fun c => isIdCont c) pyKeywords builtinNames { ns := {} }
      (.mangled [99, 111, 110, 115, 116, 97, 110, 116, 91, 48, 93] 2) 5).map (fun r => (r.1, r.2.ns.constants))
    = some ([99, 111, 110, 115, 116, 97, 110, 116, 95, 48], [([99, 111, 110, 115, 116, 97, 110, 116, 95, 48], 2)]) := by
  decide +kernel
example : (registerNextIdStrict builtinNames { ns := { constants := [([99, 111, 110, 115, 116, 97, 110, 116, 95, 48], 2)] } }
      constantPrefix 3).isNone = true := by decide +kernel
example : (registerNextId (fun c => isIdCont c) pyKeywords builtinNames
      { ns := { constants := [([99, 111, 110, 115, 116, 97, 110, 116, 95, 48], 2)] } } constantPrefix 3 5).map (·.1)
    = some [99, 111, 110, 115, 116, 97, 110, 116, 95, 48, 95, 49] := by decide +kernel

example : planRegs demoPlan = [.mangled [68] 1, .mangled [99, 111, 110, 115, 116, 97, 110, 116, 91, 48, 93] 2,
    .nextId constantPrefix 3, .nextId funcPrefix 4, .mangled [102, 117, 110, 99, 95, 48] 5] := by decide
-- the `as_is_stub` shape is transparent, a literal value and a literal factory ask for nothing, a custom accessor
-- asks after its target
example : planRegs (.func true false (some [120]) 1 [.accessor (some 9) (.const false 3), .param [99, 116, 120]])
    = [.nextId constantPrefix 3, .nextId accessorPrefix 9] := by decide
example : planRegs (.func false false none 1 [.const true 3, .func false true (some [108, 105, 115, 116]) 4 []])
    = [.nextId funcPrefix 1] := by decide

/-! ## non-vacuity -/

-- the classic injection attempt stays one literal; the `]` after it is untouched
example : lexString (pyRepr ascii (codes "\"]+__import__('os').system('x')+[\"") ++ codes "] = 1")
    = some (codes "\"]+__import__('os').system('x')+[\"", codes "] = 1") := by decide
example : pyRepr ascii (codes "a'b") = codes "\"a'b\"" := by decide
example : pyRepr ascii (codes "a'\"\\\n{}$") = codes "'a\\'\"\\\\\\n{}$'" := by decide
example : pyRepr ascii [0, 127, 233, 0x2028, 0x1F600, 0xDC80]
    = codes "'\\x00\\x7f\\xe9\\u2028\\U0001f600\\udc80'" := by decide
-- without `!r` the same text would have ended the literal: the lexer is not vacuous
example : lexString (codes "'" ++ codes "a'b" ++ codes "'") = some (codes "a", codes "b'") := by decide
example : lexString (codes "'a\nb'") = none := by decide
-- sanitizer
example : sanitize (fun c => isIdCont c) pyKeywords (codes "class") = codes "class_" := by decide
example : sanitize (fun c => isIdCont c) pyKeywords (codes "y[CANARY: CANARY()]") = codes "y_CANARYCANARY" := by decide
example : sanitize (fun c => isIdCont c) pyKeywords (codes "1x.y") = codes "_x_y" := by decide
-- a keyword hidden behind characters that are dropped is still caught (checked on the RESULT, not on the input)
example : closureName (fun c => isIdCont c) pyKeywords (codes "class!") = codes "class_" := by decide
example : closureName (fun c => isIdCont c) pyKeywords (codes "de f") = codes "def_" := by decide
example : closureName (fun c => isIdCont c) pyKeywords (codes "!?") = codes "_" := by decide
example : closureName (fun c => isIdCont c) pyKeywords [] = codes "_" := by decide
example : closureName (fun c => isIdCont c) pyKeywords (codes "is.instance") = codes "is_instance" := by decide
-- `def class(` WOULD lex as three tokens too, but its name token is a keyword: the second conjunct is not vacuous
example : tokenize (defHeader (codes "class") ++ codes "x):") = some [.name (codes "def"), .name (codes "class"), .op 40,
    .name (codes "x"), .op 41, .op 58] ∧ (Tok.name (codes "class")).isKeyword pyKeywords = true := by decide
example : (registerMangledRaw (fun c => isIdCont c) pyKeywords builtinNames { occupied := [codes "class_"] }
    (codes "class!") 7 5).map (·.1) = some (codes "class__1") := by decide
-- names
example : (codes "f_") ∈ loaderSpec.families ∧ (codes "data") ∈ loaderSpec.fixed := by decide
example : ¬ (NameSpec.separated builtinNames
    { families := [codes "f_", codes "da"], fixed := [codes "data"], heads := [] } = true) := by decide
example : ¬ (NameSpec.separated builtinNames
    { families := [codes "f_", codes "f_x"], fixed := [], heads := [] } = true) := by decide
-- mangling skips occupied names and builtins
example : (registerMangled builtinNames { occupied := [codes "src"] } (codes "src") 7 5).map (·.1)
    = some (codes "src_1") := by decide
example : (registerMangled builtinNames {} (codes "print") 7 5).map (·.1) = some (codes "print_1") := by decide
-- tokenizer over pieces:  data['k'] = f_x
example : tokenize (render ascii [.word (codes "data"), .op 91, .key (codes "k"), .op 93, .sp, .op 61, .sp,
      .gname (codes "f_") (codes "x")])
    = some [.name (codes "data"), .op 91, .str (codes "k"), .op 93, .op 61, .name (codes "f_x")] := by decide
-- a raw (unquoted) key changes the skeleton: the check is able to fail
example : (tokenize (codes "data[k] = 1")).map (skeleton []) ≠ (tokenize (codes "data[k]+x[k] = 1")).map (skeleton []) := by
  decide
-- a key glued to an identifier-like piece is NOT well formed: `f` + `'{x}'` would be an f-string for CPython
example : ¬ WFList [.word [102], .key [123, 120, 125]] := by simp [WFList, adjOk, Piece.isWordy, Piece.isKey]
example : ¬ WFList [.key [97], .key [98]] := by simp [WFList, adjOk, Piece.isWordy, Piece.isKey]
-- the site table is populated with sites of the classes the theorems are about
example : 10 ≤ (sites.filter (fun s => s.cls == SiteClass.reprQuoted)).length
    ∧ 10 ≤ (sites.filter (fun s => s.cls == SiteClass.genName)).length
    ∧ 1 ≤ (sites.filter (fun s => s.cls == SiteClass.sanitised)).length := by decide +kernel
example : sites.length ≥ 100 := by decide +kernel
example : Site.safe (Site.mk "" 0 "" "fstring" "" "key" SiteClass.raw true) = false := by decide

end Adaptix.Gen.C19
