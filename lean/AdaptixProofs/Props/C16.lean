/-
  C16 — Generic models: type arguments are substituted through the class hierarchy.
  Property theorems only; helper lemmas live in `AdaptixProofs/Lemmas/Generic*.lean`.

  Model: `AdaptixModel/Types/Generic.lean` (`resolve` follows GenericResolver statement by
  statement, as repaired by fixes/C16-bare-generic-base.patch), specification `declaredType`
  (annotation of the defining class, parameters replaced along the chain of base
  subscriptions, implicit parameters for a bare class).
-/
import AdaptixModel.Types.Generic
import AdaptixModel.Types.GenericWf
import AdaptixProofs.Lemmas.GenericSubst
import AdaptixProofs.Lemmas.GenericTable
import AdaptixProofs.Lemmas.GenericResolve
import AdaptixProofs.Lemmas.GenericInv
import AdaptixProofs.Lemmas.GenericMro
import AdaptixProofs.Lemmas.GenericPydantic
import AdaptixProofs.Lemmas.GenericWitness

namespace Adaptix.Generic.C16

open Adaptix.Generic

/-
  Full-strength statement (what C16 asks for):

    theorem resolve_eq_spec (H : Hierarchy) (hwf : Wf H) : ResolveEqSpec H

  It is FALSE for the code as it is: `resolve_eq_spec_refuted_diamond` and
  `resolve_eq_spec_refuted_typeddict` below give two well-formed class tables
  on which the resolver (model and real library, see known_findings.jsonl)
  returns another type.  What does hold is `resolve_eq_spec_partial`: the
  statement under the two side conditions `PrecedenceAgrees` and
  `OverrideVisible`, which exclude exactly those two shapes.
-/

/-- **Main theorem (partial).**  For every well-formed class table of the
    annotation-merging kinds (dataclass, attrs, NamedTuple, TypedDict) — any
    depth, any arity, any number of bases, partial binding, re-ordering, bare
    bases, re-annotation — in which (1) the leftmost base providing an
    inherited generic field gets it from the class body the MRO designates and
    (2) generic re-annotations are reported in `overriden_types`, the resolver
    computes exactly the declared type of every field of every class, bare or
    parametrised with arbitrary arguments. -/
theorem resolve_eq_spec_partial (H : Hierarchy) (hwf : Wf H) (hp : PrecedenceAgrees H)
    (ho : OverrideVisible H) (hk : H.kind ≠ .pydantic) : ResolveEqSpec H := by
  intro tgt htgt k
  have hy : Hyps H := ⟨hwf, hp, ho, hk⟩
  unfold resolve declaredType
  rw [getResolvedWith_lookup]
  have hσ : bindBase H [] tgt = (H.cls tgt.cls).params.zip (effArgs H tgt) := by
    unfold bindBase effArgs
    cases tgt.args with
    | some args =>
      simp only
      congr 1
      exact List.map_id'' (fun a => Hint.subst_nil a) args
    | none => rfl
  rw [hσ]
  cases hl : (byParents H H.classes.length tgt.cls).lookup k with
  | some t =>
    have := (byParents_inv hy H.classes.length tgt.cls htgt htgt k t hl).2
      ((H.cls tgt.cls).params.zip (effArgs H tgt)) (H.classes.length + 1) (by omega)
    simp [this]
  | none =>
    have h1 : ((byParents H H.classes.length tgt.cls).lookup k).isSome = false := by simp [hl]
    rw [byParents_lookup_isSome hk] at h1
    have : definer H tgt.cls k = none := by
      cases hd : definer H tgt.cls k with
      | none => rfl
      | some d =>
        have := (annotated_isSome_iff H tgt.cls k).mpr (by simp [hd])
        rw [h1] at this
        cases this
    simp [declaredAt, this]

/-- **pydantic.**  pydantic substitutes the arguments of subscribed parents into
    `model_fields` itself; *assuming that substitution is the declared type
    relative to the class's own parameters* (this is how `rawStorage` models the
    pydantic introspector — third-party behaviour, validated by the raw-members
    correspondence, not verified), the resolver leaves those types alone and the
    final parametrisation yields the declared type. -/
theorem resolve_eq_spec_pydantic (H : Hierarchy) (hwf : Wf H) (hp : PrecedenceAgrees H)
    (hk : H.kind = .pydantic) : ResolveEqSpec H := by
  intro tgt htgt k
  have hy : HypsP H := ⟨hwf, hp, hk⟩
  unfold resolve declaredType
  rw [getResolvedWith_lookup, byParents_pydantic hy H.classes.length tgt.cls htgt htgt k]
  have hσ : bindBase H [] tgt = (H.cls tgt.cls).params.zip (effArgs H tgt) := by
    unfold bindBase effArgs
    cases tgt.args with
    | some args =>
      simp only
      congr 1
      exact List.map_id'' (fun a => Hint.subst_nil a) args
    | none => rfl
  rw [hσ, declaredAt_comp hwf (H.classes.length + 1) tgt.cls _ k htgt,
    declaredAt_fuel hwf.1 (H.classes.length + 1) (tgt.cls + 1) tgt.cls _ k (by omega) (by omega) htgt]

/-- Side condition (2) holds for every kind except TypedDict. -/
theorem override_visible_of_class_kind (H : Hierarchy) (hk : H.kind ≠ .typedDict) :
    OverrideVisible H := by
  intro c _ kv hkv _ _
  have : kv.1 ∈ ownKeys H c := by
    simp only [ownKeys, List.mem_map]
    exact ⟨kv, hkv, rfl⟩
  unfold rawStorage
  cases h : H.kind <;> simp_all

/-- Side condition (1) holds whenever all bases that have a field get it from
    the same class body — in particular for single inheritance and for
    diamonds whose branches do not re-annotate the field differently. -/
theorem precedence_of_no_conflict (H : Hierarchy) (hwf : Wf H) (hm : MroMonotone H)
    (hn : NoConflict H) : PrecedenceAgrees H :=
  precedenceAgrees_of_noConflict hwf hm hn

/-- Single inheritance: nothing can conflict. -/
theorem precedence_of_single_inheritance (H : Hierarchy) (hwf : Wf H) (hm : MroMonotone H)
    (hs : ∀ c < H.classes.length, (origBases H c).length ≤ 1) : PrecedenceAgrees H :=
  precedenceAgrees_of_noConflict hwf hm (noConflict_of_single hs)

/-- **Corollary for the common case**: dataclass / attrs / NamedTuple hierarchies
    without conflicting bases need no side condition at all. -/
theorem resolve_eq_spec_no_conflict (H : Hierarchy) (hwf : Wf H) (hm : MroMonotone H)
    (hn : NoConflict H) (hk1 : H.kind ≠ .pydantic) (hk2 : H.kind ≠ .typedDict) : ResolveEqSpec H :=
  resolve_eq_spec_partial H hwf (precedence_of_no_conflict H hwf hm hn)
    (override_visible_of_class_kind H hk2) hk1

/-- **Shadowing: an overriding annotation wins.**  A field the class body
    itself annotates is handled with that annotation (parameters replaced by
    the arguments of the parametrisation), whatever the bases say. -/
theorem shadowing_wins (H : Hierarchy) (hwf : Wf H) (hp : PrecedenceAgrees H)
    (ho : OverrideVisible H) (hk : H.kind ≠ .pydantic)
    (tgt : Base) (htgt : tgt.cls < H.classes.length) (k : Key) (v : Hint)
    (hown : (H.cls tgt.cls).ownAnn.lookup k = some v) :
    (resolve H tgt).lookup k = some (v.subst (bindBase H [] tgt)) := by
  rw [resolve_eq_spec_partial H hwf hp ho hk tgt htgt k]
  exact declaredAt_own ⟨hwf, hp, ho, hk⟩ htgt hown _ _ (by omega)

/-- **A bare class is resolved with its implicit parameters** (resolver side). -/
theorem bare_uses_implicit (H : Hierarchy) (c : Nat) (hgen : (H.cls c).params ≠ []) :
    resolve H ⟨c, none⟩ = resolve H ⟨c, some (implicitParams H c)⟩ := by
  have : (H.cls c).params.isEmpty = false := by
    cases h : (H.cls c).params with
    | nil => exact absurd h hgen
    | cons _ _ => rfl
  simp [resolve, getResolvedWith, this]

/-- … and so is its declared type (specification side). -/
theorem bare_declared_implicit (H : Hierarchy) (c : Nat) (k : Key) :
    declaredType H ⟨c, none⟩ k = declaredType H ⟨c, some (implicitParams H c)⟩ k := by
  unfold declaredType bindBase
  simp only
  congr 2
  exact (List.map_id'' (fun a => Hint.subst_nil a) _).symm

/-- The documented table of implicit parameters. -/
theorem implicit_unconstrained : (TVDecl.mk [] none).implicit = anyHint := rfl

theorem implicit_bound (b : Hint) : (TVDecl.mk [] (some b)).implicit = b := rfl

theorem implicit_constraints (c₁ c₂ : Hint) (b : Option Hint) :
    (TVDecl.mk [c₁, c₂] b).implicit = Hint.app (Hint.app (Hint.con "Union") c₁) c₂ := rfl

/-- **Composition along the chain of base subscriptions**: replacing the
    parameters of a base by its written arguments and then the parameters of
    the subclass by theirs is one substitution with the rewritten arguments
    (no capture when the annotation mentions only parameters of the base). -/
theorem subst_comp (t : Hint) (ps : List TVar) (as : List Hint) (τ : Subst)
    (hs : ∀ v ∈ t.tvs, v ∈ ps) (hl : ps.length ≤ as.length) :
    (t.subst (ps.zip as)).subst τ = t.subst (ps.zip (as.map (·.subst τ))) :=
  Hint.subst_comp_zip t ps as τ hs hl

/-- **Left-to-right precedence of bases** (what `bases_members.update` in
    reversed order computes). -/
theorem bases_members_leftmost (res : Base → Members) (bases : List Base) (k : Key) :
    (basesMembersOf res bases).lookup k = bases.findSome? fun b => (res b).lookup k :=
  basesMembersOf_lookup res bases k

/-- **No unresolved TypeVar remains**: with closed arguments (or bare) every
    resolved field type is closed.  (This is what the unrepaired resolver
    violated for `class B(A)` with a bare generic `A`.) -/
theorem resolved_closed (H : Hierarchy) (hwf : Wf H) (hp : PrecedenceAgrees H)
    (ho : OverrideVisible H) (hk : H.kind ≠ .pydantic)
    (tgt : Base) (htgt : tgt.cls < H.classes.length)
    (hargs : ∀ args ∈ tgt.args, args.length = (H.cls tgt.cls).params.length ∧ ∀ a ∈ args, a.tvs = [])
    (k : Key) (t : Hint) (hres : (resolve H tgt).lookup k = some t) : t.tvs = [] := by
  have hy : Hyps H := ⟨hwf, hp, ho, hk⟩
  unfold resolve at hres
  rw [getResolvedWith_lookup] at hres
  cases hl : (byParents H H.classes.length tgt.cls).lookup k with
  | none => simp [hl] at hres
  | some t0 =>
    rw [hl] at hres
    simp only [Option.map_some, Option.some.injEq] at hres
    have hscope := (byParents_inv hy H.classes.length tgt.cls htgt htgt k t0 hl).1
    have hlen : (effArgs H tgt).length = (H.cls tgt.cls).params.length ∧ ∀ a ∈ effArgs H tgt, a.tvs = [] := by
      unfold effArgs
      cases ha : tgt.args with
      | some args => exact hargs args (by simp [ha])
      | none => exact ⟨implicitParams_length H tgt.cls, implicitParams_closed hy.implicitClosed tgt.cls⟩
    cases htv : t.tvs with
    | nil => rfl
    | cons w ws =>
      exfalso
      have hw : w ∈ t.tvs := by simp [htv]
      rw [← hres] at hw
      obtain ⟨a, ha, hwa⟩ := Hint.tvs_subst_zip t0 _ _ hscope (by omega) w hw
      rw [hlen.2 a ha] at hwa
      simp at hwa

/-! ### A class subscribed with its own type variables

  `class Swapped(Pair[V, K], Generic[K, V])`, `Pair[V, K]` used as a type: argument
  and parameter are the *same* TypeVar objects.  Only the arrangement in the
  class's own order (`Pair[K, V]`) substitutes nothing; every other arrangement
  (a permutation, `Pair[K, K]`, ...) is a genuine renaming, on the resolver side
  and on the specification side alike.  All three statements hold for every class
  table (no side condition), any arity and any list of type variables. -/

/-- **Identity parametrisation.**  Subscribed with its own type variables in
    their own order, a class has exactly the members `_get_members_by_parents`
    computes for it: nothing is substituted. -/
theorem own_params_identity (H : Hierarchy) (c : Nat) (k : Key) :
    (resolve H ⟨c, some ((H.cls c).params.map Hint.tv)⟩).lookup k
      = (byParents H H.classes.length c).lookup k := by
  unfold resolve
  rw [getResolvedWith_lookup]
  simp only [effArgs, zip_map_tv_eq_idSubst, Hint.subst_idSubst]
  cases (byParents H H.classes.length c).lookup k <;> rfl

/-- **Any other arrangement renames.**  Subscribed with an arbitrary list `vs`
    of type variables — in particular its own ones in another order — the
    class has the members of the identity parametrisation with parameter `i`
    renamed to `vs[i]`, simultaneously.  (`_get_type_var_to_actual` pairs
    parameters and arguments *by position*; which TypeVar objects the arguments
    are plays no role.) -/
theorem own_params_rearranged (H : Hierarchy) (c : Nat) (vs : List TVar) (k : Key) :
    (resolve H ⟨c, some (vs.map Hint.tv)⟩).lookup k
      = ((resolve H ⟨c, some ((H.cls c).params.map Hint.tv)⟩).lookup k).map
          (·.subst ((H.cls c).params.zip (vs.map Hint.tv))) := by
  rw [own_params_identity]
  unfold resolve
  rw [getResolvedWith_lookup]
  rfl

/-- The specification agrees: the declared type under a re-arrangement of the
    class's own type variables is the declared type relative to the own
    parameters, renamed by position. -/
theorem declared_own_params_rearranged (H : Hierarchy) (hwf : Wf H) (c : Nat)
    (hc : c < H.classes.length) (vs : List TVar) (k : Key) :
    declaredType H ⟨c, some (vs.map Hint.tv)⟩ k
      = (declaredType H ⟨c, some ((H.cls c).params.map Hint.tv)⟩ k).map
          (·.subst ((H.cls c).params.zip (vs.map Hint.tv))) := by
  have hnil : ∀ as : List Hint, as.map (·.subst []) = as :=
    fun as => List.map_id'' (fun a => Hint.subst_nil a) as
  unfold declaredType bindBase
  simp only [hnil, zip_map_tv_eq_idSubst]
  exact declaredAt_comp hwf (H.classes.length + 1) c _ k hc

theorem pair_swapped_values :
    resolve pairSwapped ⟨0, some [.tv 1, .tv 0]⟩ = [("first", .tv 1), ("second", .tv 0)] ∧
    resolve pairSwapped ⟨0, some [.tv 0, .tv 1]⟩ = [("first", .tv 0), ("second", .tv 1)] := by decide

/-- **The order of the arguments matters even when they are the class's own
    type variables**: "the arguments are exactly the own type variables, so
    there is nothing to substitute" is unsound as soon as the comparison ignores
    the order (`Pair[V, K]` is not `Pair[K, V]`). -/
theorem own_params_order_matters :
    ¬ (∀ (H : Hierarchy) (c : Nat) (vs : List TVar), Wf H → vs.Perm (H.cls c).params →
        resolve H ⟨c, some (vs.map Hint.tv)⟩ = resolve H ⟨c, some ((H.cls c).params.map Hint.tv)⟩) := by
  intro h
  have := h pairSwapped 0 [1, 0] (by decide) (List.Perm.swap 0 1 [])
  have hv := pair_swapped_values
  simp only [List.map_cons, List.map_nil] at this
  rw [hv.1] at this
  have h2 : (pairSwapped.cls 0).params.map Hint.tv = [.tv 0, .tv 1] := by decide
  rw [h2, hv.2] at this
  exact absurd this (by decide)

/-- Non-vacuity: the swapped hierarchy satisfies every hypothesis of the main
    theorem, and closed parametrisations come out swapped once / twice. -/
example : Wf pairSwapped ∧ PrecedenceAgrees pairSwapped ∧ OverrideVisible pairSwapped ∧
    MroMonotone pairSwapped ∧ NoConflict pairSwapped := by decide

-- Swapped[int, str] is Pair[str, int]
example : resolve pairSwapped ⟨1, some [intH, strH]⟩ = [("first", strH), ("second", intH)] := by decide

-- SwappedDeep[int, str] is Swapped[str, int] is Pair[int, str]
example : resolve pairSwapped ⟨2, some [intH, strH]⟩ =
    [("first", intH), ("second", strH), ("tail", intH)] := by decide

example : declaredType pairSwapped ⟨1, some [intH, strH]⟩ "first" = some strH := by decide

/-! ### The full-strength statement is refuted by two concrete class tables -/

theorem diamond_witness_wf : Wf diamondWitness ∧ OverrideVisible diamondWitness := by decide

theorem diamond_witness_values :
    (resolve diamondWitness ⟨3, none⟩).lookup "a" = some intH ∧
    declaredType diamondWitness ⟨3, none⟩ "a" = some (listOf strH) := by decide

/-- **Negation of the full-strength statement, witness 1** (a diamond whose
    non-leftmost branch re-annotates a field generically); known finding
    `diamond-non-leftmost-generic-reannotation`. -/
theorem resolve_eq_spec_refuted_diamond :
    ¬ (∀ H : Hierarchy, Wf H → OverrideVisible H → H.kind = .dataclass → ResolveEqSpec H) := by
  intro h
  have := h diamondWitness diamond_witness_wf.1 diamond_witness_wf.2 rfl ⟨3, none⟩ (by decide) "a"
  rw [diamond_witness_values.1, diamond_witness_values.2] at this
  exact absurd this (by decide)

theorem typeddict_witness_wf : Wf typedDictWitness ∧ PrecedenceAgrees typedDictWitness := by decide

theorem typeddict_witness_values :
    (resolve typedDictWitness ⟨1, some [strH]⟩).lookup "a" = some intH ∧
    declaredType typedDictWitness ⟨1, some [strH]⟩ "a" = some (listOf strH) := by decide

/-- **Negation of the full-strength statement, witness 2** (TypedDict generic
    re-annotation); known finding `typeddict-generic-reannotation`. -/
theorem resolve_eq_spec_refuted_typeddict :
    ¬ (∀ H : Hierarchy, Wf H → PrecedenceAgrees H → ResolveEqSpec H) := by
  intro h
  have := h typedDictWitness typeddict_witness_wf.1 typeddict_witness_wf.2 ⟨1, some [strH]⟩ (by decide) "a"
  rw [typeddict_witness_values.1, typeddict_witness_values.2] at this
  exact absurd this (by decide)

/-- hence: -/
theorem resolve_eq_spec_fails : ¬ (∀ H : Hierarchy, Wf H → ResolveEqSpec H) :=
  fun h => resolve_eq_spec_refuted_typeddict fun H hwf _ => h H hwf

/-! ### Non-vacuity: the hypotheses of the partial theorem are satisfiable by
    a three-level hierarchy with partial binding, re-ordering, a bare base and
    shadowing, and the theorem's conclusion is the expected concrete value.

    ```
    class G(Generic[T0, T1]):               a: T0 ; b: List[T1]
    class P(G[int, T2], Generic[T2, T3]):   c: T3
    class Q(P[T1, T0], Generic[T0, T1]):    a: str      # shadowing, parameters swapped
    class R(Q):                             pass        # bare generic base
    ```
    (`sample` in Lemmas/GenericWitness.lean; T1 bound to int, T3 constrained) -/
example : Wf sample ∧ PrecedenceAgrees sample ∧ OverrideVisible sample ∧ MroMonotone sample ∧ NoConflict sample := by
  decide

example : resolve sample ⟨2, some [strH, intH]⟩ =
    [("a", strH), ("b", listOf intH), ("c", strH)] := by decide

-- bare `R(Q)`: Q's T0 -> Any, T1 -> bound int; so b: List[T2 := T1 := int], c: T3 := T0 := Any
example : resolve sample ⟨3, none⟩ =
    [("a", strH), ("b", listOf intH), ("c", anyHint)] := by decide

example : declaredType sample ⟨3, none⟩ "b" = some (listOf intH) := by decide

/-! ### Further non-vacuity witnesses: every theorem above applied with all hypotheses discharged
    (pydantic kind, shadowing by a generic annotation, a real diamond, single inheritance,
    closedness, composition) -/

/-- `sample` as a pydantic hierarchy -/
def samplePyd : Hierarchy := { sample with kind := .pydantic }

example : Wf samplePyd ∧ PrecedenceAgrees samplePyd ∧ samplePyd.kind = .pydantic := by decide

example : (resolve samplePyd ⟨2, some [strH, intH]⟩).lookup "c" = declaredType samplePyd ⟨2, some [strH, intH]⟩ "c" :=
  resolve_eq_spec_pydantic samplePyd (by decide) (by decide) rfl ⟨2, some [strH, intH]⟩ (by decide) "c"

example : resolve samplePyd ⟨2, some [strH, intH]⟩ = [("a", strH), ("b", listOf intH), ("c", strH)] := by decide

/-- shadowing by a GENERIC annotation:
    `class Q(P[T1, T0], Generic[T0, T1]): a: List[T0]` over `G.a: T0` -/
def sampleShadow : Hierarchy :=
  { sample with classes := [
    { params := [0, 1], ownOrigBases := some [], bases := [], mro := [0],
      ownAnn := [("a", .tv 0), ("b", listOf (.tv 1))] },
    { params := [2, 3], ownOrigBases := some [⟨0, some [intH, .tv 2]⟩], bases := [⟨0, none⟩], mro := [1, 0],
      ownAnn := [("c", .tv 3)] },
    { params := [0, 1], ownOrigBases := some [⟨1, some [.tv 1, .tv 0]⟩], bases := [⟨1, none⟩], mro := [2, 1, 0],
      ownAnn := [("a", listOf (.tv 0))] },
    { params := [], ownOrigBases := none, bases := [⟨2, none⟩], mro := [3, 2, 1, 0], ownAnn := [] }] }

theorem sampleShadow_hyps : Wf sampleShadow ∧ PrecedenceAgrees sampleShadow ∧ OverrideVisible sampleShadow ∧
    MroMonotone sampleShadow ∧ NoConflict sampleShadow := by decide

example : (resolve sampleShadow ⟨2, some [strH, intH]⟩).lookup "a" = some (listOf strH) :=
  shadowing_wins sampleShadow sampleShadow_hyps.1 sampleShadow_hyps.2.1 sampleShadow_hyps.2.2.1 (by decide)
    ⟨2, some [strH, intH]⟩ (by decide) "a" (listOf (.tv 0)) (by decide)

/-- a diamond whose branches only SHARE an ancestor:
    ```
    class A(Generic[T]):            a: T
    class B(A[T], Generic[T]):      b: List[T]
    class C(A[U], Generic[U]):      c: U
    class D(B[int], C[int]):        pass            # MRO: D, B, C, A
    class E(D):                     a: str          # shadows through the diamond
    ``` -/
def diamondOk : Hierarchy where
  kind := .dataclass
  tvars := [(0, ⟨[], none⟩), (1, ⟨[], none⟩)]
  classes := [
    { params := [0], ownOrigBases := some [], bases := [], mro := [0], ownAnn := [("a", .tv 0)] },
    { params := [0], ownOrigBases := some [⟨0, some [.tv 0]⟩], bases := [⟨0, none⟩], mro := [1, 0],
      ownAnn := [("b", listOf (.tv 0))] },
    { params := [1], ownOrigBases := some [⟨0, some [.tv 1]⟩], bases := [⟨0, none⟩], mro := [2, 0],
      ownAnn := [("c", .tv 1)] },
    { params := [], ownOrigBases := some [⟨1, some [intH]⟩, ⟨2, some [intH]⟩], bases := [⟨1, none⟩, ⟨2, none⟩],
      mro := [3, 1, 2, 0], ownAnn := [] },
    { params := [], ownOrigBases := none, bases := [⟨3, none⟩], mro := [4, 3, 1, 2, 0], ownAnn := [("a", strH)] }]

theorem diamondOk_hyps : Wf diamondOk ∧ MroMonotone diamondOk ∧ NoConflict diamondOk := by decide

example : ResolveEqSpec diamondOk :=
  resolve_eq_spec_no_conflict diamondOk diamondOk_hyps.1 diamondOk_hyps.2.1 diamondOk_hyps.2.2 (by decide) (by decide)

example : resolve diamondOk ⟨3, none⟩ = [("a", intH), ("c", intH), ("b", listOf intH)] := by decide
example : resolve diamondOk ⟨4, none⟩ = [("a", strH), ("c", intH), ("b", listOf intH)] := by decide
example : ¬ (∀ c < diamondOk.classes.length, (origBases diamondOk c).length ≤ 1) := by decide

/-- `precedence_of_single_inheritance`, hypotheses discharged by `sample` -/
example : PrecedenceAgrees sample :=
  precedence_of_single_inheritance sample (by decide) (by decide) (by decide)

/-- `resolved_closed`, hypotheses discharged (closed arguments of the right arity) -/
example : (listOf intH).tvs = [] :=
  resolved_closed sample (by decide) (by decide) (by decide) (by decide) ⟨2, some [strH, intH]⟩ (by decide)
    (by decide) "b" (listOf intH) (by decide)

/-- `subst_comp`: `List[T1]` of `G`, seen through `P(G[int, T2])` and then `P[str, Any]` -/
example : ((listOf (.tv 1)).subst ([0, 1].zip [intH, .tv 2])).subst [(2, strH), (3, anyHint)]
    = (listOf (.tv 1)).subst ([0, 1].zip ([intH, .tv 2].map (·.subst [(2, strH), (3, anyHint)]))) :=
  subst_comp _ _ _ _ (by decide) (by decide)

end Adaptix.Generic.C16
