/-
  C16 — Generic models: type arguments are substituted through the class hierarchy.
  Property theorems only; helper lemmas live in `AdaptixProofs/Lemmas/Generic*.lean`.

  Model: `AdaptixModel/Types/Generic.lean` (`resolve` follows GenericResolver statement by
  statement, as repaired by fixes/C16-bare-generic-base.patch), specification `declaredType`
  (annotation of the defining class, parameters replaced along the chain of base
  subscriptions, implicit parameters for a bare class).
-/
import AdaptixModel.Types.Generic
import AdaptixModel.Types.GenericWf
import AdaptixProofs.Lemmas.GenericSubst
import AdaptixProofs.Lemmas.GenericTable
import AdaptixProofs.Lemmas.GenericResolve
import AdaptixProofs.Lemmas.GenericInv
import AdaptixProofs.Lemmas.GenericMro
import AdaptixProofs.Lemmas.GenericPydantic
import AdaptixProofs.Lemmas.GenericWitness
import AdaptixProofs.Lemmas.GenericTypeVars

namespace Adaptix.Generic.C16

open Adaptix.Generic

/-
  Full-strength statement (what C16 asks for):

    theorem resolve_eq_spec (H : Hierarchy) (hwf : Wf H) : ResolveEqSpec H

  It is FALSE for the code as it is: `resolve_eq_spec_refuted_diamond` and
  `resolve_eq_spec_refuted_typeddict` below give two well-formed class tables
  on which the resolver (model and real library, see known_findings.jsonl)
  returns another type.  What does hold is `resolve_eq_spec_partial`: the
  statement under the two side conditions `PrecedenceAgrees` and
  `OverrideVisible`, which exclude exactly those two shapes.
-/

/-- **Main theorem (partial).**  For every well-formed class table of the
    annotation-merging kinds (dataclass, attrs, NamedTuple, TypedDict) — any
    depth, any arity, any number of bases, partial binding, re-ordering, bare
    bases, re-annotation — in which (1) the leftmost base providing an
    inherited generic field gets it from the class body the MRO designates and
    (2) generic re-annotations are reported in `overriden_types`, the resolver
    computes exactly the declared type of every field of every class, bare or
    parametrised with arbitrary arguments. -/
theorem resolve_eq_spec_partial (H : Hierarchy) (hwf : Wf H) (hp : PrecedenceAgrees H)
    (ho : OverrideVisible H) (hk : H.kind ≠ .pydantic) : ResolveEqSpec H := by
  intro tgt htgt k
  have hy : Hyps H := ⟨hwf, hp, ho, hk⟩
  unfold resolve declaredType
  rw [getResolvedWith_lookup]
  have hσ : bindBase H [] tgt = (H.cls tgt.cls).params.zip (effArgs H tgt) := by
    unfold bindBase effArgs
    cases tgt.args with
    | some args =>
      simp only
      congr 1
      exact List.map_id'' (fun a => Hint.subst_nil a) args
    | none => rfl
  rw [hσ]
  cases hl : (byParents H H.classes.length tgt.cls).lookup k with
  | some t =>
    have := (byParents_inv hy H.classes.length tgt.cls htgt htgt k t hl).2
      ((H.cls tgt.cls).params.zip (effArgs H tgt)) (H.classes.length + 1) (by omega)
    simp [this]
  | none =>
    have h1 : ((byParents H H.classes.length tgt.cls).lookup k).isSome = false := by simp [hl]
    rw [byParents_lookup_isSome hk] at h1
    have : definer H tgt.cls k = none := by
      cases hd : definer H tgt.cls k with
      | none => rfl
      | some d =>
        have := (annotated_isSome_iff H tgt.cls k).mpr (by simp [hd])
        rw [h1] at this
        cases this
    simp [declaredAt, this]

/-- **pydantic.**  pydantic substitutes the arguments of subscribed parents into
    `model_fields` itself; *assuming that substitution is the declared type
    relative to the class's own parameters* (this is how `rawStorage` models the
    pydantic introspector — third-party behaviour, validated by the raw-members
    correspondence, not verified), the resolver leaves those types alone and the
    final parametrisation yields the declared type. -/
theorem resolve_eq_spec_pydantic (H : Hierarchy) (hwf : Wf H) (hp : PrecedenceAgrees H)
    (hk : H.kind = .pydantic) : ResolveEqSpec H := by
  intro tgt htgt k
  have hy : HypsP H := ⟨hwf, hp, hk⟩
  unfold resolve declaredType
  rw [getResolvedWith_lookup, byParents_pydantic hy H.classes.length tgt.cls htgt htgt k]
  have hσ : bindBase H [] tgt = (H.cls tgt.cls).params.zip (effArgs H tgt) := by
    unfold bindBase effArgs
    cases tgt.args with
    | some args =>
      simp only
      congr 1
      exact List.map_id'' (fun a => Hint.subst_nil a) args
    | none => rfl
  rw [hσ, declaredAt_comp hwf (H.classes.length + 1) tgt.cls _ k htgt,
    declaredAt_fuel hwf.1 (H.classes.length + 1) (tgt.cls + 1) tgt.cls _ k (by omega) (by omega) htgt]

/-- Side condition (2) holds for every kind except TypedDict. -/
theorem override_visible_of_class_kind (H : Hierarchy) (hk : H.kind ≠ .typedDict) :
    OverrideVisible H := by
  intro c _ kv hkv _ _
  have : kv.1 ∈ ownKeys H c := by
    simp only [ownKeys, List.mem_map]
    exact ⟨kv, hkv, rfl⟩
  unfold rawStorage
  cases h : H.kind <;> simp_all

/-- Side condition (1) holds whenever all bases that have a field get it from
    the same class body — in particular for single inheritance and for
    diamonds whose branches do not re-annotate the field differently. -/
theorem precedence_of_no_conflict (H : Hierarchy) (hwf : Wf H) (hm : MroMonotone H)
    (hn : NoConflict H) : PrecedenceAgrees H :=
  precedenceAgrees_of_noConflict hwf hm hn

/-- Single inheritance: nothing can conflict. -/
theorem precedence_of_single_inheritance (H : Hierarchy) (hwf : Wf H) (hm : MroMonotone H)
    (hs : ∀ c < H.classes.length, (origBases H c).length ≤ 1) : PrecedenceAgrees H :=
  precedenceAgrees_of_noConflict hwf hm (noConflict_of_single hs)

/-- **Corollary for the common case**: dataclass / attrs / NamedTuple hierarchies
    without conflicting bases need no side condition at all. -/
theorem resolve_eq_spec_no_conflict (H : Hierarchy) (hwf : Wf H) (hm : MroMonotone H)
    (hn : NoConflict H) (hk1 : H.kind ≠ .pydantic) (hk2 : H.kind ≠ .typedDict) : ResolveEqSpec H :=
  resolve_eq_spec_partial H hwf (precedence_of_no_conflict H hwf hm hn)
    (override_visible_of_class_kind H hk2) hk1

/-- **Shadowing: an overriding annotation wins.**  A field the class body
    itself annotates is handled with that annotation (parameters replaced by
    the arguments of the parametrisation), whatever the bases say. -/
theorem shadowing_wins (H : Hierarchy) (hwf : Wf H) (hp : PrecedenceAgrees H)
    (ho : OverrideVisible H) (hk : H.kind ≠ .pydantic)
    (tgt : Base) (htgt : tgt.cls < H.classes.length) (k : Key) (v : Hint)
    (hown : (H.cls tgt.cls).ownAnn.lookup k = some v) :
    (resolve H tgt).lookup k = some (v.subst (bindBase H [] tgt)) := by
  rw [resolve_eq_spec_partial H hwf hp ho hk tgt htgt k]
  exact declaredAt_own ⟨hwf, hp, ho, hk⟩ htgt hown _ _ (by omega)

/-- **A bare class is resolved with its implicit parameters** (resolver side). -/
theorem bare_uses_implicit (H : Hierarchy) (c : Nat) (hgen : (H.cls c).params ≠ []) :
    resolve H ⟨c, none⟩ = resolve H ⟨c, some (implicitParams H c)⟩ := by
  have : (H.cls c).params.isEmpty = false := by
    cases h : (H.cls c).params with
    | nil => exact absurd h hgen
    | cons _ _ => rfl
  simp [resolve, getResolvedWith, this]

/-- … and so is its declared type (specification side). -/
theorem bare_declared_implicit (H : Hierarchy) (c : Nat) (k : Key) :
    declaredType H ⟨c, none⟩ k = declaredType H ⟨c, some (implicitParams H c)⟩ k := by
  unfold declaredType bindBase
  simp only
  congr 2
  exact (List.map_id'' (fun a => Hint.subst_nil a) _).symm

/-- The documented table of implicit parameters. -/
theorem implicit_unconstrained : (TVDecl.mk [] none).implicit = anyHint := rfl

theorem implicit_bound (b : Hint) : (TVDecl.mk [] (some b)).implicit = b := rfl

theorem implicit_constraints (c₁ c₂ : Hint) (b : Option Hint) :
    (TVDecl.mk [c₁, c₂] b).implicit = Hint.app (Hint.app (Hint.con "Union") c₁) c₂ := rfl

/-! ### Limit types: the implicit parameter does not depend on WHAT the bound is

  `_derive_default` hands back the bound itself (the Union of the constraints).  It does not look at the bound: a
  concrete class, an alias, an abstract collection type (`Sequence[int]`, `Mapping[str, int]`, bare `Sequence`), another
  ABC, a Protocol, a model class — `b` ranges over every hint below (notes/C16-strengthening-4.md). -/

/-- a declaration without constraints and with a bound: the implicit parameter is the bound, whatever it is -/
theorem implicit_bound_any_limit (d : TVDecl) (b : Hint) (hc : d.constraints = []) (hb : d.bound = some b) :
    d.implicit = b := by
  simp [TVDecl.implicit, hc, hb]

/-- in particular it is `Any` only when the bound is -/
theorem implicit_bound_not_any (b : Hint) (hne : b ≠ anyHint) : (TVDecl.mk [] (some b)).implicit ≠ anyHint := by
  simpa [TVDecl.implicit] using hne

/-- **A field annotated by a parameter of a BARE class is handled with that parameter's implicit parameter**
    (resolver model, any class table under the hypotheses of the main theorem, any declaration of the TypeVar). -/
theorem bare_field_gets_implicit (H : Hierarchy) (hwf : Wf H) (hp : PrecedenceAgrees H) (ho : OverrideVisible H)
    (hk : H.kind ≠ .pydantic) (c : Nat) (hc : c < H.classes.length) (k : Key) (v : TVar) (d : TVDecl)
    (hown : (H.cls c).ownAnn.lookup k = some (.tv v)) (hv : v ∈ (H.cls c).params)
    (hdecl : H.tvars.lookup v = some d) :
    (resolve H ⟨c, none⟩).lookup k = some d.implicit := by
  rw [shadowing_wins H hwf hp ho hk ⟨c, none⟩ hc k (.tv v) hown]
  simp only [bindBase, implicitParams, Hint.subst]
  rw [lookup_zip_map_self _ _ v hv]
  simp [hdecl]

/-- … so with a bound `b` — ANY hint — the field is handled as `b` … -/
theorem bare_field_gets_bound (H : Hierarchy) (hwf : Wf H) (hp : PrecedenceAgrees H) (ho : OverrideVisible H)
    (hk : H.kind ≠ .pydantic) (c : Nat) (hc : c < H.classes.length) (k : Key) (v : TVar) (b : Hint)
    (hown : (H.cls c).ownAnn.lookup k = some (.tv v)) (hv : v ∈ (H.cls c).params)
    (hdecl : H.tvars.lookup v = some ⟨[], some b⟩) :
    (resolve H ⟨c, none⟩).lookup k = some b :=
  bare_field_gets_implicit H hwf hp ho hk c hc k v _ hown hv hdecl

/-- … exactly as if the class had been subscribed with the bound explicitly (one-parameter class). -/
theorem bare_field_as_explicit_bound (H : Hierarchy) (hwf : Wf H) (hp : PrecedenceAgrees H) (ho : OverrideVisible H)
    (hk : H.kind ≠ .pydantic) (c : Nat) (hc : c < H.classes.length) (k : Key) (v : TVar) (b : Hint)
    (hown : (H.cls c).ownAnn.lookup k = some (.tv v)) (hps : (H.cls c).params = [v])
    (hdecl : H.tvars.lookup v = some ⟨[], some b⟩) :
    (resolve H ⟨c, none⟩).lookup k = (resolve H ⟨c, some [b]⟩).lookup k := by
  rw [bare_field_gets_bound H hwf hp ho hk c hc k v b hown (by simp [hps]) hdecl,
    shadowing_wins H hwf hp ho hk ⟨c, some [b]⟩ hc k (.tv v) hown]
  simp [bindBase, hps, Hint.subst, Hint.subst_nil]

/-- **A guard on the nature of the bound is refuted**: a `_derive_default` that answers `Any` for the bounds some
    predicate singles out ("abstract class", "Protocol", …) and agrees with the code elsewhere contradicts the
    documented table as soon as the predicate holds for one bound other than `Any` itself — `Sequence[int]`, say. -/
theorem abstract_bound_guard_refuted (isAbstract : Hint → Bool) (f : TVDecl → Hint)
    (hf : ∀ d : TVDecl, f d = if d.constraints.isEmpty && (d.bound.map isAbstract).getD false then anyHint
                              else d.implicit)
    (b : Hint) (hb : isAbstract b = true) (hne : b ≠ anyHint) :
    f ⟨[], some b⟩ ≠ (TVDecl.mk [] (some b)).implicit := by
  rw [hf]
  simp only [List.isEmpty_nil, Option.map_some, Option.getD_some, hb, Bool.and_self, if_true]
  exact fun h => hne (by simpa [TVDecl.implicit] using h.symm)

/-- non-vacuity: a class table whose TypeVars are limited by ABSTRACT collection types satisfies every hypothesis -/
example : Wf boundedBatch ∧ PrecedenceAgrees boundedBatch ∧ OverrideVisible boundedBatch ∧ MroMonotone boundedBatch ∧
    NoConflict boundedBatch := by decide

/-- bare `Batch` (top-level position): `items: Sequence[int]`, `rows: List[Sequence[int]]` — what `Batch[Sequence[int]]` gives -/
example : resolve boundedBatch ⟨0, none⟩ = [("items", seqOf intH), ("rows", listOf (seqOf intH))] ∧
    resolve boundedBatch ⟨0, none⟩ = resolve boundedBatch ⟨0, some [seqOf intH]⟩ := by decide

/-- `class NamedBatch(Batch)` (bare parent in the list of bases) -/
example : resolve boundedBatch ⟨1, none⟩ =
    [("items", seqOf intH), ("rows", listOf (seqOf intH)), ("name", strH)] := by decide

/-- constraints: the Union of the (abstract) constraints; the unbounded parameter next to it gets `Any` -/
example : resolve boundedBatch ⟨2, none⟩ =
    [("scores", unionOf [mappingOf strH intH, seqOf intH]), ("tag", anyHint)] := by decide

/-- the bounded TypeVar threaded through `Deep(Batch[S], Generic[S])` and left bare one level below -/
example : resolve boundedBatch ⟨4, none⟩ = [("items", seqOf intH), ("rows", listOf (seqOf intH))] ∧
    declaredType boundedBatch ⟨4, none⟩ "items" = some (seqOf intH) := by decide

/-- `bare_field_gets_bound`, hypotheses discharged -/
example : (resolve boundedBatch ⟨0, none⟩).lookup "items" = some (seqOf intH) :=
  bare_field_gets_bound boundedBatch (by decide) (by decide) (by decide) (by decide) 0 (by decide) "items" 0
    (seqOf intH) (by decide) (by decide) rfl

/-- `abstract_bound_guard_refuted` with the guard "the origin is `Sequence` or `Mapping`" -/
example : (fun d : TVDecl => if d.constraints.isEmpty &&
      (d.bound.map fun b => b.head == .con "Sequence" || b.head == .con "Mapping").getD false
    then anyHint else d.implicit) ⟨[], some (seqOf intH)⟩ ≠ (TVDecl.mk [] (some (seqOf intH))).implicit :=
  abstract_bound_guard_refuted (fun b => b.head == .con "Sequence" || b.head == .con "Mapping") _ (fun _ => rfl)
    (seqOf intH) (by decide) (by decide)

/-- **Composition along the chain of base subscriptions**: replacing the
    parameters of a base by its written arguments and then the parameters of
    the subclass by theirs is one substitution with the rewritten arguments
    (no capture when the annotation mentions only parameters of the base). -/
theorem subst_comp (t : Hint) (ps : List TVar) (as : List Hint) (τ : Subst)
    (hs : ∀ v ∈ t.tvs, v ∈ ps) (hl : ps.length ≤ as.length) :
    (t.subst (ps.zip as)).subst τ = t.subst (ps.zip (as.map (·.subst τ))) :=
  Hint.subst_comp_zip t ps as τ hs hl

/-- **Left-to-right precedence of bases** (what `bases_members.update` in
    reversed order computes). -/
theorem bases_members_leftmost (res : Base → Members) (bases : List Base) (k : Key) :
    (basesMembersOf res bases).lookup k = bases.findSome? fun b => (res b).lookup k :=
  basesMembersOf_lookup res bases k

/-- **No unresolved TypeVar remains**: with closed arguments (or bare) every
    resolved field type is closed.  (This is what the unrepaired resolver
    violated for `class B(A)` with a bare generic `A`.) -/
theorem resolved_closed (H : Hierarchy) (hwf : Wf H) (hp : PrecedenceAgrees H)
    (ho : OverrideVisible H) (hk : H.kind ≠ .pydantic)
    (tgt : Base) (htgt : tgt.cls < H.classes.length)
    (hargs : ∀ args ∈ tgt.args, args.length = (H.cls tgt.cls).params.length ∧ ∀ a ∈ args, a.tvs = [])
    (k : Key) (t : Hint) (hres : (resolve H tgt).lookup k = some t) : t.tvs = [] := by
  have hy : Hyps H := ⟨hwf, hp, ho, hk⟩
  unfold resolve at hres
  rw [getResolvedWith_lookup] at hres
  cases hl : (byParents H H.classes.length tgt.cls).lookup k with
  | none => simp [hl] at hres
  | some t0 =>
    rw [hl] at hres
    simp only [Option.map_some, Option.some.injEq] at hres
    have hscope := (byParents_inv hy H.classes.length tgt.cls htgt htgt k t0 hl).1
    have hlen : (effArgs H tgt).length = (H.cls tgt.cls).params.length ∧ ∀ a ∈ effArgs H tgt, a.tvs = [] := by
      unfold effArgs
      cases ha : tgt.args with
      | some args => exact hargs args (by simp [ha])
      | none => exact ⟨implicitParams_length H tgt.cls, implicitParams_closed hy.implicitClosed tgt.cls⟩
    cases htv : t.tvs with
    | nil => rfl
    | cons w ws =>
      exfalso
      have hw : w ∈ t.tvs := by simp [htv]
      rw [← hres] at hw
      obtain ⟨a, ha, hwa⟩ := Hint.tvs_subst_zip t0 _ _ hscope (by omega) w hw
      rw [hlen.2 a ha] at hwa
      simp at hwa

/-! ### A class subscribed with its own type variables

  `class Swapped(Pair[V, K], Generic[K, V])`, `Pair[V, K]` used as a type: argument
  and parameter are the *same* TypeVar objects.  Only the arrangement in the
  class's own order (`Pair[K, V]`) substitutes nothing; every other arrangement
  (a permutation, `Pair[K, K]`, ...) is a genuine renaming, on the resolver side
  and on the specification side alike.  All three statements hold for every class
  table (no side condition), any arity and any list of type variables. -/

/-- **Identity parametrisation.**  Subscribed with its own type variables in
    their own order, a class has exactly the members `_get_members_by_parents`
    computes for it: nothing is substituted. -/
theorem own_params_identity (H : Hierarchy) (c : Nat) (k : Key) :
    (resolve H ⟨c, some ((H.cls c).params.map Hint.tv)⟩).lookup k
      = (byParents H H.classes.length c).lookup k := by
  unfold resolve
  rw [getResolvedWith_lookup]
  simp only [effArgs, zip_map_tv_eq_idSubst, Hint.subst_idSubst]
  cases (byParents H H.classes.length c).lookup k <;> rfl

/-- **Any other arrangement renames.**  Subscribed with an arbitrary list `vs`
    of type variables — in particular its own ones in another order — the
    class has the members of the identity parametrisation with parameter `i`
    renamed to `vs[i]`, simultaneously.  (`_get_type_var_to_actual` pairs
    parameters and arguments *by position*; which TypeVar objects the arguments
    are plays no role.) -/
theorem own_params_rearranged (H : Hierarchy) (c : Nat) (vs : List TVar) (k : Key) :
    (resolve H ⟨c, some (vs.map Hint.tv)⟩).lookup k
      = ((resolve H ⟨c, some ((H.cls c).params.map Hint.tv)⟩).lookup k).map
          (·.subst ((H.cls c).params.zip (vs.map Hint.tv))) := by
  rw [own_params_identity]
  unfold resolve
  rw [getResolvedWith_lookup]
  rfl

/-- The specification agrees: the declared type under a re-arrangement of the
    class's own type variables is the declared type relative to the own
    parameters, renamed by position. -/
theorem declared_own_params_rearranged (H : Hierarchy) (hwf : Wf H) (c : Nat)
    (hc : c < H.classes.length) (vs : List TVar) (k : Key) :
    declaredType H ⟨c, some (vs.map Hint.tv)⟩ k
      = (declaredType H ⟨c, some ((H.cls c).params.map Hint.tv)⟩ k).map
          (·.subst ((H.cls c).params.zip (vs.map Hint.tv))) := by
  have hnil : ∀ as : List Hint, as.map (·.subst []) = as :=
    fun as => List.map_id'' (fun a => Hint.subst_nil a) as
  unfold declaredType bindBase
  simp only [hnil, zip_map_tv_eq_idSubst]
  exact declaredAt_comp hwf (H.classes.length + 1) c _ k hc

theorem pair_swapped_values :
    resolve pairSwapped ⟨0, some [.tv 1, .tv 0]⟩ = [("first", .tv 1), ("second", .tv 0)] ∧
    resolve pairSwapped ⟨0, some [.tv 0, .tv 1]⟩ = [("first", .tv 0), ("second", .tv 1)] := by decide

/-- **The order of the arguments matters even when they are the class's own
    type variables**: "the arguments are exactly the own type variables, so
    there is nothing to substitute" is unsound as soon as the comparison ignores
    the order (`Pair[V, K]` is not `Pair[K, V]`). -/
theorem own_params_order_matters :
    ¬ (∀ (H : Hierarchy) (c : Nat) (vs : List TVar), Wf H → vs.Perm (H.cls c).params →
        resolve H ⟨c, some (vs.map Hint.tv)⟩ = resolve H ⟨c, some ((H.cls c).params.map Hint.tv)⟩) := by
  intro h
  have := h pairSwapped 0 [1, 0] (by decide) (List.Perm.swap 0 1 [])
  have hv := pair_swapped_values
  simp only [List.map_cons, List.map_nil] at this
  rw [hv.1] at this
  have h2 : (pairSwapped.cls 0).params.map Hint.tv = [.tv 0, .tv 1] := by decide
  rw [h2, hv.2] at this
  exact absurd this (by decide)

/-- Non-vacuity: the swapped hierarchy satisfies every hypothesis of the main
    theorem, and closed parametrisations come out swapped once / twice. -/
example : Wf pairSwapped ∧ PrecedenceAgrees pairSwapped ∧ OverrideVisible pairSwapped ∧
    MroMonotone pairSwapped ∧ NoConflict pairSwapped := by decide

-- Swapped[int, str] is Pair[str, int]
example : resolve pairSwapped ⟨1, some [intH, strH]⟩ = [("first", strH), ("second", intH)] := by decide

-- SwappedDeep[int, str] is Swapped[str, int] is Pair[int, str]
example : resolve pairSwapped ⟨2, some [intH, strH]⟩ =
    [("first", intH), ("second", strH), ("tail", intH)] := by decide

example : declaredType pairSwapped ⟨1, some [intH, strH]⟩ "first" = some strH := by decide

/-! ### Which type variables a hint mentions: the object layer, for every spelling

  `hasTV`, `isGeneric` and `parametrizeByDict` — the only places where the resolver looks *into* a field
  type — are structural functions of the hint.  The library does not compute them structurally: it reads
  `__parameters__` and the class of the Python object (`get_type_vars`, `get_type_vars_of_parametrized`,
  `is_generic`; `AdaptixModel/Types/GenericTypeVars.lean`), and one type has several spellings represented by
  objects of different classes: `Optional[list[T]]` / `Union[list[T], None]` (`typing._UnionGenericAlias`),
  `list[T] | None` (`types.UnionType`), `List[T]` (`typing._GenericAlias`), `list[T]` (`types.GenericAlias`).
  The theorems below say that the code computes the structural functions for *every* spelling, nested anywhere;
  `cp` (the `__parameters__` of unsubscribed user generic classes) is arbitrary. -/

/-- **Every subscribed spelling reports exactly the type variables that occur in it** (each once, in order of
    first occurrence), through `get_type_vars` and through `get_type_vars_of_parametrized`. -/
theorem type_vars_of_every_spelling (cp : String → List TVar) (f a : Hint) :
    getTypeVars (objOf cp (.app f a)) = (Hint.app f a).tvs.eraseDups ∧
    typeVarsOfParametrized (objOf cp (.app f a)) = (Hint.app f a).tvs.eraseDups ∧
    ∀ v, v ∈ typeVarsOfParametrized (objOf cp (.app f a)) ↔ v ∈ (Hint.app f a).tvs := by
  refine ⟨getTypeVars_app cp f a, typeVarsOfParametrized_app cp f a, fun v => ?_⟩
  rw [typeVarsOfParametrized_app]
  exact List.mem_eraseDups

/-- **The spelling is irrelevant**: two subscribed hints that mention the same type variables — `Optional[list[T]]`
    and `list[T] | None`, `Union[dict[str, T], int]` and `dict[str, T] | int` — are indistinguishable for
    `get_type_vars_of_parametrized`. -/
theorem spelling_irrelevant (cp : String → List TVar) (f a g b : Hint)
    (h : (Hint.app f a).tvs = (Hint.app g b).tvs) :
    typeVarsOfParametrized (objOf cp (.app f a)) = typeVarsOfParametrized (objOf cp (.app g b)) := by
  rw [typeVarsOfParametrized_app, typeVarsOfParametrized_app, h]

/-- `get_type_vars_of_parametrized(tp) or isinstance(tp, TypeVar)` — the early exit of
    `_get_members_by_parents` and the `if not params` of `_parametrize_by_dict` — is `hasTV`. -/
theorem hasTV_is_code (cp : String → List TVar) (t : Hint) :
    (!(typeVarsOfParametrized (objOf cp t)).isEmpty || (objOf cp t).isTypeVar) = t.hasTV := by
  cases t with
  | tv v => simp [objOf, Hint.hasTV]
  | atom n b =>
    rw [typeVarsOfParametrized_atom]
    cases b with
    | false =>
      by_cases h : n = unionTypeClassName <;> simp [objOf, h, Hint.hasTV]
    | true =>
      by_cases h1 : n ∈ builtinGenericNames
      · by_cases h2 : n ∈ builtinAliasOrigins <;> simp [objOf, h1, h2, Hint.hasTV]
      · simp [objOf, h1, Hint.hasTV]
  | con o => simp [objOf, typeVarsOfParametrized, getTypeVars, Hint.hasTV]
  | app f a =>
    rw [typeVarsOfParametrized_app, objOf_app_isTypeVar, eraseDups_isEmpty, Hint.hasTV_eq_tvs]
    simp

/-- `is_generic(value) or isinstance(value, TypeVar)` — the guard of the dict comprehension that ends
    `_get_members_by_parents` — is `isGeneric` (an atom is marked `bare` only when it is an unsubscribed builtin
    generic or a class with a non-empty `__parameters__`). -/
theorem isGeneric_is_code (cp : String → List TVar) (hcp : ∀ n, cp n ≠ []) (t : Hint) :
    (isGenericCode (objOf cp t) || (objOf cp t).isTypeVar) = t.isGeneric := by
  cases t with
  | tv v => simp [objOf, Hint.isGeneric]
  | atom n b =>
    cases b with
    | false =>
      by_cases h : n = unionTypeClassName <;> simp [objOf, h, Hint.isGeneric, isGenericCode, getTypeVars]
    | true =>
      by_cases h1 : n ∈ builtinGenericNames
      · by_cases h2 : n ∈ builtinAliasOrigins <;> simp [objOf, h1, h2, Hint.isGeneric, isGenericCode, getTypeVars]
      · simp [objOf, h1, Hint.isGeneric, isGenericCode, getTypeVars, hcp n]
  | con o => simp [objOf, isGenericCode, getTypeVars, Hint.isGeneric]
  | app f a =>
    have h := hasTV_is_code cp (.app f a)
    rw [typeVarsOfParametrized_app, objOf_app_isTypeVar] at h
    simp only [isGenericCode, getTypeVars_app, objOf_app_hasArgs, objOf_app_isTypeVar]
    simpa [Hint.isGeneric, Hint.hasTV] using h

/-- **`_parametrize_by_dict` as written** — look the hint up among the keys, collect `__parameters__`, subscribe the
    object with the tuple of actual arguments — **is simultaneous substitution**, whatever object represents the
    hint, as soon as the dict has every type variable of the hint among its keys. -/
theorem parametrize_by_dict_is_code (cp : String → List TVar) (σ : Subst) (t : Hint)
    (h : ∀ v ∈ t.tvs, (σ.lookup v).isSome = true) :
    parametrizeByDictCode cp σ t = some (parametrizeByDict σ t) := by
  cases t with
  | tv v =>
    have hv := h v (by simp [Hint.tvs])
    cases hl : σ.lookup v with
    | none => simp [hl] at hv
    | some a => simp [parametrizeByDictCode, parametrizeByDict, hl]
  | atom n b =>
    simp only [parametrizeByDictCode, typeVarsOfParametrized_atom]
    simp [parametrizeByDict, Hint.hasTV]
  | con o => simp [parametrizeByDictCode, parametrizeByDict, Hint.hasTV, objOf, typeVarsOfParametrized, getTypeVars]
  | app f a =>
    simp only [parametrizeByDictCode, typeVarsOfParametrized_app]
    rw [parametrizeByDict_eq_subst]
    cases he : (Hint.app f a).tvs.eraseDups with
    | nil =>
      have : (Hint.app f a).tvs = [] := (eraseDups_eq_nil_iff _).mp he
      simp [Hint.subst_of_closed σ _ this]
    | cons x xs =>
      obtain ⟨as, has, hlk⟩ := lookupAll_spec σ (Hint.app f a).tvs.eraseDups
        (fun v hv => h v (List.mem_eraseDups.mp hv))
      rw [he] at has hlk
      simp only [List.isEmpty_cons, Bool.false_eq_true, if_false, has, Option.map_some, subscript]
      congr 1
      apply Hint.subst_congr
      intro v hv
      exact hlk v (by rw [← he]; exact List.mem_eraseDups.mpr hv)

/-- … and a type variable of the hint that is missing from the dict is a `KeyError`, not a silent pass-through
    (the structural `subst` leaves it in place; `Wf` keeps the model away from this case). -/
theorem parametrize_by_dict_key_error (cp : String → List TVar) (σ : Subst) (f a : Hint) (v : TVar)
    (hv : v ∈ (Hint.app f a).tvs) (hm : σ.lookup v = none) :
    parametrizeByDictCode cp σ (.app f a) = none := by
  simp only [parametrizeByDictCode, typeVarsOfParametrized_app]
  have hmem : v ∈ (Hint.app f a).tvs.eraseDups := List.mem_eraseDups.mpr hv
  cases he : (Hint.app f a).tvs.eraseDups with
  | nil => rw [he] at hmem; cases hmem
  | cons x xs =>
    rw [he] at hmem
    simp [lookupAll_none σ (x :: xs) v hmem hm]

/-- The guard of `get_type_vars` is there for one object only: the *class* `types.UnionType`, whose
    `__parameters__` is a descriptor and not a tuple. -/
theorem union_type_class_has_no_type_vars (cp : String → List TVar) :
    getTypeVars (objOf cp (.atom unionTypeClassName false)) = [] := by
  simp [objOf, getTypeVars]

/-- `list[T] | None` as the grammar writes it (`types.UnionType`) -/
def pep604OptList (t : Hint) : Hint := .app (.app (.con pep604Origin) (.app (.con "list") t)) (.atom "None" false)
/-- `Optional[list[T]]` (`typing._UnionGenericAlias`) -/
def typingOptList (t : Hint) : Hint := .app (.con "Optional") (.app (.con "list") t)

/-- **An over-wide guard is refuted**: a `get_type_vars` that answers `()` for every object whose origin is
    `types.UnionType` (instances as well as the class) makes `get_type_vars_of_parametrized` differ between two
    spellings of one type, so it is not the function the resolver needs. -/
theorem wide_union_guard_refuted :
    ¬ (∀ (gtv : PyObj → List TVar),
        (∀ o, o.spelling = .pep604Union → gtv o = []) →
        (∀ o, o.spelling ≠ .pep604Union → gtv o = getTypeVars o) →
        ∀ t : Hint, gtv (objOf (fun _ => [0]) (pep604OptList t)) = gtv (objOf (fun _ => [0]) (typingOptList t))) := by
  intro h
  have := h (fun o => if o.spelling = .pep604Union then [] else getTypeVars o)
    (fun o ho => by simp [ho]) (fun o ho => by simp [ho]) (.tv 0)
  revert this
  decide

-- non-vacuity: the object facts of the two spellings, and what the code computes on them
example : (objOf (fun _ => [0]) (pep604OptList (.tv 3))).spelling = .pep604Union ∧
    (objOf (fun _ => [0]) (typingOptList (.tv 3))).spelling = .typingUnion ∧
    (objOf (fun _ => [0]) (.app (.con "list") (.tv 3))).spelling = .builtinAlias ∧
    (objOf (fun _ => [0]) (.app (.con "List") (.tv 3))).spelling = .typingAlias := by decide

example : typeVarsOfParametrized (objOf (fun _ => [0]) (pep604OptList (.tv 3))) = [3] ∧
    typeVarsOfParametrized (objOf (fun _ => [0]) (typingOptList (.tv 3))) = [3] ∧
    isGenericCode (objOf (fun _ => [0]) (pep604OptList (.tv 3))) = true ∧
    isGenericCode (objOf (fun _ => [0]) (pep604OptList intH)) = false := by decide

-- `(dict[str, T1] | list[T0] | T1-free int)[...]`: parameters in order of first occurrence, each once
example : typeVarsOfParametrized (objOf (fun _ => [0])
    (.app (.app (.app (.con pep604Origin) (.app (.app (.con "dict") (.tv 1)) (.tv 0))) (.app (.con "list") (.tv 1))) intH))
    = [1, 0] := by decide

example : parametrizeByDictCode (fun _ => [0]) [(3, intH)] (pep604OptList (.tv 3)) = some (pep604OptList intH) := by
  decide

example : parametrizeByDictCode (fun _ => [0]) [(2, intH)] (pep604OptList (.tv 3)) = none := by decide

-- an unsubscribed user generic class: `get_type_vars` is not empty, `get_type_vars_of_parametrized` is
example : getTypeVars (objOf (fun _ => [7]) (.atom "Box" true)) = [7] ∧
    typeVarsOfParametrized (objOf (fun _ => [7]) (.atom "Box" true)) = [] ∧
    isGenericCode (objOf (fun _ => [7]) (.atom "Box" true)) = true ∧
    isGenericCode (objOf (fun _ => [7]) (.atom "list" true)) = true ∧
    isGenericCode (objOf (fun _ => [7]) (.atom "List" true)) = true := by decide

/-- a class table whose generic fields are spelled as PEP 604 unions, own and inherited:
    ```
    class Box(Generic[T0]):          tag: T0 ; items: list[T0] | None ; legacy: Optional[list[T0]]
    class IntBox(Box[int]):          pass
    class Pair(Box[T1], Generic[T0, T1]):   other: dict[str, T0] | int
    ``` -/
def unionBox : Hierarchy where
  kind := .dataclass
  tvars := [(0, ⟨[], none⟩), (1, ⟨[], none⟩)]
  classes := [
    { params := [0], ownOrigBases := some [], bases := [], mro := [0],
      ownAnn := [("tag", .tv 0), ("items", pep604OptList (.tv 0)), ("legacy", typingOptList (.tv 0))] },
    { params := [], ownOrigBases := some [⟨0, some [intH]⟩], bases := [⟨0, none⟩], mro := [1, 0], ownAnn := [] },
    { params := [0, 1], ownOrigBases := some [⟨0, some [.tv 1]⟩], bases := [⟨0, none⟩], mro := [2, 0],
      ownAnn := [("other", .app (.app (.con pep604Origin) (.app (.app (.con "dict") strH) (.tv 0))) intH)] }]

example : Wf unionBox ∧ MroMonotone unionBox ∧ NoConflict unionBox := by decide

example : resolve unionBox ⟨0, some [intH]⟩ =
    [("tag", intH), ("items", pep604OptList intH), ("legacy", typingOptList intH)] := by decide

example : resolve unionBox ⟨1, none⟩ =
    [("tag", intH), ("items", pep604OptList intH), ("legacy", typingOptList intH)] := by decide

example : resolve unionBox ⟨2, some [strH, intH]⟩ =
    [("tag", intH), ("items", pep604OptList intH), ("legacy", typingOptList intH),
     ("other", .app (.app (.con pep604Origin) (.app (.app (.con "dict") strH) strH)) intH)] := by decide

example : ResolveEqSpec unionBox :=
  resolve_eq_spec_no_conflict unionBox (by decide) (by decide) (by decide) (by decide) (by decide)

/-! ### The full-strength statement is refuted by two concrete class tables -/

theorem diamond_witness_wf : Wf diamondWitness ∧ OverrideVisible diamondWitness := by decide

theorem diamond_witness_values :
    (resolve diamondWitness ⟨3, none⟩).lookup "a" = some intH ∧
    declaredType diamondWitness ⟨3, none⟩ "a" = some (listOf strH) := by decide

/-- **Negation of the full-strength statement, witness 1** (a diamond whose
    non-leftmost branch re-annotates a field generically); known finding
    `diamond-non-leftmost-generic-reannotation`. -/
theorem resolve_eq_spec_refuted_diamond :
    ¬ (∀ H : Hierarchy, Wf H → OverrideVisible H → H.kind = .dataclass → ResolveEqSpec H) := by
  intro h
  have := h diamondWitness diamond_witness_wf.1 diamond_witness_wf.2 rfl ⟨3, none⟩ (by decide) "a"
  rw [diamond_witness_values.1, diamond_witness_values.2] at this
  exact absurd this (by decide)

theorem typeddict_witness_wf : Wf typedDictWitness ∧ PrecedenceAgrees typedDictWitness := by decide

theorem typeddict_witness_values :
    (resolve typedDictWitness ⟨1, some [strH]⟩).lookup "a" = some intH ∧
    declaredType typedDictWitness ⟨1, some [strH]⟩ "a" = some (listOf strH) := by decide

/-- **Negation of the full-strength statement, witness 2** (TypedDict generic
    re-annotation); known finding `typeddict-generic-reannotation`. -/
theorem resolve_eq_spec_refuted_typeddict :
    ¬ (∀ H : Hierarchy, Wf H → PrecedenceAgrees H → ResolveEqSpec H) := by
  intro h
  have := h typedDictWitness typeddict_witness_wf.1 typeddict_witness_wf.2 ⟨1, some [strH]⟩ (by decide) "a"
  rw [typeddict_witness_values.1, typeddict_witness_values.2] at this
  exact absurd this (by decide)

/-- hence: -/
theorem resolve_eq_spec_fails : ¬ (∀ H : Hierarchy, Wf H → ResolveEqSpec H) :=
  fun h => resolve_eq_spec_refuted_typeddict fun H hwf _ => h H hwf

/-! ### Non-vacuity: the hypotheses of the partial theorem are satisfiable by
    a three-level hierarchy with partial binding, re-ordering, a bare base and
    shadowing, and the theorem's conclusion is the expected concrete value.

    ```
    class G(Generic[T0, T1]):               a: T0 ; b: List[T1]
    class P(G[int, T2], Generic[T2, T3]):   c: T3
    class Q(P[T1, T0], Generic[T0, T1]):    a: str      # shadowing, parameters swapped
    class R(Q):                             pass        # bare generic base
    ```
    (`sample` in Lemmas/GenericWitness.lean; T1 bound to int, T3 constrained) -/
example : Wf sample ∧ PrecedenceAgrees sample ∧ OverrideVisible sample ∧ MroMonotone sample ∧ NoConflict sample := by
  decide

example : resolve sample ⟨2, some [strH, intH]⟩ =
    [("a", strH), ("b", listOf intH), ("c", strH)] := by decide

-- bare `R(Q)`: Q's T0 -> Any, T1 -> bound int; so b: List[T2 := T1 := int], c: T3 := T0 := Any
example : resolve sample ⟨3, none⟩ =
    [("a", strH), ("b", listOf intH), ("c", anyHint)] := by decide

example : declaredType sample ⟨3, none⟩ "b" = some (listOf intH) := by decide

/-! ### Further non-vacuity witnesses: every theorem above applied with all hypotheses discharged
    (pydantic kind, shadowing by a generic annotation, a real diamond, single inheritance,
    closedness, composition) -/

/-- `sample` as a pydantic hierarchy -/
def samplePyd : Hierarchy := { sample with kind := .pydantic }

example : Wf samplePyd ∧ PrecedenceAgrees samplePyd ∧ samplePyd.kind = .pydantic := by decide

example : (resolve samplePyd ⟨2, some [strH, intH]⟩).lookup "c" = declaredType samplePyd ⟨2, some [strH, intH]⟩ "c" :=
  resolve_eq_spec_pydantic samplePyd (by decide) (by decide) rfl ⟨2, some [strH, intH]⟩ (by decide) "c"

example : resolve samplePyd ⟨2, some [strH, intH]⟩ = [("a", strH), ("b", listOf intH), ("c", strH)] := by decide

/-- shadowing by a GENERIC annotation:
    `class Q(P[T1, T0], Generic[T0, T1]): a: List[T0]` over `G.a: T0` -/
def sampleShadow : Hierarchy :=
  { sample with classes := [
    { params := [0, 1], ownOrigBases := some [], bases := [], mro := [0],
      ownAnn := [("a", .tv 0), ("b", listOf (.tv 1))] },
    { params := [2, 3], ownOrigBases := some [⟨0, some [intH, .tv 2]⟩], bases := [⟨0, none⟩], mro := [1, 0],
      ownAnn := [("c", .tv 3)] },
    { params := [0, 1], ownOrigBases := some [⟨1, some [.tv 1, .tv 0]⟩], bases := [⟨1, none⟩], mro := [2, 1, 0],
      ownAnn := [("a", listOf (.tv 0))] },
    { params := [], ownOrigBases := none, bases := [⟨2, none⟩], mro := [3, 2, 1, 0], ownAnn := [] }] }

theorem sampleShadow_hyps : Wf sampleShadow ∧ PrecedenceAgrees sampleShadow ∧ OverrideVisible sampleShadow ∧
    MroMonotone sampleShadow ∧ NoConflict sampleShadow := by decide

example : (resolve sampleShadow ⟨2, some [strH, intH]⟩).lookup "a" = some (listOf strH) :=
  shadowing_wins sampleShadow sampleShadow_hyps.1 sampleShadow_hyps.2.1 sampleShadow_hyps.2.2.1 (by decide)
    ⟨2, some [strH, intH]⟩ (by decide) "a" (listOf (.tv 0)) (by decide)

/-- a diamond whose branches only SHARE an ancestor:
    ```
    class A(Generic[T]):            a: T
    class B(A[T], Generic[T]):      b: List[T]
    class C(A[U], Generic[U]):      c: U
    class D(B[int], C[int]):        pass            # MRO: D, B, C, A
    class E(D):                     a: str          # shadows through the diamond
    ``` -/
def diamondOk : Hierarchy where
  kind := .dataclass
  tvars := [(0, ⟨[], none⟩), (1, ⟨[], none⟩)]
  classes := [
    { params := [0], ownOrigBases := some [], bases := [], mro := [0], ownAnn := [("a", .tv 0)] },
    { params := [0], ownOrigBases := some [⟨0, some [.tv 0]⟩], bases := [⟨0, none⟩], mro := [1, 0],
      ownAnn := [("b", listOf (.tv 0))] },
    { params := [1], ownOrigBases := some [⟨0, some [.tv 1]⟩], bases := [⟨0, none⟩], mro := [2, 0],
      ownAnn := [("c", .tv 1)] },
    { params := [], ownOrigBases := some [⟨1, some [intH]⟩, ⟨2, some [intH]⟩], bases := [⟨1, none⟩, ⟨2, none⟩],
      mro := [3, 1, 2, 0], ownAnn := [] },
    { params := [], ownOrigBases := none, bases := [⟨3, none⟩], mro := [4, 3, 1, 2, 0], ownAnn := [("a", strH)] }]

theorem diamondOk_hyps : Wf diamondOk ∧ MroMonotone diamondOk ∧ NoConflict diamondOk := by decide

example : ResolveEqSpec diamondOk :=
  resolve_eq_spec_no_conflict diamondOk diamondOk_hyps.1 diamondOk_hyps.2.1 diamondOk_hyps.2.2 (by decide) (by decide)

example : resolve diamondOk ⟨3, none⟩ = [("a", intH), ("c", intH), ("b", listOf intH)] := by decide
example : resolve diamondOk ⟨4, none⟩ = [("a", strH), ("c", intH), ("b", listOf intH)] := by decide
example : ¬ (∀ c < diamondOk.classes.length, (origBases diamondOk c).length ≤ 1) := by decide

/-- `precedence_of_single_inheritance`, hypotheses discharged by `sample` -/
example : PrecedenceAgrees sample :=
  precedence_of_single_inheritance sample (by decide) (by decide) (by decide)

/-- `resolved_closed`, hypotheses discharged (closed arguments of the right arity) -/
example : (listOf intH).tvs = [] :=
  resolved_closed sample (by decide) (by decide) (by decide) (by decide) ⟨2, some [strH, intH]⟩ (by decide)
    (by decide) "b" (listOf intH) (by decide)

/-- `subst_comp`: `List[T1]` of `G`, seen through `P(G[int, T2])` and then `P[str, Any]` -/
example : ((listOf (.tv 1)).subst ([0, 1].zip [intH, .tv 2])).subst [(2, strH), (3, anyHint)]
    = (listOf (.tv 1)).subst ([0, 1].zip ([intH, .tv 2].map (·.subst [(2, strH), (3, anyHint)]))) :=
  subst_comp _ _ _ _ (by decide) (by decide)

end Adaptix.Generic.C16
