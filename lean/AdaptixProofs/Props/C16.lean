import AdaptixModel.Types.Generic
import AdaptixModel.Types.GenericWf
namespace Adaptix.Generic.C16
end Adaptix.Generic.C16
