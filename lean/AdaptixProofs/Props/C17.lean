/-
  C17 — All supported model kinds behave the same for the same logical model.
  Property theorems only; helper lemmas live in `AdaptixProofs/Lemmas/Kinds*.lean`.

  Reading guide.  `shapeOf k m` is the model of "declare the logical model `m` in kind `k`, then run
  adaptix's introspector of that kind".  The later stages (name layout, loader/dumper generation,
  converter linking) are modelled by `loadModel`, `dumpModel`, `dumpAsList`, `link`; they receive the
  shape only and read it through the per-field specification `(id, type, required/optional, default)`.
  Field loaders/dumpers (`ld`, `dp`), evaluation of defaults (`lit`, `call`) and the name layout
  (`nm`, `omitD`: any function of the field id) are universally quantified parameters.

  FULL-STRENGTH STATEMENT (does not hold, see `full_strength_fails_*`):
      ∀ m k₁ k₂ s₁ s₂, shapeOf k₁ m = .ok s₁ → shapeOf k₂ m = .ok s₂ → s₁.1.specs = s₂.1.specs
  It fails for TypedDict (no defaults, fields sorted by name) and SQLAlchemy (autoincrement primary
  key / nullable column are optional, `None` is no default).  What does hold:
    * `shape_projection_*`     the four "plain" kinds reproduce the logical specification exactly;
    * `sqlalchemy_projection_iff`  SQLAlchemy does so exactly when `SAFaithful m`;
    * `shape_projection_typedDict` TypedDict yields it sorted by name with the defaults erased;
    * `kinds_agree_*`          hence equal / field-wise equal behaviour of loader, dumper, errors under
                               every name mapping, with the TypedDict deviations spelled out;
    * `cross_kind_convert_copies_all`  for all six kinds without side condition;
    * `convert_*`, `kinds_agree_convert*`  the generated *constructor call* (`_make_constructor_call`:
                               positional / keyword passing over `InputShape.params`, the one stage that
                               reads the parameter kinds in which the six kinds differ), bound by Python's
                               call rules, gives every destination field its own source value and nothing
                               else — also when the source lacks optional destination fields in any position;
    * `cross_kind_converter_copies_every_field`  the full converter between any two kinds of the same
                               model is never refused and passes every field its own source value;
    * `kinds_agree_load_objects*`  load → object end to end (SQLAlchemy included when nothing is skipped);
    * `kinds_agree_load_deep`, `kinds_agree_dump_nested`  nested models of the respective kind, any depth.

  NON-VACUITY.  Every theorem with hypotheses is followed by a `…_witness` theorem: concrete,
  non-degenerate data (`Lemmas/KindsWitness.lean`: `mABC` declarable in all six kinds, `mEx`, `srcAC`,
  the nested pair `mOuter`/`mInner` with kind-tagged values) on which all its hypotheses hold together.
-/
import AdaptixModel.Kinds.Shapes
import AdaptixProofs.Lemmas.KindsShapes
import AdaptixProofs.Lemmas.KindsProjections
import AdaptixProofs.Lemmas.KindsSemantics
import AdaptixProofs.Lemmas.KindsDeclarable
import AdaptixModel.Kinds.Convert
import AdaptixProofs.Lemmas.KindsConvert
import AdaptixProofs.Lemmas.KindsParams
import AdaptixProofs.Lemmas.KindsObjects
import AdaptixProofs.Lemmas.KindsNested
import AdaptixProofs.Lemmas.KindsWitness

namespace Adaptix.Kinds.C17

open Adaptix.Kinds

/-- Kinds whose shape must reproduce the logical specification exactly: every kind but TypedDict,
    SQLAlchemy only for models without autoincrement-key / nullable / `None`-default fields. -/
def Exact (k : Kind) (m : LogicalModel) : Bool :=
  match k with
  | .typedDict => false
  | .sqlalchemy => SAFaithful m
  | _ => true

/-! ## 0. Which logical models a kind supports -/

/-- **`Supported`, made explicit**: the class can be declared and introspected iff the decidable
    per-kind side conditions of `Declarable` hold. -/
theorem declarable_iff (k : Kind) (m : LogicalModel) :
    (shapeOf k m).toOption.isSome = Declarable k m := by
  cases k
  · exact declarable_dataclass m
  · exact declarable_namedTuple m
  · exact declarable_typedDict m
  · exact declarable_attrs m
  · exact declarable_pydantic m
  · exact declarable_sqlalchemy m

/-- both sides of `declarable_iff` occur: `mABC` is declarable in all six kinds, `mEx` (private
    keyword-only field, factory) in dataclass and attrs only -/
theorem declarable_iff_witness :
    (∀ k, Declarable k mABC = true) ∧ Declarable .dataclass mEx = true ∧ Declarable .attrs mEx = true ∧
    Declarable .namedTuple mEx = false ∧ Declarable .pydantic mEx = false := by
  refine ⟨mABC_declarable, ?_, ?_, ?_, ?_⟩ <;> decide

/-- **shared witness** of the hypotheses `shapeOf k m = .ok s` and `Exact k m = true`: the three-field
    model `mABC` (one required field, two defaulted ones) has a shape in every kind and every kind but
    TypedDict reproduces its specification — any two of the six kinds can be taken together -/
theorem shape_witness :
    (∀ k, ∃ i o, shapeOf k mABC = .ok (i, o)) ∧ (∀ k, k ≠ .typedDict → Exact k mABC = true) ∧
    mABC.fields.length = 3 := by
  refine ⟨fun k => ?_, fun k hk => ?_, rfl⟩
  · obtain ⟨⟨i, o⟩, h⟩ := mABC_shape k
    exact ⟨i, o, h⟩
  · cases k <;> first | rfl | exact absurd rfl hk | decide

/-- … and `mEx` (keyword-only private field, default factory) in dataclass and attrs -/
theorem shape_witness_mEx :
    (∃ i o, shapeOf .dataclass mEx = .ok (i, o)) ∧ (∃ i o, shapeOf .attrs mEx = .ok (i, o)) := by
  obtain ⟨⟨i₁, o₁⟩, h₁⟩ := shapeOf_ok_of_declarable (k := .dataclass) (m := mEx) (by decide)
  obtain ⟨⟨i₂, o₂⟩, h₂⟩ := shapeOf_ok_of_declarable (k := .attrs) (m := mEx) (by decide)
  exact ⟨⟨i₁, o₁, h₁⟩, ⟨i₂, o₂, h₂⟩⟩


/-! ## 1. Shape projections: the heart — every later stage is a function of these -/

theorem shape_projection_dataclass {m : LogicalModel} {i : InputShape} {o : OutputShape}
    (h : shapeOf .dataclass m = .ok (i, o)) : i.specs = m.inSpecs ∧ o.specs = m.outSpecs := by
  obtain ⟨hi, ho⟩ := shapeOf_dataclass_ok h
  simp [InputShape.specs, OutputShape.specs, LogicalModel.inSpecs, LogicalModel.outSpecs, hi, ho, List.map_map,
    Function.comp_def, dcInField, dcOutField, InField.spec, OutField.spec, LField.inSpec, LField.outSpec,
    declField, Accessor.optional]

theorem shape_projection_attrs {m : LogicalModel} {i : InputShape} {o : OutputShape}
    (h : shapeOf .attrs m = .ok (i, o)) : i.specs = m.inSpecs ∧ o.specs = m.outSpecs := by
  obtain ⟨hi, ho⟩ := shapeOf_attrs_ok h
  simp [InputShape.specs, OutputShape.specs, LogicalModel.inSpecs, LogicalModel.outSpecs, hi, ho, List.map_map,
    Function.comp_def, attrsInField, attrsOutField, InField.spec, OutField.spec, LField.inSpec, LField.outSpec,
    declField, Accessor.optional]

theorem shape_projection_pydantic {m : LogicalModel} {i : InputShape} {o : OutputShape}
    (h : shapeOf .pydantic m = .ok (i, o)) : i.specs = m.inSpecs ∧ o.specs = m.outSpecs := by
  obtain ⟨hi, ho⟩ := shapeOf_pydantic_ok h
  simp [InputShape.specs, OutputShape.specs, LogicalModel.inSpecs, LogicalModel.outSpecs, hi, ho, List.map_map,
    Function.comp_def, pydInField, pydOutField, InField.spec, OutField.spec, LField.inSpec, LField.outSpec,
    declField, Accessor.optional]

theorem shape_projection_namedTuple {m : LogicalModel} {i : InputShape} {o : OutputShape}
    (h : shapeOf .namedTuple m = .ok (i, o)) : i.specs = m.inSpecs ∧ o.specs = m.outSpecs := by
  obtain ⟨hd, hi, ho⟩ := shapeOf_namedTuple_ok h
  constructor
  · simp only [InputShape.specs, LogicalModel.inSpecs, hi, List.map_map]
    apply List.map_congr_left
    intro f hf
    have hdf := hd f hf
    simp only [Function.comp, ntInField, InField.spec, LField.inSpec, hdf, declField_name, declField_ty]
    simp [declField]
  · simp only [OutputShape.specs, LogicalModel.outSpecs, ho, ntOutFields_specs, List.map_map]
    apply List.map_congr_left
    intro f hf
    simp [Function.comp, LField.outSpec, hd f hf]

/-- TypedDict: the same specifications with the defaults erased (a defaulted field is `NotRequired`:
    optional without default), *sorted by field name*. -/
theorem shape_projection_typedDict {m : LogicalModel} {i : InputShape} {o : OutputShape}
    (h : shapeOf .typedDict m = .ok (i, o)) :
    i.specs.Perm (m.inSpecs.map InSpec.eraseDefault) ∧
    o.specs.Perm (m.outSpecs.map OutSpec.asTypedDict) ∧
    i.specs.Pairwise (fun a b => a.id ≤ b.id) ∧ o.specs.Pairwise (fun a b => a.id ≤ b.id) := by
  obtain ⟨hi, ho⟩ := shapeOf_typedDict_ok h
  have hp := sortByName_perm (m.fields.map (declField .typedDict false))
  have hs := sortByName_sorted (m.fields.map (declField .typedDict false))
  refine ⟨?_, ?_, ?_, ?_⟩
  · have := hp.map (fun g => (tdInField true g).spec)
    simp only [InputShape.specs, hi, List.map_map, LogicalModel.inSpecs]
    refine this.trans (List.Perm.of_eq ?_)
    simp only [List.map_map]
    apply List.map_congr_left
    intro f _
    cases hd : f.default <;>
      simp [Function.comp, tdInField, InField.spec, LField.inSpec, InSpec.eraseDefault, declField, tdRequired, hd,
        LDflt.isNone]
  · have := hp.map (fun g => (tdOutField true g).spec)
    simp only [OutputShape.specs, ho, List.map_map, LogicalModel.outSpecs]
    refine this.trans (List.Perm.of_eq ?_)
    simp only [List.map_map]
    apply List.map_congr_left
    intro f _
    cases hd : f.default <;>
      simp [Function.comp, tdOutField, OutField.spec, LField.outSpec, OutSpec.asTypedDict, declField, tdRequired, hd,
        LDflt.isNone, LDflt.toDflt, Dflt.isNone, Accessor.optional]
  · simp only [InputShape.specs, hi, List.map_map]
    exact List.pairwise_map.mpr (hs.imp (fun h => by simpa [tdInField, InField.spec] using h))
  · simp only [OutputShape.specs, ho, List.map_map]
    exact List.pairwise_map.mpr (hs.imp (fun h => by simpa [tdOutField, OutField.spec] using h))

/-- SQLAlchemy reproduces the logical input specification **iff** no field is an autoincrement
    primary key (first field, numeric, no default), a nullable column (`Optional[...]` without
    default) or carries a `None` default — an exact characterisation of the deviations. -/
theorem sqlalchemy_projection_iff {m : LogicalModel} {i : InputShape} {o : OutputShape}
    (h : shapeOf .sqlalchemy m = .ok (i, o)) : i.specs = m.inSpecs ↔ SAFaithful m = true := by
  obtain ⟨f, rest, hm, hi, _, _⟩ := shapeOf_sqlalchemy_ok h
  simp only [InputShape.specs, LogicalModel.inSpecs, hi, hm, saDecl, SAFaithful, List.map_cons, List.map_map,
    List.cons.injEq, Bool.and_eq_true, List.all_eq_true, List.map_inj_left, Function.comp]
  constructor
  · rintro ⟨h1, h2⟩
    exact ⟨(saSpec_first_iff f).mp h1, fun g hg => (saSpec_rest_iff _ g).mp (h2 g hg)⟩
  · rintro ⟨h1, h2⟩
    exact ⟨(saSpec_first_iff f).mpr h1, fun g hg => (saSpec_rest_iff _ g).mpr (h2 g hg)⟩

theorem shape_projection_sqlalchemy {m : LogicalModel} {i : InputShape} {o : OutputShape}
    (h : shapeOf .sqlalchemy m = .ok (i, o)) (hf : SAFaithful m = true) :
    i.specs = m.inSpecs ∧ o.specs = m.outSpecs := by
  refine ⟨(sqlalchemy_projection_iff h).mpr hf, ?_⟩
  obtain ⟨f, rest, hm, _, ho, _⟩ := shapeOf_sqlalchemy_ok h
  simp only [SAFaithful, hm, Bool.and_eq_true, List.all_eq_true] at hf
  simp only [OutputShape.specs, LogicalModel.outSpecs, ho, hm, saDecl, List.map_cons, List.map_map, List.cons.injEq,
    List.map_inj_left, Function.comp]
  exact ⟨saOutSpec_eq true f hf.1, fun g hg => saOutSpec_eq false g (hf.2 g hg)⟩

/-- both sides of `sqlalchemy_projection_iff` occur among the models SQLAlchemy accepts -/
theorem sqlalchemy_projection_witness :
    (∃ i o, shapeOf .sqlalchemy mABC = .ok (i, o) ∧ SAFaithful mABC = true) ∧
    (∃ i o, shapeOf .sqlalchemy { fields := [{ name := "a", ty := .int }, { name := "b", ty := .opt .int }] } = .ok (i, o) ∧
      SAFaithful { fields := [{ name := "a", ty := .int }, { name := "b", ty := .opt .int }] } = false) := by
  constructor
  · obtain ⟨⟨i, o⟩, h⟩ := mABC_shape .sqlalchemy
    exact ⟨i, o, h, by decide⟩
  · obtain ⟨⟨i, o⟩, h⟩ := shapeOf_ok_of_declarable (k := .sqlalchemy)
      (m := { fields := [{ name := "a", ty := .int }, { name := "b", ty := .opt .int }] }) (by decide)
    exact ⟨i, o, h, by decide⟩

/-- all `Exact` kinds at once -/
theorem exact_projection {k : Kind} {m : LogicalModel} {i : InputShape} {o : OutputShape}
    (h : shapeOf k m = .ok (i, o)) (he : Exact k m = true) : i.specs = m.inSpecs ∧ o.specs = m.outSpecs := by
  cases k with
  | dataclass => exact shape_projection_dataclass h
  | namedTuple => exact shape_projection_namedTuple h
  | typedDict => simp [Exact] at he
  | attrs => exact shape_projection_attrs h
  | pydantic => exact shape_projection_pydantic h
  | sqlalchemy => exact shape_projection_sqlalchemy h (by simpa [Exact] using he)

/-- every kind, no side condition: the field ids of both shapes are exactly the logical names -/
theorem every_kind_keeps_the_field_names {k : Kind} {m : LogicalModel} {i : InputShape} {o : OutputShape}
    (h : shapeOf k m = .ok (i, o)) :
    (i.fields.map (·.id)).Perm (m.fields.map (·.name)) ∧ (o.fields.map (·.id)).Perm (m.fields.map (·.name)) :=
  shape_ids h

/-! ## 2. Loading: same input → field-wise equal objects, same errors, under every name mapping -/

section
variable {D V : Type}

/-- **kinds_agree (load)**: two kinds that reproduce the specification produce *the same outcome* —
    the same constructor arguments, or the same error (not-a-mapping flag, missing keys, keys whose
    loader failed), or both refuse to build a loader — for every input, every field loader and every
    name mapping (renames, name style, skipped fields: any `nm`). -/
theorem kinds_agree_load {m : LogicalModel} {k₁ k₂ : Kind} {s₁ s₂ : Shape}
    (h₁ : shapeOf k₁ m = .ok s₁) (h₂ : shapeOf k₂ m = .ok s₂) (e₁ : Exact k₁ m = true) (e₂ : Exact k₂ m = true)
    (ld : Ty → D → Option V) (lit : Scalar → V) (call : Factory → V) (nm : String → Option String) (inp : Input D) :
    loadModel ld lit call nm s₁.1 inp = loadModel ld lit call nm s₂.1 inp := by
  unfold loadModel
  rw [(exact_projection h₁ e₁).1, (exact_projection h₂ e₂).1]

/-- non-vacuity of `kinds_agree_load` (and of the load → object theorems below): two *different* kinds
    satisfy all four hypotheses on the three-field `mABC`; the input lacks the optional key `b` and
    carries an extra key, the name layout skips nothing -/
theorem kinds_agree_load_witness :
    ∃ s₁ s₂, shapeOf .dataclass mABC = .ok s₁ ∧ shapeOf .sqlalchemy mABC = .ok s₂ ∧
      Exact .dataclass mABC = true ∧ Exact .sqlalchemy mABC = true ∧
      (∀ f ∈ mABC.fields, f.default.isNone = false → ((some : String → Option String) f.name).isSome) ∧
      loadModel (fun _ (d : Nat) => some d) (fun _ => 100) (fun _ => 200) some s₁.1
        (.mapping [("a", 1), ("c", 3), ("zz", 9)]) = .ok [("a", 1), ("b", 100), ("c", 3)] := by
  refine ⟨_, _, rfl, rfl, rfl, by decide, fun _ _ _ => rfl, ?_⟩
  decide

/-- the loaded *objects* of the four plain kinds are field-wise equal, also for the arguments the
    loader leaves to the constructor (skipped optional fields): each kind applies the declared default -/
theorem kinds_agree_objects {m : LogicalModel} {k₁ k₂ : Kind} (p₁ : k₁ ≠ .typedDict ∧ k₁ ≠ .sqlalchemy)
    (p₂ : k₂ ≠ .typedDict ∧ k₂ ≠ .sqlalchemy) (lit : Scalar → V) (call : Factory → V) (none_ : V)
    (args : List (String × V)) :
    objectOf k₁ lit call none_ m args = objectOf k₂ lit call none_ m args := by
  cases k₁ <;> cases k₂ <;>
    first | rfl | exact absurd rfl p₁.1 | exact absurd rfl p₁.2 | exact absurd rfl p₂.1 | exact absurd rfl p₂.2

theorem exact_of_plain {k : Kind} (p : k ≠ .typedDict ∧ k ≠ .sqlalchemy) (m : LogicalModel) : Exact k m = true := by
  cases k <;> first | rfl | exact absurd rfl p.1 | exact absurd rfl p.2

/-- **kinds_agree (load → objects), the four plain kinds, end to end**: whenever one kind loads the
    input, the other passes its constructor the same arguments and the two *objects* are field-wise
    equal, whatever the name layout skips (`kinds_agree_load` composed with `kinds_agree_objects`). -/
theorem kinds_agree_load_objects {m : LogicalModel} {k₁ k₂ : Kind} {s₁ s₂ : Shape}
    (h₁ : shapeOf k₁ m = .ok s₁) (h₂ : shapeOf k₂ m = .ok s₂)
    (p₁ : k₁ ≠ .typedDict ∧ k₁ ≠ .sqlalchemy) (p₂ : k₂ ≠ .typedDict ∧ k₂ ≠ .sqlalchemy)
    (ld : Ty → D → Option V) (lit : Scalar → V) (call : Factory → V) (none_ : V) (nm : String → Option String)
    (inp : Input D) (a₁ : List (String × V)) (hl : loadModel ld lit call nm s₁.1 inp = .ok a₁) :
    loadModel ld lit call nm s₂.1 inp = .ok a₁ ∧
      objectOf k₁ lit call none_ m a₁ = objectOf k₂ lit call none_ m a₁ := by
  refine ⟨?_, kinds_agree_objects p₁ p₂ lit call none_ a₁⟩
  rw [← kinds_agree_load h₁ h₂ (exact_of_plain p₁ m) (exact_of_plain p₂ m) ld lit call nm inp]
  exact hl

/-- **kinds_agree (load → objects), every kind that reproduces the specification — SQLAlchemy
    included — when the name layout skips no optional field**: a successful load then passes an
    argument for *every* logical field (an optional field of a logical model always carries a default),
    so nothing is left to the kind's constructor and the objects are field-wise equal.  (What a skipped
    optional field becomes is the one place where SQLAlchemy objects differ: `objectOf`.) -/
theorem kinds_agree_load_objects_unskipped {m : LogicalModel} {k₁ k₂ : Kind} {s₁ s₂ : Shape}
    (h₁ : shapeOf k₁ m = .ok s₁) (h₂ : shapeOf k₂ m = .ok s₂) (e₁ : Exact k₁ m = true) (e₂ : Exact k₂ m = true)
    (ld : Ty → D → Option V) (lit : Scalar → V) (call : Factory → V) (none_ : V) (nm : String → Option String)
    (hnm : ∀ f ∈ m.fields, f.default.isNone = false → (nm f.name).isSome)
    (inp : Input D) (a₁ : List (String × V)) (hl : loadModel ld lit call nm s₁.1 inp = .ok a₁) :
    loadModel ld lit call nm s₂.1 inp = .ok a₁ ∧ (∀ f ∈ m.fields, (a₁.lookup f.name).isSome) ∧
      objectOf k₁ lit call none_ m a₁ = objectOf k₂ lit call none_ m a₁ := by
  have hl2 : loadModel ld lit call nm s₂.1 inp = .ok a₁ := by
    rw [← kinds_agree_load h₁ h₂ e₁ e₂ ld lit call nm inp]; exact hl
  have hspec : loadSpecs ld lit call nm m.inSpecs inp = .ok a₁ := by
    rw [← (exact_projection (i := s₁.1) (o := s₁.2) h₁ e₁).1]; exact hl
  have hall : ∀ f ∈ m.fields, (a₁.lookup f.name).isSome := by
    intro f hf
    apply loadSpecs_ok_all_args ld lit call nm m inp a₁ hspec f hf
    cases hd : f.default.isNone
    · exact hnm f hf hd
    · -- a required field that is skipped yields `noLoader`, not `ok`
      cases hk : nm f.name with
      | some k => rfl
      | none =>
        exfalso
        unfold loadSpecs at hspec
        have : (m.inSpecs.any fun f => f.required && (nm f.id).isNone) = true := by
          rw [List.any_eq_true]
          exact ⟨f.inSpec, List.mem_map_of_mem hf, by simp [LField.inSpec, hd, hk]⟩
        rw [if_pos this] at hspec
        cases hspec
  exact ⟨hl2, hall, objectOf_all_args k₁ k₂ lit call none_ m a₁ hall⟩

/-- How a TypedDict's outcome relates to the outcome `full` of a kind that reproduces the
    specification: same errors; on success every argument of the TypedDict is an argument of the other
    kind, and the other kind has in addition exactly the *defaults of optional fields whose key is absent*
    (a TypedDict simply lacks those keys). -/
def TypedDictAgree (lit : Scalar → V) (call : Factory → V) (nm : String → Option String) (m : LogicalModel)
    (inp : Input D) : Outcome V → Outcome V → Prop
  | .ok full, .ok td =>
      (∀ p, p ∈ td → p ∈ full) ∧
      (∀ p, p ∈ full → p ∈ td ∨
        ∃ f ∈ m.inSpecs, p.1 = f.id ∧ f.required = false ∧ absentRes lit call f.default = .arg p.2 ∧
          ∃ kvs k, inp = .mapping kvs ∧ nm f.id = some k ∧ kvs.lookup k = none)
  | .err e, .err e' => e.notMapping = e'.notMapping ∧ SameMembers e.missing e'.missing ∧ SameMembers e.bad e'.bad
  | .noLoader, .noLoader => True
  | _, _ => False

/-- **kinds_agree (load, TypedDict)** -/
theorem kinds_agree_load_typedDict {m : LogicalModel} {k : Kind} {s std : Shape}
    (h : shapeOf k m = .ok s) (htd : shapeOf .typedDict m = .ok std) (e : Exact k m = true)
    (ld : Ty → D → Option V) (lit : Scalar → V) (call : Factory → V) (nm : String → Option String) (inp : Input D) :
    TypedDictAgree lit call nm m inp (loadModel ld lit call nm s.1 inp) (loadModel ld lit call nm std.1 inp) := by
  unfold loadModel
  rw [(exact_projection h e).1]
  have hperm := (shape_projection_typedDict htd).1
  have h1 := loadSpecs_erase ld lit call nm m.inSpecs inp
  have h2 := loadSpecs_perm ld lit call nm hperm inp
  generalize loadSpecs ld lit call nm m.inSpecs inp = full at h1
  generalize loadSpecs ld lit call nm (m.inSpecs.map InSpec.eraseDefault) inp = erased at h1 h2
  generalize loadSpecs ld lit call nm std.1.specs inp = td at h2
  cases full <;> cases erased <;> cases td <;>
    simp only [Outcome.ErasedAgree, Outcome.Agree, TypedDictAgree] at h1 h2 ⊢ <;> try contradiction
  · obtain ⟨ha, hb⟩ := h1
    refine ⟨fun p hp => ha p ((h2 p).mp hp), fun p hp => ?_⟩
    rcases hb p hp with h | h
    · exact Or.inl ((h2 p).mpr h)
    · exact Or.inr h
  · subst h1
    exact ⟨h2.1.symm, fun x => (h2.2.1 x).symm, fun x => (h2.2.2 x).symm⟩

/-- **same errors for the same bad input, all six kinds** (TypedDict included): if one kind reports an
    error, the other reports the same not-a-mapping flag, the same missing keys and the same bad keys. -/
theorem kinds_agree_errors {m : LogicalModel} {k : Kind} {s std : Shape}
    (h : shapeOf k m = .ok s) (htd : shapeOf .typedDict m = .ok std) (e : Exact k m = true)
    (ld : Ty → D → Option V) (lit : Scalar → V) (call : Factory → V) (nm : String → Option String) (inp : Input D)
    (er : LoadErr) (hk : loadModel ld lit call nm s.1 inp = .err er) :
    ∃ er', loadModel ld lit call nm std.1 inp = .err er' ∧ er.notMapping = er'.notMapping ∧
      SameMembers er.missing er'.missing ∧ SameMembers er.bad er'.bad := by
  have := kinds_agree_load_typedDict h htd e ld lit call nm inp
  rw [hk] at this
  cases htdo : loadModel ld lit call nm std.1 inp with
  | ok a => simp [htdo, TypedDictAgree] at this
  | noLoader => simp [htdo, TypedDictAgree] at this
  | err er' =>
    rw [htdo] at this
    exact ⟨er', rfl, this⟩

/-- … and conversely: an error of the TypedDict twin is an error of the other kind, with the same content -/
theorem kinds_agree_errors_conv {m : LogicalModel} {k : Kind} {s std : Shape}
    (h : shapeOf k m = .ok s) (htd : shapeOf .typedDict m = .ok std) (e : Exact k m = true)
    (ld : Ty → D → Option V) (lit : Scalar → V) (call : Factory → V) (nm : String → Option String) (inp : Input D)
    (er' : LoadErr) (hk : loadModel ld lit call nm std.1 inp = .err er') :
    ∃ er, loadModel ld lit call nm s.1 inp = .err er ∧ er.notMapping = er'.notMapping ∧
      SameMembers er.missing er'.missing ∧ SameMembers er.bad er'.bad := by
  have := kinds_agree_load_typedDict h htd e ld lit call nm inp
  rw [hk] at this
  cases hko : loadModel ld lit call nm s.1 inp with
  | ok a => simp [hko, TypedDictAgree] at this
  | noLoader => simp [hko, TypedDictAgree] at this
  | err er =>
    rw [hko] at this
    exact ⟨er, rfl, this⟩

/-- **field-wise equal objects, TypedDict included, when no optional key is absent**: if the input
    mapping holds the key of every optional field the name layout does not skip, the TypedDict twin
    receives exactly the arguments of the other kind (the only difference `TypedDictAgree` allows —
    defaults of absent optional keys — does not arise). -/
theorem kinds_agree_load_typedDict_all_keys {m : LogicalModel} {k : Kind} {s std : Shape}
    (h : shapeOf k m = .ok s) (htd : shapeOf .typedDict m = .ok std) (e : Exact k m = true)
    (ld : Ty → D → Option V) (lit : Scalar → V) (call : Factory → V) (nm : String → Option String)
    (kvs : List (String × D))
    (hkeys : ∀ f ∈ m.fields, f.default.isNone = false → ∀ key, nm f.name = some key → (kvs.lookup key).isSome)
    (a : List (String × V)) (hl : loadModel ld lit call nm s.1 (.mapping kvs) = .ok a) :
    ∃ b, loadModel ld lit call nm std.1 (.mapping kvs) = .ok b ∧ SameMembers a b := by
  have := kinds_agree_load_typedDict h htd e ld lit call nm (.mapping kvs)
  rw [hl] at this
  cases htdo : loadModel ld lit call nm std.1 (.mapping kvs) with
  | err er => simp [htdo, TypedDictAgree] at this
  | noLoader => simp [htdo, TypedDictAgree] at this
  | ok b =>
    rw [htdo] at this
    obtain ⟨hsub, hsup⟩ := this
    refine ⟨b, rfl, fun p => ⟨fun hp => ?_, hsub p⟩⟩
    rcases hsup p hp with hb | ⟨f, hf, _, hreq, _, kvs', key, hinp, hnm, hnone⟩
    · exact hb
    · exfalso
      obtain ⟨g, hg, rfl⟩ := List.mem_map.mp hf
      cases hinp
      have := hkeys g hg (by simpa [LField.inSpec] using hreq) key (by simpa [LField.inSpec] using hnm)
      simp [hnone] at this

end

/-- non-vacuity of `kinds_agree_load_typedDict`: the hypotheses hold for `mABC` as dataclass and
    TypedDict, and the case that makes `TypedDictAgree` more than equality occurs — the optional key
    `b` is absent, the dataclass receives its default, the TypedDict does not -/
theorem kinds_agree_load_typedDict_witness :
    ∃ s std, shapeOf .dataclass mABC = .ok s ∧ shapeOf .typedDict mABC = .ok std ∧ Exact .dataclass mABC = true ∧
      loadModel (fun _ (d : Nat) => some d) (fun _ => 100) (fun _ => 200) some s.1 (.mapping [("a", 1), ("c", 3)])
        = .ok [("a", 1), ("b", 100), ("c", 3)] ∧
      loadModel (fun _ (d : Nat) => some d) (fun _ => 100) (fun _ => 200) some std.1 (.mapping [("a", 1), ("c", 3)])
        = .ok [("a", 1), ("c", 3)] := by
  refine ⟨_, _, rfl, mABC_typedDict, rfl, ?_, ?_⟩ <;> decide

/-- non-vacuity of `kinds_agree_load_typedDict_all_keys`: an input with all three keys under a renaming
    name layout -/
theorem kinds_agree_load_typedDict_all_keys_witness :
    ∃ s std, shapeOf .pydantic mABC = .ok s ∧ shapeOf .typedDict mABC = .ok std ∧ Exact .pydantic mABC = true ∧
      (∀ f ∈ mABC.fields, f.default.isNone = false → ∀ key, (fun id => some (id ++ "_")) f.name = some key →
        ((([("a_", 1), ("b_", 2), ("c_", 3)] : List (String × Nat))).lookup key).isSome) ∧
      loadModel (fun _ (d : Nat) => some d) (fun _ => 100) (fun _ => 200) (fun id => some (id ++ "_")) s.1
        (.mapping [("a_", 1), ("b_", 2), ("c_", 3)]) = .ok [("a", 1), ("b", 2), ("c", 3)] := by
  refine ⟨_, _, rfl, mABC_typedDict, rfl, by decide, ?_⟩
  decide

/-- non-vacuity of `kinds_agree_errors` / `kinds_agree_errors_conv`: an input on which the loaders of
    both twins report an error with a missing *and* a bad key (the field loader rejects `0`) -/
theorem kinds_agree_errors_witness :
    ∃ s std, shapeOf .dataclass mABC = .ok s ∧ shapeOf .typedDict mABC = .ok std ∧ Exact .dataclass mABC = true ∧
      loadModel (fun _ (d : Nat) => if d = 0 then none else some d) (fun _ => 100) (fun _ => 200) some s.1
        (.mapping [("b", 0)]) = .err { notMapping := false, missing := ["a"], bad := ["b"] } ∧
      loadModel (fun _ (d : Nat) => if d = 0 then none else some d) (fun _ => 100) (fun _ => 200) some std.1
        (.mapping [("b", 0)]) = .err { notMapping := false, missing := ["a"], bad := ["b"] } := by
  refine ⟨_, _, rfl, mABC_typedDict, rfl, ?_, ?_⟩ <;> decide

/-- **kinds_agree (load, nested models)**: when the field loaders of the two kinds are *not* the same
    function — a field whose type is a nested model is loaded into the nested class *of the respective
    kind* — but fail together and otherwise return `R`-related values (`R` = "field-wise equal"), the
    two outcomes are `R`-related field by field and the errors are equal.  This is the induction step
    over the nesting depth: field-wise equality of nested values lifts to the enclosing objects. -/
theorem kinds_agree_load_nested {D V₁ V₂ : Type} {m : LogicalModel} {k₁ k₂ : Kind} {s₁ s₂ : Shape}
    (h₁ : shapeOf k₁ m = .ok s₁) (h₂ : shapeOf k₂ m = .ok s₂) (e₁ : Exact k₁ m = true) (e₂ : Exact k₂ m = true)
    (R : V₁ → V₂ → Prop) (ld₁ : Ty → D → Option V₁) (ld₂ : Ty → D → Option V₂)
    (lit₁ : Scalar → V₁) (lit₂ : Scalar → V₂) (call₁ : Factory → V₁) (call₂ : Factory → V₂)
    (hld : ∀ ty d, OptRel R (ld₁ ty d) (ld₂ ty d)) (hlit : ∀ s, R (lit₁ s) (lit₂ s))
    (hcall : ∀ f, R (call₁ f) (call₂ f)) (nm : String → Option String) (inp : Input D) :
    Outcome.Rel R (loadModel ld₁ lit₁ call₁ nm s₁.1 inp) (loadModel ld₂ lit₂ call₂ nm s₂.1 inp) := by
  unfold loadModel
  rw [(exact_projection h₁ e₁).1, (exact_projection h₂ e₂).1]
  exact loadSpecs_rel hld hlit hcall nm m.inSpecs inp

/-- the same, asking the two field loaders to be related only on the *types of the model's own
    fields* (what an induction over reachable classes can supply) -/
theorem kinds_agree_load_nested_local {D V₁ V₂ : Type} {m : LogicalModel} {k₁ k₂ : Kind} {s₁ s₂ : Shape}
    (h₁ : shapeOf k₁ m = .ok s₁) (h₂ : shapeOf k₂ m = .ok s₂) (e₁ : Exact k₁ m = true) (e₂ : Exact k₂ m = true)
    (R : V₁ → V₂ → Prop) (ld₁ : Ty → D → Option V₁) (ld₂ : Ty → D → Option V₂)
    (lit₁ : Scalar → V₁) (lit₂ : Scalar → V₂) (call₁ : Factory → V₁) (call₂ : Factory → V₂)
    (hld : ∀ f ∈ m.fields, ∀ d, OptRel R (ld₁ f.ty d) (ld₂ f.ty d)) (hlit : ∀ s, R (lit₁ s) (lit₂ s))
    (hcall : ∀ f, R (call₁ f) (call₂ f)) (nm : String → Option String) (inp : Input D) :
    Outcome.Rel R (loadModel ld₁ lit₁ call₁ nm s₁.1 inp) (loadModel ld₂ lit₂ call₂ nm s₂.1 inp) := by
  unfold loadModel
  rw [(exact_projection h₁ e₁).1, (exact_projection h₂ e₂).1]
  refine loadSpecs_rel_local nm m.inSpecs inp ?_ hlit hcall
  intro f hf
  obtain ⟨g, hg, rfl⟩ := List.mem_map.mp hf
  exact hld g hg

/-- **kinds_agree (load, nested models, any depth)** — the induction `kinds_agree_load_nested` is the
    step of, carried out.  `loadTy … k n` (`Lemmas/KindsNested.lean`) loads a field type when *every*
    class is declared in kind `k`: a nested model through the model loader generated from its kind-`k`
    shape (its own fields loaded one level down, its own name layout `nm cls`), the result made into an
    object of that class by `mk k cls`; every other type through `cont`, which may call the loader one
    level down (`Optional`, `list`, …).  If every class of the environment has a shape in both kinds
    that reproduces its specification, `cont` preserves relatedness, and objects of the same class built
    in the two kinds from field-wise related arguments are related (`R` = "field-wise equal"), then the
    two kinds fail together and otherwise load field-wise equal values — for every type, input, depth. -/
theorem kinds_agree_load_deep {D V : Type} {k₁ k₂ : Kind} (R : V → V → Prop)
    (cont : (Ty → D → Option V) → Ty → D → Option V) (asInput : D → Input D)
    (mk : Kind → String → List (String × V) → V) (lit : Scalar → V) (call : Factory → V)
    (nm : String → String → Option String) (env : Env)
    (henv : ∀ name m, env name = some m →
      (∃ s, shapeOf k₁ m = .ok s) ∧ Exact k₁ m = true ∧ (∃ s, shapeOf k₂ m = .ok s) ∧ Exact k₂ m = true)
    (hcont : ∀ l₁ l₂ : Ty → D → Option V, (∀ ty d, OptRel R (l₁ ty d) (l₂ ty d)) →
      ∀ ty d, OptRel R (cont l₁ ty d) (cont l₂ ty d))
    (hmk : ∀ name a₁ a₂, ArgsRel R a₁ a₂ → R (mk k₁ name a₁) (mk k₂ name a₂))
    (hlit : ∀ s, R (lit s) (lit s)) (hcall : ∀ f, R (call f) (call f)) :
    ∀ n ty d, OptRel R (loadTy cont asInput mk lit call nm env k₁ n ty d)
      (loadTy cont asInput mk lit call nm env k₂ n ty d) := by
  intro n
  induction n with
  | zero => intro ty d; simp [loadTy, OptRel]
  | succ n ih =>
    intro ty d
    cases ty with
    | model name =>
      simp only [loadTy]
      cases he : env name with
      | none => simp [OptRel]
      | some m =>
        obtain ⟨⟨s₁, h₁⟩, e₁, ⟨s₂, h₂⟩, e₂⟩ := henv name m he
        have := kinds_agree_load_nested_local h₁ h₂ e₁ e₂ R _ _ lit lit call call
          (fun f _ d => ih f.ty d) hlit hcall (nm name) (asInput d)
        simp only [h₁, h₂]
        generalize loadModel (loadTy cont asInput mk lit call nm env k₁ n) lit call (nm name) s₁.1 (asInput d) = o₁ at this
        generalize loadModel (loadTy cont asInput mk lit call nm env k₂ n) lit call (nm name) s₂.1 (asInput d) = o₂ at this
        cases o₁ <;> cases o₂ <;> simp_all [Outcome.Rel, OptRel]
    | _ => simp only [loadTy]; exact hcont _ _ ih _ d

/-- non-vacuity of `kinds_agree_load_deep`: all five hypotheses hold together for dataclass vs pydantic
    on a *finite* environment of two classes (`Outer` nests `Inner` directly and under `Optional`; every
    other class name is unknown), values that record the kind of every class instantiated, and `wR` =
    "same leaf values, as many class instances" — and the two loaders really return different,
    related values (depth 4, an absent optional key inside the nested class, an extra key) -/
theorem kinds_agree_load_deep_witness :
    (∀ name m, wEnv name = some m →
      (∃ s, shapeOf .dataclass m = .ok s) ∧ Exact .dataclass m = true ∧
      (∃ s, shapeOf .pydantic m = .ok s) ∧ Exact .pydantic m = true) ∧
    (∀ l₁ l₂ : Ty → J → Option WV, (∀ ty d, OptRel wR (l₁ ty d) (l₂ ty d)) →
      ∀ ty d, OptRel wR (wCont l₁ ty d) (wCont l₂ ty d)) ∧
    (∀ name a₁ a₂, ArgsRel wR a₁ a₂ → wR (wMk .dataclass name a₁) (wMk .pydantic name a₂)) ∧
    (∀ s, wR (wLit s) (wLit s)) ∧ (∀ f, wR (wCall f) (wCall f)) ∧
    loadTy wCont J.asInput wMk wLit wCall (fun _ => some) wEnv .dataclass 4 (.model "Outer") wInput
      = some ([5, 7, 2, 3, 1], [.dataclass, .dataclass, .dataclass]) ∧
    loadTy wCont J.asInput wMk wLit wCall (fun _ => some) wEnv .pydantic 4 (.model "Outer") wInput
      = some ([5, 7, 2, 3, 1], [.pydantic, .pydantic, .pydantic]) := by
  refine ⟨fun name m h => ?_, wCont_rel, wMk_rel _ _, fun _ => ⟨rfl, rfl⟩, fun _ => ⟨rfl, rfl⟩, ?_, ?_⟩
  · obtain ⟨d₁, d₂⟩ := wEnv_declarable name m h
    exact ⟨shapeOf_ok_of_declarable d₁, rfl, shapeOf_ok_of_declarable d₂, rfl⟩
  · decide
  · decide

/-- non-vacuity of `kinds_agree_load_nested` (and `_local`) in its intended use: the two field loaders
    are *different* functions — nested classes of the respective kind — and satisfy `hld` for every
    type and datum; `mOuter` has a shape in both kinds -/
theorem kinds_agree_load_nested_witness :
    (∃ s₁ s₂, shapeOf .dataclass mOuter = .ok s₁ ∧ shapeOf .pydantic mOuter = .ok s₂) ∧
    Exact .dataclass mOuter = true ∧ Exact .pydantic mOuter = true ∧
    (∀ ty d, OptRel wR (loadTy wCont J.asInput wMk wLit wCall (fun _ => some) wEnv .dataclass 3 ty d)
      (loadTy wCont J.asInput wMk wLit wCall (fun _ => some) wEnv .pydantic 3 ty d)) ∧
    (∀ s, wR (wLit s) (wLit s)) ∧ (∀ f, wR (wCall f) (wCall f)) ∧
    loadTy wCont J.asInput wMk wLit wCall (fun _ => some) wEnv .dataclass 3 (.model "Inner") (.obj [("a", .num 5)])
      = some ([5, 7], [.dataclass]) ∧
    loadTy wCont J.asInput wMk wLit wCall (fun _ => some) wEnv .pydantic 3 (.model "Inner") (.obj [("a", .num 5)])
      = some ([5, 7], [.pydantic]) := by
  obtain ⟨henv, hcont, hmk, hlit, hcall, _, _⟩ := kinds_agree_load_deep_witness
  obtain ⟨s₁, h₁⟩ := shapeOf_ok_of_declarable (k := .dataclass) (m := mOuter) (by decide)
  obtain ⟨s₂, h₂⟩ := shapeOf_ok_of_declarable (k := .pydantic) (m := mOuter) (by decide)
  refine ⟨⟨s₁, s₂, h₁, h₂⟩, rfl, rfl, ?_, hlit, hcall, ?_, ?_⟩
  · exact kinds_agree_load_deep wR wCont J.asInput wMk wLit wCall (fun _ => some) wEnv henv hcont hmk hlit hcall 3
  · decide
  · decide

/-! ## 3. Dumping: field-wise equal objects → equal data, under every name mapping / omit_default -/

section
variable {D V : Type} [DecidableEq V]

/-- **kinds_agree (dump)** -/
theorem kinds_agree_dump {m : LogicalModel} {k₁ k₂ : Kind} {s₁ s₂ : Shape}
    (h₁ : shapeOf k₁ m = .ok s₁) (h₂ : shapeOf k₂ m = .ok s₂) (e₁ : Exact k₁ m = true) (e₂ : Exact k₂ m = true)
    (dp : Ty → V → D) (lit : Scalar → V) (call : Factory → V) (nm : String → Option String) (omitD : String → Bool)
    (obj : List (String × V)) :
    dumpModel dp lit call nm omitD s₁.2 obj = dumpModel dp lit call nm omitD s₂.2 obj := by
  unfold dumpModel
  rw [(exact_projection h₁ e₁).2, (exact_projection h₂ e₂).2]

/-- non-vacuity of `kinds_agree_dump` (and `kinds_agree_as_list`): NamedTuple vs pydantic on `mABC`;
    `omit_default` is on for `b` only, which holds its default -/
theorem kinds_agree_dump_witness :
    ∃ s₁ s₂, shapeOf .namedTuple mABC = .ok s₁ ∧ shapeOf .pydantic mABC = .ok s₂ ∧
      Exact .namedTuple mABC = true ∧ Exact .pydantic mABC = true ∧
      dumpModel (fun _ (v : Nat) => v) (fun _ => 100) (fun _ => 200) some (fun id => id == "b") s₁.2
        [("a", 1), ("b", 100), ("c", 3)] = some [("a", 1), ("c", 3)] ∧
      dumpAsList (fun _ (v : Nat) => v) s₂.2 [("a", 1), ("b", 100), ("c", 3)] = [some 1, some 100, some 3] := by
  refine ⟨_, _, rfl, rfl, rfl, rfl, ?_, ?_⟩ <;> decide

/-- **kinds_agree (dump, TypedDict)**: for an object holding every field both dumps succeed; the
    TypedDict dump contains every item of the other kind's dump, and they hold the same items when
    `omit_default` is off for the model's fields (a TypedDict has no default to omit). -/
theorem kinds_agree_dump_typedDict {m : LogicalModel} {k : Kind} {s std : Shape}
    (h : shapeOf k m = .ok s) (htd : shapeOf .typedDict m = .ok std) (e : Exact k m = true)
    (dp : Ty → V → D) (lit : Scalar → V) (call : Factory → V) (nm : String → Option String) (omitD : String → Bool)
    (obj : List (String × V)) (hobj : ∀ f ∈ m.fields, (obj.lookup f.name).isSome) :
    ∃ a b, dumpModel dp lit call nm omitD s.2 obj = some a ∧ dumpModel dp lit call nm omitD std.2 obj = some b ∧
      (∀ p, p ∈ a → p ∈ b) ∧ ((∀ f ∈ m.fields, omitD f.name = false) → SameMembers a b) := by
  unfold dumpModel
  rw [(exact_projection h e).2]
  have hperm := (shape_projection_typedDict htd).2.1
  have hobj' : ∀ f ∈ m.outSpecs, (obj.lookup f.id).isSome := by
    intro f hf
    obtain ⟨g, hg, rfl⟩ := List.mem_map.mp hf
    exact hobj g hg
  obtain ⟨a, b, ha, hb, hsub, heq⟩ := dumpSpecs_typedDict dp lit call nm omitD m.outSpecs obj hobj'
  have h2 := dumpSpecs_perm dp lit call nm omitD hperm obj
  rw [hb] at h2
  cases htdo : dumpSpecs dp lit call nm omitD std.2.specs obj with
  | none => simp [htdo, DumpAgree] at h2
  | some c =>
    rw [htdo] at h2
    simp only [DumpAgree] at h2
    refine ⟨a, c, ha, rfl, fun p hp => (h2 p).mpr (hsub p hp), fun hom => ?_⟩
    have : a = b := heq (by
      intro f hf
      obtain ⟨g, hg, rfl⟩ := List.mem_map.mp hf
      exact hom g hg)
    subst this
    exact fun x => (h2 x).symm

/-- non-vacuity of `kinds_agree_dump_typedDict`: an object holding all three fields of `mABC`; with
    `omit_default` on, the dataclass twin omits `b` (it holds the default) and the TypedDict twin keeps
    it — the inclusion of the theorem is strict here -/
theorem kinds_agree_dump_typedDict_witness :
    ∃ s std, shapeOf .dataclass mABC = .ok s ∧ shapeOf .typedDict mABC = .ok std ∧ Exact .dataclass mABC = true ∧
      (∀ f ∈ mABC.fields, ((([("a", 1), ("b", 100), ("c", 3)] : List (String × Nat))).lookup f.name).isSome) ∧
      dumpModel (fun _ (v : Nat) => v) (fun _ => 100) (fun _ => 200) some (fun _ => true) s.2
        [("a", 1), ("b", 100), ("c", 3)] = some [("a", 1), ("c", 3)] ∧
      dumpModel (fun _ (v : Nat) => v) (fun _ => 100) (fun _ => 200) some (fun _ => true) std.2
        [("a", 1), ("b", 100), ("c", 3)] = some [("a", 1), ("b", 100), ("c", 3)] := by
  refine ⟨_, _, rfl, mABC_typedDict, rfl, by decide, ?_, ?_⟩ <;> decide

/-- **kinds_agree (dump, nested models)**: the two objects are not the same value but *field-wise
    related* — objects of two different classes whose nested values are objects of the respective
    kind — and the field dumpers are those of the respective kind.  If related values dump to equal
    data and are equal to a default together, the two dumps are **equal**, under every name mapping and
    `omit_default` setting.  (The counterpart of `kinds_agree_load_nested`; by the same induction over
    the nesting depth `hdp` holds for the dumpers of nested models.) -/
theorem kinds_agree_dump_nested {V₁ V₂ : Type} [DecidableEq V₁] [DecidableEq V₂]
    {m : LogicalModel} {k₁ k₂ : Kind} {s₁ s₂ : Shape}
    (h₁ : shapeOf k₁ m = .ok s₁) (h₂ : shapeOf k₂ m = .ok s₂) (e₁ : Exact k₁ m = true) (e₂ : Exact k₂ m = true)
    (R : V₁ → V₂ → Prop) (dp₁ : Ty → V₁ → D) (dp₂ : Ty → V₂ → D)
    (lit₁ : Scalar → V₁) (lit₂ : Scalar → V₂) (call₁ : Factory → V₁) (call₂ : Factory → V₂)
    (hdp : ∀ ty v₁ v₂, R v₁ v₂ → dp₁ ty v₁ = dp₂ ty v₂)
    (hdef : ∀ d v₁ v₂, R v₁ v₂ → isDefaultValue lit₁ call₁ d v₁ = isDefaultValue lit₂ call₂ d v₂)
    (nm : String → Option String) (omitD : String → Bool)
    (obj₁ : List (String × V₁)) (obj₂ : List (String × V₂))
    (hobj : ∀ id, OptRel R (obj₁.lookup id) (obj₂.lookup id)) :
    dumpModel dp₁ lit₁ call₁ nm omitD s₁.2 obj₁ = dumpModel dp₂ lit₂ call₂ nm omitD s₂.2 obj₂ := by
  unfold dumpModel
  rw [(exact_projection h₁ e₁).2, (exact_projection h₂ e₂).2]
  exact dumpSpecs_rel hdp hdef nm omitD m.outSpecs obj₁ obj₂ hobj

/-- non-vacuity of `kinds_agree_dump_nested`: a dataclass `Outer` holding dataclass `Inner`s and a
    pydantic `Outer` holding pydantic `Inner`s — different values, related field by field -/
theorem kinds_agree_dump_nested_witness :
    (∃ s₁ s₂, shapeOf .dataclass mOuter = .ok s₁ ∧ shapeOf .pydantic mOuter = .ok s₂) ∧
    (∀ (ty : Ty) (v₁ v₂ : WV), wR v₁ v₂ → (fun (_ : Ty) (v : WV) => v.1) ty v₁ = (fun (_ : Ty) (v : WV) => v.1) ty v₂) ∧
    (∀ d v₁ v₂, wR v₁ v₂ → isDefaultValue wLit wCall d v₁ = isDefaultValue wLit wCall d v₂) ∧
    (∀ id, OptRel wR
      (([("inner", ([5, 7], [.dataclass])), ("more", ([2, 3], [.dataclass])), ("tag", ([1], []))] : List (String × WV)).lookup id)
      (([("inner", ([5, 7], [.pydantic])), ("more", ([2, 3], [.pydantic])), ("tag", ([1], []))] : List (String × WV)).lookup id)) := by
  obtain ⟨s₁, h₁⟩ := shapeOf_ok_of_declarable (k := .dataclass) (m := mOuter) (by decide)
  obtain ⟨s₂, h₂⟩ := shapeOf_ok_of_declarable (k := .pydantic) (m := mOuter) (by decide)
  refine ⟨⟨s₁, s₂, h₁, h₂⟩, fun _ _ _ h => h.1, wR_isDefault, fun id => ?_⟩
  simp only [List.lookup_cons, List.lookup_nil]
  repeat' split
  all_goals simp [OptRel, wR]

omit [DecidableEq V] in
/-- **as_list** (the one place where the *order* of the shape is observable): kinds that reproduce the
    specification dump the same list … -/
theorem kinds_agree_as_list {m : LogicalModel} {k₁ k₂ : Kind} {s₁ s₂ : Shape}
    (h₁ : shapeOf k₁ m = .ok s₁) (h₂ : shapeOf k₂ m = .ok s₂) (e₁ : Exact k₁ m = true) (e₂ : Exact k₂ m = true)
    (dp : Ty → V → D) (obj : List (String × V)) :
    dumpAsList dp s₁.2 obj = dumpAsList dp s₂.2 obj := by
  unfold dumpAsList
  rw [(exact_projection h₁ e₁).2, (exact_projection h₂ e₂).2]

omit [DecidableEq V] in
/-- … a TypedDict dumps a permutation of it, ordered by field name. -/
theorem typedDict_as_list_perm {m : LogicalModel} {k : Kind} {s std : Shape}
    (h : shapeOf k m = .ok s) (htd : shapeOf .typedDict m = .ok std) (e : Exact k m = true)
    (dp : Ty → V → D) (obj : List (String × V)) :
    (dumpAsList dp std.2 obj).Perm (dumpAsList dp s.2 obj) := by
  unfold dumpAsList
  rw [(exact_projection h e).2]
  have hperm := (shape_projection_typedDict htd).2.1
  have := hperm.map (fun f => (obj.lookup f.id).map (dp f.ty))
  refine this.trans (List.Perm.of_eq ?_)
  simp [List.map_map, Function.comp_def, OutSpec.asTypedDict]

omit [DecidableEq V] in
/-- … and **the same list** when the model's fields are declared in name order (the sorting of
    `_get_td_hints` is then invisible): the TypedDict deviation of `as_list` is confined to models whose
    declaration order is not the name order -/
theorem typedDict_as_list_eq_of_sorted {m : LogicalModel} {k : Kind} {s std : Shape}
    (h : shapeOf k m = .ok s) (htd : shapeOf .typedDict m = .ok std) (e : Exact k m = true)
    (hs : m.fields.Pairwise (fun a b => a.name ≤ b.name))
    (dp : Ty → V → D) (obj : List (String × V)) :
    dumpAsList dp std.2 obj = dumpAsList dp s.2 obj := by
  unfold dumpAsList
  rw [(exact_projection h e).2]
  obtain ⟨_, ho⟩ := shapeOf_typedDict_ok htd
  have hsort : sortByName (m.fields.map (declField .typedDict false)) = m.fields.map (declField .typedDict false) :=
    sortByName_of_sorted _ (List.pairwise_map.mpr (hs.imp (fun h => by simpa using h)))
  simp only [OutputShape.specs, ho, hsort, LogicalModel.outSpecs, List.map_map]
  apply List.map_congr_left
  intro f _
  simp [Function.comp, tdOutField, OutField.spec, LField.outSpec, declField]

/-- non-vacuity of `typedDict_as_list_perm` / `typedDict_as_list_eq_of_sorted`: `mABC` is declared in
    name order and has a TypedDict twin; `mBA` (`full_strength_fails_typedDict_order`) is not -/
theorem typedDict_as_list_witness :
    (∃ s std, shapeOf .attrs mABC = .ok s ∧ shapeOf .typedDict mABC = .ok std ∧ Exact .attrs mABC = true) ∧
    mABC.fields.Pairwise (fun a b => a.name ≤ b.name) ∧ ¬ mBA.fields.Pairwise (fun a b => a.name ≤ b.name) := by
  refine ⟨⟨_, _, rfl, mABC_typedDict, rfl⟩, by decide, by decide⟩

end

/-! ## 4. Converters between two kinds of the same logical model copy every field -/

/-- **cross_kind_convert_copies_all** — all six kinds, no side condition: the converter from kind `k₁`
    to kind `k₂` links every destination field to the source field of the same name, so the destination
    constructor receives, for every logical field, the value the source object holds for it. -/
theorem cross_kind_convert_copies_all {V : Type} {m : LogicalModel} {k₁ k₂ : Kind} {s₁ s₂ : Shape}
    (h₁ : shapeOf k₁ m = .ok s₁) (h₂ : shapeOf k₂ m = .ok s₂) (obj : List (String × V)) :
    (∀ p ∈ link s₂.1 s₁.2, p.2 = some p.1) ∧
    (∀ f ∈ m.fields, (f.name, obj.lookup f.name) ∈ convertArgs s₂.1 s₁.2 obj) := by
  have hsrc := (shape_ids (i := s₁.1) (o := s₁.2) h₁).2
  have hdst := (shape_ids (i := s₂.1) (o := s₂.2) h₂).1
  have hex : ∀ f ∈ s₂.1.fields, ∃ g ∈ s₁.2.fields, g.id = f.id := by
    intro f hf
    have : f.id ∈ s₂.1.fields.map (·.id) := List.mem_map.mpr ⟨f, hf, rfl⟩
    have : f.id ∈ s₁.2.fields.map (·.id) := hsrc.mem_iff.mpr (hdst.mem_iff.mp this)
    obtain ⟨g, hg, hgf⟩ := List.mem_map.mp this
    exact ⟨g, hg, hgf⟩
  refine ⟨link_same_id hex, fun f hf => ?_⟩
  have : f.name ∈ s₂.1.fields.map (·.id) := hdst.mem_iff.mpr (List.mem_map.mpr ⟨f, hf, rfl⟩)
  obtain ⟨g, hg, hgf⟩ := List.mem_map.mp this
  have := convertArgs_copies hex obj g hg
  simpa [hgf] using this

/-! ## 4b. The generated constructor call: every kind's destination receives the same thing

  Section 4 says which source field a destination field is *linked* to.  The converter then has to
  *pass* the values: `_make_constructor_call` walks `InputShape.params` and passes positionally until
  the first parameter it leaves out (an optional field the source lacks, allowed by
  `allow_unlinked_optional`), by keyword afterwards.  dataclass / NamedTuple / attrs report
  positional-or-keyword parameters (attrs under the init alias `x` for `_x`, keyword-only ones last),
  TypedDict / pydantic / SQLAlchemy keyword-only ones.  `convertModel` composes linking, planning and
  Python's binding of the planned call (`bindCall`); the theorems say the outcome is the field-wise
  specification `convertSpec`, which mentions no parameter and no kind. -/

section
variable {V W : Type}

/-- **Field-wise specification of a converter** on the logical model alone: for every destination
    field the (coerced) value the source object holds under the same id, nothing for a field the
    source shape lacks.  `src` is *any* source shape (a sub-model, a super-model, another kind). -/
def convertSpec (co : String → V → W) (m : LogicalModel) (src : OutputShape) (obj : List (String × V)) :
    List (String × W) :=
  m.fields.filterMap fun f => (lookSpec co src obj f.name).map (f.name, ·)

/-- every kind's parameter list is fit for the planned call: distinct parameter names (attrs: the
    init aliases), no positional-only parameter, one parameter per field -/
theorem every_kind_params_wellformed {k : Kind} {m : LogicalModel} {i : InputShape} {o : OutputShape}
    (h : shapeOf k m = .ok (i, o)) :
    (i.params.map (·.name)).Nodup ∧ (∀ p ∈ i.params, p.kind ≠ .posOnly) ∧
      (i.params.map (·.fieldId)).Perm (i.fields.map (·.id)) :=
  ⟨(shape_params_wf h).names, (shape_params_wf h).noPosOnly, (shape_params_wf h).fields⟩

/-- **the planned call binds field-wise** — any parameter list with distinct names and without
    positional-only parameters, any set of skipped fields in any position: the plan exists (the
    `CannotProvide` branch is dead) and Python binds exactly the linked parameters, each to its own
    sub-plan. -/
theorem planned_call_binds_fieldwise (look : String → Option V) (params : List Param) (kwargs : Bool)
    (hnd : (params.map (·.name)).Nodup) (hk : ∀ p ∈ params, p.kind ≠ .posOnly) :
    ∃ args, planCall look params false = some args ∧
      bindCall params kwargs args = some (params.filterMap fun p => (look p.fieldId).map (p.fieldId, ·)) :=
  bindCall_planCall look params kwargs hnd hk

/-- non-vacuity of `planned_call_binds_fieldwise`: a mixed parameter list (an attrs-style alias, a
    keyword-only parameter) with the *first* field skipped — the plan passes everything by keyword -/
theorem planned_call_binds_fieldwise_witness :
    let params : List Param := [⟨"x", "x", .posOrKw⟩, ⟨"_p", "p", .posOrKw⟩, ⟨"tags", "tags", .kwOnly⟩]
    (params.map (·.name)).Nodup ∧ (∀ p ∈ params, p.kind ≠ .posOnly) ∧
      planCall (fun id => if id == "x" then none else some id) params false = some [.kw "p" "_p", .kw "tags" "tags"] := by
  refine ⟨by decide, by decide, by decide⟩

/-- **convert (field-wise), all six kinds, no side condition on the model**: for a source object
    holding every source field, the converter into kind `k` is refused exactly when some destination
    field has no source and is required or not allowed to stay unlinked; otherwise the destination
    constructor receives exactly (as a multiset) `convertSpec`. -/
theorem convert_fieldwise {k : Kind} {m : LogicalModel} {i : InputShape} {o : OutputShape}
    (h : shapeOf k m = .ok (i, o)) (allow : String → Bool) (co : String → V → W) (src : OutputShape)
    (obj : List (String × V)) (hobj : ∀ g ∈ src.fields, (obj.lookup g.id).isSome) :
    (i.fields.any (Refuses allow src) = true → convertModel allow co i src obj = .noConverter) ∧
    (i.fields.any (Refuses allow src) = false →
      ∃ args, convertModel allow co i src obj = .ok args ∧ args.Perm (convertSpec co m src obj)) := by
  have hids := (shape_ids h).1
  have hnd : (i.fields.map (·.id)).Nodup := (hids.nodup_iff).mpr (shapeOf_namesOk h)
  have hobj' : ∀ f ∈ i.fields, linkedIn src f.id = true → (obj.lookup f.id).isSome := by
    intro f _ hl
    simp only [linkedIn, List.any_eq_true, beq_iff_eq] at hl
    obtain ⟨g, hg, hgf⟩ := hl
    rw [← hgf]
    exact hobj g hg
  obtain ⟨h1, h2⟩ := convertModel_spec allow co i src obj (shape_params_wf h) hnd hobj'
  refine ⟨h1, fun hr => ?_⟩
  obtain ⟨args, ha, hp⟩ := h2 hr
  refine ⟨args, ha, hp.trans ?_⟩
  have := hids.filterMap (fun id => (lookSpec co src obj id).map (id, ·))
  refine this.trans (List.Perm.of_eq ?_)
  simp [convertSpec, List.filterMap_map, Function.comp_def]

/-- **the three outcomes of a converter, all six kinds, any source object** (`convert_fieldwise` without
    its hypothesis on the object): refused iff a logical field without source is required or not
    allowed; otherwise the generated function *raises* iff the source object lacks the value of a
    linked field (a TypedDict source with an absent `NotRequired` key) — for every destination kind
    alike, the condition mentions the logical model only — and otherwise the destination constructor
    receives exactly `convertSpec`. -/
theorem convert_outcomes {k : Kind} {m : LogicalModel} {i : InputShape} {o : OutputShape}
    (h : shapeOf k m = .ok (i, o)) (allow : String → Bool) (co : String → V → W) (src : OutputShape)
    (obj : List (String × V)) :
    (i.fields.any (Refuses allow src) = true → convertModel allow co i src obj = .noConverter) ∧
    (i.fields.any (Refuses allow src) = false →
      ((∃ f ∈ m.fields, linkedIn src f.name = true ∧ obj.lookup f.name = none) →
        convertModel allow co i src obj = .callError) ∧
      ((∀ f ∈ m.fields, linkedIn src f.name = true → (obj.lookup f.name).isSome) →
        ∃ args, convertModel allow co i src obj = .ok args ∧ args.Perm (convertSpec co m src obj))) := by
  have hids := (shape_ids h).1
  have hnd : (i.fields.map (·.id)).Nodup := (hids.nodup_iff).mpr (shapeOf_namesOk h)
  refine ⟨fun hr => ?_, fun hr => ⟨?_, fun hobj => ?_⟩⟩
  · have hany : (i.fields.map fun f => (f.id, fetchLinking allow src f)).any (fun l => l.2.isRefused)
        = i.fields.any (Refuses allow src) := by
      simp [List.any_map, Function.comp_def, fetchLinking_isRefused]
    simp [convertModel, hany, hr]
  · rintro ⟨f, hf, hl, ha⟩
    have : f.name ∈ i.fields.map (·.id) := hids.mem_iff.mpr (List.mem_map_of_mem hf)
    obtain ⟨g, hg, hgf⟩ := List.mem_map.mp this
    exact convertModel_callError allow co i src obj hr g hg (by rw [hgf]; exact hl) (by rw [hgf]; exact ha)
  · have hobj' : ∀ f ∈ i.fields, linkedIn src f.id = true → (obj.lookup f.id).isSome := by
      intro g hg hl
      have : g.id ∈ m.fields.map (·.name) := hids.mem_iff.mp (List.mem_map_of_mem hg)
      obtain ⟨f, hf, hfn⟩ := List.mem_map.mp this
      rw [← hfn] at hl ⊢
      exact hobj f hf hl
    obtain ⟨args, ha, hp⟩ := (convertModel_spec allow co i src obj (shape_params_wf h) hnd hobj').2 hr
    refine ⟨args, ha, hp.trans ?_⟩
    have := hids.filterMap (fun id => (lookSpec co src obj id).map (id, ·))
    refine this.trans (List.Perm.of_eq ?_)
    simp [convertSpec, List.filterMap_map, Function.comp_def]

/-- non-vacuity of `convert_fieldwise` (and `convert_fieldwise_lookup`, `kinds_agree_convert*`): `mABC`
    as dataclass and as pydantic model fed from a source with `a` and `c` only; the source object holds
    every source field; *both* branches occur — with `b` allowed the converter exists and skips a
    parameter in the middle, under the default policy it is refused -/
theorem convert_fieldwise_witness :
    ∃ s₁ s₂, shapeOf .dataclass mABC = .ok s₁ ∧ shapeOf .pydantic mABC = .ok s₂ ∧
      (∀ g ∈ srcAC.fields, ((([("a", 1), ("c", 3)] : List (String × Nat))).lookup g.id).isSome) ∧
      s₁.1.fields.any (Refuses (fun id => id == "b") srcAC) = false ∧
      s₁.1.fields.any (Refuses (fun _ => false) srcAC) = true ∧
      convertModel (fun id => id == "b") (fun _ (v : Nat) => v) s₁.1 srcAC [("a", 1), ("c", 3)] = .ok [("a", 1), ("c", 3)] ∧
      convertModel (fun id => id == "b") (fun _ (v : Nat) => v) s₂.1 srcAC [("a", 1), ("c", 3)] = .ok [("a", 1), ("c", 3)] := by
  refine ⟨_, _, rfl, rfl, by decide, ?_, ?_, ?_, ?_⟩ <;> decide

/-- non-vacuity of `convert_outcomes`, the raising branch: nothing is refused, the source shape has
    `c`, the source object does not hold it — dataclass and pydantic destinations raise alike -/
theorem convert_outcomes_witness :
    ∃ s₁ s₂, shapeOf .dataclass mABC = .ok s₁ ∧ shapeOf .pydantic mABC = .ok s₂ ∧
      s₁.1.fields.any (Refuses (fun id => id == "b") srcAC) = false ∧
      (∃ f ∈ mABC.fields, linkedIn srcAC f.name = true ∧ ([("a", 1)] : List (String × Nat)).lookup f.name = none) ∧
      convertModel (fun id => id == "b") (fun _ (v : Nat) => v) s₁.1 srcAC [("a", 1)] = .callError ∧
      convertModel (fun id => id == "b") (fun _ (v : Nat) => v) s₂.1 srcAC [("a", 1)] = .callError := by
  refine ⟨_, _, rfl, rfl, ?_, ?_, ?_, ?_⟩ <;> decide

/-- … hence, field by field: the argument the constructor receives for the logical field `f` is the
    specification's — the source's value if the source has the field, none (left to the constructor:
    `objectOf`) otherwise. -/
theorem convert_fieldwise_lookup {k : Kind} {m : LogicalModel} {i : InputShape} {o : OutputShape}
    (h : shapeOf k m = .ok (i, o)) (allow : String → Bool) (co : String → V → W) (src : OutputShape)
    (obj : List (String × V)) (hobj : ∀ g ∈ src.fields, (obj.lookup g.id).isSome)
    (args : List (String × W)) (hc : convertModel allow co i src obj = .ok args) :
    ∀ f ∈ m.fields, args.lookup f.name = lookSpec co src obj f.name := by
  obtain ⟨h1, h2⟩ := convert_fieldwise h allow co src obj hobj
  cases hr : i.fields.any (Refuses allow src)
  · obtain ⟨args', ha, hp⟩ := h2 hr
    rw [hc] at ha
    cases ha
    intro f hf
    have hnames := shapeOf_namesOk h
    have hsnd : ((convertSpec co m src obj).map (·.1)).Nodup :=
      (filterMap_keys_sublist (fun f : LField => f.name) (fun f => lookSpec co src obj f.name) m.fields).nodup hnames
    rw [← perm_lookup hp.symm hsnd f.name]
    exact lookup_filterMap_key (fun f : LField => f.name) (fun f => lookSpec co src obj f.name) m.fields hnames f hf
  · rw [h1 hr] at hc
    cases hc

/-- **kinds_agree (convert)** — any two of the six kinds, any source shape, any policy: whenever
    both converters exist, the two destination constructors receive the same argument for every
    logical field. -/
theorem kinds_agree_convert {m : LogicalModel} {k₁ k₂ : Kind} {s₁ s₂ : Shape}
    (h₁ : shapeOf k₁ m = .ok s₁) (h₂ : shapeOf k₂ m = .ok s₂) (allow : String → Bool) (co : String → V → W)
    (src : OutputShape) (obj : List (String × V)) (hobj : ∀ g ∈ src.fields, (obj.lookup g.id).isSome)
    (a₁ a₂ : List (String × W)) (c₁ : convertModel allow co s₁.1 src obj = .ok a₁)
    (c₂ : convertModel allow co s₂.1 src obj = .ok a₂) :
    a₁.Perm a₂ ∧ ∀ f ∈ m.fields, a₁.lookup f.name = a₂.lookup f.name := by
  obtain ⟨i₁, o₁⟩ := s₁
  obtain ⟨i₂, o₂⟩ := s₂
  refine ⟨?_, fun f hf => ?_⟩
  · obtain ⟨r1, g1⟩ := convert_fieldwise h₁ allow co src obj hobj
    obtain ⟨r2, g2⟩ := convert_fieldwise h₂ allow co src obj hobj
    cases hr1 : i₁.fields.any (Refuses allow src)
    · cases hr2 : i₂.fields.any (Refuses allow src)
      · obtain ⟨b1, hb1, p1⟩ := g1 hr1
        obtain ⟨b2, hb2, p2⟩ := g2 hr2
        rw [c₁] at hb1
        rw [c₂] at hb2
        cases hb1
        cases hb2
        exact p1.trans p2.symm
      · rw [r2 hr2] at c₂
        cases c₂
    · rw [r1 hr1] at c₁
      cases c₁
  · rw [convert_fieldwise_lookup h₁ allow co src obj hobj a₁ c₁ f hf,
      convert_fieldwise_lookup h₂ allow co src obj hobj a₂ c₂ f hf]

/-- the converted *objects* of the four plain kinds are field-wise equal: the fields the source has
    hold the source's values, the others the declared default (`objectOf`) -/
theorem kinds_agree_convert_objects {m : LogicalModel} {k₁ k₂ : Kind} {s₁ s₂ : Shape}
    (h₁ : shapeOf k₁ m = .ok s₁) (h₂ : shapeOf k₂ m = .ok s₂)
    (p₁ : k₁ ≠ .typedDict ∧ k₁ ≠ .sqlalchemy) (p₂ : k₂ ≠ .typedDict ∧ k₂ ≠ .sqlalchemy)
    (allow : String → Bool) (co : String → V → W) (src : OutputShape) (obj : List (String × V))
    (hobj : ∀ g ∈ src.fields, (obj.lookup g.id).isSome) (lit : Scalar → W) (call : Factory → W) (none_ : W)
    (a₁ a₂ : List (String × W)) (c₁ : convertModel allow co s₁.1 src obj = .ok a₁)
    (c₂ : convertModel allow co s₂.1 src obj = .ok a₂) :
    objectOf k₁ lit call none_ m a₁ = objectOf k₂ lit call none_ m a₂ := by
  rw [kinds_agree_objects p₁ p₂ lit call none_ a₁]
  unfold objectOf
  apply List.map_congr_left
  intro f hf
  rw [(kinds_agree_convert h₁ h₂ allow co src obj hobj a₁ a₂ c₁ c₂).2 f hf]

/-- a logical field the source lacks and that is required, or optional but not allowed to stay unlinked -/
def RefusesL (allow : String → Bool) (src : OutputShape) (f : LField) : Bool :=
  !linkedIn src f.name && (f.default.isNone || !allow f.name)

/-- **the same refusals**: kinds that reproduce the specification — and TypedDict, which keeps every
    `required` flag — refuse the converter for the same (source, policy): exactly when a logical
    field without source is required or not allowed.  (SQLAlchemy deviates where its optional
    autoincrement key / nullable columns do: `full_strength_fails_sqlalchemy_optional`.) -/
theorem kinds_agree_convert_refusal {k : Kind} {m : LogicalModel} {i : InputShape} {o : OutputShape}
    (h : shapeOf k m = .ok (i, o)) (he : Exact k m = true ∨ k = .typedDict) (allow : String → Bool)
    (co : String → V → W) (src : OutputShape) (obj : List (String × V))
    (hobj : ∀ g ∈ src.fields, (obj.lookup g.id).isSome) :
    convertModel allow co i src obj = .noConverter ↔ m.fields.any (RefusesL allow src) = true := by
  have hany : i.fields.any (Refuses allow src) = m.fields.any (RefusesL allow src) := by
    have hspec : i.fields.any (Refuses allow src)
        = i.specs.any (fun s => !linkedIn src s.id && (s.required || !allow s.id)) := by
      simp only [InputShape.specs, List.any_map, Function.comp_def, InField.spec]
      rfl
    rw [hspec]
    rcases he with he | rfl
    · rw [(exact_projection h he).1]
      simp only [LogicalModel.inSpecs, List.any_map, Function.comp_def, LField.inSpec]
      rfl
    · rw [any_perm (shape_projection_typedDict h).1]
      simp only [LogicalModel.inSpecs, List.any_map, Function.comp_def, LField.inSpec, InSpec.eraseDefault]
      rfl
  obtain ⟨h1, h2⟩ := convert_fieldwise h allow co src obj hobj
  rw [← hany]
  constructor
  · intro hc
    cases hr : i.fields.any (Refuses allow src)
    · obtain ⟨args, ha, _⟩ := h2 hr
      rw [hc] at ha
      cases ha
    · rfl
  · exact h1

/-- non-vacuity of `kinds_agree_convert_refusal`: both sides of the equivalence occur (TypedDict twin of
    `mABC`, source without `b`): refused under the default policy, not refused when `b` is allowed -/
theorem kinds_agree_convert_refusal_witness :
    ∃ i o, shapeOf .typedDict mABC = .ok (i, o) ∧
      (∀ g ∈ srcAC.fields, ((([("a", 1), ("c", 3)] : List (String × Nat))).lookup g.id).isSome) ∧
      mABC.fields.any (RefusesL (fun _ => false) srcAC) = true ∧
      mABC.fields.any (RefusesL (fun id => id == "b") srcAC) = false := by
  refine ⟨_, _, mABC_typedDict, by decide, by decide, by decide⟩

/-- **Converters between any two kinds of the same logical model copy every field** — the statement of
    the property on the *full* converter (`convertModel`: linking, the planned constructor call over
    the destination's parameter list, Python's binding of it), for all 36 ordered pairs of kinds, every
    unlinked-optional policy and every field coercer, no side condition on the model: for a source
    object holding every field the converter exists, the call succeeds, the destination constructor
    receives exactly one argument per logical field and nothing else, and the argument of field `f`
    is the (coerced) value the source object holds for `f`.
    (`cross_kind_convert_copies_all` says this of the linking stage alone.) -/
theorem cross_kind_converter_copies_every_field {m : LogicalModel} {k₁ k₂ : Kind} {s₁ s₂ : Shape}
    (h₁ : shapeOf k₁ m = .ok s₁) (h₂ : shapeOf k₂ m = .ok s₂) (allow : String → Bool) (co : String → V → W)
    (obj : List (String × V)) (hobj : ∀ f ∈ m.fields, (obj.lookup f.name).isSome) :
    ∃ args, convertModel allow co s₂.1 s₁.2 obj = .ok args ∧
      (args.map (·.1)).Perm (m.fields.map (·.name)) ∧
      ∀ f ∈ m.fields, ∃ v, obj.lookup f.name = some v ∧ args.lookup f.name = some (co f.name v) := by
  obtain ⟨i₁, o₁⟩ := s₁
  obtain ⟨i₂, o₂⟩ := s₂
  have hsrc := (shape_ids h₁).2
  have hdst := (shape_ids h₂).1
  have hlinked : ∀ n ∈ m.fields.map (·.name), linkedIn o₁ n = true := by
    intro n hn
    have : n ∈ o₁.fields.map (·.id) := hsrc.mem_iff.mpr hn
    obtain ⟨g, hg, hgn⟩ := List.mem_map.mp this
    simp only [linkedIn, List.any_eq_true, beq_iff_eq]
    exact ⟨g, hg, hgn⟩
  have hobj' : ∀ g ∈ o₁.fields, (obj.lookup g.id).isSome := by
    intro g hg
    have : g.id ∈ m.fields.map (·.name) := hsrc.mem_iff.mp (List.mem_map_of_mem hg)
    obtain ⟨f, hf, hfn⟩ := List.mem_map.mp this
    rw [← hfn]
    exact hobj f hf
  have hnr : i₂.fields.any (Refuses allow o₁) = false := by
    rw [List.any_eq_false]
    intro f hf
    have : f.id ∈ m.fields.map (·.name) := hdst.mem_iff.mp (List.mem_map_of_mem hf)
    simp [Refuses, hlinked _ this]
  obtain ⟨args, ha, hp⟩ := (convert_fieldwise h₂ allow co o₁ obj hobj').2 hnr
  refine ⟨args, ha, ?_, fun f hf => ?_⟩
  · refine (hp.map (·.1)).trans (List.Perm.of_eq ?_)
    simp only [convertSpec, List.map_filterMap]
    rw [← List.filterMap_eq_map]
    apply filterMap_congr_mem
    intro f hf
    have hl := hlinked f.name (List.mem_map_of_mem hf)
    have := hobj f hf
    cases ho : obj.lookup f.name with
    | none => simp [ho] at this
    | some v => simp [lookSpec, hl, ho]
  · have hlk := convert_fieldwise_lookup h₂ allow co o₁ obj hobj' args ha f hf
    have hl := hlinked f.name (List.mem_map_of_mem hf)
    have := hobj f hf
    cases ho : obj.lookup f.name with
    | none => simp [ho] at this
    | some v => exact ⟨v, rfl, by rw [hlk]; simp [lookSpec, hl, ho]⟩

/-- non-vacuity of `cross_kind_converter_copies_every_field` (and `cross_kind_convert_copies_all`): any
    two of the six kinds on `mABC`, an object holding its three fields; e.g. NamedTuple → attrs passes
    all three positionally, SQLAlchemy → TypedDict by keyword — the constructor receives the same -/
theorem cross_kind_converter_witness :
    (∀ k₁ k₂, ∃ s₁ s₂, shapeOf k₁ mABC = .ok s₁ ∧ shapeOf k₂ mABC = .ok s₂) ∧
    (∀ f ∈ mABC.fields, ((([("a", 1), ("b", 2), ("c", 3)] : List (String × Nat))).lookup f.name).isSome) ∧
    (∃ s₁ s₂, shapeOf .namedTuple mABC = .ok s₁ ∧ shapeOf .attrs mABC = .ok s₂ ∧
      convertModel (fun _ => false) (fun _ (v : Nat) => v + 10) s₂.1 s₁.2 [("a", 1), ("b", 2), ("c", 3)]
        = .ok [("a", 11), ("b", 12), ("c", 13)]) := by
  refine ⟨fun k₁ k₂ => ?_, by decide, ⟨_, _, rfl, rfl, ?_⟩⟩
  · obtain ⟨s₁, h₁⟩ := mABC_shape k₁
    obtain ⟨s₂, h₂⟩ := mABC_shape k₂
    exact ⟨s₁, s₂, h₁, h₂⟩
  · decide

end

/-! further examples for 4b: `mABC` (`a: str, b: str = "B", c: str = "C"`) fed from `srcAC` (`a` and `c` only) -/

/-- dataclass: `Dst(data.a, c=data.c)` — `a` positionally, `c` by keyword because `b` was left out -/
example : (shapeOf .dataclass mABC).toOption.map (fun s => planCall (fun id => if id == "b" then none else some id) s.1.params false)
    = some (some [.pos "a", .kw "c" "c"]) := by decide
example : (shapeOf .dataclass mABC).toOption.map
      (fun s => convertModel (fun id => id == "b") (fun _ (v : Nat) => v) s.1 srcAC [("a", 1), ("c", 3)])
    = some (.ok [("a", 1), ("c", 3)]) := by decide
example : (shapeOf .pydantic mABC).toOption.map
      (fun s => convertModel (fun id => id == "b") (fun _ (v : Nat) => v) s.1 srcAC [("a", 1), ("c", 3)])
    = some (.ok [("a", 1), ("c", 3)]) := by decide
/-- the default policy forbids the unlinked `b`: no converter -/
example : (shapeOf .dataclass mABC).toOption.map
      (fun s => convertModel (fun _ => false) (fun _ (v : Nat) => v) s.1 srcAC [("a", 1), ("c", 3)])
    = some .noConverter := by decide
/-- the binding model tells the calls apart: passing `c` positionally after the gap (a flag that is
    not sticky) would put the source's `c` into `b` -/
example : (shapeOf .dataclass mABC).toOption.map (fun s => bindCall s.1.params s.1.kwargs [CallArg.pos 1, CallArg.pos 3])
    = some (some [("a", 1), ("b", 3)]) := by decide
/-- attrs: the keyword is the init alias, not the field id -/
example : (shapeOf .attrs { fields := [{ name := "x", ty := .int, default := .value (.int 0) },
                                        { name := "_p", ty := .str, default := .value (.str "d") }] }).toOption.map
      (fun s => planCall (fun id => if id == "x" then none else some id) s.1.params false)
    = some (some [.kw "p" "_p"]) := by decide

/-! ## 5. The full-strength statement fails: concrete witnesses (the model follows the code as it is) -/

/-- `a: int` (becomes the autoincrement primary key), `b: Optional[int]` (becomes a nullable column) -/
def mSA : LogicalModel := { fields := [{ name := "a", ty := .int }, { name := "b", ty := .opt .int }] }
/-- `a: str`, `d: Optional[int] = None` -/
def mNone : LogicalModel :=
  { fields := [{ name := "a", ty := .str }, { name := "d", ty := .opt .int, default := .value .none }] }

/-- TypedDict: the order of the fields is not the order of declaration (observable with `as_list=True`). -/
theorem full_strength_fails_typedDict_order :
    ¬ (∀ (m : LogicalModel) (s₁ s₂ : Shape), shapeOf .dataclass m = .ok s₁ → shapeOf .typedDict m = .ok s₂ →
        dumpAsList (fun _ v => v) s₁.2 [("a", 1), ("b", 2)] = dumpAsList (fun _ (v : Nat) => v) s₂.2 [("a", 1), ("b", 2)]) := by
  intro hall
  have h1 : shapeOf .dataclass mBA = .ok
      ({ fields := (mBA.fields.map (declField .dataclass false)).map dcInField
         params := (mBA.fields.map (declField .dataclass false)).map dcParam
         kwargs := false, overriden := ["b", "a"] },
       { fields := (mBA.fields.map (declField .dataclass false)).map dcOutField, overriden := ["b", "a"] }) := by
    rfl
  have h2 : shapeOf .typedDict mBA = .ok
      ({ fields := (sortByName (mBA.fields.map (declField .typedDict false))).map (tdInField true)
         params := (sortByName (mBA.fields.map (declField .typedDict false))).map tdParam
         kwargs := false, overriden := [] },
       { fields := (sortByName (mBA.fields.map (declField .typedDict false))).map (tdOutField true), overriden := [] }) := by
    have hn : (!mBA.namesOk) = false := by decide
    simp only [shapeOf, hn, shapeOfDecl, declOf, typedDictShape, declFields_eq_map .typedDict (by decide)]
    rfl
  have := hall mBA _ _ h1 h2
  rw [sortByName_mBA] at this
  revert this
  decide

/-- SQLAlchemy: an `int` first field becomes the autoincrement primary key and an `Optional[int]`
    column is nullable — both are *optional* inputs although the logical fields are required: the
    dataclass twin reports them missing, the SQLAlchemy twin accepts `{}`. -/
theorem full_strength_fails_sqlalchemy_optional :
    ∃ (s₁ s₂ : Shape), shapeOf .dataclass mSA = .ok s₁ ∧ shapeOf .sqlalchemy mSA = .ok s₂ ∧
      loadModel (fun _ (d : Nat) => some d) (fun _ => 0) (fun _ => 0) some s₁.1 (.mapping [])
        = .err { notMapping := false, missing := ["a", "b"], bad := [] } ∧
      loadModel (fun _ (d : Nat) => some d) (fun _ => 0) (fun _ => 0) some s₂.1 (.mapping []) = .ok [] := by
  refine ⟨_, _, rfl, rfl, ?_, ?_⟩ <;> decide

/-- SQLAlchemy: `default=None` is "no default" — the shape carries none, so `omit_default` keeps the key
    the dataclass twin omits. -/
theorem full_strength_fails_sqlalchemy_none_default :
    ∃ (s₁ s₂ : Shape), shapeOf .dataclass mNone = .ok s₁ ∧ shapeOf .sqlalchemy mNone = .ok s₂ ∧
      dumpModel (fun _ (v : Nat) => v) (fun _ => 0) (fun _ => 0) some (fun _ => true) s₁.2 [("a", 7), ("d", 0)]
        = some [("a", 7)] ∧
      dumpModel (fun _ (v : Nat) => v) (fun _ => 0) (fun _ => 0) some (fun _ => true) s₂.2 [("a", 7), ("d", 0)]
        = some [("a", 7), ("d", 0)] := by
  refine ⟨_, _, rfl, rfl, ?_, ?_⟩ <;> decide

/-- the per-field side conditions of `SAFaithful` are decidable and really exclude the witnesses -/
example : SAFaithful mSA = false := by decide
example : SAFaithful mNone = false := by decide
example : SAFaithful { fields := [{ name := "a", ty := .str }, { name := "n", ty := .int, default := .value (.int 0) }] } = true := by
  decide

/-! ## Non-vacuity: concrete models on which the hypotheses of the theorems hold -/

/-! `mEx` (`Lemmas/KindsWitness.lean`): `x: int`, `_p: str = "d"` keyword-only, `tags: list[int] = factory(list)` -/

example : (shapeOf .dataclass mEx).toOption.map (fun s => s.1.params.map (fun p => (p.name, p.kind)))
    = some [("x", .posOrKw), ("tags", .posOrKw), ("_p", .kwOnly)] := by decide
example : (shapeOf .attrs mEx).toOption.map (fun s => s.1.params.map (fun p => (p.fieldId, p.name)))
    = some [("x", "x"), ("tags", "tags"), ("_p", "p")] := by decide
example : (shapeOf .attrs mEx).toOption.map (fun s => s.1.specs) = some mEx.inSpecs := by decide
example : (shapeOf .pydantic mEx).toOption.isSome = false := by decide        -- `_p` would be a private attribute
example : (shapeOf .namedTuple mEx).toOption.isSome = false := by decide      -- underscore name, factory
example : Exact .sqlalchemy mEx = false := by decide                           -- `x: int` is the autoincrement key
example :
    (shapeOf .dataclass mEx).toOption.map (fun s =>
      loadModel (fun _ (d : Nat) => some d) (fun _ => 100) (fun _ => 200) some s.1 (.mapping [("x", 1), ("zz", 9)]))
      = some (.ok [("x", 1), ("_p", 100), ("tags", 200)]) := by decide

end Adaptix.Kinds.C17
