/-
  C17 — All supported model kinds behave the same for the same logical model.
  Property theorems only; helper lemmas live in `AdaptixProofs/Lemmas/Kinds*.lean`.

  Reading guide.  `shapeOf k m` is the model of "declare the logical model `m` in kind `k`, then run
  adaptix's introspector of that kind".  The later stages (name layout, loader/dumper generation,
  converter linking) are modelled by `loadModel`, `dumpModel`, `dumpAsList`, `link`; they receive the
  shape only and read it through the per-field specification `(id, type, required/optional, default)`.
  Field loaders/dumpers (`ld`, `dp`), evaluation of defaults (`lit`, `call`) and the name layout
  (`nm`, `omitD`: any function of the field id) are universally quantified parameters.

  FULL-STRENGTH STATEMENT (does not hold, see `full_strength_fails_*`):
      ∀ m k₁ k₂ s₁ s₂, shapeOf k₁ m = .ok s₁ → shapeOf k₂ m = .ok s₂ → s₁.1.specs = s₂.1.specs
  It fails for TypedDict (no defaults, fields sorted by name) and SQLAlchemy (autoincrement primary
  key / nullable column are optional, `None` is no default).  What does hold:
    * `shape_projection_*`     the four "plain" kinds reproduce the logical specification exactly;
    * `sqlalchemy_projection_iff`  SQLAlchemy does so exactly when `SAFaithful m`;
    * `shape_projection_typedDict` TypedDict yields it sorted by name with the defaults erased;
    * `kinds_agree_*`          hence equal / field-wise equal behaviour of loader, dumper, errors under
                               every name mapping, with the TypedDict deviations spelled out;
    * `cross_kind_convert_copies_all`  for all six kinds without side condition;
    * `convert_*`, `kinds_agree_convert*`  the generated *constructor call* (`_make_constructor_call`:
                               positional / keyword passing over `InputShape.params`, the one stage that
                               reads the parameter kinds in which the six kinds differ), bound by Python's
                               call rules, gives every destination field its own source value and nothing
                               else — also when the source lacks optional destination fields in any position.
-/
import AdaptixModel.Kinds.Shapes
import AdaptixProofs.Lemmas.KindsShapes
import AdaptixProofs.Lemmas.KindsProjections
import AdaptixProofs.Lemmas.KindsSemantics
import AdaptixProofs.Lemmas.KindsDeclarable
import AdaptixModel.Kinds.Convert
import AdaptixProofs.Lemmas.KindsConvert
import AdaptixProofs.Lemmas.KindsParams

namespace Adaptix.Kinds.C17

open Adaptix.Kinds

/-- Kinds whose shape must reproduce the logical specification exactly: every kind but TypedDict,
    SQLAlchemy only for models without autoincrement-key / nullable / `None`-default fields. -/
def Exact (k : Kind) (m : LogicalModel) : Bool :=
  match k with
  | .typedDict => false
  | .sqlalchemy => SAFaithful m
  | _ => true

/-! ## 0. Which logical models a kind supports -/

/-- **`Supported`, made explicit**: the class can be declared and introspected iff the decidable
    per-kind side conditions of `Declarable` hold. -/
theorem declarable_iff (k : Kind) (m : LogicalModel) :
    (shapeOf k m).toOption.isSome = Declarable k m := by
  cases k
  · exact declarable_dataclass m
  · exact declarable_namedTuple m
  · exact declarable_typedDict m
  · exact declarable_attrs m
  · exact declarable_pydantic m
  · exact declarable_sqlalchemy m


/-! ## 1. Shape projections: the heart — every later stage is a function of these -/

theorem shape_projection_dataclass {m : LogicalModel} {i : InputShape} {o : OutputShape}
    (h : shapeOf .dataclass m = .ok (i, o)) : i.specs = m.inSpecs ∧ o.specs = m.outSpecs := by
  obtain ⟨hi, ho⟩ := shapeOf_dataclass_ok h
  simp [InputShape.specs, OutputShape.specs, LogicalModel.inSpecs, LogicalModel.outSpecs, hi, ho, List.map_map,
    Function.comp_def, dcInField, dcOutField, InField.spec, OutField.spec, LField.inSpec, LField.outSpec,
    declField, Accessor.optional]

theorem shape_projection_attrs {m : LogicalModel} {i : InputShape} {o : OutputShape}
    (h : shapeOf .attrs m = .ok (i, o)) : i.specs = m.inSpecs ∧ o.specs = m.outSpecs := by
  obtain ⟨hi, ho⟩ := shapeOf_attrs_ok h
  simp [InputShape.specs, OutputShape.specs, LogicalModel.inSpecs, LogicalModel.outSpecs, hi, ho, List.map_map,
    Function.comp_def, attrsInField, attrsOutField, InField.spec, OutField.spec, LField.inSpec, LField.outSpec,
    declField, Accessor.optional]

theorem shape_projection_pydantic {m : LogicalModel} {i : InputShape} {o : OutputShape}
    (h : shapeOf .pydantic m = .ok (i, o)) : i.specs = m.inSpecs ∧ o.specs = m.outSpecs := by
  obtain ⟨hi, ho⟩ := shapeOf_pydantic_ok h
  simp [InputShape.specs, OutputShape.specs, LogicalModel.inSpecs, LogicalModel.outSpecs, hi, ho, List.map_map,
    Function.comp_def, pydInField, pydOutField, InField.spec, OutField.spec, LField.inSpec, LField.outSpec,
    declField, Accessor.optional]

theorem shape_projection_namedTuple {m : LogicalModel} {i : InputShape} {o : OutputShape}
    (h : shapeOf .namedTuple m = .ok (i, o)) : i.specs = m.inSpecs ∧ o.specs = m.outSpecs := by
  obtain ⟨hd, hi, ho⟩ := shapeOf_namedTuple_ok h
  constructor
  · simp only [InputShape.specs, LogicalModel.inSpecs, hi, List.map_map]
    apply List.map_congr_left
    intro f hf
    have hdf := hd f hf
    simp only [Function.comp, ntInField, InField.spec, LField.inSpec, hdf, declField_name, declField_ty]
    simp [declField]
  · simp only [OutputShape.specs, LogicalModel.outSpecs, ho, ntOutFields_specs, List.map_map]
    apply List.map_congr_left
    intro f hf
    simp [Function.comp, LField.outSpec, hd f hf]

/-- TypedDict: the same specifications with the defaults erased (a defaulted field is `NotRequired`:
    optional without default), *sorted by field name*. -/
theorem shape_projection_typedDict {m : LogicalModel} {i : InputShape} {o : OutputShape}
    (h : shapeOf .typedDict m = .ok (i, o)) :
    i.specs.Perm (m.inSpecs.map InSpec.eraseDefault) ∧
    o.specs.Perm (m.outSpecs.map OutSpec.asTypedDict) ∧
    i.specs.Pairwise (fun a b => a.id ≤ b.id) ∧ o.specs.Pairwise (fun a b => a.id ≤ b.id) := by
  obtain ⟨hi, ho⟩ := shapeOf_typedDict_ok h
  have hp := sortByName_perm (m.fields.map (declField .typedDict false))
  have hs := sortByName_sorted (m.fields.map (declField .typedDict false))
  refine ⟨?_, ?_, ?_, ?_⟩
  · have := hp.map (fun g => (tdInField true g).spec)
    simp only [InputShape.specs, hi, List.map_map, LogicalModel.inSpecs]
    refine this.trans (List.Perm.of_eq ?_)
    simp only [List.map_map]
    apply List.map_congr_left
    intro f _
    cases hd : f.default <;>
      simp [Function.comp, tdInField, InField.spec, LField.inSpec, InSpec.eraseDefault, declField, tdRequired, hd,
        LDflt.isNone]
  · have := hp.map (fun g => (tdOutField true g).spec)
    simp only [OutputShape.specs, ho, List.map_map, LogicalModel.outSpecs]
    refine this.trans (List.Perm.of_eq ?_)
    simp only [List.map_map]
    apply List.map_congr_left
    intro f _
    cases hd : f.default <;>
      simp [Function.comp, tdOutField, OutField.spec, LField.outSpec, OutSpec.asTypedDict, declField, tdRequired, hd,
        LDflt.isNone, LDflt.toDflt, Dflt.isNone, Accessor.optional]
  · simp only [InputShape.specs, hi, List.map_map]
    exact List.pairwise_map.mpr (hs.imp (fun h => by simpa [tdInField, InField.spec] using h))
  · simp only [OutputShape.specs, ho, List.map_map]
    exact List.pairwise_map.mpr (hs.imp (fun h => by simpa [tdOutField, OutField.spec] using h))

/-- SQLAlchemy reproduces the logical input specification **iff** no field is an autoincrement
    primary key (first field, numeric, no default), a nullable column (`Optional[...]` without
    default) or carries a `None` default — an exact characterisation of the deviations. -/
theorem sqlalchemy_projection_iff {m : LogicalModel} {i : InputShape} {o : OutputShape}
    (h : shapeOf .sqlalchemy m = .ok (i, o)) : i.specs = m.inSpecs ↔ SAFaithful m = true := by
  obtain ⟨f, rest, hm, hi, _, _⟩ := shapeOf_sqlalchemy_ok h
  simp only [InputShape.specs, LogicalModel.inSpecs, hi, hm, saDecl, SAFaithful, List.map_cons, List.map_map,
    List.cons.injEq, Bool.and_eq_true, List.all_eq_true, List.map_inj_left, Function.comp]
  constructor
  · rintro ⟨h1, h2⟩
    exact ⟨(saSpec_first_iff f).mp h1, fun g hg => (saSpec_rest_iff _ g).mp (h2 g hg)⟩
  · rintro ⟨h1, h2⟩
    exact ⟨(saSpec_first_iff f).mpr h1, fun g hg => (saSpec_rest_iff _ g).mpr (h2 g hg)⟩

theorem shape_projection_sqlalchemy {m : LogicalModel} {i : InputShape} {o : OutputShape}
    (h : shapeOf .sqlalchemy m = .ok (i, o)) (hf : SAFaithful m = true) :
    i.specs = m.inSpecs ∧ o.specs = m.outSpecs := by
  refine ⟨(sqlalchemy_projection_iff h).mpr hf, ?_⟩
  obtain ⟨f, rest, hm, _, ho, _⟩ := shapeOf_sqlalchemy_ok h
  simp only [SAFaithful, hm, Bool.and_eq_true, List.all_eq_true] at hf
  simp only [OutputShape.specs, LogicalModel.outSpecs, ho, hm, saDecl, List.map_cons, List.map_map, List.cons.injEq,
    List.map_inj_left, Function.comp]
  exact ⟨saOutSpec_eq true f hf.1, fun g hg => saOutSpec_eq false g (hf.2 g hg)⟩

/-- all `Exact` kinds at once -/
theorem exact_projection {k : Kind} {m : LogicalModel} {i : InputShape} {o : OutputShape}
    (h : shapeOf k m = .ok (i, o)) (he : Exact k m = true) : i.specs = m.inSpecs ∧ o.specs = m.outSpecs := by
  cases k with
  | dataclass => exact shape_projection_dataclass h
  | namedTuple => exact shape_projection_namedTuple h
  | typedDict => simp [Exact] at he
  | attrs => exact shape_projection_attrs h
  | pydantic => exact shape_projection_pydantic h
  | sqlalchemy => exact shape_projection_sqlalchemy h (by simpa [Exact] using he)

/-- every kind, no side condition: the field ids of both shapes are exactly the logical names -/
theorem every_kind_keeps_the_field_names {k : Kind} {m : LogicalModel} {i : InputShape} {o : OutputShape}
    (h : shapeOf k m = .ok (i, o)) :
    (i.fields.map (·.id)).Perm (m.fields.map (·.name)) ∧ (o.fields.map (·.id)).Perm (m.fields.map (·.name)) :=
  shape_ids h

/-! ## 2. Loading: same input → field-wise equal objects, same errors, under every name mapping -/

section
variable {D V : Type}

/-- **kinds_agree (load)**: two kinds that reproduce the specification produce *the same outcome* —
    the same constructor arguments, or the same error (not-a-mapping flag, missing keys, keys whose
    loader failed), or both refuse to build a loader — for every input, every field loader and every
    name mapping (renames, name style, skipped fields: any `nm`). -/
theorem kinds_agree_load {m : LogicalModel} {k₁ k₂ : Kind} {s₁ s₂ : Shape}
    (h₁ : shapeOf k₁ m = .ok s₁) (h₂ : shapeOf k₂ m = .ok s₂) (e₁ : Exact k₁ m = true) (e₂ : Exact k₂ m = true)
    (ld : Ty → D → Option V) (lit : Scalar → V) (call : Factory → V) (nm : String → Option String) (inp : Input D) :
    loadModel ld lit call nm s₁.1 inp = loadModel ld lit call nm s₂.1 inp := by
  unfold loadModel
  rw [(exact_projection h₁ e₁).1, (exact_projection h₂ e₂).1]

/-- the loaded *objects* of the four plain kinds are field-wise equal, also for the arguments the
    loader leaves to the constructor (skipped optional fields): each kind applies the declared default -/
theorem kinds_agree_objects {m : LogicalModel} {k₁ k₂ : Kind} (p₁ : k₁ ≠ .typedDict ∧ k₁ ≠ .sqlalchemy)
    (p₂ : k₂ ≠ .typedDict ∧ k₂ ≠ .sqlalchemy) (lit : Scalar → V) (call : Factory → V) (none_ : V)
    (args : List (String × V)) :
    objectOf k₁ lit call none_ m args = objectOf k₂ lit call none_ m args := by
  cases k₁ <;> cases k₂ <;>
    first | rfl | exact absurd rfl p₁.1 | exact absurd rfl p₁.2 | exact absurd rfl p₂.1 | exact absurd rfl p₂.2

/-- How a TypedDict's outcome relates to the outcome `full` of a kind that reproduces the
    specification: same errors; on success every argument of the TypedDict is an argument of the other
    kind, and the other kind has in addition exactly the *defaults of optional fields whose key is absent*
    (a TypedDict simply lacks those keys). -/
def TypedDictAgree (lit : Scalar → V) (call : Factory → V) (nm : String → Option String) (m : LogicalModel)
    (inp : Input D) : Outcome V → Outcome V → Prop
  | .ok full, .ok td =>
      (∀ p, p ∈ td → p ∈ full) ∧
      (∀ p, p ∈ full → p ∈ td ∨
        ∃ f ∈ m.inSpecs, p.1 = f.id ∧ f.required = false ∧ absentRes lit call f.default = .arg p.2 ∧
          ∃ kvs k, inp = .mapping kvs ∧ nm f.id = some k ∧ kvs.lookup k = none)
  | .err e, .err e' => e.notMapping = e'.notMapping ∧ SameMembers e.missing e'.missing ∧ SameMembers e.bad e'.bad
  | .noLoader, .noLoader => True
  | _, _ => False

/-- **kinds_agree (load, TypedDict)** -/
theorem kinds_agree_load_typedDict {m : LogicalModel} {k : Kind} {s std : Shape}
    (h : shapeOf k m = .ok s) (htd : shapeOf .typedDict m = .ok std) (e : Exact k m = true)
    (ld : Ty → D → Option V) (lit : Scalar → V) (call : Factory → V) (nm : String → Option String) (inp : Input D) :
    TypedDictAgree lit call nm m inp (loadModel ld lit call nm s.1 inp) (loadModel ld lit call nm std.1 inp) := by
  unfold loadModel
  rw [(exact_projection h e).1]
  have hperm := (shape_projection_typedDict htd).1
  have h1 := loadSpecs_erase ld lit call nm m.inSpecs inp
  have h2 := loadSpecs_perm ld lit call nm hperm inp
  generalize loadSpecs ld lit call nm m.inSpecs inp = full at h1
  generalize loadSpecs ld lit call nm (m.inSpecs.map InSpec.eraseDefault) inp = erased at h1 h2
  generalize loadSpecs ld lit call nm std.1.specs inp = td at h2
  cases full <;> cases erased <;> cases td <;>
    simp only [Outcome.ErasedAgree, Outcome.Agree, TypedDictAgree] at h1 h2 ⊢ <;> try contradiction
  · obtain ⟨ha, hb⟩ := h1
    refine ⟨fun p hp => ha p ((h2 p).mp hp), fun p hp => ?_⟩
    rcases hb p hp with h | h
    · exact Or.inl ((h2 p).mpr h)
    · exact Or.inr h
  · subst h1
    exact ⟨h2.1.symm, fun x => (h2.2.1 x).symm, fun x => (h2.2.2 x).symm⟩

/-- **same errors for the same bad input, all six kinds** (TypedDict included): if one kind reports an
    error, the other reports the same not-a-mapping flag, the same missing keys and the same bad keys. -/
theorem kinds_agree_errors {m : LogicalModel} {k : Kind} {s std : Shape}
    (h : shapeOf k m = .ok s) (htd : shapeOf .typedDict m = .ok std) (e : Exact k m = true)
    (ld : Ty → D → Option V) (lit : Scalar → V) (call : Factory → V) (nm : String → Option String) (inp : Input D)
    (er : LoadErr) (hk : loadModel ld lit call nm s.1 inp = .err er) :
    ∃ er', loadModel ld lit call nm std.1 inp = .err er' ∧ er.notMapping = er'.notMapping ∧
      SameMembers er.missing er'.missing ∧ SameMembers er.bad er'.bad := by
  have := kinds_agree_load_typedDict h htd e ld lit call nm inp
  rw [hk] at this
  cases htdo : loadModel ld lit call nm std.1 inp with
  | ok a => simp [htdo, TypedDictAgree] at this
  | noLoader => simp [htdo, TypedDictAgree] at this
  | err er' =>
    rw [htdo] at this
    exact ⟨er', rfl, this⟩

end

/-- **kinds_agree (load, nested models)**: when the field loaders of the two kinds are *not* the same
    function — a field whose type is a nested model is loaded into the nested class *of the respective
    kind* — but fail together and otherwise return `R`-related values (`R` = "field-wise equal"), the
    two outcomes are `R`-related field by field and the errors are equal.  This is the induction step
    over the nesting depth: field-wise equality of nested values lifts to the enclosing objects. -/
theorem kinds_agree_load_nested {D V₁ V₂ : Type} {m : LogicalModel} {k₁ k₂ : Kind} {s₁ s₂ : Shape}
    (h₁ : shapeOf k₁ m = .ok s₁) (h₂ : shapeOf k₂ m = .ok s₂) (e₁ : Exact k₁ m = true) (e₂ : Exact k₂ m = true)
    (R : V₁ → V₂ → Prop) (ld₁ : Ty → D → Option V₁) (ld₂ : Ty → D → Option V₂)
    (lit₁ : Scalar → V₁) (lit₂ : Scalar → V₂) (call₁ : Factory → V₁) (call₂ : Factory → V₂)
    (hld : ∀ ty d, OptRel R (ld₁ ty d) (ld₂ ty d)) (hlit : ∀ s, R (lit₁ s) (lit₂ s))
    (hcall : ∀ f, R (call₁ f) (call₂ f)) (nm : String → Option String) (inp : Input D) :
    Outcome.Rel R (loadModel ld₁ lit₁ call₁ nm s₁.1 inp) (loadModel ld₂ lit₂ call₂ nm s₂.1 inp) := by
  unfold loadModel
  rw [(exact_projection h₁ e₁).1, (exact_projection h₂ e₂).1]
  exact loadSpecs_rel hld hlit hcall nm m.inSpecs inp

/-! ## 3. Dumping: field-wise equal objects → equal data, under every name mapping / omit_default -/

section
variable {D V : Type} [DecidableEq V]

/-- **kinds_agree (dump)** -/
theorem kinds_agree_dump {m : LogicalModel} {k₁ k₂ : Kind} {s₁ s₂ : Shape}
    (h₁ : shapeOf k₁ m = .ok s₁) (h₂ : shapeOf k₂ m = .ok s₂) (e₁ : Exact k₁ m = true) (e₂ : Exact k₂ m = true)
    (dp : Ty → V → D) (lit : Scalar → V) (call : Factory → V) (nm : String → Option String) (omitD : String → Bool)
    (obj : List (String × V)) :
    dumpModel dp lit call nm omitD s₁.2 obj = dumpModel dp lit call nm omitD s₂.2 obj := by
  unfold dumpModel
  rw [(exact_projection h₁ e₁).2, (exact_projection h₂ e₂).2]

/-- **kinds_agree (dump, TypedDict)**: for an object holding every field both dumps succeed; the
    TypedDict dump contains every item of the other kind's dump, and they hold the same items when
    `omit_default` is off for the model's fields (a TypedDict has no default to omit). -/
theorem kinds_agree_dump_typedDict {m : LogicalModel} {k : Kind} {s std : Shape}
    (h : shapeOf k m = .ok s) (htd : shapeOf .typedDict m = .ok std) (e : Exact k m = true)
    (dp : Ty → V → D) (lit : Scalar → V) (call : Factory → V) (nm : String → Option String) (omitD : String → Bool)
    (obj : List (String × V)) (hobj : ∀ f ∈ m.fields, (obj.lookup f.name).isSome) :
    ∃ a b, dumpModel dp lit call nm omitD s.2 obj = some a ∧ dumpModel dp lit call nm omitD std.2 obj = some b ∧
      (∀ p, p ∈ a → p ∈ b) ∧ ((∀ f ∈ m.fields, omitD f.name = false) → SameMembers a b) := by
  unfold dumpModel
  rw [(exact_projection h e).2]
  have hperm := (shape_projection_typedDict htd).2.1
  have hobj' : ∀ f ∈ m.outSpecs, (obj.lookup f.id).isSome := by
    intro f hf
    obtain ⟨g, hg, rfl⟩ := List.mem_map.mp hf
    exact hobj g hg
  obtain ⟨a, b, ha, hb, hsub, heq⟩ := dumpSpecs_typedDict dp lit call nm omitD m.outSpecs obj hobj'
  have h2 := dumpSpecs_perm dp lit call nm omitD hperm obj
  rw [hb] at h2
  cases htdo : dumpSpecs dp lit call nm omitD std.2.specs obj with
  | none => simp [htdo, DumpAgree] at h2
  | some c =>
    rw [htdo] at h2
    simp only [DumpAgree] at h2
    refine ⟨a, c, ha, rfl, fun p hp => (h2 p).mpr (hsub p hp), fun hom => ?_⟩
    have : a = b := heq (by
      intro f hf
      obtain ⟨g, hg, rfl⟩ := List.mem_map.mp hf
      exact hom g hg)
    subst this
    exact fun x => (h2 x).symm

omit [DecidableEq V] in
/-- **as_list** (the one place where the *order* of the shape is observable): kinds that reproduce the
    specification dump the same list … -/
theorem kinds_agree_as_list {m : LogicalModel} {k₁ k₂ : Kind} {s₁ s₂ : Shape}
    (h₁ : shapeOf k₁ m = .ok s₁) (h₂ : shapeOf k₂ m = .ok s₂) (e₁ : Exact k₁ m = true) (e₂ : Exact k₂ m = true)
    (dp : Ty → V → D) (obj : List (String × V)) :
    dumpAsList dp s₁.2 obj = dumpAsList dp s₂.2 obj := by
  unfold dumpAsList
  rw [(exact_projection h₁ e₁).2, (exact_projection h₂ e₂).2]

omit [DecidableEq V] in
/-- … a TypedDict dumps a permutation of it, ordered by field name. -/
theorem typedDict_as_list_perm {m : LogicalModel} {k : Kind} {s std : Shape}
    (h : shapeOf k m = .ok s) (htd : shapeOf .typedDict m = .ok std) (e : Exact k m = true)
    (dp : Ty → V → D) (obj : List (String × V)) :
    (dumpAsList dp std.2 obj).Perm (dumpAsList dp s.2 obj) := by
  unfold dumpAsList
  rw [(exact_projection h e).2]
  have hperm := (shape_projection_typedDict htd).2.1
  have := hperm.map (fun f => (obj.lookup f.id).map (dp f.ty))
  refine this.trans (List.Perm.of_eq ?_)
  simp [List.map_map, Function.comp_def, OutSpec.asTypedDict]

end

/-! ## 4. Converters between two kinds of the same logical model copy every field -/

/-- **cross_kind_convert_copies_all** — all six kinds, no side condition: the converter from kind `k₁`
    to kind `k₂` links every destination field to the source field of the same name, so the destination
    constructor receives, for every logical field, the value the source object holds for it. -/
theorem cross_kind_convert_copies_all {V : Type} {m : LogicalModel} {k₁ k₂ : Kind} {s₁ s₂ : Shape}
    (h₁ : shapeOf k₁ m = .ok s₁) (h₂ : shapeOf k₂ m = .ok s₂) (obj : List (String × V)) :
    (∀ p ∈ link s₂.1 s₁.2, p.2 = some p.1) ∧
    (∀ f ∈ m.fields, (f.name, obj.lookup f.name) ∈ convertArgs s₂.1 s₁.2 obj) := by
  have hsrc := (shape_ids (i := s₁.1) (o := s₁.2) h₁).2
  have hdst := (shape_ids (i := s₂.1) (o := s₂.2) h₂).1
  have hex : ∀ f ∈ s₂.1.fields, ∃ g ∈ s₁.2.fields, g.id = f.id := by
    intro f hf
    have : f.id ∈ s₂.1.fields.map (·.id) := List.mem_map.mpr ⟨f, hf, rfl⟩
    have : f.id ∈ s₁.2.fields.map (·.id) := hsrc.mem_iff.mpr (hdst.mem_iff.mp this)
    obtain ⟨g, hg, hgf⟩ := List.mem_map.mp this
    exact ⟨g, hg, hgf⟩
  refine ⟨link_same_id hex, fun f hf => ?_⟩
  have : f.name ∈ s₂.1.fields.map (·.id) := hdst.mem_iff.mpr (List.mem_map.mpr ⟨f, hf, rfl⟩)
  obtain ⟨g, hg, hgf⟩ := List.mem_map.mp this
  have := convertArgs_copies hex obj g hg
  simpa [hgf] using this

/-! ## 4b. The generated constructor call: every kind's destination receives the same thing

  Section 4 says which source field a destination field is *linked* to.  The converter then has to
  *pass* the values: `_make_constructor_call` walks `InputShape.params` and passes positionally until
  the first parameter it leaves out (an optional field the source lacks, allowed by
  `allow_unlinked_optional`), by keyword afterwards.  dataclass / NamedTuple / attrs report
  positional-or-keyword parameters (attrs under the init alias `x` for `_x`, keyword-only ones last),
  TypedDict / pydantic / SQLAlchemy keyword-only ones.  `convertModel` composes linking, planning and
  Python's binding of the planned call (`bindCall`); the theorems say the outcome is the field-wise
  specification `convertSpec`, which mentions no parameter and no kind. -/

section
variable {V W : Type}

/-- **Field-wise specification of a converter** on the logical model alone: for every destination
    field the (coerced) value the source object holds under the same id, nothing for a field the
    source shape lacks.  `src` is *any* source shape (a sub-model, a super-model, another kind). -/
def convertSpec (co : String → V → W) (m : LogicalModel) (src : OutputShape) (obj : List (String × V)) :
    List (String × W) :=
  m.fields.filterMap fun f => (lookSpec co src obj f.name).map (f.name, ·)

/-- every kind's parameter list is fit for the planned call: distinct parameter names (attrs: the
    init aliases), no positional-only parameter, one parameter per field -/
theorem every_kind_params_wellformed {k : Kind} {m : LogicalModel} {i : InputShape} {o : OutputShape}
    (h : shapeOf k m = .ok (i, o)) :
    (i.params.map (·.name)).Nodup ∧ (∀ p ∈ i.params, p.kind ≠ .posOnly) ∧
      (i.params.map (·.fieldId)).Perm (i.fields.map (·.id)) :=
  ⟨(shape_params_wf h).names, (shape_params_wf h).noPosOnly, (shape_params_wf h).fields⟩

/-- **the planned call binds field-wise** — any parameter list with distinct names and without
    positional-only parameters, any set of skipped fields in any position: the plan exists (the
    `CannotProvide` branch is dead) and Python binds exactly the linked parameters, each to its own
    sub-plan. -/
theorem planned_call_binds_fieldwise (look : String → Option V) (params : List Param) (kwargs : Bool)
    (hnd : (params.map (·.name)).Nodup) (hk : ∀ p ∈ params, p.kind ≠ .posOnly) :
    ∃ args, planCall look params false = some args ∧
      bindCall params kwargs args = some (params.filterMap fun p => (look p.fieldId).map (p.fieldId, ·)) :=
  bindCall_planCall look params kwargs hnd hk

/-- **convert (field-wise), all six kinds, no side condition on the model**: for a source object
    holding every source field, the converter into kind `k` is refused exactly when some destination
    field has no source and is required or not allowed to stay unlinked; otherwise the destination
    constructor receives exactly (as a multiset) `convertSpec`. -/
theorem convert_fieldwise {k : Kind} {m : LogicalModel} {i : InputShape} {o : OutputShape}
    (h : shapeOf k m = .ok (i, o)) (allow : String → Bool) (co : String → V → W) (src : OutputShape)
    (obj : List (String × V)) (hobj : ∀ g ∈ src.fields, (obj.lookup g.id).isSome) :
    (i.fields.any (Refuses allow src) = true → convertModel allow co i src obj = .noConverter) ∧
    (i.fields.any (Refuses allow src) = false →
      ∃ args, convertModel allow co i src obj = .ok args ∧ args.Perm (convertSpec co m src obj)) := by
  have hids := (shape_ids h).1
  have hnd : (i.fields.map (·.id)).Nodup := (hids.nodup_iff).mpr (shapeOf_namesOk h)
  obtain ⟨h1, h2⟩ := convertModel_spec allow co i src obj (shape_params_wf h) hnd hobj
  refine ⟨h1, fun hr => ?_⟩
  obtain ⟨args, ha, hp⟩ := h2 hr
  refine ⟨args, ha, hp.trans ?_⟩
  have := hids.filterMap (fun id => (lookSpec co src obj id).map (id, ·))
  refine this.trans (List.Perm.of_eq ?_)
  simp [convertSpec, List.filterMap_map, Function.comp_def]

/-- … hence, field by field: the argument the constructor receives for the logical field `f` is the
    specification's — the source's value if the source has the field, none (left to the constructor:
    `objectOf`) otherwise. -/
theorem convert_fieldwise_lookup {k : Kind} {m : LogicalModel} {i : InputShape} {o : OutputShape}
    (h : shapeOf k m = .ok (i, o)) (allow : String → Bool) (co : String → V → W) (src : OutputShape)
    (obj : List (String × V)) (hobj : ∀ g ∈ src.fields, (obj.lookup g.id).isSome)
    (args : List (String × W)) (hc : convertModel allow co i src obj = .ok args) :
    ∀ f ∈ m.fields, args.lookup f.name = lookSpec co src obj f.name := by
  obtain ⟨h1, h2⟩ := convert_fieldwise h allow co src obj hobj
  cases hr : i.fields.any (Refuses allow src)
  · obtain ⟨args', ha, hp⟩ := h2 hr
    rw [hc] at ha
    cases ha
    intro f hf
    have hnames := shapeOf_namesOk h
    have hsnd : ((convertSpec co m src obj).map (·.1)).Nodup :=
      (filterMap_keys_sublist (fun f : LField => f.name) (fun f => lookSpec co src obj f.name) m.fields).nodup hnames
    rw [← perm_lookup hp.symm hsnd f.name]
    exact lookup_filterMap_key (fun f : LField => f.name) (fun f => lookSpec co src obj f.name) m.fields hnames f hf
  · rw [h1 hr] at hc
    cases hc

/-- **kinds_agree (convert)** — any two of the six kinds, any source shape, any policy: whenever
    both converters exist, the two destination constructors receive the same argument for every
    logical field. -/
theorem kinds_agree_convert {m : LogicalModel} {k₁ k₂ : Kind} {s₁ s₂ : Shape}
    (h₁ : shapeOf k₁ m = .ok s₁) (h₂ : shapeOf k₂ m = .ok s₂) (allow : String → Bool) (co : String → V → W)
    (src : OutputShape) (obj : List (String × V)) (hobj : ∀ g ∈ src.fields, (obj.lookup g.id).isSome)
    (a₁ a₂ : List (String × W)) (c₁ : convertModel allow co s₁.1 src obj = .ok a₁)
    (c₂ : convertModel allow co s₂.1 src obj = .ok a₂) :
    a₁.Perm a₂ ∧ ∀ f ∈ m.fields, a₁.lookup f.name = a₂.lookup f.name := by
  obtain ⟨i₁, o₁⟩ := s₁
  obtain ⟨i₂, o₂⟩ := s₂
  refine ⟨?_, fun f hf => ?_⟩
  · obtain ⟨r1, g1⟩ := convert_fieldwise h₁ allow co src obj hobj
    obtain ⟨r2, g2⟩ := convert_fieldwise h₂ allow co src obj hobj
    cases hr1 : i₁.fields.any (Refuses allow src)
    · cases hr2 : i₂.fields.any (Refuses allow src)
      · obtain ⟨b1, hb1, p1⟩ := g1 hr1
        obtain ⟨b2, hb2, p2⟩ := g2 hr2
        rw [c₁] at hb1
        rw [c₂] at hb2
        cases hb1
        cases hb2
        exact p1.trans p2.symm
      · rw [r2 hr2] at c₂
        cases c₂
    · rw [r1 hr1] at c₁
      cases c₁
  · rw [convert_fieldwise_lookup h₁ allow co src obj hobj a₁ c₁ f hf,
      convert_fieldwise_lookup h₂ allow co src obj hobj a₂ c₂ f hf]

/-- the converted *objects* of the four plain kinds are field-wise equal: the fields the source has
    hold the source's values, the others the declared default (`objectOf`) -/
theorem kinds_agree_convert_objects {m : LogicalModel} {k₁ k₂ : Kind} {s₁ s₂ : Shape}
    (h₁ : shapeOf k₁ m = .ok s₁) (h₂ : shapeOf k₂ m = .ok s₂)
    (p₁ : k₁ ≠ .typedDict ∧ k₁ ≠ .sqlalchemy) (p₂ : k₂ ≠ .typedDict ∧ k₂ ≠ .sqlalchemy)
    (allow : String → Bool) (co : String → V → W) (src : OutputShape) (obj : List (String × V))
    (hobj : ∀ g ∈ src.fields, (obj.lookup g.id).isSome) (lit : Scalar → W) (call : Factory → W) (none_ : W)
    (a₁ a₂ : List (String × W)) (c₁ : convertModel allow co s₁.1 src obj = .ok a₁)
    (c₂ : convertModel allow co s₂.1 src obj = .ok a₂) :
    objectOf k₁ lit call none_ m a₁ = objectOf k₂ lit call none_ m a₂ := by
  rw [kinds_agree_objects p₁ p₂ lit call none_ a₁]
  unfold objectOf
  apply List.map_congr_left
  intro f hf
  rw [(kinds_agree_convert h₁ h₂ allow co src obj hobj a₁ a₂ c₁ c₂).2 f hf]

/-- a logical field the source lacks and that is required, or optional but not allowed to stay unlinked -/
def RefusesL (allow : String → Bool) (src : OutputShape) (f : LField) : Bool :=
  !linkedIn src f.name && (f.default.isNone || !allow f.name)

/-- **the same refusals**: kinds that reproduce the specification — and TypedDict, which keeps every
    `required` flag — refuse the converter for the same (source, policy): exactly when a logical
    field without source is required or not allowed.  (SQLAlchemy deviates where its optional
    autoincrement key / nullable columns do: `full_strength_fails_sqlalchemy_optional`.) -/
theorem kinds_agree_convert_refusal {k : Kind} {m : LogicalModel} {i : InputShape} {o : OutputShape}
    (h : shapeOf k m = .ok (i, o)) (he : Exact k m = true ∨ k = .typedDict) (allow : String → Bool)
    (co : String → V → W) (src : OutputShape) (obj : List (String × V))
    (hobj : ∀ g ∈ src.fields, (obj.lookup g.id).isSome) :
    convertModel allow co i src obj = .noConverter ↔ m.fields.any (RefusesL allow src) = true := by
  have hany : i.fields.any (Refuses allow src) = m.fields.any (RefusesL allow src) := by
    have hspec : i.fields.any (Refuses allow src)
        = i.specs.any (fun s => !linkedIn src s.id && (s.required || !allow s.id)) := by
      simp only [InputShape.specs, List.any_map, Function.comp_def, InField.spec]
      rfl
    rw [hspec]
    rcases he with he | rfl
    · rw [(exact_projection h he).1]
      simp only [LogicalModel.inSpecs, List.any_map, Function.comp_def, LField.inSpec]
      rfl
    · rw [any_perm (shape_projection_typedDict h).1]
      simp only [LogicalModel.inSpecs, List.any_map, Function.comp_def, LField.inSpec, InSpec.eraseDefault]
      rfl
  obtain ⟨h1, h2⟩ := convert_fieldwise h allow co src obj hobj
  rw [← hany]
  constructor
  · intro hc
    cases hr : i.fields.any (Refuses allow src)
    · obtain ⟨args, ha, _⟩ := h2 hr
      rw [hc] at ha
      cases ha
    · rfl
  · exact h1

end

/-! non-vacuity of 4b: `a: str, b: str = "B", c: str = "C"` fed from a source with `a` and `c` only -/

def mABC : LogicalModel :=
  { fields := [{ name := "a", ty := .str }, { name := "b", ty := .str, default := .value (.str "B") },
               { name := "c", ty := .str, default := .value (.str "C") }] }
def srcAC : OutputShape :=
  { fields := [{ id := "a", ty := { ty := .str }, default := .none, accessor := .attr "a" false },
               { id := "c", ty := { ty := .str }, default := .none, accessor := .attr "c" false }], overriden := [] }

/-- dataclass: `Dst(data.a, c=data.c)` — `a` positionally, `c` by keyword because `b` was left out -/
example : (shapeOf .dataclass mABC).toOption.map (fun s => planCall (fun id => if id == "b" then none else some id) s.1.params false)
    = some (some [.pos "a", .kw "c" "c"]) := by decide
example : (shapeOf .dataclass mABC).toOption.map
      (fun s => convertModel (fun id => id == "b") (fun _ (v : Nat) => v) s.1 srcAC [("a", 1), ("c", 3)])
    = some (.ok [("a", 1), ("c", 3)]) := by decide
example : (shapeOf .pydantic mABC).toOption.map
      (fun s => convertModel (fun id => id == "b") (fun _ (v : Nat) => v) s.1 srcAC [("a", 1), ("c", 3)])
    = some (.ok [("a", 1), ("c", 3)]) := by decide
/-- the default policy forbids the unlinked `b`: no converter -/
example : (shapeOf .dataclass mABC).toOption.map
      (fun s => convertModel (fun _ => false) (fun _ (v : Nat) => v) s.1 srcAC [("a", 1), ("c", 3)])
    = some .noConverter := by decide
/-- the binding model tells the calls apart: passing `c` positionally after the gap (a flag that is
    not sticky) would put the source's `c` into `b` -/
example : (shapeOf .dataclass mABC).toOption.map (fun s => bindCall s.1.params s.1.kwargs [CallArg.pos 1, CallArg.pos 3])
    = some (some [("a", 1), ("b", 3)]) := by decide
/-- attrs: the keyword is the init alias, not the field id -/
example : (shapeOf .attrs { fields := [{ name := "x", ty := .int, default := .value (.int 0) },
                                        { name := "_p", ty := .str, default := .value (.str "d") }] }).toOption.map
      (fun s => planCall (fun id => if id == "x" then none else some id) s.1.params false)
    = some (some [.kw "p" "_p"]) := by decide

/-! ## 5. The full-strength statement fails: concrete witnesses (the model follows the code as it is) -/

/-- `a: int` (becomes the autoincrement primary key), `b: Optional[int]` (becomes a nullable column) -/
def mSA : LogicalModel := { fields := [{ name := "a", ty := .int }, { name := "b", ty := .opt .int }] }
/-- `a: str`, `d: Optional[int] = None` -/
def mNone : LogicalModel :=
  { fields := [{ name := "a", ty := .str }, { name := "d", ty := .opt .int, default := .value .none }] }

/-- TypedDict: the order of the fields is not the order of declaration (observable with `as_list=True`). -/
theorem full_strength_fails_typedDict_order :
    ¬ (∀ (m : LogicalModel) (s₁ s₂ : Shape), shapeOf .dataclass m = .ok s₁ → shapeOf .typedDict m = .ok s₂ →
        dumpAsList (fun _ v => v) s₁.2 [("a", 1), ("b", 2)] = dumpAsList (fun _ (v : Nat) => v) s₂.2 [("a", 1), ("b", 2)]) := by
  intro hall
  have h1 : shapeOf .dataclass mBA = .ok
      ({ fields := (mBA.fields.map (declField .dataclass false)).map dcInField
         params := (mBA.fields.map (declField .dataclass false)).map dcParam
         kwargs := false, overriden := ["b", "a"] },
       { fields := (mBA.fields.map (declField .dataclass false)).map dcOutField, overriden := ["b", "a"] }) := by
    rfl
  have h2 : shapeOf .typedDict mBA = .ok
      ({ fields := (sortByName (mBA.fields.map (declField .typedDict false))).map (tdInField true)
         params := (sortByName (mBA.fields.map (declField .typedDict false))).map tdParam
         kwargs := false, overriden := [] },
       { fields := (sortByName (mBA.fields.map (declField .typedDict false))).map (tdOutField true), overriden := [] }) := by
    have hn : (!mBA.namesOk) = false := by decide
    simp only [shapeOf, hn, shapeOfDecl, declOf, typedDictShape, declFields_eq_map .typedDict (by decide)]
    rfl
  have := hall mBA _ _ h1 h2
  rw [sortByName_mBA] at this
  revert this
  decide

/-- SQLAlchemy: an `int` first field becomes the autoincrement primary key and an `Optional[int]`
    column is nullable — both are *optional* inputs although the logical fields are required: the
    dataclass twin reports them missing, the SQLAlchemy twin accepts `{}`. -/
theorem full_strength_fails_sqlalchemy_optional :
    ∃ (s₁ s₂ : Shape), shapeOf .dataclass mSA = .ok s₁ ∧ shapeOf .sqlalchemy mSA = .ok s₂ ∧
      loadModel (fun _ (d : Nat) => some d) (fun _ => 0) (fun _ => 0) some s₁.1 (.mapping [])
        = .err { notMapping := false, missing := ["a", "b"], bad := [] } ∧
      loadModel (fun _ (d : Nat) => some d) (fun _ => 0) (fun _ => 0) some s₂.1 (.mapping []) = .ok [] := by
  refine ⟨_, _, rfl, rfl, ?_, ?_⟩ <;> decide

/-- SQLAlchemy: `default=None` is "no default" — the shape carries none, so `omit_default` keeps the key
    the dataclass twin omits. -/
theorem full_strength_fails_sqlalchemy_none_default :
    ∃ (s₁ s₂ : Shape), shapeOf .dataclass mNone = .ok s₁ ∧ shapeOf .sqlalchemy mNone = .ok s₂ ∧
      dumpModel (fun _ (v : Nat) => v) (fun _ => 0) (fun _ => 0) some (fun _ => true) s₁.2 [("a", 7), ("d", 0)]
        = some [("a", 7)] ∧
      dumpModel (fun _ (v : Nat) => v) (fun _ => 0) (fun _ => 0) some (fun _ => true) s₂.2 [("a", 7), ("d", 0)]
        = some [("a", 7), ("d", 0)] := by
  refine ⟨_, _, rfl, rfl, ?_, ?_⟩ <;> decide

/-- the per-field side conditions of `SAFaithful` are decidable and really exclude the witnesses -/
example : SAFaithful mSA = false := by decide
example : SAFaithful mNone = false := by decide
example : SAFaithful { fields := [{ name := "a", ty := .str }, { name := "n", ty := .int, default := .value (.int 0) }] } = true := by
  decide

/-! ## Non-vacuity: concrete models on which the hypotheses of the theorems hold -/

/-- `x: int`, `_p: str = "d"` keyword-only, `tags: list[int] = factory(list)` -/
def mEx : LogicalModel :=
  { fields := [{ name := "x", ty := .int }, { name := "_p", ty := .str, default := .value (.str "d"), kwOnly := true },
               { name := "tags", ty := .list .int, default := .factory .list }] }

example : (shapeOf .dataclass mEx).toOption.map (fun s => s.1.params.map (fun p => (p.name, p.kind)))
    = some [("x", .posOrKw), ("tags", .posOrKw), ("_p", .kwOnly)] := by decide
example : (shapeOf .attrs mEx).toOption.map (fun s => s.1.params.map (fun p => (p.fieldId, p.name)))
    = some [("x", "x"), ("tags", "tags"), ("_p", "p")] := by decide
example : (shapeOf .attrs mEx).toOption.map (fun s => s.1.specs) = some mEx.inSpecs := by decide
example : (shapeOf .pydantic mEx).toOption.isSome = false := by decide        -- `_p` would be a private attribute
example : (shapeOf .namedTuple mEx).toOption.isSome = false := by decide      -- underscore name, factory
example : Exact .sqlalchemy mEx = false := by decide                           -- `x: int` is the autoincrement key
example :
    (shapeOf .dataclass mEx).toOption.map (fun s =>
      loadModel (fun _ (d : Nat) => some d) (fun _ => 100) (fun _ => 200) some s.1 (.mapping [("x", 1), ("zz", 9)]))
      = some (.ok [("x", 1), ("_p", 100), ("tags", 200)]) := by decide

end Adaptix.Kinds.C17
