import AdaptixModel.Gen.Literal

/-!
# C19 — a default / constant written as source text denotes exactly that value and applies nothing else

"No text supplied as a key, name or **default** is ever executed or able to change the structure of the generated
function."  For defaults the text is produced by `get_literal_expr`; the theorems are about its model
(`AdaptixModel/Gen/Literal.lean`), for every Python value of the abstract grammar, any nesting depth and size:

* `literal_denotes_value`     whenever a literal form is produced, evaluating it (builtin names denote their builtins)
                              gives back the value itself — element for element, type for type;
* `literal_iff_renderable`    a literal form is produced exactly when every leaf of the value has one: one opaque or
                              non-finite leaf anywhere makes the whole value a captured constant, never a partly
                              rendered container (what seeded change C17e broke: `{'max': None}` for `{'max': Decimal}`);
* `literal_names_from_value`  the text mentions no name except the builtins the value itself contains, and — by the type
                              of `Expr.call` — applies nothing but `set`, `frozenset`, `slice`, `range`, `bytearray`.
-/
namespace Adaptix.Props.C19Literal
open Adaptix.Gen.Literal

mutual
theorem toExpr_sound : ∀ (v : PyVal) (e : Expr), toExpr v = some e → eval e = v
  | .leaf l, e, h => by simp [toExpr] at h; subst h; simp [eval]
  | .bytearray b, e, h => by simp [toExpr] at h; subst h; simp [eval, evals, applyCtor]
  | .nonfinite, e, h => by simp [toExpr] at h
  | .builtin n, e, h => by simp [toExpr] at h; subst h; simp [eval]
  | .opaque _, e, h => by simp [toExpr] at h
  | .list xs, e, h => by
      simp only [toExpr, Option.map_eq_some_iff] at h
      obtain ⟨es, hes, rfl⟩ := h
      simp [eval, toExprs_sound xs es hes]
  | .tuple xs, e, h => by
      simp only [toExpr, Option.map_eq_some_iff] at h
      obtain ⟨es, hes, rfl⟩ := h
      simp [eval, toExprs_sound xs es hes]
  | .set [], e, h => by simp [toExpr] at h; subst h; simp [eval, evals, applyCtor]
  | .set (x :: xs), e, h => by
      simp only [toExpr, Option.map_eq_some_iff] at h
      obtain ⟨es, hes, rfl⟩ := h
      simp [eval, toExprs_sound (x :: xs) es hes]
  | .frozenset [], e, h => by simp [toExpr] at h; subst h; simp [eval, evals, applyCtor]
  | .frozenset (x :: xs), e, h => by
      simp only [toExpr, Option.map_eq_some_iff] at h
      obtain ⟨es, hes, rfl⟩ := h
      simp [eval, evals, applyCtor, toExprs_sound (x :: xs) es hes]
  | .slice a b c, e, h => by
      simp only [toExpr] at h
      split at h
      · rename_i a' b' c' ha hb hc
        simp at h; subst h
        simp [eval, evals, applyCtor, toExpr_sound a a' ha, toExpr_sound b b' hb, toExpr_sound c c' hc]
      · simp at h
  | .range a b c, e, h => by simp [toExpr] at h; subst h; simp [eval, evals, applyCtor]
  | .dict ks vs, e, h => by
      simp only [toExpr] at h
      split at h
      · rename_i ks' vs' hk hv
        simp at h; subst h
        simp [eval, toExprs_sound ks ks' hk, toExprs_sound vs vs' hv]
      · simp at h
theorem toExprs_sound : ∀ (vs : List PyVal) (es : List Expr), toExprs vs = some es → evals es = vs
  | [], es, h => by simp [toExprs] at h; subst h; simp [evals]
  | x :: xs, es, h => by
      simp only [toExprs] at h
      split at h
      · rename_i e es' hx hxs
        simp at h; subst h
        simp [evals, toExpr_sound x e hx, toExprs_sound xs es' hxs]
      · simp at h
end

/-- **The literal denotes the value.** -/
theorem literal_denotes_value (v : PyVal) (e : Expr) (h : toExpr v = some e) : eval e = v :=
  toExpr_sound v e h

mutual
theorem isSome_toExpr : ∀ v : PyVal, (toExpr v).isSome = renderable v
  | .leaf _ => by simp [toExpr, renderable]
  | .bytearray _ => by simp [toExpr, renderable]
  | .nonfinite => by simp [toExpr, renderable]
  | .builtin _ => by simp [toExpr, renderable]
  | .opaque _ => by simp [toExpr, renderable]
  | .list xs => by simp [toExpr, renderable, isSome_toExprs xs]
  | .tuple xs => by simp [toExpr, renderable, isSome_toExprs xs]
  | .set [] => by simp [toExpr, renderable, renderables]
  | .set (x :: xs) => by simp [toExpr, renderable, isSome_toExprs (x :: xs)]
  | .frozenset [] => by simp [toExpr, renderable, renderables]
  | .frozenset (x :: xs) => by simp [toExpr, renderable, isSome_toExprs (x :: xs)]
  | .slice a b c => by
      have ha := isSome_toExpr a
      have hb := isSome_toExpr b
      have hc := isSome_toExpr c
      simp only [toExpr, renderable]
      cases h1 : toExpr a <;> cases h2 : toExpr b <;> cases h3 : toExpr c <;> simp_all
  | .range _ _ _ => by simp [toExpr, renderable]
  | .dict ks vs => by
      have hk := isSome_toExprs ks
      have hv := isSome_toExprs vs
      simp only [toExpr, renderable]
      cases h1 : toExprs ks <;> cases h2 : toExprs vs <;> simp_all
theorem isSome_toExprs : ∀ vs : List PyVal, (toExprs vs).isSome = renderables vs
  | [] => by simp [toExprs, renderables]
  | x :: xs => by
      have hx := isSome_toExpr x
      have hxs := isSome_toExprs xs
      simp only [toExprs, renderables]
      cases h1 : toExpr x <;> cases h2 : toExprs xs <;> simp_all
end

/-- **All or nothing**: a literal form exists exactly for values made of renderable leaves only. -/
theorem literal_iff_renderable (v : PyVal) : (toExpr v).isSome = renderable v := isSome_toExpr v

theorem renderables_eq_all : ∀ xs : List PyVal, renderables xs = xs.all renderable
  | [] => by simp [renderables]
  | x :: xs => by simp [renderables, renderables_eq_all xs]

/-- one leaf without a literal form anywhere in a list / tuple / set / dict value: no literal at all -/
theorem opaque_element_blocks (xs : List PyVal) (x : PyVal) (hx : x ∈ xs) (hr : renderable x = false) :
    toExpr (.list xs) = none ∧ toExpr (.tuple xs) = none ∧ (∀ ks, toExpr (.dict ks xs) = none) ∧
    (∀ vs, toExpr (.dict xs vs) = none) := by
  have hall : renderables xs = false := by
    rw [renderables_eq_all]
    apply Bool.eq_false_iff.mpr
    intro h
    have := List.all_eq_true.mp h x hx
    simp [hr] at this
  have none_of : ∀ v : PyVal, renderable v = false → toExpr v = none := by
    intro v hv
    have := literal_iff_renderable v
    rw [hv] at this
    cases h : toExpr v <;> simp_all
  refine ⟨none_of _ (by simp [renderable, hall]), none_of _ (by simp [renderable, hall]), ?_, ?_⟩
  · intro ks; exact none_of _ (by simp [renderable, hall])
  · intro vs; exact none_of _ (by simp [renderable, hall])

mutual
theorem names_toExpr : ∀ (v : PyVal) (e : Expr), toExpr v = some e → e.names = v.builtins
  | .leaf l, e, h => by simp [toExpr] at h; subst h; simp [Expr.names, PyVal.builtins]
  | .bytearray b, e, h => by simp [toExpr] at h; subst h; simp [Expr.names, Expr.namesL, PyVal.builtins]
  | .nonfinite, e, h => by simp [toExpr] at h
  | .builtin n, e, h => by simp [toExpr] at h; subst h; simp [Expr.names, PyVal.builtins]
  | .opaque _, e, h => by simp [toExpr] at h
  | .list xs, e, h => by
      simp only [toExpr, Option.map_eq_some_iff] at h
      obtain ⟨es, hes, rfl⟩ := h
      simp [Expr.names, PyVal.builtins, names_toExprs xs es hes]
  | .tuple xs, e, h => by
      simp only [toExpr, Option.map_eq_some_iff] at h
      obtain ⟨es, hes, rfl⟩ := h
      simp [Expr.names, PyVal.builtins, names_toExprs xs es hes]
  | .set [], e, h => by simp [toExpr] at h; subst h; simp [Expr.names, Expr.namesL, PyVal.builtins, PyVal.builtinsL]
  | .set (x :: xs), e, h => by
      simp only [toExpr, Option.map_eq_some_iff] at h
      obtain ⟨es, hes, rfl⟩ := h
      simp [Expr.names, PyVal.builtins, names_toExprs (x :: xs) es hes]
  | .frozenset [], e, h => by
      simp [toExpr] at h; subst h; simp [Expr.names, Expr.namesL, PyVal.builtins, PyVal.builtinsL]
  | .frozenset (x :: xs), e, h => by
      simp only [toExpr, Option.map_eq_some_iff] at h
      obtain ⟨es, hes, rfl⟩ := h
      simp [Expr.names, Expr.namesL, PyVal.builtins, names_toExprs (x :: xs) es hes]
  | .slice a b c, e, h => by
      simp only [toExpr] at h
      split at h
      · rename_i a' b' c' ha hb hc
        simp at h; subst h
        simp [Expr.names, Expr.namesL, PyVal.builtins, names_toExpr a a' ha, names_toExpr b b' hb, names_toExpr c c' hc]
      · simp at h
  | .range a b c, e, h => by simp [toExpr] at h; subst h; simp [Expr.names, Expr.namesL, PyVal.builtins]
  | .dict ks vs, e, h => by
      simp only [toExpr] at h
      split at h
      · rename_i ks' vs' hk hv
        simp at h; subst h
        simp [Expr.names, PyVal.builtins, names_toExprs ks ks' hk, names_toExprs vs vs' hv]
      · simp at h
theorem names_toExprs : ∀ (vs : List PyVal) (es : List Expr), toExprs vs = some es → Expr.namesL es = PyVal.builtinsL vs
  | [], es, h => by simp [toExprs] at h; subst h; simp [Expr.namesL, PyVal.builtinsL]
  | x :: xs, es, h => by
      simp only [toExprs] at h
      split at h
      · rename_i e es' hx hxs
        simp at h; subst h
        simp [Expr.namesL, PyVal.builtinsL, names_toExpr x e hx, names_toExprs xs es' hxs]
      · simp at h
end

/-- **Nothing but the value's own builtins is named** (and nothing but the five constructors of `Ctor` is applied:
that is the type of `Expr.call`). -/
theorem literal_names_from_value (v : PyVal) (e : Expr) (h : toExpr v = some e) : e.names = v.builtins :=
  names_toExpr v e h

/-- a value without builtin objects inside is rendered without any name at all: pure displays and constants -/
theorem literal_closed (v : PyVal) (e : Expr) (h : toExpr v = some e) (hb : v.builtins = []) : e.names = [] := by
  rw [literal_names_from_value v e h, hb]

/-! non-vacuity: concrete values on both sides of the hypotheses -/
example : toExpr (.dict [.leaf (.str [109])] [.tuple [.leaf (.int 1)]]) =
    some (.dict [.const (.str [109])] [.tuple [.const (.int 1)]]) := by rfl
example : toExpr (.dict [.leaf (.str [109])] [.opaque 7]) = none := by decide
example : toExpr (.frozenset [.builtin [78], .leaf (.int 2)]) =
    some (.call .frozenset [.set [.name [78], .const (.int 2)]]) := by rfl
example : renderable (.list [.leaf (.int 1), .list [.nonfinite]]) = false := by decide

end Adaptix.Props.C19Literal
