/-
  C04 — Invalid input raises LoadError and nothing else.
  Property theorems only; lemmas: Lemmas/MiniPy.lean (abstraction soundness of the
  mini-Python analysis), Lemmas/MorphEscape|Hash|Union|NoEscape.lean (containers).

  Three layers:
   1. `scalar_no_escape_table` — a kernel-checked analysis of the scalar loader closures
      TRANSLATED FROM THE WORKING TREE on this run: for every closure × every datum class ×
      every way its call sites can behave within the stdlib catalogue, the closure returns
      or raises a LoadError subclass.  Removing an `except` clause, catching the wrong class
      or adding an unguarded call changes the generated term and makes this `decide` fail.
   2. `translated_leaf_no_escape` — by abstraction soundness (proved once over the embedding)
      the table covers every concrete run: all data, all oracles within the catalogue.
   3. `load_no_escape` / `builtin_load_no_escape` — containers, unions, literals and models
      add no other source: by fuel induction, for every type Python can hold values of,
      every datum, the three debug_trail modes and both coercion modes.
-/
import AdaptixModel.MiniPy.Analyse
import AdaptixModel.Morph.Scalars
import AdaptixProofs.Lemmas.MiniPy
import AdaptixProofs.Lemmas.Catalogue
import AdaptixProofs.Lemmas.MorphNoEscape
import AdaptixProofs.Lemmas.MorphTerminates

namespace Adaptix.Morph.C04
open Adaptix.Py Adaptix.MiniPy Adaptix.Morph Adaptix.Generated.Scalars

/-- a closure result that is acceptable: it returned, or raised a LoadError subclass -/
def safe : ResClass → Bool
  | .ret => true
  | .cont => true
  | .raised e => isLoadErrorClass e

/-- a call site the analysis reaches but the catalogue has no row for is NOT assumed silent:
    it is treated as able to raise anything (so a new, uncatalogued call cannot pass vacuously) -/
def guarded (row : List SiteClass) : List SiteClass :=
  if row.isEmpty then [.raises "UncataloguedSite"] else row

def aenv (cat : String → String → List SiteClass) (f : Facts) : AEnv :=
  { ancestors := excAncestors, facts := f, catalogue := fun site => guarded (cat f.tag site) }

theorem mem_guarded {c : SiteClass} {row : List SiteClass} (h : c ∈ row) : c ∈ guarded row := by
  unfold guarded
  cases row with
  | nil => simp at h
  | cons a rest => simpa using h

def closureSafe (prog : Block) (cat : String → String → List SiteClass) : Bool :=
  tagFacts.all fun f => (possibleClosure (aenv cat f) prog).all safe

def tableSafe : Bool := closures.all fun c => closureSafe c.2.1 c.2.2

/-- **Layer 1** (re-checked against the regenerated terms on every run). -/
theorem scalar_no_escape_table : tableSafe = true := by decide +kernel

theorem objectFacts_mem : objectFacts ∈ tagFacts := by decide +kernel

theorem factsOf_mem (d : Val) : factsOf d ∈ tagFacts := by
  unfold factsOf
  split
  · rename_i f hf
    exact List.mem_of_find?_eq_some hf
  · exact objectFacts_mem

theorem siteWithin_guarded {c : SiteClass} {row : List SiteClass} (h : SiteWithin row c) : c ∈ guarded row := by
  rcases h with h | ⟨hr, hc⟩
  · exact mem_guarded h
  · subst hr; subst hc; simp [guarded, uncatalogued]

/-- **Layer 2**: every translated scalar loader, on every datum, with its call sites behaving in
    any way the catalogue allows, returns or raises a LoadError — never anything else. -/
theorem translated_leaf_no_escape (oracle : SiteOracle) (h : WithinCatalogue oracle)
    (strict : Bool) (s : String) (d : Val) (hk : (closureOf s strict).isSome = true) :
    (scalarLoadGen oracle strict s d).isEscape = false := by
  unfold scalarLoadGen
  cases hc : closureOf s strict with
  | none => simp [hc] at hk
  | some pc =>
    obtain ⟨prog, cat⟩ := pc
    simp only []
    -- the closure is one of the table
    have hmem : ∃ key, (key, prog, cat) ∈ closures := by
      unfold closureOf at hc
      cases hf : closures.find? (fun c => c.1 == (s, strict)) with
      | none => simp [hf] at hc
      | some c =>
        rw [hf] at hc
        simp at hc
        refine ⟨c.1, ?_⟩
        have := List.mem_of_find?_eq_some hf
        rw [← hc]
        exact this
    obtain ⟨key, hmem⟩ := hmem
    have htab := scalar_no_escape_table
    unfold tableSafe at htab
    have hcs : closureSafe prog cat = true := by
      have := List.all_eq_true.1 htab (key, prog, cat) hmem
      simpa using this
    unfold closureSafe at hcs
    have hf := List.all_eq_true.1 hcs (factsOf d) (factsOf_mem d)
    -- abstraction soundness
    have hresp : Respects (closureEnv oracle strict s d) (aenv cat (factsOf d)) :=
      ⟨rfl, rfl, fun site => siteWithin_guarded (h strict s d prog cat hc site)⟩
    have hsound := runClosure_sound (closureEnv oracle strict s d) (aenv cat (factsOf d)) hresp prog
    have hsafe := List.all_eq_true.1 hf _ hsound
    cases hr : runClosure (closureEnv oracle strict s d) prog with
    | cont => simp [resToOutcome, Outcome.isEscape]
    | ret v => simp [resToOutcome, Outcome.isEscape]
    | raised e =>
      rw [hr] at hsafe
      simp only [Res.cls, safe] at hsafe
      simp [resToOutcome, hsafe, Outcome.isEscape]

/-- **Layer 3** for an arbitrary world: if the leaves do not escape (and hash-safe leaves return
    hashable values), no type Python can hold values of (`Ty.ok`: hashable set elements / dict keys,
    resolvable model references) lets anything but a LoadError out — for every datum, every fuel,
    DISABLE / FIRST / ALL, strict and lax. In ALL mode this includes "no plain ExceptionGroup". -/
theorem load_no_escape (W : World) (sh known : String → Bool) (L : LeafSafe W sh known)
    (hW : W.closed sh known) (cfg : Cfg) (n : Nat) (T : Ty) (d : Val)
    (hT : Ty.ok W sh known T = true) : (load W cfg n T d).isEscape = false :=
  load_noEsc W sh known L hW cfg n T d hT

/-- the world whose leaves are the translated closures of the working tree -/
def builtinWorld (oracle : SiteOracle) (classes : String → Option (List Field))
    (scalarDump : String → Val → Outcome Val) : World :=
  { classes := classes, scalarLoad := scalarLoadGen oracle, scalarDump := scalarDump }

/-- **C04 for the builtin recipe**: translated leaves + containers. The only assumptions are the
    stdlib catalogue (`WithinCatalogue`, validated by fuzz on every run) and that hash-safe scalar
    types load to hashable values (`hh`, true of every builtin scalar but bytearray/BytesIO,
    checked by the correspondence). -/
theorem builtin_load_no_escape (oracle : SiteOracle) (hcat : WithinCatalogue oracle)
    (classes : String → Option (List Field)) (sd : String → Val → Outcome Val) (sh : String → Bool)
    (hh : ∀ s name d v, sh name = true → scalarLoadGen oracle s name d = .ok v → v.hashable = true)
    (hW : (builtinWorld oracle classes sd).closed sh knownScalar)
    (cfg : Cfg) (n : Nat) (T : Ty) (d : Val)
    (hT : Ty.ok (builtinWorld oracle classes sd) sh knownScalar T = true) :
    (load (builtinWorld oracle classes sd) cfg n T d).isEscape = false := by
  apply load_no_escape _ sh knownScalar ⟨?_, hh⟩ hW cfg n T d hT
  intro s name d hk
  apply translated_leaf_no_escape oracle hcat s name d
  unfold knownScalar at hk
  simp only [Bool.and_eq_true] at hk
  cases s
  · exact hk.2
  · exact hk.1

/-! ### the outcome is a value or a LoadError — not merely "not another exception"

  `load W cfg 0 T d = .diverge` (out of fuel), and `diverge` is not an escape: read alone,
  `load_no_escape` is trivially true at fuel 0 and at every fuel that is too small.  The
  complement: the fuel can always be chosen (`load_terminates`, Lemmas/MorphTerminates.lean, for
  every class table, recursive ones included), and from that fuel on the loader *returns a value
  or raises a LoadError* and the answer no longer depends on the fuel. -/

/-- **`load_settles`.** Under the hypotheses of `load_no_escape` and leaves that answer, there is a
    fuel `N` such that for every larger fuel the loader returns or raises a LoadError (tree) —
    the same outcome for all of them. -/
theorem load_settles (W : World) (sh known : String → Bool) (L : LeafSafe W sh known)
    (hA : LeavesAnswer W) (hW : W.closed sh known) (cfg : Cfg) (T : Ty) (d : Val)
    (hT : Ty.ok W sh known T = true) :
    ∃ N, ∀ m, N ≤ m → load W cfg m T d = load W cfg N T d ∧
      ((∃ v, load W cfg m T d = .ok v) ∨ (∃ e, load W cfg m T d = .err e)) := by
  obtain ⟨N, hN⟩ := load_terminates W hA cfg T d
  refine ⟨N, fun m hm => ⟨modes_load_mono_le hm (hN N (Nat.le_refl _)), ?_⟩⟩
  have hne := load_no_escape W sh known L hW cfg m T d hT
  have hnd := hN m hm
  cases hr : load W cfg m T d with
  | ok v => exact .inl ⟨v, rfl⟩
  | err e => exact .inr ⟨e, rfl⟩
  | escape x => rw [hr] at hne; cases hne
  | diverge => exact absurd hr hnd

theorem builtinWorld_answers (oracle : SiteOracle) (classes : String → Option (List Field))
    (sd : String → Val → Outcome Val) : LeavesAnswer (builtinWorld oracle classes sd) :=
  fun s name d => scalarLoadGen_answers oracle s name d

/-- **C04 for the builtin recipe, total form**: for every holdable type, datum and mode the loader
    built from the translated leaves ends — with enough fuel, and then whatever the fuel — in a
    value or a LoadError. -/
theorem builtin_load_settles (oracle : SiteOracle) (hcat : WithinCatalogue oracle)
    (classes : String → Option (List Field)) (sd : String → Val → Outcome Val) (sh : String → Bool)
    (hh : ∀ s name d v, sh name = true → scalarLoadGen oracle s name d = .ok v → v.hashable = true)
    (hW : (builtinWorld oracle classes sd).closed sh knownScalar)
    (cfg : Cfg) (T : Ty) (d : Val)
    (hT : Ty.ok (builtinWorld oracle classes sd) sh knownScalar T = true) :
    ∃ N, ∀ m, N ≤ m →
      (∃ v, load (builtinWorld oracle classes sd) cfg m T d = .ok v) ∨
      (∃ e, load (builtinWorld oracle classes sd) cfg m T d = .err e) := by
  obtain ⟨N, hN⟩ := load_terminates _ (builtinWorld_answers oracle classes sd) cfg T d
  refine ⟨N, fun m hm => ?_⟩
  have hne := builtin_load_no_escape oracle hcat classes sd sh hh hW cfg m T d hT
  have hnd := hN m hm
  cases hr : load (builtinWorld oracle classes sd) cfg m T d with
  | ok v => exact .inl ⟨v, rfl⟩
  | err e => exact .inr ⟨e, rfl⟩
  | escape x => rw [hr] at hne; cases hne
  | diverge => exact absurd hr hnd

/-- user code is the only other source: a leaf that escapes makes DISABLE/FIRST propagate the raw
    exception; this is what `Outcome.escape` of a world with an escaping leaf models.  Shown here
    only as the contrapositive reading of `load_no_escape`: an escape of `load` implies an
    escaping leaf, an unholdable type or an unresolved class. -/
theorem escape_only_from_leaves (W : World) (sh known : String → Bool) (hW : W.closed sh known)
    (hh : ∀ s name d v, sh name = true → W.scalarLoad s name d = .ok v → v.hashable = true)
    (cfg : Cfg) (n : Nat) (T : Ty) (d : Val) (hT : Ty.ok W sh known T = true)
    (hesc : (load W cfg n T d).isEscape = true) :
    ∃ s name x, known name = true ∧ (W.scalarLoad s name x).isEscape = true := by
  apply Classical.byContradiction
  intro hno
  have L : LeafSafe W sh known := ⟨fun s name x hk => by
    cases hx : (W.scalarLoad s name x).isEscape with
    | false => rfl
    | true => exact absurd ⟨s, name, x, hk, hx⟩ hno, hh⟩
  have := load_no_escape W sh known L hW cfg n T d hT
  simp [this] at hesc

/-! Non-vacuity: the analysis is not trivially true — a closure with an unguarded call that can
    raise ValueError is flagged; the same call guarded by `except ValueError` is accepted. -/
example :
    let cat : String → String → List SiteClass := fun _ _ => [.val, .raises "ValueError"]
    let bad : Block := .cons (.ret (.site "int(data)")) .nil
    closureSafe bad cat = false := by decide +kernel

example :
    let cat : String → String → List SiteClass := fun _ _ => [.val, .raises "ValueError"]
    let good : Block :=
      .cons (.tryS (.cons (.ret (.site "int(data)")) .nil)
                   (.cons ["ValueError"] (.cons (.raiseS "ValueLoadError") .nil) .nil)) .nil
    closureSafe good cat = true := by decide +kernel

example : closures.length ≥ 40 ∧ tagFacts.length ≥ 30 := by decide +kernel

/-- the hypotheses of `translated_leaf_no_escape` are met by a concrete oracle (`witness_within`),
    so the theorem says something: e.g. the strict int loader under that oracle does not escape -/
example (d : Val) : (scalarLoadGen witnessOracle true "int" d).isEscape = false :=
  translated_leaf_no_escape witnessOracle witness_within true "int" d (by decide +kernel)

/-! ### all hypotheses of the builtin theorems hold together (non-degenerate instance)

  `witnessOracle` (within the catalogue, `witness_within`), a RECURSIVE two-class table over the
  translated scalars, a hash-safety predicate that is not constantly false (`None` loads to `None`
  under every oracle: `none_hashable`), set elements and dict keys in the types. -/

theorem clos_none (s : Bool) : ∃ cat, closureOf "none" s = some (prog_none_strict, cat) := by
  cases s
  · exact ⟨cat_none_lax, by rfl⟩
  · exact ⟨cat_none_strict, by rfl⟩

/-- the `None` loader returns `None` or raises, under EVERY oracle: `hh` for `sh = (· == "none")` -/
theorem none_hashable (oracle : SiteOracle) (s : Bool) (name : String) (d v : Val)
    (hn : (name == "none") = true) (h : scalarLoadGen oracle s name d = .ok v) : v.hashable = true := by
  have : name = "none" := by simpa using hn
  subst this
  obtain ⟨cat, hc⟩ := clos_none s
  unfold scalarLoadGen at h
  rw [hc] at h
  simp only [prog_none_strict, runClosure, evalBlock, evalStmt, evalTest, closureEnv] at h
  cases hi : (factsOf d).isNone <;> simp [hi, resToOutcome] at h
  · split at h <;> cases h
  · subst h; rfl

/-- `class Node: val: int; next: Optional[Node] = None`
    `class Box: tags: Set[Optional[Literal["a","b"]]]; by: Dict[Tuple[Literal[1,2]], Node]` -/
def wClasses : String → Option (List Field) := fun cls =>
  if cls = "Node" then some [⟨"val", .scalar "int", true, .none⟩,
                             ⟨"next", .union [.scalar "none", .model "Node"] ["NoneType", "Node"], false, .none⟩]
  else if cls = "Box" then
    some [⟨"tags", .iter .set false (.union [.scalar "none", .literal [.str "a", .str "b"]] ["NoneType", "str"]),
            true, .none⟩,
          ⟨"by", .dict (.tuple [.literal [.int 1, .int 2]]) (.model "Node"), true, .none⟩]
  else none

def wWorld : World := builtinWorld witnessOracle wClasses (fun _ d => .ok d)

theorem known_int : knownScalar "int" = true := by decide +kernel
theorem known_none : knownScalar "none" = true := by decide +kernel

theorem wWorld_closed : wWorld.closed (· == "none") knownScalar := by
  intro c fs h f hf
  simp only [wWorld, builtinWorld, wClasses] at h
  split at h
  · cases h; simp at hf
    rcases hf with rfl | rfl
    · simp [Ty.ok, known_int]
    · simp [Ty.ok, Ty.okAll, known_none, wWorld, builtinWorld, wClasses]
  · split at h
    · cases h; simp at hf
      rcases hf with rfl | rfl
      · simp [Ty.ok, Ty.okAll, Ty.hashOk, Ty.hashOkAll, isPlainVal, known_none]
      · simp [Ty.ok, Ty.okAll, Ty.hashOk, Ty.hashOkAll, isPlainVal, wWorld, builtinWorld, wClasses]
    · cases h

/-- `builtin_load_no_escape` applied with every hypothesis discharged: any datum, mode, fuel -/
example (cfg : Cfg) (n : Nat) (d : Val) : (load wWorld cfg n (.model "Box") d).isEscape = false :=
  builtin_load_no_escape witnessOracle witness_within wClasses _ (· == "none")
    (none_hashable witnessOracle) wWorld_closed cfg n (.model "Box") d
    (by simp [Ty.ok, builtinWorld, wClasses])

/-- … and `builtin_load_settles`: with enough fuel a value or a LoadError, for the recursive table -/
example (cfg : Cfg) (d : Val) : ∃ N, ∀ m, N ≤ m →
    (∃ v, load wWorld cfg m (.model "Box") d = .ok v) ∨ (∃ e, load wWorld cfg m (.model "Box") d = .err e) :=
  builtin_load_settles witnessOracle witness_within wClasses _ (· == "none")
    (none_hashable witnessOracle) wWorld_closed cfg (.model "Box") d
    (by simp [Ty.ok, builtinWorld, wClasses])

/-- **The hash-safety side condition of `Ty.ok` cannot be dropped** (known finding
    `escape:TypeError:set-of-any-unhashable-element`): `Set[Any]` is a type Python can hold values
    of, yet `Ty.ok` refuses it (`Any` is not hash-safe), and rightly so for the code as it is —
    in every world, every debug_trail and coercion mode `load([[1]], Set[Any])` ends in the
    `TypeError` of the `set` constructor (an `ExceptionGroup`-free escape: the error is raised
    after the element loop).  The unconditional reading of C04 — "every builtin type" — is
    therefore false; `load_no_escape` is the statement for the types `Ty.ok` admits. -/
theorem set_of_any_escapes (W : World) (cfg : Cfg) :
    load W cfg 2 (.iter .set false .any) (.list [.list [.int 1]]) = .escape "TypeError" := by
  obtain ⟨t, s⟩ := cfg
  cases t <;> cases s <;> rfl

example (W : World) (sh known : String → Bool) : Ty.ok W sh known (.iter .set false .any) = false := by
  simp [Ty.ok, Ty.hashOk]

/-! witness for `escape_only_from_leaves`: a world with an escaping leaf (user code raising
    `ZeroDivisionError`); the premise `hesc` holds and the conclusion names that leaf -/
def Wbad : World :=
  { classes := fun _ => none
    scalarLoad := fun _ name d => if name = "bad" then .escape "ZeroDivisionError" else .ok d
    scalarDump := fun _ d => .ok d }

example : load Wbad ⟨.all, true⟩ 3 (.iter .list true (.scalar "bad")) (.list [.int 1, .int 2])
    = .escape "ExceptionGroup" := by rfl

example : ∃ s name x, (fun _ => true) name = true ∧ (Wbad.scalarLoad s name x).isEscape = true :=
  escape_only_from_leaves Wbad (fun _ => false) (fun _ => true) (fun _ _ h => by cases h)
    (fun _ _ _ _ h => by cases h) ⟨.all, true⟩ 3 (.iter .list true (.scalar "bad")) (.list [.int 1, .int 2])
    rfl rfl

/-- witness for `load_no_escape` / `load_settles` with an abstract (non-translated) world: leaves
    that reject with a LoadError, one recursive class -/
def Wok : World :=
  { classes := fun cls =>
      if cls = "T" then some [⟨"kids", .iter .list true (.model "T"), true, .none⟩,
                              ⟨"tag", .scalar "s", false, .str ""⟩] else none
    scalarLoad := fun _ _ d => match d with | .str _ => .ok d | _ => .err (LErr.leaf "TypeLoadError" d)
    scalarDump := fun _ d => .ok d }

theorem Wok_leafSafe : LeafSafe Wok (fun _ => true) (fun _ => true) :=
  ⟨fun _ _ d _ => by cases d <;> rfl, fun _ _ d v _ h => by
    cases d <;> simp [Wok] at h
    subst h; rfl⟩

theorem Wok_closed : Wok.closed (fun _ => true) (fun _ => true) := by
  intro c fs h f hf
  simp only [Wok] at h
  split at h
  · cases h; simp at hf; rcases hf with rfl | rfl <;> simp [Ty.ok, Wok]
  · cases h

example (cfg : Cfg) (d : Val) : ∃ N, ∀ m, N ≤ m → load Wok cfg m (.model "T") d = load Wok cfg N (.model "T") d ∧
    ((∃ v, load Wok cfg m (.model "T") d = .ok v) ∨ (∃ e, load Wok cfg m (.model "T") d = .err e)) :=
  load_settles Wok _ _ Wok_leafSafe (fun _ _ d => by cases d <;> simp [Wok]) Wok_closed cfg (.model "T") d
    (by simp [Ty.ok, Wok])

end Adaptix.Morph.C04
