/-
  C04 — Invalid input raises LoadError and nothing else.
  Property theorems only; lemmas: Lemmas/MiniPy.lean (abstraction soundness of the
  mini-Python analysis), Lemmas/MorphEscape|Hash|Union|NoEscape.lean (containers).

  Three layers:
   1. `scalar_no_escape_table` — a kernel-checked analysis of the scalar loader closures
      TRANSLATED FROM THE WORKING TREE on this run: for every closure × every datum class ×
      every way its call sites can behave within the stdlib catalogue, the closure returns
      or raises a LoadError subclass.  Removing an `except` clause, catching the wrong class
      or adding an unguarded call changes the generated term and makes this `decide` fail.
   2. `translated_leaf_no_escape` — by abstraction soundness (proved once over the embedding)
      the table covers every concrete run: all data, all oracles within the catalogue.
   3. `load_no_escape` / `builtin_load_no_escape` — containers, unions, literals and models
      add no other source: by fuel induction, for every type Python can hold values of,
      every datum, the three debug_trail modes and both coercion modes.
-/
import AdaptixModel.MiniPy.Analyse
import AdaptixModel.Morph.Scalars
import AdaptixProofs.Lemmas.MiniPy
import AdaptixProofs.Lemmas.Catalogue
import AdaptixProofs.Lemmas.MorphNoEscape

namespace Adaptix.Morph.C04
open Adaptix.Py Adaptix.MiniPy Adaptix.Morph Adaptix.Generated.Scalars

/-- a closure result that is acceptable: it returned, or raised a LoadError subclass -/
def safe : ResClass → Bool
  | .ret => true
  | .cont => true
  | .raised e => isLoadErrorClass e

/-- a call site the analysis reaches but the catalogue has no row for is NOT assumed silent:
    it is treated as able to raise anything (so a new, uncatalogued call cannot pass vacuously) -/
def guarded (row : List SiteClass) : List SiteClass :=
  if row.isEmpty then [.raises "UncataloguedSite"] else row

def aenv (cat : String → String → List SiteClass) (f : Facts) : AEnv :=
  { ancestors := excAncestors, facts := f, catalogue := fun site => guarded (cat f.tag site) }

theorem mem_guarded {c : SiteClass} {row : List SiteClass} (h : c ∈ row) : c ∈ guarded row := by
  unfold guarded
  cases row with
  | nil => simp at h
  | cons a rest => simpa using h

def closureSafe (prog : Block) (cat : String → String → List SiteClass) : Bool :=
  tagFacts.all fun f => (possibleClosure (aenv cat f) prog).all safe

def tableSafe : Bool := closures.all fun c => closureSafe c.2.1 c.2.2

/-- **Layer 1** (re-checked against the regenerated terms on every run). -/
theorem scalar_no_escape_table : tableSafe = true := by decide +kernel

theorem objectFacts_mem : objectFacts ∈ tagFacts := by decide +kernel

theorem factsOf_mem (d : Val) : factsOf d ∈ tagFacts := by
  unfold factsOf
  split
  · rename_i f hf
    exact List.mem_of_find?_eq_some hf
  · exact objectFacts_mem

theorem siteWithin_guarded {c : SiteClass} {row : List SiteClass} (h : SiteWithin row c) : c ∈ guarded row := by
  rcases h with h | ⟨hr, hc⟩
  · exact mem_guarded h
  · subst hr; subst hc; simp [guarded, uncatalogued]

/-- **Layer 2**: every translated scalar loader, on every datum, with its call sites behaving in
    any way the catalogue allows, returns or raises a LoadError — never anything else. -/
theorem translated_leaf_no_escape (oracle : SiteOracle) (h : WithinCatalogue oracle)
    (strict : Bool) (s : String) (d : Val) (hk : (closureOf s strict).isSome = true) :
    (scalarLoadGen oracle strict s d).isEscape = false := by
  unfold scalarLoadGen
  cases hc : closureOf s strict with
  | none => simp [hc] at hk
  | some pc =>
    obtain ⟨prog, cat⟩ := pc
    simp only []
    -- the closure is one of the table
    have hmem : ∃ key, (key, prog, cat) ∈ closures := by
      unfold closureOf at hc
      cases hf : closures.find? (fun c => c.1 == (s, strict)) with
      | none => simp [hf] at hc
      | some c =>
        rw [hf] at hc
        simp at hc
        refine ⟨c.1, ?_⟩
        have := List.mem_of_find?_eq_some hf
        rw [← hc]
        exact this
    obtain ⟨key, hmem⟩ := hmem
    have htab := scalar_no_escape_table
    unfold tableSafe at htab
    have hcs : closureSafe prog cat = true := by
      have := List.all_eq_true.1 htab (key, prog, cat) hmem
      simpa using this
    unfold closureSafe at hcs
    have hf := List.all_eq_true.1 hcs (factsOf d) (factsOf_mem d)
    -- abstraction soundness
    have hresp : Respects (closureEnv oracle strict s d) (aenv cat (factsOf d)) :=
      ⟨rfl, rfl, fun site => siteWithin_guarded (h strict s d prog cat hc site)⟩
    have hsound := runClosure_sound (closureEnv oracle strict s d) (aenv cat (factsOf d)) hresp prog
    have hsafe := List.all_eq_true.1 hf _ hsound
    cases hr : runClosure (closureEnv oracle strict s d) prog with
    | cont => simp [resToOutcome, Outcome.isEscape]
    | ret v => simp [resToOutcome, Outcome.isEscape]
    | raised e =>
      rw [hr] at hsafe
      simp only [Res.cls, safe] at hsafe
      simp [resToOutcome, hsafe, Outcome.isEscape]

/-- **Layer 3** for an arbitrary world: if the leaves do not escape (and hash-safe leaves return
    hashable values), no type Python can hold values of (`Ty.ok`: hashable set elements / dict keys,
    resolvable model references) lets anything but a LoadError out — for every datum, every fuel,
    DISABLE / FIRST / ALL, strict and lax. In ALL mode this includes "no plain ExceptionGroup". -/
theorem load_no_escape (W : World) (sh known : String → Bool) (L : LeafSafe W sh known)
    (hW : W.closed sh known) (cfg : Cfg) (n : Nat) (T : Ty) (d : Val)
    (hT : Ty.ok W sh known T = true) : (load W cfg n T d).isEscape = false :=
  load_noEsc W sh known L hW cfg n T d hT

/-- the world whose leaves are the translated closures of the working tree -/
def builtinWorld (oracle : SiteOracle) (classes : String → Option (List Field))
    (scalarDump : String → Val → Outcome Val) : World :=
  { classes := classes, scalarLoad := scalarLoadGen oracle, scalarDump := scalarDump }

/-- **C04 for the builtin recipe**: translated leaves + containers. The only assumptions are the
    stdlib catalogue (`WithinCatalogue`, validated by fuzz on every run) and that hash-safe scalar
    types load to hashable values (`hh`, true of every builtin scalar but bytearray/BytesIO,
    checked by the correspondence). -/
theorem builtin_load_no_escape (oracle : SiteOracle) (hcat : WithinCatalogue oracle)
    (classes : String → Option (List Field)) (sd : String → Val → Outcome Val) (sh : String → Bool)
    (hh : ∀ s name d v, sh name = true → scalarLoadGen oracle s name d = .ok v → v.hashable = true)
    (hW : (builtinWorld oracle classes sd).closed sh knownScalar)
    (cfg : Cfg) (n : Nat) (T : Ty) (d : Val)
    (hT : Ty.ok (builtinWorld oracle classes sd) sh knownScalar T = true) :
    (load (builtinWorld oracle classes sd) cfg n T d).isEscape = false := by
  apply load_no_escape _ sh knownScalar ⟨?_, hh⟩ hW cfg n T d hT
  intro s name d hk
  apply translated_leaf_no_escape oracle hcat s name d
  unfold knownScalar at hk
  simp only [Bool.and_eq_true] at hk
  cases s
  · exact hk.2
  · exact hk.1

/-- user code is the only other source: a leaf that escapes makes DISABLE/FIRST propagate the raw
    exception; this is what `Outcome.escape` of a world with an escaping leaf models.  Shown here
    only as the contrapositive reading of `load_no_escape`: an escape of `load` implies an
    escaping leaf, an unholdable type or an unresolved class. -/
theorem escape_only_from_leaves (W : World) (sh known : String → Bool) (hW : W.closed sh known)
    (hh : ∀ s name d v, sh name = true → W.scalarLoad s name d = .ok v → v.hashable = true)
    (cfg : Cfg) (n : Nat) (T : Ty) (d : Val) (hT : Ty.ok W sh known T = true)
    (hesc : (load W cfg n T d).isEscape = true) :
    ∃ s name x, known name = true ∧ (W.scalarLoad s name x).isEscape = true := by
  apply Classical.byContradiction
  intro hno
  have L : LeafSafe W sh known := ⟨fun s name x hk => by
    cases hx : (W.scalarLoad s name x).isEscape with
    | false => rfl
    | true => exact absurd ⟨s, name, x, hk, hx⟩ hno, hh⟩
  have := load_no_escape W sh known L hW cfg n T d hT
  simp [this] at hesc

/-! Non-vacuity: the analysis is not trivially true — a closure with an unguarded call that can
    raise ValueError is flagged; the same call guarded by `except ValueError` is accepted. -/
example :
    let cat : String → String → List SiteClass := fun _ _ => [.val, .raises "ValueError"]
    let bad : Block := .cons (.ret (.site "int(data)")) .nil
    closureSafe bad cat = false := by decide +kernel

example :
    let cat : String → String → List SiteClass := fun _ _ => [.val, .raises "ValueError"]
    let good : Block :=
      .cons (.tryS (.cons (.ret (.site "int(data)")) .nil)
                   (.cons ["ValueError"] (.cons (.raiseS "ValueLoadError") .nil) .nil)) .nil
    closureSafe good cat = true := by decide +kernel

example : closures.length ≥ 40 ∧ tagFacts.length ≥ 30 := by decide +kernel

/-- the hypotheses of `translated_leaf_no_escape` are met by a concrete oracle (`witness_within`),
    so the theorem says something: e.g. the strict int loader under that oracle does not escape -/
example (d : Val) : (scalarLoadGen witnessOracle true "int" d).isEscape = false :=
  translated_leaf_no_escape witnessOracle witness_within true "int" d (by decide +kernel)

end Adaptix.Morph.C04
