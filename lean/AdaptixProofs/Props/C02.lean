/-
  C02 — Non-model loaders and dumpers implement exactly the documented per-type rules.

  Property theorems only. The specification vocabulary (`LoadsTo`, `Rejects`, `specLoad`,
  `DumpsTo`, `specDump`, `specDispatch`, side conditions) is in
  `AdaptixProofs/Lemmas/MorphSpec.lean`; helper lemmas in `Lemmas/MorphSpec*.lean`.

  Mode DISABLE is the reference semantics here; that FIRST and ALL accept/reject the same
  data with the same values is property C06.
-/
import AdaptixModel.Morph.Load
import AdaptixModel.Morph.Dump
import AdaptixProofs.Lemmas.MorphSpec
import AdaptixProofs.Lemmas.MorphSpecLoad
import AdaptixProofs.Lemmas.MorphSpecRel
import AdaptixProofs.Lemmas.MorphSpecUnion
import AdaptixProofs.Lemmas.MorphSpecTotal
import AdaptixProofs.Lemmas.MorphSpecDump
import AdaptixProofs.Lemmas.MorphSpecDumpRel
import AdaptixProofs.Props.C06

namespace Adaptix.Morph.C02

open Adaptix.Py
open Adaptix.Morph

/-! ## Loading -/

/-- **Soundness for every datum, no assumption on the outcome.** For every model-free type
    expression `T`, every datum `d` (well-typed, ill-typed, wrong container, bool/int
    look-alike, nested — anything) and both coercion modes: if the loader returns `v`, the
    documented rule of `T` prescribes exactly `v` for `d`; if it raises a LoadError, the
    documented rule prescribes no value. -/
theorem load_agrees_spec (W : World) (strict : Bool) (hN : NoneExact W strict)
    (n : Nat) (T : Ty) (d : Val) (hfuel : depth T ≤ n)
    (hm : ModelFree T) (hl : LitAtomic T) (ho : OptionalOK W strict T) :
    (∀ v, load W ⟨.disable, strict⟩ n T d = .ok v → specLoad W strict n T d = some v) ∧
    (∀ e, load W ⟨.disable, strict⟩ n T d = .err e → specLoad W strict n T d = none) :=
  spec_load_agrees W strict hN n T d hfuel (spec_good_of hm hl ho)

/-- **Implementation = documented rule (accepting side).** Whenever the loader ends in a value
    or a LoadError (no other exception escapes), it returns `v` iff the rule prescribes `v`. -/
theorem load_iff_spec (W : World) (strict : Bool) (hN : NoneExact W strict)
    (n : Nat) (T : Ty) (d : Val) (hfuel : depth T ≤ n)
    (hm : ModelFree T) (hl : LitAtomic T) (ho : OptionalOK W strict T)
    (hs : Settled (load W ⟨.disable, strict⟩ n T d)) (v : Val) :
    load W ⟨.disable, strict⟩ n T d = .ok v ↔ specLoad W strict n T d = some v :=
  spec_agrees_settled_ok (spec_load_agrees W strict hN n T d hfuel (spec_good_of hm hl ho)) hs v

/-- **Implementation = documented rule (rejecting side).** The loader raises a LoadError iff
    the documented rule prescribes no value: every other datum is rejected. -/
theorem load_rejects_iff (W : World) (strict : Bool) (hN : NoneExact W strict)
    (n : Nat) (T : Ty) (d : Val) (hfuel : depth T ≤ n)
    (hm : ModelFree T) (hl : LitAtomic T) (ho : OptionalOK W strict T)
    (hs : Settled (load W ⟨.disable, strict⟩ n T d)) :
    (∃ e, load W ⟨.disable, strict⟩ n T d = .err e) ↔ specLoad W strict n T d = none :=
  spec_agrees_settled_err (spec_load_agrees W strict hN n T d hfuel (spec_good_of hm hl ho)) hs

/-- **When does nothing else escape?** A static sufficient condition for the `Settled`
    hypothesis: the leaves raise nothing but LoadError, and the element types of sets / key
    types of dicts only produce hashable values. -/
theorem load_settled (W : World) (strict : Bool) (hN : NoneExact W strict)
    (n : Nat) (T : Ty) (d : Val) (hfuel : depth T ≤ n)
    (hm : ModelFree T) (hl : LitAtomic T) (ho : OptionalOK W strict T)
    (hleaf : LeavesSettled W strict T) (hh : HashSafe W strict T) :
    Settled (load W ⟨.disable, strict⟩ n T d) :=
  spec_load_settled W strict hN n T d hfuel
    (spec_tyAll_and (spec_tyAll_and (spec_good_of hm hl ho) hleaf) hh)

/-- the two equivalences under static hypotheses only -/
theorem load_iff_spec_static (W : World) (strict : Bool) (hN : NoneExact W strict)
    (n : Nat) (T : Ty) (d : Val) (hfuel : depth T ≤ n)
    (hm : ModelFree T) (hl : LitAtomic T) (ho : OptionalOK W strict T)
    (hleaf : LeavesSettled W strict T) (hh : HashSafe W strict T) :
    (∀ v, load W ⟨.disable, strict⟩ n T d = .ok v ↔ specLoad W strict n T d = some v) ∧
    ((∃ e, load W ⟨.disable, strict⟩ n T d = .err e) ↔ specLoad W strict n T d = none) :=
  have hs := load_settled W strict hN n T d hfuel hm hl ho hleaf hh
  ⟨load_iff_spec W strict hN n T d hfuel hm hl ho hs,
   load_rejects_iff W strict hN n T d hfuel hm hl ho hs⟩

/-- **The side condition `OptionalOK` is automatic when no leaf turns `None` into something
    else** (true of every strict leaf: only `None`'s own loader accepts `None`): then no type
    expression does, and the `Optional` shortcut of the code is the documented union rule. -/
theorem optionalOK_of_leaves (W : World) (strict : Bool)
    (hleaf : ∀ s v, W.scalarLoad strict s .none = .ok v → v = .none) (T : Ty) :
    OptionalOK W strict T :=
  spec_optionalOK_of_leaves hleaf T

/-! ### the functional and the relational form of the documentation coincide -/

/-- `specLoad` computes exactly the relation `LoadsTo` (one constructor per documented rule). -/
theorem specLoad_sound_complete (W : World) (strict : Bool) (n : Nat) (T : Ty) (d v : Val)
    (hfuel : depth T ≤ n) (hm : ModelFree T) :
    specLoad W strict n T d = some v ↔ LoadsTo W strict T d v :=
  ⟨(spec_specLoad_to_rel W strict n T d hfuel hm).1 v, (spec_rel_to_specLoad W strict n T d hfuel).1 v⟩

/-- `specLoad` answers `none` exactly on the data the (positively defined) relation `Rejects`
    describes. -/
theorem specLoad_none_iff_rejects (W : World) (strict : Bool) (n : Nat) (T : Ty) (d : Val)
    (hfuel : depth T ≤ n) (hm : ModelFree T) :
    specLoad W strict n T d = none ↔ Rejects W strict T d :=
  ⟨(spec_specLoad_to_rel W strict n T d hfuel hm).2, (spec_rel_to_specLoad W strict n T d hfuel).2⟩

/-- `Rejects` is the complement of acceptance: the documented rules are exhaustive and
    exclusive. -/
theorem rejects_iff_not_loads (W : World) (strict : Bool) (T : Ty) (d : Val) (hm : ModelFree T) :
    Rejects W strict T d ↔ ¬ ∃ v, LoadsTo W strict T d v := by
  rw [← specLoad_none_iff_rejects W strict (depth T) T d (Nat.le_refl _) hm]
  constructor
  · rintro h ⟨v, hv⟩
    rw [(specLoad_sound_complete W strict (depth T) T d v (Nat.le_refl _) hm).mpr hv] at h
    cases h
  · intro h
    cases hs : specLoad W strict (depth T) T d with
    | none => rfl
    | some v => exact absurd ⟨v, (specLoad_sound_complete W strict _ T d v (Nat.le_refl _) hm).mp hs⟩ h

/-- the documented rules determine the loaded value -/
theorem loadsTo_functional (W : World) (strict : Bool) (T : Ty) (d v v' : Val)
    (h : LoadsTo W strict T d v) (h' : LoadsTo W strict T d v') : v = v' := by
  have a := (spec_rel_to_specLoad W strict (depth T) T d (Nat.le_refl _)).1 v h
  have b := (spec_rel_to_specLoad W strict (depth T) T d (Nat.le_refl _)).1 v' h'
  rw [a] at b; cases b; rfl

/-- **Implementation = documented rule, relational form.** -/
theorem load_iff_LoadsTo (W : World) (strict : Bool) (hN : NoneExact W strict)
    (n : Nat) (T : Ty) (d : Val) (hfuel : depth T ≤ n)
    (hm : ModelFree T) (hl : LitAtomic T) (ho : OptionalOK W strict T)
    (hs : Settled (load W ⟨.disable, strict⟩ n T d)) (v : Val) :
    load W ⟨.disable, strict⟩ n T d = .ok v ↔ LoadsTo W strict T d v :=
  (load_iff_spec W strict hN n T d hfuel hm hl ho hs v).trans
    (specLoad_sound_complete W strict n T d v hfuel hm)

theorem load_rejects_iff_Rejects (W : World) (strict : Bool) (hN : NoneExact W strict)
    (n : Nat) (T : Ty) (d : Val) (hfuel : depth T ≤ n)
    (hm : ModelFree T) (hl : LitAtomic T) (ho : OptionalOK W strict T)
    (hs : Settled (load W ⟨.disable, strict⟩ n T d)) :
    (∃ e, load W ⟨.disable, strict⟩ n T d = .err e) ↔ Rejects W strict T d :=
  (load_rejects_iff W strict hN n T d hfuel hm hl ho hs).trans
    (specLoad_none_iff_rejects W strict n T d hfuel hm)

/-! ### every debug-trail mode (audit A)

  The theorems above speak about mode DISABLE.  The property quantifies over `debug_trail`
  too; with the simulation theorems of C06 (`all_ok_determines`, `all_err_determines`,
  `disable_first_agree`) the documented rule is the rule of EVERY mode: whenever the DISABLE
  run is settled (a static sufficient condition is `load_settled`), whatever FIRST or ALL
  return is the prescribed value, and whenever they raise a LoadError the rule prescribes no
  value.  The fuels of the two runs are independent. -/

/-- what any mode returns, DISABLE returns (given that DISABLE ends in a value or a LoadError) -/
theorem mode_ok_to_disable (W : World) (strict : Bool) (m : DebugTrail) (n k : Nat) (T : Ty)
    (d v : Val) (hs : Settled (load W ⟨.disable, strict⟩ n T d))
    (h : load W ⟨m, strict⟩ k T d = .ok v) : load W ⟨.disable, strict⟩ n T d = .ok v := by
  have hnd : load W ⟨.disable, strict⟩ n T d ≠ .diverge := by
    rcases hs with ⟨a, ha⟩ | ⟨e, he⟩ <;> simp [*]
  have hne : (load W ⟨.disable, strict⟩ n T d).isEscape = false := by
    rcases hs with ⟨a, ha⟩ | ⟨e, he⟩ <;> simp [*, Outcome.isEscape]
  cases m with
  | disable =>
    rcases Nat.le_total k n with hkn | hnk
    · rw [C06.load_fuel_mono_le W _ k n T d hkn (by rw [h]; simp), h]
    · rw [← C06.load_fuel_mono_le W _ n k T d hnk hnd, h]
  | first =>
    rcases C06.disable_first_agree W strict n k T d hnd (by rw [h]; simp) hne
        (by rw [h]; rfl) with ⟨v', h1, h2⟩ | ⟨_, h2⟩
    · rw [h] at h2; cases h2; exact h1
    · rw [h] at h2; simp [Outcome.isErr] at h2
  | all => exact C06.all_ok_determines W strict .disable n k T d v h hnd

/-- when any mode raises a LoadError, DISABLE raises one -/
theorem mode_err_to_disable (W : World) (strict : Bool) (m : DebugTrail) (n k : Nat) (T : Ty)
    (d : Val) (e : LErr) (hs : Settled (load W ⟨.disable, strict⟩ n T d))
    (h : load W ⟨m, strict⟩ k T d = .err e) : ∃ e', load W ⟨.disable, strict⟩ n T d = .err e' := by
  have hnd : load W ⟨.disable, strict⟩ n T d ≠ .diverge := by
    rcases hs with ⟨a, ha⟩ | ⟨e, he⟩ <;> simp [*]
  have hne : (load W ⟨.disable, strict⟩ n T d).isEscape = false := by
    rcases hs with ⟨a, ha⟩ | ⟨e, he⟩ <;> simp [*, Outcome.isEscape]
  cases m with
  | disable =>
    rcases Nat.le_total k n with hkn | hnk
    · exact ⟨e, by rw [C06.load_fuel_mono_le W _ k n T d hkn (by rw [h]; simp), h]⟩
    · exact ⟨e, by rw [← C06.load_fuel_mono_le W _ n k T d hnk hnd, h]⟩
  | first =>
    rcases C06.disable_first_agree W strict n k T d hnd (by rw [h]; simp) hne
        (by rw [h]; rfl) with ⟨v', _, h2⟩ | ⟨h1, _⟩
    · rw [h] at h2; cases h2
    · cases hl : load W ⟨.disable, strict⟩ n T d <;> rw [hl] at h1 <;> simp [Outcome.isErr] at h1
      exact ⟨_, rfl⟩
  | all =>
    obtain ⟨e', he', _⟩ := C06.all_err_determines W strict .disable n k T d e h hnd
    exact ⟨e', he'⟩

/-- **Implementation = documented rule in EVERY debug-trail mode.**  `m` is any of DISABLE /
    FIRST / ALL; `hs` (the DISABLE run is settled) follows from the static conditions of
    `load_settled`; `hsm` says the run of mode `m` itself ended in a value or a LoadError. -/
theorem load_iff_LoadsTo_any_mode (W : World) (strict : Bool) (hN : NoneExact W strict)
    (m : DebugTrail) (n k : Nat) (T : Ty) (d : Val) (hfuel : depth T ≤ n)
    (hm : ModelFree T) (hl : LitAtomic T) (ho : OptionalOK W strict T)
    (hs : Settled (load W ⟨.disable, strict⟩ n T d)) (hsm : Settled (load W ⟨m, strict⟩ k T d)) :
    (∀ v, load W ⟨m, strict⟩ k T d = .ok v ↔ LoadsTo W strict T d v) ∧
    ((∃ e, load W ⟨m, strict⟩ k T d = .err e) ↔ Rejects W strict T d) := by
  have sound : ∀ v, load W ⟨m, strict⟩ k T d = .ok v → LoadsTo W strict T d v := fun v h =>
    (load_iff_LoadsTo W strict hN n T d hfuel hm hl ho hs v).mp
      (mode_ok_to_disable W strict m n k T d v hs h)
  have rej : ∀ e, load W ⟨m, strict⟩ k T d = .err e → Rejects W strict T d := fun e h =>
    (load_rejects_iff_Rejects W strict hN n T d hfuel hm hl ho hs).mp
      (mode_err_to_disable W strict m n k T d e hs h)
  refine ⟨fun v => ⟨sound v, fun hv => ?_⟩, ⟨fun ⟨e, he⟩ => rej e he, fun hr => ?_⟩⟩
  · rcases hsm with ⟨v', hv'⟩ | ⟨e, he⟩
    · rw [hv', loadsTo_functional W strict T d _ _ (sound v' hv') hv]
    · exact absurd ⟨v, hv⟩ ((rejects_iff_not_loads W strict T d hm).mp (rej e he))
  · rcases hsm with ⟨v', hv'⟩ | ⟨e, he⟩
    · exact absurd ⟨v', sound v' hv'⟩ ((rejects_iff_not_loads W strict T d hm).mp hr)
    · exact ⟨e, he⟩

/-- soundness alone needs nothing about the run of mode `m`: whatever it returns is prescribed,
    whenever it raises a LoadError nothing is prescribed -/
theorem load_sound_any_mode (W : World) (strict : Bool) (hN : NoneExact W strict)
    (m : DebugTrail) (n k : Nat) (T : Ty) (d : Val) (hfuel : depth T ≤ n)
    (hm : ModelFree T) (hl : LitAtomic T) (ho : OptionalOK W strict T)
    (hleaf : LeavesSettled W strict T) (hh : HashSafe W strict T) :
    (∀ v, load W ⟨m, strict⟩ k T d = .ok v → LoadsTo W strict T d v) ∧
    (∀ e, load W ⟨m, strict⟩ k T d = .err e → Rejects W strict T d) := by
  have hs := load_settled W strict hN n T d hfuel hm hl ho hleaf hh
  exact ⟨fun v h => (load_iff_LoadsTo W strict hN n T d hfuel hm hl ho hs v).mp
      (mode_ok_to_disable W strict m n k T d v hs h),
    fun e h => (load_rejects_iff_Rejects W strict hN n T d hfuel hm hl ho hs).mp
      (mode_err_to_disable W strict m n k T d e hs h)⟩

/-! ### Union -/

/-- **A union loader returns the result of a case that accepts the datum.** -/
theorem union_sound (W : World) (strict : Bool) (hN : NoneExact W strict) (n : Nat) (hn : 0 < n)
    (cs : List Ty) (ks : List String) (d v : Val)
    (h : load W ⟨.disable, strict⟩ (n + 1) (.union cs ks) d = .ok v) :
    ∃ c ∈ cs, load W ⟨.disable, strict⟩ n c d = .ok v :=
  spec_union_sound hN hn h

/-- **It accepts whatever some case accepts** (case loaders raising nothing but LoadError). -/
theorem union_complete (W : World) (strict : Bool) (hN : NoneExact W strict) (n : Nat)
    (cs : List Ty) (ks : List String) (d : Val)
    (hs : ∀ c ∈ cs, Settled (load W ⟨.disable, strict⟩ n c d))
    (h : ∃ c ∈ cs, (load W ⟨.disable, strict⟩ n c d).isOk = true) :
    (load W ⟨.disable, strict⟩ (n + 1) (.union cs ks) d).isOk = true := by
  obtain ⟨c, hc, hok⟩ := h
  have : ∃ v, load W ⟨.disable, strict⟩ n c d = .ok v := by
    cases hl : load W ⟨.disable, strict⟩ n c d <;> rw [hl] at hok <;> simp [Outcome.isOk] at hok
    exact ⟨_, rfl⟩
  obtain ⟨v, hv⟩ := spec_union_complete (ks := ks) hN hs ⟨c, hc, this⟩
  rw [hv]; rfl

/-- **It fails only if — and if — every case fails**; no assumption besides the `None` leaf. -/
theorem union_fails_iff_all_fail (W : World) (strict : Bool) (hN : NoneExact W strict) (n : Nat)
    (cs : List Ty) (ks : List String) (d : Val) :
    (∃ e, load W ⟨.disable, strict⟩ (n + 1) (.union cs ks) d = .err e) ↔
      ∀ c ∈ cs, ∃ e, load W ⟨.disable, strict⟩ n c d = .err e :=
  spec_union_fails_iff hN

/-- "the first loader that does not raise LoadError", as a statement about `LoadsTo`
    (`Optional[T]` is just a union) -/
theorem loadsTo_union_iff (W : World) (strict : Bool) (cs : List Ty) (ks : List String) (d v : Val) :
    LoadsTo W strict (.union cs ks) d v ↔
      ∃ pre c post, cs = pre ++ c :: post ∧ (∀ c' ∈ pre, Rejects W strict c' d) ∧ LoadsTo W strict c d v := by
  constructor
  · intro h
    cases h with
    | @union pre post c _ _ _ hpre hc => exact ⟨pre, c, post, rfl, hpre, hc⟩
  · rintro ⟨pre, c, post, rfl, hpre, hc⟩
    exact .union hpre hc

/-! ### Iterables and tuples -/

/-- **Strict coercion excludes `str` and `Mapping`** (every debug-trail mode). -/
theorem strict_excludes (W : World) (m : DebugTrail) (n : Nat) (f : Factory) (dl : Bool) (e : Ty)
    (d v : Val) (h : load W ⟨m, true⟩ (n + 1) (.iter f dl e) d = .ok v) :
    d.isMapping = false ∧ d.isStr = false :=
  spec_strict_excludes_iter h

theorem strict_excludes_tuple (W : World) (m : DebugTrail) (n : Nat) (ts : List Ty)
    (d v : Val) (h : load W ⟨m, true⟩ (n + 1) (.tuple ts) d = .ok v) :
    d.isMapping = false ∧ d.isStr = false :=
  spec_strict_excludes_tuple h

/-- **Abstract collections are loaded as their minimal concrete type**: the loader of
    `.iter f …` builds an instance of exactly the class of the factory `f` (which the retort
    obtains from the requested origin through `ABC_TO_IMPL`: `tuple` for
    Iterable / Sequence / Collection, `list` for MutableSequence, `frozenset` for Set,
    `set` for MutableSet). Every mode, both coercion modes. -/
theorem abstract_minimal (W : World) (cfg : Cfg) (n : Nat) (f : Factory) (dl : Bool) (e : Ty)
    (d v : Val) (h : load W cfg (n + 1) (.iter f dl e) d = .ok v) : classOf v = some f :=
  spec_iter_class h

/-- the iterable rule, read off `LoadsTo` -/
theorem loadsTo_iter_iff (W : World) (strict : Bool) (f : Factory) (dl : Bool) (e : Ty) (d v : Val) :
    LoadsTo W strict (.iter f dl e) d v ↔
      ∃ xs ys, d.iterElems = some xs ∧ (strict = true → d.isMapping = false ∧ d.isStr = false) ∧
        xs.length = ys.length ∧ (∀ p ∈ xs.zip ys, LoadsTo W strict e p.1 p.2) ∧
        container f ys = some v := by
  constructor
  · intro h
    cases h with
    | @iter _ _ _ _ _ xs ys hxs hex hl hp hc => exact ⟨xs, ys, hxs, hex, hl, hp, hc⟩
  · rintro ⟨xs, ys, hxs, hex, hl, hp, hc⟩
    exact .iter hxs hex hl hp hc

/-- the tuple rule, read off `LoadsTo` -/
theorem loadsTo_tuple_iff (W : World) (strict : Bool) (ts : List Ty) (d v : Val) :
    LoadsTo W strict (.tuple ts) d v ↔
      ∃ xs ys, d.iterElems = some xs ∧ (strict = true → d.isMapping = false ∧ d.isStr = false) ∧
        xs.length = ts.length ∧ xs.length = ys.length ∧
        (∀ q ∈ ts.zip (xs.zip ys), LoadsTo W strict q.1 q.2.1 q.2.2) ∧ v = .tuple ys := by
  constructor
  · intro h
    cases h with
    | @tuple _ _ xs ys hxs hex hlen hl hq => exact ⟨xs, ys, hxs, hex, hlen, hl, hq, rfl⟩
  · rintro ⟨xs, ys, hxs, hex, hlen, hl, hq, rfl⟩
    exact .tuple hxs hex hlen hl hq

/-- the mapping rule, read off `LoadsTo` -/
theorem loadsTo_dict_iff (W : World) (strict : Bool) (K V : Ty) (d v : Val) :
    LoadsTo W strict (.dict K V) d v ↔
      ∃ kvs out, d = .dict kvs ∧ kvs.length = out.length ∧
        (∀ q ∈ kvs.zip out, LoadsTo W strict K q.1.1 q.2.1) ∧
        (∀ q ∈ kvs.zip out, LoadsTo W strict V q.1.2 q.2.2) ∧
        (∀ p ∈ out, p.1.hashable = true) ∧ v = .dict (insertAll out) := by
  constructor
  · intro h
    cases h with
    | @dict _ _ kvs out hl hk hv hh => exact ⟨kvs, out, rfl, hl, hk, hv, hh, rfl⟩
  · rintro ⟨kvs, out, rfl, hl, hk, hv, hh, rfl⟩
    exact .dict hl hk hv hh

/-- the Literal rule, read off `LoadsTo` -/
theorem loadsTo_literal_iff (W : World) (strict : Bool) (vals : List Val) (d v : Val) :
    LoadsTo W strict (.literal vals) d v ↔ v = d ∧ LitAccepts strict vals d := by
  constructor
  · intro h
    cases h with
    | literal hacc => exact ⟨rfl, hacc⟩
  · rintro ⟨rfl, hacc⟩
    exact .literal hacc

/-! ## Dumping -/

/-- **Implementation = documented rule for dumpers**: mode DISABLE returns `y` iff the
    documented rule prescribes `y`, for every value `x` (of the right class or not). -/
theorem dump_iff_spec (W : World) (DW : DumpWorld) (strict : Bool) (n : Nat) (T : Ty) (x y : Val)
    (hm : ModelFree T) :
    dump W DW ⟨.disable, strict⟩ n T x = .ok y ↔ specDump W DW n T x = some y := by
  rw [← spec_dump_eq W DW strict n T x hm, spec_okOf_eq_some]

/-- the dumper fails (with whatever exception) iff the rule prescribes nothing -/
theorem dump_fails_iff (W : World) (DW : DumpWorld) (strict : Bool) (n : Nat) (T : Ty) (x : Val)
    (hm : ModelFree T) :
    (dump W DW ⟨.disable, strict⟩ n T x).isOk = false ↔ specDump W DW n T x = none := by
  rw [← spec_dump_eq W DW strict n T x hm]
  cases dump W DW ⟨.disable, strict⟩ n T x <;> simp [Outcome.isOk, spec_okOf]

/-- `specDump` computes exactly the relation `DumpsTo`. -/
theorem specDump_sound_complete (W : World) (DW : DumpWorld) (n : Nat) (T : Ty) (x y : Val)
    (hfuel : depth T ≤ n) :
    specDump W DW n T x = some y ↔ DumpsTo W DW T x y :=
  ⟨spec_specDump_to_rel W DW n T x y, spec_rel_to_specDump W DW n T x y hfuel⟩

theorem dump_iff_DumpsTo (W : World) (DW : DumpWorld) (strict : Bool) (n : Nat) (T : Ty) (x y : Val)
    (hfuel : depth T ≤ n) (hm : ModelFree T) :
    dump W DW ⟨.disable, strict⟩ n T x = .ok y ↔ DumpsTo W DW T x y :=
  (dump_iff_spec W DW strict n T x y hm).trans (specDump_sound_complete W DW n T x y hfuel)

/-- **Outer form of a dumped iterable**: "the tuple (or list for list children)" — whatever
    the class of the dumped collection. -/
theorem dump_outer_form (W : World) (DW : DumpWorld) (strict : Bool) (n : Nat) (f : Factory)
    (dl : Bool) (e : Ty) (x y : Val)
    (h : dump W DW ⟨.disable, strict⟩ (n + 1) (.iter f dl e) x = .ok y) :
    ∃ ys, y = (if dl then Val.list ys else Val.tuple ys) := by
  simp only [dump, dumpIter] at h
  split at h
  · cases h
  · obtain ⟨ys, _, hy⟩ := spec_bindO_ok h
    cases hy
    exact ⟨ys, rfl⟩

/-- a dumped constant-length tuple is a tuple, a dumped mapping a dict -/
theorem dump_outer_form_tuple (W : World) (DW : DumpWorld) (strict : Bool) (n : Nat) (ts : List Ty)
    (x y : Val) (hm : ModelFree (.tuple ts))
    (h : dump W DW ⟨.disable, strict⟩ (n + 1) (.tuple ts) x = .ok y) : ∃ ys, y = Val.tuple ys := by
  have := (spec_specDump_to_rel W DW _ _ x y ((dump_iff_spec W DW strict _ _ x y hm).mp h))
  cases this with
  | @tuple _ _ xs ys _ _ _ _ => exact ⟨ys, rfl⟩

theorem dump_outer_form_dict (W : World) (DW : DumpWorld) (strict : Bool) (n : Nat) (K V : Ty)
    (x y : Val) (hm : ModelFree (.dict K V))
    (h : dump W DW ⟨.disable, strict⟩ (n + 1) (.dict K V) x = .ok y) : ∃ kvs, y = Val.dict kvs := by
  have := (spec_specDump_to_rel W DW _ _ x y ((dump_iff_spec W DW strict _ _ x y hm).mp h))
  cases this with
  | @dict _ _ kvs out _ _ _ _ => exact ⟨_, rfl⟩

/-- **Union dumped by runtime class with nearest-ancestor fallback**: the `ClassDispatcher`
    table the provider builds, looked up the way `dispatch` does, is the documented choice
    `specDispatch` (first class of the MRO that is the origin of a case — the nearest ancestor;
    else the first case whose origin the class is a virtual subclass of). -/
theorem dispatch_is_documented (DW : DumpWorld) (keys : List String) (cases : List Ty) (x : Val) :
    dispatchCase DW (dispatchTable keys cases []) x = specDispatch DW keys cases x :=
  spec_dispatch_eq DW keys cases x

/-- the class-dispatch rule on `dump` itself (no `Optional` shortcut, not a `Literal` member) -/
theorem dump_union_by_class (W : World) (DW : DumpWorld) (strict : Bool) (n : Nat)
    (cs : List Ty) (ks : List String) (x y : Val) (hm : ModelFree (.union cs ks))
    (hopt : optionalOther cs = none) (hlit : unionLitHit cs x = false) :
    dump W DW ⟨.disable, strict⟩ (n + 1) (.union cs ks) x = .ok y ↔
      ∃ t, specDispatch DW ks cs x = some t ∧ dump W DW ⟨.disable, strict⟩ n t x = .ok y := by
  rw [dump_iff_spec W DW strict _ _ x y hm]
  simp only [specDump, hopt, hlit, Bool.false_eq_true, if_false]
  have hms : ∀ c ∈ cs, ModelFree c := spec_tyAllL_iff.mp hm.2
  cases hd : specDispatch DW ks cs x with
  | none => simp
  | some t =>
    simp only [Option.some.injEq, exists_eq_left']
    exact (dump_iff_spec W DW strict n t x y (hms t (spec_specDispatch_mem hd))).symm

/-! ## Non-vacuity -/

/-- a small world: strict/lax `int` and `str` leaves, the `None` leaf; dumpers as is -/
def exW : World where
  classes := fun _ => none
  scalarLoad := fun strict s d =>
    match s, d with
    | "int", .int i => .ok (.int i)
    | "int", .bool b => if strict then .err (LErr.leaf "TypeLoadError" d) else .ok (.int (if b then 1 else 0))
    | "str", .str t => .ok (.str t)
    | "str", .none => if strict then .err (LErr.leaf "TypeLoadError" d) else .ok (.str "None")
    | "none", .none => .ok .none
    | _, d => .err (LErr.leaf "TypeLoadError" d)
  scalarDump := fun _ x => .ok x

/-- builtin classes only: `type(x).__mro__ = [type(x), object]`, no ABC registrations -/
def exDW : DumpWorld where
  mro := fun x => match x with
    | .bool _ => ["bool", "int", "object"]
    | x => [x.tag, "object"]
  supers := fun x => match x with
    | .bool _ => ["bool", "int", "object"]
    | .list _ => ["list", "object", "Sequence", "Iterable"]
    | x => [x.tag, "object"]

def listInt : Ty := .iter .list true (.scalar "int")
def intOrStr : Ty := .union [.scalar "int", .scalar "str"] ["int", "str"]
def optStr : Ty := .union [.scalar "str", .scalar "none"] ["str", "NoneType"]
def optInt : Ty := .union [.scalar "int", .scalar "none"] ["int", "NoneType"]

theorem exW_noneExact (strict : Bool) : NoneExact exW strict := by
  refine ⟨rfl, fun d hd => ?_⟩
  cases d <;> simp [Val.isNone] at hd <;> exact ⟨_, rfl⟩

theorem exW_settled (strict : Bool) (s : String) (d : Val) :
    (∃ v, exW.scalarLoad strict s d = .ok v) ∨ (∃ e, exW.scalarLoad strict s d = .err e) := by
  simp only [exW]
  split <;> (try split) <;> simp

/-- the hypotheses of the main theorems are satisfiable: on `list[int]`, strict, the loader of
    the model and the relation transcribed from the documentation coincide on EVERY datum -/
example (d v : Val) :
    load exW ⟨.disable, true⟩ 2 listInt d = .ok v ↔ LoadsTo exW true listInt d v := by
  have hm : ModelFree listInt := by simp [ModelFree, TyAll, listInt, NotModel]
  have hl : LitAtomic listInt := by simp [LitAtomic, TyAll, listInt, LitOK]
  have ho : OptionalOK exW true listInt := optionalOK_of_leaves exW true (by
    intro s v h
    simp only [exW] at h
    split at h <;> simp_all) listInt
  have hleaf : LeavesSettled exW true listInt := by
    simp only [LeavesSettled, TyAll, listInt, LeafOK, true_and]
    exact exW_settled true "int"
  have hh : HashSafe exW true listInt := by simp [HashSafe, TyAll, listInt, HashOK]
  have hs := load_settled exW true (exW_noneExact true) 2 listInt d (by decide) hm hl ho hleaf hh
  exact load_iff_LoadsTo exW true (exW_noneExact true) 2 listInt d (by decide) hm hl ho hs v

/-! ### all hypotheses together on a nested type with every constructor (audit A) -/

/-- `tuple[Literal[1, "a"], dict[str, Optional[list[int | str]]], frozenset[int | str]]` -/
def richT : Ty :=
  .tuple [ .literal [.int 1, .str "a"],
           .dict (.scalar "str") (.union [.iter .list true intOrStr, .scalar "none"] ["list", "NoneType"]),
           .iter .frozenset false intOrStr ]

theorem exW_hashable (strict : Bool) (s : String) (d v : Val)
    (h : exW.scalarLoad strict s d = .ok v) : v.hashable = true := by
  simp only [exW] at h
  split at h <;> (try split at h) <;> simp_all <;> subst_vars <;> rfl

/-- **Witness**: every hypothesis of `load_iff_spec_static` / `load_sound_any_mode` /
    `load_iff_LoadsTo_any_mode` holds simultaneously for `richT` in BOTH coercion modes
    (`NoneExact`, fuel, `ModelFree`, `LitAtomic`, `OptionalOK`, `LeavesSettled`, `HashSafe`). -/
theorem static_hyps_witness (strict : Bool) :
    NoneExact exW strict ∧ depth richT ≤ 6 ∧ ModelFree richT ∧ LitAtomic richT ∧
    OptionalOK exW strict richT ∧ LeavesSettled exW strict richT ∧ HashSafe exW strict richT := by
  refine ⟨exW_noneExact strict, by decide, ?_, ?_, ?_, ?_, ?_⟩
  · simp [ModelFree, TyAll, TyAllL, richT, intOrStr, NotModel]
  · simp [LitAtomic, TyAll, TyAllL, richT, intOrStr, LitOK, litAtom]
  · simp only [OptionalOK, TyAll, TyAllL, richT, intOrStr, OptOK, isNoneCase, and_true, true_and]
    repeat' apply And.intro
    all_goals
      intro a b
      first
        | (simp at b; done)
        | (intro n v h; cases n <;> simp [specLoad, iterAccepts, Val.iterElems] at h)
  · simp only [LeavesSettled, TyAll, TyAllL, richT, intOrStr, LeafOK, and_true, true_and]
    repeat' apply And.intro
    all_goals exact exW_settled strict _
  · simp only [HashSafe, TyAll, TyAllL, richT, intOrStr, HashOK, and_true, true_and]
    refine ⟨spec_hashOut_scalar (exW_hashable strict "str"), spec_hashOut_union ?_⟩
    intro c hc
    simp only [List.mem_cons, List.not_mem_nil, or_false] at hc
    rcases hc with rfl | rfl
    · exact spec_hashOut_scalar (exW_hashable strict "int")
    · exact spec_hashOut_scalar (exW_hashable strict "str")

/-- … hence on `richT` the loader of the model IS the relation transcribed from the
    documentation, on EVERY datum, both coercion modes; and what FIRST / ALL return or reject
    (any fuel) is what the relation says -/
example (strict : Bool) (d : Val) :
    (∀ v, load exW ⟨.disable, strict⟩ 6 richT d = .ok v ↔ LoadsTo exW strict richT d v) ∧
    ((∃ e, load exW ⟨.disable, strict⟩ 6 richT d = .err e) ↔ Rejects exW strict richT d) := by
  obtain ⟨hN, hf, hm, hl, ho, hleaf, hh⟩ := static_hyps_witness strict
  have hs := load_settled exW strict hN 6 richT d hf hm hl ho hleaf hh
  exact ⟨load_iff_LoadsTo exW strict hN 6 richT d hf hm hl ho hs,
    load_rejects_iff_Rejects exW strict hN 6 richT d hf hm hl ho hs⟩

example (strict : Bool) (m : DebugTrail) (k : Nat) (d : Val) :
    (∀ v, load exW ⟨m, strict⟩ k richT d = .ok v → LoadsTo exW strict richT d v) ∧
    (∀ e, load exW ⟨m, strict⟩ k richT d = .err e → Rejects exW strict richT d) := by
  obtain ⟨hN, hf, hm', hl, ho, hleaf, hh⟩ := static_hyps_witness strict
  exact load_sound_any_mode exW strict hN m 6 k richT d hf hm' hl ho hleaf hh

/-- components of `richT` evaluated: a dict with two entries (one `None` through the `Optional`
    shortcut, one tuple loaded as a list through the general union), ALL mode … -/
example : load exW ⟨.all, true⟩ 5
    (.dict (.scalar "str") (.union [.iter .list true intOrStr, .scalar "none"] ["list", "NoneType"]))
    (.dict [(.str "k", .tuple [.int 1, .str "x"]), (.str "n", .none)]) =
    .ok (.dict [(.str "k", .list [.int 1, .str "x"]), (.str "n", .none)]) := by
  simp [load, exW, intOrStr, strictExcluded, Val.isMapping, Val.isStr, Val.iterElems, idxItems,
    seqMode, sweepAll, Sweep.finish, bindO, Val.pyEq, loadDict, dictItems, buildDict, Val.hashable,
    Val.dictSet, loadUnion, isNoneTy, Val.isNone, loadIter, loadUnion.general, unionAll, Factory.build]

/-- … and a `frozenset[int | str]` from a list with a duplicate, FIRST mode -/
example : load exW ⟨.first, true⟩ 3 (.iter .frozenset false intOrStr) (.list [.int 2, .str "y", .int 2]) =
    .ok (.frozenset [.int 2, .str "y"]) := by
  simp [load, exW, intOrStr, strictExcluded, Val.isMapping, Val.isStr, Val.iterElems, idxItems,
    seqMode, seqFirst, bindO, Val.pyEq, Val.hashable, loadUnion, isNoneTy, loadIter,
    loadUnion.general, unionFirstOk, Factory.build, Val.hashableAll, Val.dedup]

/-- `list[int]`, strict: `"12"` and `{"a": 1}` are excluded, `[1, 2]` is accepted -/
example : load exW ⟨.disable, true⟩ 2 listInt (.str "12") =
    .err (LErr.leaf "ExcludedTypeLoadError" (.str "12")) := rfl
example : load exW ⟨.disable, true⟩ 2 listInt (.dict [(.str "a", .int 1)]) =
    .err (LErr.leaf "ExcludedTypeLoadError" (.dict [(.str "a", .int 1)])) := rfl
example : load exW ⟨.disable, true⟩ 2 listInt (.tuple [.int 1, .int 2]) = .ok (.list [.int 1, .int 2]) := rfl
example : Rejects exW true listInt (.str "12") := .iterExcluded rfl (.inr rfl)
example : Rejects exW true listInt (.dict [(.str "a", .int 1)]) := .iterExcluded rfl (.inl rfl)
/-- … lax: `"12"` is an iterable of one-character strings, a dict an iterable of its keys -/
example : load exW ⟨.disable, false⟩ 2 (.iter .list true (.scalar "str")) (.str "12") =
    .ok (.list [.str "1", .str "2"]) := rfl
example : load exW ⟨.disable, false⟩ 2 (.iter .tuple false (.scalar "str")) (.dict [(.str "a", .int 1)]) =
    .ok (.tuple [.str "a"]) := rfl
example : LoadsTo exW false (.iter .list true (.scalar "str")) (.str "12") (.list [.str "1", .str "2"]) :=
  .iter (xs := [.str "1", .str "2"]) (ys := [.str "1", .str "2"]) rfl (by simp) rfl
    (by intro p hp; simp at hp; rcases hp with rfl | rfl <;> exact .scalar rfl) rfl
/-- a bool is not an `int` for the strict leaf, it is for the lax one -/
example : load exW ⟨.disable, true⟩ 2 listInt (.list [.bool true]) =
    .err (LErr.leaf "TypeLoadError" (.bool true)) := rfl
example : load exW ⟨.disable, false⟩ 2 listInt (.list [.bool true]) = .ok (.list [.int 1]) := rfl

/-- `Literal[1]` against `True`: refused when strict, passed unchanged when lax -/
example : load exW ⟨.disable, true⟩ 1 (.literal [.int 1]) (.bool true) =
    .err (LErr.leaf "BadVariantLoadError" (.bool true)) := by
  simp [load, loadLiteral, boolSensitive, typedMem, Val.tag]
example : load exW ⟨.disable, false⟩ 1 (.literal [.int 1]) (.bool true) = .ok (.bool true) := by
  simp [load, loadLiteral, Val.memOf, Val.pyEq]
example : ¬ LitAccepts true [.int 1] (.bool true) := by
  simp [LitAccepts, boolLike, Val.tag]
example : LitAccepts false [.int 1] (.bool true) := by
  simp [LitAccepts, Val.pyEq]

/-- `int | str`: each datum goes to the case that accepts it, anything else fails -/
example : load exW ⟨.disable, true⟩ 2 intOrStr (.str "a") = .ok (.str "a") := rfl
example : load exW ⟨.disable, true⟩ 2 intOrStr (.int 7) = .ok (.int 7) := rfl
example : load exW ⟨.disable, true⟩ 2 intOrStr (.list []) = .err LErr.bare := rfl
example : LoadsTo exW true intOrStr (.str "a") (.str "a") :=
  .union (pre := [.scalar "int"]) (post := [])
    (by intro c hc; simp at hc; subst hc; exact .scalar (by intro v h; cases h)) (.scalar rfl)

/-- the union theorems with their hypotheses discharged (audit A) -/
example : ∃ c ∈ [Ty.scalar "int", Ty.scalar "str"], load exW ⟨.disable, true⟩ 1 c (.str "a") = .ok (.str "a") :=
  union_sound exW true (exW_noneExact true) 1 (by decide) _ ["int", "str"] _ _
    (rfl : load exW ⟨.disable, true⟩ 2 intOrStr (.str "a") = .ok (.str "a"))
example : (load exW ⟨.disable, true⟩ 2 intOrStr (.str "a")).isOk = true :=
  union_complete exW true (exW_noneExact true) 1 _ ["int", "str"] (.str "a")
    (fun c hc => by
      simp only [List.mem_cons, List.not_mem_nil, or_false] at hc
      rcases hc with rfl | rfl <;> exact exW_settled true _ _)
    ⟨.scalar "str", by simp, rfl⟩
example : ∀ c ∈ [Ty.scalar "int", Ty.scalar "str"], ∃ e, load exW ⟨.disable, true⟩ 1 c (.list []) = .err e :=
  (union_fails_iff_all_fail exW true (exW_noneExact true) 1 _ ["int", "str"] (.list [])).mp
    ⟨_, (rfl : load exW ⟨.disable, true⟩ 2 intOrStr (.list []) = .err LErr.bare)⟩
/-- `dump_union_by_class` with its hypotheses discharged: a `bool` in `int | str` goes to `int` -/
example : ∃ t, specDispatch exDW ["int", "str"] [.scalar "int", .scalar "str"] (.bool true) = some t ∧
    dump exW exDW ⟨.disable, true⟩ 1 t (.bool true) = .ok (.bool true) :=
  (dump_union_by_class exW exDW true 1 _ ["int", "str"] (.bool true) (.bool true)
    (by simp [ModelFree, TyAll, TyAllL, NotModel]) rfl rfl).mp
    (rfl : dump exW exDW ⟨.disable, true⟩ 2 intOrStr (.bool true) = .ok (.bool true))

/-- dumping: every iterable becomes a list for list children, a tuple otherwise -/
example : dump exW exDW ⟨.disable, true⟩ 2 listInt (.tuple [.int 1, .int 2]) = .ok (.list [.int 1, .int 2]) := rfl
example : dump exW exDW ⟨.disable, true⟩ 2 (.iter .set false (.scalar "int")) (.set [.int 1, .int 2]) =
    .ok (.tuple [.int 1, .int 2]) := rfl
example : DumpsTo exW exDW (.iter .set false (.scalar "int")) (.set [.int 1]) (.tuple [.int 1]) :=
  .iter (dl := false) (xs := [.int 1]) (ys := [.int 1]) rfl rfl
    (by intro p hp; simp at hp; subst hp; exact .scalar rfl)
/-- union dumped by runtime class; `bool` is not listed in `int | str`: its nearest ancestor
    `int` is used; a `float` has no dumper -/
example : specDispatch exDW ["int", "str"] [.scalar "int", .scalar "str"] (.str "a") = some (.scalar "str") := rfl
example : specDispatch exDW ["int", "str"] [.scalar "int", .scalar "str"] (.bool true) = some (.scalar "int") := rfl
example : dump exW exDW ⟨.disable, true⟩ 2 intOrStr (.bool true) = .ok (.bool true) := rfl
example : dump exW exDW ⟨.disable, true⟩ 2 intOrStr (.float .nan) = .escape "KeyError" := rfl

/-! ## Where the code (hence the model) is not the documented general rule

  Each statement below is a concrete witness; the side condition it motivates is in the
  theorems above. -/

/-- **`Optional[T]` on loading is not "the first loader that does not raise".** The code
    answers `None` for `None` without asking `T` (`_is_single_optional` shortcut). With the lax
    `str` loader (`str(None) = "None"`), `Optional[str]` loads `None` as `None`, whereas the
    first case of `Union[str, None]` that does not raise is `str`, giving `"None"`.
    So `load_iff_LoadsTo` without the hypothesis `OptionalOK` is false. (The documentation
    calls the result on data accepted by several cases undefined.) -/
theorem optional_shortcut_not_first_match :
    ∃ (W : World) (strict : Bool) (T : Ty) (d v : Val),
      NoneExact W strict ∧ ModelFree T ∧ LitAtomic T ∧
      load W ⟨.disable, strict⟩ (depth T) T d = .ok v ∧ ¬ LoadsTo W strict T d v := by
  refine ⟨exW, false, optStr, .none, .none, exW_noneExact false, ?_, ?_, rfl, ?_⟩
  · simp [ModelFree, TyAll, TyAllL, optStr, NotModel]
  · simp [LitAtomic, TyAll, TyAllL, optStr, LitOK]
  · intro h
    have h' : LoadsTo exW false optStr .none (.str "None") :=
      .union (pre := []) (post := [.scalar "none"]) (by simp) (.scalar rfl)
    have := loadsTo_functional exW false optStr .none _ _ h h'
    cases this

/-- **`Optional[T]` on dumping does not look at the class of the value.** `Optional[int]`
    dumps the string `"abc"` with the `int` dumper (as is), although no case of the union is
    registered for class `str` — the documented class dispatch would fail. This is why
    `DumpsTo` has the rule `optionalSome`. -/
theorem optional_dump_ignores_class :
    dump exW exDW ⟨.disable, true⟩ 2 optInt (.str "abc") = .ok (.str "abc") ∧
    specDispatch exDW ["int", "NoneType"] [.scalar "int", .scalar "none"] (.str "abc") = none :=
  ⟨rfl, rfl⟩

/-- **Strict `Literal` only tells `bool` from `int`, and only when a bool / 0 / 1 is listed.**
    `Literal[2]` strictly accepts the float `2.0` (returned unchanged, a float), while
    `Literal[1]` strictly refuses `1.0`: "accepts only values listed" holds up to `==`. -/
theorem literal_strict_float :
    load exW ⟨.disable, true⟩ 1 (.literal [.int 2]) (.float (.fin 1 1)) = .ok (.float (.fin 1 1)) ∧
    (∃ e, load exW ⟨.disable, true⟩ 1 (.literal [.int 1]) (.float (.fin 1 0)) = .err e) := by
  constructor
  · simp [load, loadLiteral, boolSensitive, Val.memOf, Val.pyEq, Val.fltEqInt]
  · simp [load, loadLiteral, boolSensitive, typedMem, Val.tag]

/-- **Unhashable set elements are not a LoadError.** `set[list[int]]` on `[[1]]` ends in a
    `TypeError`, which the documentation does not mention; the specification has no value for
    it (`Rejects`), so the `Settled` / `HashSafe` hypothesis of `load_rejects_iff` is needed. -/
theorem unhashable_element_escapes :
    load exW ⟨.disable, true⟩ 3 (.iter .set false listInt) (.list [.list [.int 1]]) = .escape "TypeError" ∧
    Rejects exW true (.iter .set false listInt) (.list [.list [.int 1]]) := by
  refine ⟨rfl, ?_⟩
  refine .iterBuild (xs := [.list [.int 1]]) (ys := [.list [.int 1]]) rfl rfl ?_ rfl
  intro p hp
  simp at hp
  subst hp
  exact .iter (xs := [.int 1]) (ys := [.int 1]) rfl (by simp [Val.isMapping, Val.isStr]) rfl
    (by intro q hq; simp at hq; subst hq; exact .scalar rfl) rfl

end Adaptix.Morph.C02
