/-
  C05 over name layouts ("… including through renamed and flattened model paths …"):
  property theorems about `Adaptix.Layout.loadModel`, the construct-by-construct model of the generated
  model loader (Layout/ModelLoad.lean, tied to the real generated loaders by C03's correspondence), for an
  ARBITRARY input crown (any nesting of dict and list nodes), arbitrary field loaders, all data.

  Specification side (Lemmas/LayoutTrailDefs.lean, no state, no flags):
    `faults cfg crown p d : List Fault`   expected faults, structural recursion over the crown;
    `Fault.abs` / `Fault.rel`            the report with the trail from the root / with nothing attached;
    `Reaches`, `LocalFault`              "node visited with sub-datum", "fault of one visited node".
  `T` below = errors returned by the loaders of ExtraTargets fields (crown path `[]`; `T = []` without
  ExtraTargets), which the generated function runs after the crown.
-/
import AdaptixProofs.Lemmas.LayoutTrailLocate
import AdaptixProofs.Lemmas.LayoutTrailWitness
import AdaptixProofs.Lemmas.LayoutTrailModes

namespace Adaptix.Layout.C05

open Adaptix.Layout Adaptix.Layout.Trail

/-! ## 1. ALL: the collected errors are exactly the specified faults -/

/-- **ALL-mode completeness and exactness for layouts.**  The generated loader reaches the constructor iff
    there is no fault; otherwise it raises `AggregateLoadError` whose children are a permutation of (= the same
    multiset as) the absolute reports of `faults`: every visited dict node contributes its own "missing
    required keys" error independently of the other nodes, every field loader that was called and failed
    contributes its error once, re-based by the crown path of the field. -/
theorem all_collects_faults (cfg : LoadCfg) (crown : InpCrown) (data : Val)
    (hb : isBranch crown = true) (hm : cfg.mode = .all) :
    ∃ T : List Fault, IsTargetFaults cfg T ∧
      (faults cfg crown [] data ++ T = [] → ∃ args extra, loadModel cfg crown data = .ok args extra) ∧
      (faults cfg crown [] data ++ T ≠ [] → ∃ es, loadModel cfg crown data = .aggregate es ∧
        es.Perm ((faults cfg crown [] data ++ T).map Fault.abs)) := by
  obtain ⟨T, hT, hok, hall, _⟩ := loadModel_outcome cfg crown data hb
  have hp := evts_perm_faults cfg crown [] data
  refine ⟨T, hT, fun h => hok ?_, fun h => ⟨_, hall hm ?_, (hp.append_right T).map _⟩⟩
  · simp only [List.append_eq_nil_iff] at h ⊢
    exact ⟨by simpa [h.1] using hp, h.2⟩
  · intro h0
    apply h
    simp only [List.append_eq_nil_iff] at h0 ⊢
    exact ⟨by simpa [h0.1] using hp.symm, h0.2⟩

/-- the same without ExtraTargets fields -/
theorem all_collects_faults_no_targets (cfg : LoadCfg) (crown : InpCrown) (data : Val)
    (hb : isBranch crown = true) (hm : cfg.mode = .all) (hT : cfg.move.targetIds = []) :
    (faults cfg crown [] data = [] → ∃ args extra, loadModel cfg crown data = .ok args extra) ∧
    (faults cfg crown [] data ≠ [] → ∃ es, loadModel cfg crown data = .aggregate es ∧
      es.Perm ((faults cfg crown [] data).map Fault.abs)) := by
  obtain ⟨T, hTT, h1, h2⟩ := all_collects_faults cfg crown data hb hm
  have := hTT.nil_of_no_targets hT
  subst this
  simpa using And.intro h1 h2

/-- ALL never raises a bare error: the outcome is the constructor call or an `AggregateLoadError` -/
theorem all_never_bare_error (cfg : LoadCfg) (crown : InpCrown) (data : Val)
    (hb : isBranch crown = true) (hm : cfg.mode = .all) (e : TErr) : loadModel cfg crown data ≠ .error e := by
  obtain ⟨T, _, h1, h2⟩ := all_collects_faults cfg crown data hb hm
  intro h
  by_cases hn : faults cfg crown [] data ++ T = []
  · obtain ⟨_, _, h'⟩ := h1 hn; rw [h'] at h; cases h
  · obtain ⟨_, h', _⟩ := h2 hn; rw [h'] at h; cases h

/-! ## 2. Missing required keys: one report per visited node, independent of the other nodes -/

/-- the "missing required keys" fault of one dict node: at most one; present iff a demanded key is absent
    from the node's datum; it names exactly the required keys absent there -/
theorem nrfFault_spec (cfg : LoadCfg) (p : Path) (m : List (String × InpCrown)) (d : Val) :
    (nrfFault cfg p m d).length ≤ 1 ∧
    ((∃ k ∈ demandedKeys cfg m, k ∉ d.keys) →
      nrfFault cfg p m d = [.node p (.noRequiredFields ((requiredKeys cfg m).filter (fun k => !d.keys.contains k)) d)]) ∧
    ((∀ k ∈ demandedKeys cfg m, k ∈ d.keys) → nrfFault cfg p m d = []) := by
  unfold nrfFault
  refine ⟨by split <;> simp, ?_, ?_⟩
  · rintro ⟨k, hk, hn⟩
    have : (demandedKeys cfg m).any (fun k => !d.keys.contains k) = true := by
      simp only [List.any_eq_true]
      exact ⟨k, hk, by simpa using hn⟩
    rw [if_pos this]
  · intro h
    have : (demandedKeys cfg m).any (fun k => !d.keys.contains k) = false := by
      simp only [List.any_eq_false]
      intro k hk
      simpa using h k hk
    rw [this]
    simp

/-- **every visited dict node reports its own missing keys** (ALL): whatever happens at the other nodes —
    in particular when several nodes miss keys at once — the collected errors contain the
    `NoRequiredFieldsLoadError` with trail = the crown path of the node, naming exactly the required keys
    absent from the node's datum -/
theorem missing_required_reported_at_every_node (cfg : LoadCfg) (crown : InpCrown) (data : Val)
    (hb : isBranch crown = true) (hm : cfg.mode = .all)
    {m : List (String × InpCrown)} {pol : Policy} {p : Path} {d : Val}
    (hr : Reaches cfg crown [] data (.dict m pol) p d) (hd : d.isMapping = true)
    (hmiss : ∃ k ∈ demandedKeys cfg m, k ∉ d.keys) :
    ∃ es, loadModel cfg crown data = .aggregate es ∧
      (⟨p, .noRequiredFields ((requiredKeys cfg m).filter (fun k => !d.keys.contains k)) d⟩ : TErr) ∈ es := by
  have hf : Fault.node p (.noRequiredFields ((requiredKeys cfg m).filter (fun k => !d.keys.contains k)) d) ∈
      faults cfg crown [] data := by
    apply reaches_faults_mem cfg hr
    apply localFault_mem
    refine .dictMissing hd ?_
    rw [(nrfFault_spec cfg p m d).2.1 hmiss]
    simp
  obtain ⟨T, _, _, h2⟩ := all_collects_faults cfg crown data hb hm
  obtain ⟨es, he, hp⟩ := h2 (by intro h; simp at h; simp [h.1] at hf)
  refine ⟨es, he, hp.symm.subset ?_⟩
  simp only [List.map_append, List.mem_append, List.mem_map]
  exact .inl ⟨_, hf, rfl⟩

/-- **no other "missing required keys" report**: such a fault of the specification always belongs to a visited
    dict node at exactly that crown path whose datum lacks a demanded key, and names exactly the required keys
    absent there (with the multiset equality of `all_collects_faults`: the generated code reports nothing else) -/
theorem missing_required_only_where_missing (cfg : LoadCfg) (crown : InpCrown) (data : Val) (p : Path)
    (ks : List String) (d : Val) (hf : Fault.node p (.noRequiredFields ks d) ∈ faults cfg crown [] data) :
    ∃ m pol, Reaches cfg crown [] data (.dict m pol) p d ∧ d.isMapping = true ∧
      (∃ k ∈ demandedKeys cfg m, k ∉ d.keys) ∧
      ks = (requiredKeys cfg m).filter (fun k => !d.keys.contains k) := by
  obtain ⟨m, pol, h1, h2, h3, h4⟩ := nrf_fault_sound cfg crown data p ks d hf
  refine ⟨m, pol, h1, h2, ?_, h4⟩
  simp only [List.any_eq_true] at h3
  obtain ⟨k, hk, hn⟩ := h3
  exact ⟨k, hk, by simpa using hn⟩

/-- for crowns as the name-layout provider builds them (no none-crown below a dict node) "demanded" = "required" -/
theorem demanded_eq_required (cfg : LoadCfg) (m : List (String × InpCrown)) (h : noNoneCrown m = true) :
    demandedKeys cfg m = requiredKeys cfg m := demandedKeys_eq_requiredKeys cfg m h

/-
  Full statement (NOT proved): for every crown whose dict nodes have pairwise distinct keys and every crown
  path `p`, the NUMBER of children of the `AggregateLoadError` of class NoRequiredFieldsLoadError with trail
  `p` is 1 if the dict node visited at `p` lacks a demanded key and 0 otherwise.
  What is proved instead: the multiset equality `all_collects_faults` with a specification in which each
  visited node contributes `nrfFault` (`nrfFault_spec`: at most one element) exactly once, presence per node
  (`missing_required_reported_at_every_node`) and soundness (`missing_required_only_where_missing`).
  Missing for the count by trail: distinctness of the crown paths of different nodes (needs the distinct-keys
  hypothesis and a prefix argument), and that a field loader's own NoRequiredFields error re-based to
  `q ++ e.trail` cannot land on a node path.
-/

/-- `…_partial` form of the count: per visited node the specification holds at most one such fault -/
theorem missing_required_once_per_node_partial (cfg : LoadCfg) (m : List (String × InpCrown)) (pol : Policy)
    (p : Path) (d : Val) (hd : d.isMapping = true) :
    faults cfg (.dict m pol) p d = nrfFault cfg p m d ++ faultsDict cfg p d m ++ extraFault p pol m d ∧
      (nrfFault cfg p m d).length ≤ 1 := by
  simp [faults, hd, (nrfFault_spec cfg p m d).1]

/-! ## 3. Trail exactness -/

/-- **what each mode shows for a fault.**  A field-loader error `e` (relative trail `e.trail`) of the field at
    crown path `q` is shown with trail `q ++ e.trail` by FIRST and ALL and unchanged by DISABLE; an error of the
    generated code for the node at `p` has trail `p` (FIRST, ALL) resp. no trail (DISABLE). -/
theorem report_trails (q : Path) (id : String) (v : Val) (e : TErr) (p : Path) (le : LErr) :
    (Fault.field q id v e).report .all = ⟨q ++ e.trail, e.err⟩ ∧
    (Fault.field q id v e).report .first = ⟨q ++ e.trail, e.err⟩ ∧
    (Fault.field q id v e).report .disable = e ∧
    (Fault.node p le).report .all = ⟨p, le⟩ ∧ (Fault.node p le).report .first = ⟨p, le⟩ ∧
    (Fault.node p le).report .disable = ⟨[], le⟩ := ⟨rfl, rfl, rfl, rfl, rfl, rfl⟩

/-- **the trail leads to the offending sub-value**: following the crown path of a fault from the root datum by
    plain subscription reaches, for a field fault, exactly the value that was handed to the field loader (which
    returned exactly that error), and for an error of the generated code the datum it shows as its input -/
theorem fault_trail_exact (cfg : LoadCfg) (crown : InpCrown) (data : Val) (f : Fault)
    (hf : f ∈ faults cfg crown [] data) :
    match f with
    | .node p e => data.getPath p = some (errInput e)
    | .field q id v e => data.getPath q = some v ∧ cfg.loader id v = .error e :=
  faults_located cfg crown data f hf

/-- declarative reading of the specification: the faults are exactly the local faults of the visited nodes -/
theorem faults_are_local_faults_of_visited_nodes (cfg : LoadCfg) (crown : InpCrown) (data : Val) (f : Fault) :
    f ∈ faults cfg crown [] data ↔
      ∃ c' p' d', Reaches cfg crown [] data c' p' d' ∧ LocalFault cfg c' p' d' f :=
  faults_mem_iff cfg crown [] data f

/-- **every failing field loader is reported** (ALL): the field `id` at key `k` of a visited dict node, present
    in the node's datum, whose loader returns `e` — the collected errors contain `e` re-based to the crown path -/
theorem failing_field_reported (cfg : LoadCfg) (crown : InpCrown) (data : Val)
    (hb : isBranch crown = true) (hm : cfg.mode = .all)
    {m : List (String × InpCrown)} {pol : Policy} {p : Path} {d v : Val} {k id : String} {e : TErr}
    (hr : Reaches cfg crown [] data (.dict m pol) p d) (hd : d.isMapping = true)
    (hk : (k, InpCrown.field id) ∈ m) (hv : d.getItem (.s k) = .found v) (hl : cfg.loader id v = .error e) :
    ∃ es, loadModel cfg crown data = .aggregate es ∧ (⟨p ++ [.s k] ++ e.trail, e.err⟩ : TErr) ∈ es := by
  have hf : Fault.field (p ++ [.s k]) id v e ∈ faults cfg crown [] data :=
    reaches_faults_mem cfg hr _ (localFault_mem cfg (.dictField hd hk hv hl))
  obtain ⟨T, _, _, h2⟩ := all_collects_faults cfg crown data hb hm
  obtain ⟨es, he, hp⟩ := h2 (by intro h; simp at h; simp [h.1] at hf)
  refine ⟨es, he, hp.symm.subset ?_⟩
  simp only [List.map_append, List.mem_append, List.mem_map]
  exact .inl ⟨_, hf, rfl⟩

/-! ## 4. FIRST and DISABLE -/

/-- **FIRST raises exactly one of the faults, with its full trail** (and succeeds only without faults) -/
theorem first_raises_one_fault (cfg : LoadCfg) (crown : InpCrown) (data : Val)
    (hb : isBranch crown = true) (hm : cfg.mode = .first) :
    ∃ T : List Fault, IsTargetFaults cfg T ∧
      (faults cfg crown [] data ++ T = [] → ∃ args extra, loadModel cfg crown data = .ok args extra) ∧
      (faults cfg crown [] data ++ T ≠ [] →
        ∃ f ∈ faults cfg crown [] data ++ T, loadModel cfg crown data = .error f.abs) := by
  obtain ⟨T, hT, hok, _, hfirst⟩ := loadModel_outcome cfg crown data hb
  have hp := evts_perm_faults cfg crown [] data
  refine ⟨T, hT, fun h => hok ?_, fun h => ?_⟩
  · simp only [List.append_eq_nil_iff] at h ⊢
    exact ⟨by simpa [h.1] using hp, h.2⟩
  · cases hL : evts cfg crown [] data ++ T with
    | nil =>
      exfalso
      apply h
      simp only [List.append_eq_nil_iff] at hL ⊢
      exact ⟨by simpa [hL.1] using hp.symm, hL.2⟩
    | cons f rest =>
      have := hfirst (by simp [hm]) f rest hL
      refine ⟨f, ?_, by simpa [hm, Fault.report] using this⟩
      have : f ∈ evts cfg crown [] data ++ T := by rw [hL]; simp
      exact ((hp.append_right T).subset this)

/-- **DISABLE attaches no trail** (`disable_no_trail` for layouts): the error raised is one of the faults as
    created — an error of the generated code with an empty trail, or the field loader's error unchanged -/
theorem disable_no_trail (cfg : LoadCfg) (crown : InpCrown) (data : Val)
    (hb : isBranch crown = true) (hm : cfg.mode = .disable) :
    ∃ T : List Fault, IsTargetFaults cfg T ∧
      (faults cfg crown [] data ++ T = [] → ∃ args extra, loadModel cfg crown data = .ok args extra) ∧
      (faults cfg crown [] data ++ T ≠ [] →
        ∃ f ∈ faults cfg crown [] data ++ T, loadModel cfg crown data = .error f.rel) := by
  obtain ⟨T, hT, hok, _, hfirst⟩ := loadModel_outcome cfg crown data hb
  have hp := evts_perm_faults cfg crown [] data
  refine ⟨T, hT, fun h => hok ?_, fun h => ?_⟩
  · simp only [List.append_eq_nil_iff] at h ⊢
    exact ⟨by simpa [h.1] using hp, h.2⟩
  · cases hL : evts cfg crown [] data ++ T with
    | nil =>
      exfalso
      apply h
      simp only [List.append_eq_nil_iff] at hL ⊢
      exact ⟨by simpa [hL.1] using hp.symm, hL.2⟩
    | cons f rest =>
      have := hfirst (by simp [hm]) f rest hL
      refine ⟨f, ?_, by simpa [hm, Fault.report] using this⟩
      have : f ∈ evts cfg crown [] data ++ T := by rw [hL]; simp
      exact ((hp.append_right T).subset this)

/-- a node fault shown by DISABLE has no trail, a field fault shows the loader's own error -/
theorem rel_no_trail (p : Path) (le : LErr) (q : Path) (id : String) (v : Val) (e : TErr) :
    (Fault.node p le).rel.trail = [] ∧ (Fault.field q id v e).rel = e := ⟨rfl, rfl⟩

/-- **which fault FIRST / DISABLE raise, and what ALL collects, in generation order**: with `L` = the faults in
    the order in which the generated code meets them (`evts`, a permutation of `faults`) followed by `T`:
    ALL collects exactly `L.map abs` (as a list), FIRST raises `abs` of the head of `L`, DISABLE `rel` of the
    same head — FIRST raises the first of the errors ALL collects, DISABLE the same error without trail. -/
theorem modes_in_generation_order (cfg : LoadCfg) (crown : InpCrown) (data : Val) (hb : isBranch crown = true) :
    ∃ T : List Fault, IsTargetFaults cfg T ∧ (evts cfg crown [] data).Perm (faults cfg crown [] data) ∧
      (cfg.mode = .all → evts cfg crown [] data ++ T ≠ [] →
        loadModel cfg crown data = .aggregate ((evts cfg crown [] data ++ T).map Fault.abs)) ∧
      (cfg.mode = .first → ∀ f rest, evts cfg crown [] data ++ T = f :: rest →
        loadModel cfg crown data = .error f.abs) ∧
      (cfg.mode = .disable → ∀ f rest, evts cfg crown [] data ++ T = f :: rest →
        loadModel cfg crown data = .error f.rel) := by
  obtain ⟨T, hT, _, hall, hfirst⟩ := loadModel_outcome cfg crown data hb
  refine ⟨T, hT, evts_perm_faults cfg crown [] data, hall, ?_, ?_⟩
  · intro hm f rest hL
    simpa [hm, Fault.report] using hfirst (by simp [hm]) f rest hL
  · intro hm f rest hL
    simpa [hm, Fault.report] using hfirst (by simp [hm]) f rest hL


/-- **FIRST raises exactly the first error ALL collects** (one loader configuration, the two debug modes; no
    ExtraTargets fields): stated without any specification -/
theorem first_raises_head_of_all (cfg : LoadCfg) (crown : InpCrown) (data : Val) (hb : isBranch crown = true)
    (hT : cfg.move.targetIds = []) (e : TErr) :
    loadModel (withMode cfg .first) crown data = .error e ↔
      ∃ rest, loadModel (withMode cfg .all) crown data = .aggregate (e :: rest) := by
  obtain ⟨TF, hTF, hokF, _, hF⟩ := loadModel_outcome (withMode cfg .first) crown data hb
  obtain ⟨TA, hTA, hokA, hA, _⟩ := loadModel_outcome (withMode cfg .all) crown data hb
  have h1 := hTF.nil_of_no_targets hT
  have h2 := hTA.nil_of_no_targets hT
  subst h1 h2
  rw [evts_withMode] at hokF hF hokA hA
  simp only [List.append_nil] at hokF hF hokA hA
  cases hE : evts cfg crown [] data with
  | nil =>
    obtain ⟨_, _, h1⟩ := hokF hE
    obtain ⟨_, _, h2⟩ := hokA hE
    rw [h1, h2]
    constructor
    · intro h; cases h
    · rintro ⟨_, h⟩; cases h
  | cons f rest =>
    have h1 := hF (by simp [withMode]) f rest hE
    have h2 := hA rfl (by simp [hE])
    rw [h1, h2, hE]
    simp only [withMode, Fault.report, List.map_cons]
    constructor
    · intro h
      cases h
      exact ⟨_, rfl⟩
    · rintro ⟨r, h⟩
      simp only [LoadOutcome.aggregate.injEq, List.cons.injEq] at h
      rw [h.1]

/-- **DISABLE raises the same fault as FIRST, with nothing attached** (same configuration, no ExtraTargets) -/
theorem disable_raises_first_fault_untrailed (cfg : LoadCfg) (crown : InpCrown) (data : Val)
    (hb : isBranch crown = true) (hT : cfg.move.targetIds = []) :
    (faults cfg crown [] data = [] →
      (∃ a x, loadModel (withMode cfg .first) crown data = .ok a x) ∧
      (∃ a x, loadModel (withMode cfg .disable) crown data = .ok a x)) ∧
    (faults cfg crown [] data ≠ [] → ∃ f ∈ faults cfg crown [] data,
      loadModel (withMode cfg .first) crown data = .error f.abs ∧
      loadModel (withMode cfg .disable) crown data = .error f.rel) := by
  obtain ⟨TF, hTF, hokF, _, hF⟩ := loadModel_outcome (withMode cfg .first) crown data hb
  obtain ⟨TD, hTD, hokD, _, hD⟩ := loadModel_outcome (withMode cfg .disable) crown data hb
  have h1 := hTF.nil_of_no_targets hT
  have h2 := hTD.nil_of_no_targets hT
  subst h1 h2
  rw [evts_withMode] at hokF hF hokD hD
  simp only [List.append_nil] at hokF hF hokD hD
  have hp := evts_perm_faults cfg crown [] data
  constructor
  · intro h
    have hE : evts cfg crown [] data = [] := by simpa [h] using hp
    exact ⟨hokF hE, hokD hE⟩
  · intro h
    cases hE : evts cfg crown [] data with
    | nil => exact absurd (by simpa [hE] using hp.symm) h
    | cons f rest =>
      refine ⟨f, hp.subset (by rw [hE]; simp), ?_, ?_⟩
      · simpa [withMode, Fault.report] using hF (by simp [withMode]) f rest hE
      · simpa [withMode, Fault.report] using hD (by simp [withMode]) f rest hE

/-! ## 5. Witnesses: every hypothesis discharged on one non-degenerate layout

  `wCrown`: `a ↦ a`, `b ↦ n.b`, `c ↦ n.c`, `x ↦ n.l[0]`, `y ↦ n.l[1].y`, `z ↦ z` (dict crowns at depths 0, 1, 3, a
  list crown); `wData` misses `a` (root), `c` (in `n`) and `y` (in `n.l[1]`) at once, and the loader of `x` fails
  inside its value (relative trail `[0]`). -/

/-- what ALL has to report for `wData`, by the theorem -/
theorem all_collects_faults_witness :
    ∃ es, loadModel (wCfg .all) wCrown wData = .aggregate es ∧
      es.Perm [⟨[], .noRequiredFields ["a"] wData⟩,
               ⟨[.s "n"], .noRequiredFields ["c"] wInner⟩,
               ⟨[.s "n", .s "l", .i 0, .i 0], .other "ValueError" (.str "bad")⟩,
               ⟨[.s "n", .s "l", .i 1], .noRequiredFields ["y"] (.dict [])⟩] := by
  have h := (all_collects_faults_no_targets (wCfg .all) wCrown wData rfl rfl rfl).2
  rw [wFaults_eq] at h
  exact h (by simp [wFaults])

theorem all_collects_faults_with_targets_witness :
    ∃ T : List Fault, IsTargetFaults (wCfg .all) T ∧ T = [] ∧
      ∃ es, loadModel (wCfg .all) wCrown wData = .aggregate es ∧ es.Perm ((wFaults ++ T).map Fault.abs) := by
  obtain ⟨T, hT, _, h2⟩ := all_collects_faults (wCfg .all) wCrown wData rfl rfl
  have hnil := hT.nil_of_no_targets rfl
  rw [wFaults_eq] at h2
  exact ⟨T, hT, hnil, h2 (by simp [wFaults])⟩

/-- … and what the model of the generated code does return (kernel evaluation) -/
example : loadModel (wCfg .all) wCrown wData = .aggregate (wFaults.map Fault.abs) := by rfl

theorem all_never_bare_error_witness (e : TErr) : loadModel (wCfg .all) wCrown wData ≠ .error e :=
  all_never_bare_error (wCfg .all) wCrown wData rfl rfl e

/-- the deepest dict crown (inside a list inside `n`) reports its own missing key although the root and `n`
    already reported theirs -/
theorem missing_required_reported_at_every_node_witness :
    ∃ es, loadModel (wCfg .all) wCrown wData = .aggregate es ∧
      (⟨[.s "n", .s "l", .i 1], .noRequiredFields ["y"] (.dict [])⟩ : TErr) ∈ es ∧
      (⟨[.s "n"], .noRequiredFields ["c"] wInner⟩ : TErr) ∈ es := by
  obtain ⟨es, h1, h2⟩ := missing_required_reported_at_every_node (wCfg .all) wCrown wData rfl rfl
    (wReaches_inner .all) rfl ⟨"y", by simp [demandedKeys, wCfg, LoadCfg.field], by simp [Val.keys]⟩
  obtain ⟨es', h1', h3⟩ := missing_required_reported_at_every_node (wCfg .all) wCrown wData rfl rfl
    (wReaches_n .all) rfl ⟨"c", by simp [demandedKeys, wCfg, LoadCfg.field], by simp [Val.keys, wInner]⟩
  rw [h1] at h1'
  cases h1'
  exact ⟨es, h1, h2, h3⟩

theorem missing_required_only_where_missing_witness :
    ∃ m pol, Reaches (wCfg .all) wCrown [] wData (.dict m pol) [.s "n"] wInner ∧ wInner.isMapping = true ∧
      (∃ k ∈ demandedKeys (wCfg .all) m, k ∉ wInner.keys) ∧
      ["c"] = (requiredKeys (wCfg .all) m).filter (fun k => !wInner.keys.contains k) :=
  missing_required_only_where_missing (wCfg .all) wCrown wData [.s "n"] ["c"] wInner
    (by rw [wFaults_eq]; simp [wFaults])

example : demandedKeys (wCfg .all) [("y", .field "y")] = requiredKeys (wCfg .all) [("y", .field "y")] :=
  demanded_eq_required _ _ rfl

example := missing_required_once_per_node_partial (wCfg .all) [("y", .field "y")] .skip [.s "n", .s "l", .i 1]
  (.dict []) rfl

/-- following the crown path of the field fault reaches the value handed to the loader of `x` -/
theorem fault_trail_exact_witness :
    wData.getPath [.s "n", .s "l", .i 0] = some (.str "bad") ∧
      (wCfg .all).loader "x" (.str "bad") = .error ⟨[.i 0], .other "ValueError" (.str "bad")⟩ :=
  fault_trail_exact (wCfg .all) wCrown wData
    (.field [.s "n", .s "l", .i 0] "x" (.str "bad") ⟨[.i 0], .other "ValueError" (.str "bad")⟩)
    (by rw [wFaults_eq]; simp [wFaults])

/-- only `x` is bad (inside its value): ALL reports exactly this one error, re-based through `n`, `l`, `[0]` -/
theorem all_collects_single_field_fault_witness :
    ∃ es, loadModel (wCfg .all) wCrown wDataX = .aggregate es ∧
      es.Perm [⟨[.s "n", .s "l", .i 0, .i 0], .other "ValueError" (.str "bad")⟩] := by
  have h2 := (all_collects_faults_no_targets (wCfg .all) wCrown wDataX rfl rfl rfl).2
  have hf : faults (wCfg .all) wCrown [] wDataX =
      [.field [.s "n", .s "l", .i 0] "x" (.str "bad") ⟨[.i 0], .other "ValueError" (.str "bad")⟩] := by rfl
  rw [hf] at h2
  exact h2 (by simp)

/-- a loader of `b` that fails inside the value (relative trail `["inner"]`) -/
def wCfgB (mode : DebugTrail) : LoadCfg :=
  { wCfg mode with loader := fun id v => match id with
      | "b" => .error ⟨[.s "inner"], .other "ValueError" v⟩
      | _ => .ok v }

theorem failing_field_reported_witness :
    ∃ es, loadModel (wCfgB .all) wCrown wData = .aggregate es ∧
      (⟨[.s "n", .s "b", .s "inner"], .other "ValueError" (.int 1)⟩ : TErr) ∈ es := by
  have hr : Reaches (wCfgB .all) wCrown [] wData
      (.dict [("b", .field "b"), ("c", .field "c"),
              ("l", .list [.field "x", .dict [("y", .field "y")] .skip] .skip)] .skip) [.s "n"] wInner :=
    .dict (k := "n") rfl (.tail _ (.head _)) rfl (.here _ _ _)
  obtain ⟨es, h1, h2⟩ := failing_field_reported (wCfgB .all) wCrown wData rfl rfl hr rfl
    (k := "b") (id := "b") (v := .int 1) (e := ⟨[.s "inner"], .other "ValueError" (.int 1)⟩)
    (.head _) rfl rfl
  exact ⟨es, h1, by simpa using h2⟩

/-- FIRST: one fault, full trail; DISABLE: the same fault, nothing attached -/
theorem first_raises_one_fault_witness :
    ∃ f ∈ wFaults, loadModel (wCfg .first) wCrown wData = .error f.abs := by
  obtain ⟨T, hT, _, h2⟩ := first_raises_one_fault (wCfg .first) wCrown wData rfl rfl
  have hnil := hT.nil_of_no_targets rfl
  subst hnil
  rw [wFaults_eq] at h2
  simpa using h2 (by simp [wFaults])

theorem disable_no_trail_witness :
    ∃ f ∈ wFaults, loadModel (wCfg .disable) wCrown wData = .error f.rel := by
  obtain ⟨T, hT, _, h2⟩ := disable_no_trail (wCfg .disable) wCrown wData rfl rfl
  have hnil := hT.nil_of_no_targets rfl
  subst hnil
  rw [wFaults_eq] at h2
  simpa using h2 (by simp [wFaults])

theorem modes_in_generation_order_witness (mode : DebugTrail) :
    ∃ T : List Fault, T = [] ∧ (evts (wCfg mode) wCrown [] wData ++ T) = wFaults := by
  obtain ⟨T, hT, _⟩ := modes_in_generation_order (wCfg mode) wCrown wData rfl
  have hnil := hT.nil_of_no_targets rfl
  subst hnil
  exact ⟨[], rfl, by cases mode <;> rfl⟩

/-- the field-loader error with relative trail `[0]` at crown path `n.l[0]`: FIRST shows `n.l[0][0]`, DISABLE the
    loader's error unchanged, ALL the re-based error (kernel evaluation of the model) -/
example : loadModel (wCfg .first) wCrown wDataX =
    .error ⟨[.s "n", .s "l", .i 0, .i 0], .other "ValueError" (.str "bad")⟩ := by rfl
example : loadModel (wCfg .disable) wCrown wDataX = .error ⟨[.i 0], .other "ValueError" (.str "bad")⟩ := by rfl
example : loadModel (wCfg .all) wCrown wDataX =
    .aggregate [⟨[.s "n", .s "l", .i 0, .i 0], .other "ValueError" (.str "bad")⟩] := by rfl
example : loadModel (wCfg .first) wCrown wData = .error ⟨[], .noRequiredFields ["a"] wData⟩ := by rfl
example : loadModel (wCfg .disable) wCrown wData = .error ⟨[], .noRequiredFields ["a"] wData⟩ := by rfl

theorem first_raises_head_of_all_witness :
    ∃ rest, loadModel (withMode (wCfg .disable) .all) wCrown wData =
      .aggregate (⟨[], .noRequiredFields ["a"] wData⟩ :: rest) :=
  (first_raises_head_of_all (wCfg .disable) wCrown wData rfl rfl _).1 (by rfl)

theorem disable_raises_first_fault_untrailed_witness : ∃ f ∈ faults (wCfg .all) wCrown [] wDataX,
    loadModel (withMode (wCfg .all) .first) wCrown wDataX = .error f.abs ∧
    loadModel (withMode (wCfg .all) .disable) wCrown wDataX = .error f.rel :=
  (disable_raises_first_fault_untrailed (wCfg .all) wCrown wDataX rfl rfl).2 (by
    have : faults (wCfg .all) wCrown [] wDataX =
      [.field [.s "n", .s "l", .i 0] "x" (.str "bad") ⟨[.i 0], .other "ValueError" (.str "bad")⟩] := by rfl
    rw [this]; simp)

/-! ## 6. Non-vacuity: a loader with ONE `has_not_found_error` flag for all crowns violates section 2 -/

/-- two dict crowns, each missing a key: the specification (and the model of the real generated code) demand
    two reports, one per node … -/
example : faults (wCfg .all) w2Crown [] w2Data =
    [.node [] (.noRequiredFields ["a"] w2Data), .node [.s "n"] (.noRequiredFields ["b"] (.dict []))] := by rfl
example : loadModel (wCfg .all) w2Crown w2Data =
    .aggregate [⟨[], .noRequiredFields ["a"] w2Data⟩, ⟨[.s "n"], .noRequiredFields ["b"] (.dict [])⟩] := by rfl

/-- … the shared-flag variant reports only the first one, so its result is no permutation of the specified
    faults: `all_collects_faults` / `missing_required_reported_at_every_node` fail for it -/
theorem shared_flag_loses_nested_report :
    (sharedFlag (wCfg .all) w2Crown [] w2Data false).1 = [⟨[], .noRequiredFields ["a"] w2Data⟩] ∧
    ¬ (sharedFlag (wCfg .all) w2Crown [] w2Data false).1.Perm
        ((faults (wCfg .all) w2Crown [] w2Data).map Fault.abs) := by
  refine ⟨by rfl, fun h => ?_⟩
  have := h.length_eq
  have h1 : (sharedFlag (wCfg .all) w2Crown [] w2Data false).1.length = 1 := by rfl
  have h2 : ((faults (wCfg .all) w2Crown [] w2Data).map Fault.abs).length = 2 := by rfl
  omega

end Adaptix.Layout.C05
