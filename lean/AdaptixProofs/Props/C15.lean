/-
  C15 — Type normalisation is a canonical form.
  Property theorems only; helper lemmas live in `AdaptixProofs/Lemmas/Norm*.lean`.

  Model: `AdaptixModel/Types/{Hint,Normalize}.lean` (TypeNormalizer with the three
  C15 repairs applied).  Specification: `AdaptixModel/Types/HintSpec.lean`
  (`den` value denotation, `Equiv` rewrite congruence, `deriveDefault`, `embed`).
  `W : World α` supplies `str()`/`id()` of the objects a hint mentions; every
  theorem is for an arbitrary universe of objects `α` and an arbitrary world.
-/
import AdaptixModel.Types.HintSpec
import AdaptixProofs.Lemmas.NormDen
import AdaptixProofs.Lemmas.NormRespects
import AdaptixProofs.Lemmas.NormIdem
import AdaptixProofs.Lemmas.NormKeys
import AdaptixProofs.Lemmas.NormLitKey
import AdaptixProofs.Lemmas.NormEquivDen
import AdaptixProofs.Lemmas.HintVars

namespace Adaptix.Types.C15

open Adaptix.Types

variable {α : Type} [DecidableEq α] (W : World α)

/-- **Normalisation preserves the meaning.**  For every hint of the grammar the
    normal form is inhabited by exactly the values the hint is inhabited by
    (unions as unions of sets, `Literal` as sets of *typed* values, bare
    generics as the generic with its documented implicit parameters). -/
theorem normalize_sound (h : Hint α) (v : Val α) : denN (normalize W h) v ↔ den h v :=
  den_normalize W h v

/-- **Equal normal forms ⇒ same type.**  Hints that normalise to equal forms
    (hence compare equal, hash equal, and select the same providers) denote the
    same set of values: nothing that denotes a different type ever collapses. -/
theorem normalize_injective (h₁ h₂ : Hint α) (e : normalize W h₁ = normalize W h₂) (v : Val α) :
    den h₁ v ↔ den h₂ v := by
  rw [← normalize_sound W h₁ v, ← normalize_sound W h₂ v, e]

/-- contrapositive: a value that tells two hints apart tells their normal forms apart -/
theorem never_collapse (h₁ h₂ : Hint α) (v : Val α) (hv₁ : den h₁ v) (hv₂ : ¬ den h₂ v) :
    normalize W h₁ ≠ normalize W h₂ :=
  fun e => hv₂ ((normalize_injective W h₁ h₂ e v).mp hv₁)

/-- **Literal values are typed**: two `Literal[...]` hints one of which has a
    (type, value) the other lacks never normalise equal — `Literal[0]` vs
    `Literal[False]`, `Literal[1]` vs `Literal[True]`, `Literal["a"]` vs
    `Literal[b"a"]`, an `IntEnum` member vs its `int` value … -/
theorem literal_typed_distinct (vs ws : List (LitVal α)) (x : LitVal α) (hx : x ∈ vs) (hx' : x ∉ ws) :
    normalize W (.literal vs) ≠ normalize W (.literal ws) := by
  apply never_collapse W _ _ (.lit x)
  · exact ⟨x, hx, rfl⟩
  · rintro ⟨w, hw, e⟩
    cases e
    exact hx' hw

/-- the look-alike pair of the statement -/
theorem literal_int_bool_distinct :
    normalize W (.literal [.int 0]) ≠ normalize W (.literal [.bool false]) :=
  literal_typed_distinct W _ _ (.int 0) (by simp) (by simp)

/-- ... also when the literals sit anywhere inside a union with other members -/
theorem union_literal_typed_distinct (o : Bool) (pre post : List (Hint α)) (vs : List (LitVal α)) (x : LitVal α)
    (hx : x ∈ vs) (hpre : ∀ m, m ∈ pre → ¬ den m (.lit x)) (hpost : ∀ m, m ∈ post → ¬ den m (.lit x))
    (ws : List (LitVal α)) (hx' : x ∉ ws) :
    normalize W (.union o (pre ++ .literal vs :: post)) ≠ normalize W (.union o (pre ++ .literal ws :: post)) := by
  apply never_collapse W _ _ (.lit x)
  · simp only [den, denHAny_iff, List.mem_append, List.mem_cons]
    exact ⟨.literal vs, .inr (.inl rfl), x, hx, rfl⟩
  · simp only [den, denHAny_iff, List.mem_append, List.mem_cons]
    rintro ⟨m, hm | rfl | hm, hd⟩
    · exact hpre m hm hd
    · obtain ⟨w, hw, e⟩ := hd
      cases e
      exact hx' hw
    · exact hpost m hm hd

/-- **Canonical form.**  Two hints related by any sequence of the
    meaning-preserving rewrites — union members reordered, nested, duplicated,
    written with `|`, `Optional`, typing alias vs builtin, bare generic vs its
    implicit parameters, literals reordered/merged/split, `Literal[None]` vs
    `None`, applied at any depth — have *equal* normal forms (hence equal hashes:
    `__hash__` is a function of `(origin, args)`), provided distinct things have
    distinct ordering keys. -/
theorem normalize_respects (hK : DistinctOrderKeys W) {h₁ h₂ : Hint α} (e : Equiv h₁ h₂) :
    normalize W h₁ = normalize W h₂ :=
  normalize_respects_aux W hK e

/-- **The hypothesis holds in CPython.**  With the repaired, structured keys
    `(str(origin), id(origin), [keys of args])`, everything `_order_args` ever
    compares gets a distinct key as soon as `id()` separates the objects a hint
    mentions (and is not 0) and `repr()` separates literal values: no assumption
    about class *names* is left. -/
theorem distinct_order_keys (hI : IdentKeys W) : DistinctOrderKeys W :=
  distinctOrderKeys_of_identKeys W hI

/-- `normalize_respects` under the CPython facts only -/
theorem canonical_form (hI : IdentKeys W) {h₁ h₂ : Hint α} (e : Equiv h₁ h₂) :
    normalize W h₁ = normalize W h₂ :=
  normalize_respects W (distinct_order_keys W hI) e

/-- the rewrites are meaning-preserving for the value denotation -/
theorem equiv_sound (hK : DistinctOrderKeys W) {h₁ h₂ : Hint α} (e : Equiv h₁ h₂) (v : Val α) :
    den h₁ v ↔ den h₂ v :=
  normalize_injective W h₁ h₂ (normalize_respects W hK e) v

/-- **The rewrites are meaning-preserving — a fact about the specification alone.**  No world, no
    normaliser, no hypothesis on keys: by induction on the derivation, every rule of `Equiv` (and every
    congruence position) relates hints with the same set of values.  So `Equiv` is not a junk relation and
    `normalize_respects` identifies only hints that denote the same type. -/
theorem equiv_meaning_preserving {h₁ h₂ : Hint α} (e : Equiv h₁ h₂) (v : Val α) : den h₁ v ↔ den h₂ v :=
  equiv_den e v

/-- `Equiv` is not the total relation: hints told apart by a value are not related -/
theorem not_equiv_of_value {h₁ h₂ : Hint α} (v : Val α) (hv₁ : den h₁ v) (hv₂ : ¬ den h₂ v) : ¬ Equiv h₁ h₂ :=
  fun e => hv₂ ((equiv_den e v).mp hv₁)

/-- **Implicit parameters.**  A bare generic normalises to the generic applied to
    the documented defaults of its type variables: `Any` without bound, the
    bound, the union of the constraints. -/
theorem implicit_params (al : Bool) (a : α) (ps : List (Hint α)) :
    normalize W (.bare al a ps) = .node (.obj a) ((ps.map deriveDefault).map (normalize W)) := by
  simp [normalize, implicitList_eq, normalizeList_eq_map]

omit [DecidableEq α] in
theorem implicit_param_table (a : α) (bound : Hint α) (rest cs : List (Hint α)) :
    deriveDefault (.typeVar a false []) = .any ∧
    deriveDefault (.typeVar a false (bound :: rest)) = bound ∧
    deriveDefault (.typeVar a true cs) = .union false cs := ⟨rfl, rfl, rfl⟩

/-- bare `tuple` is `tuple[Any, ...]`, bare `type` is `type[Any]` -/
theorem implicit_params_tuple_type (al : Bool) :
    normalize W (.tupleBare al) = normalize W (.tupleVar al .any) ∧
    normalize W (.typeBare al) = normalize W (.typeOf al .any) := by
  simp [normalize, normType, anyN]

/-- `Union[X]` (all members spellings of one type) normalises to the form of `X` -/
theorem union_single (hK : DistinctOrderKeys W) (o : Bool) (x : Hint α) (hx : TopLitOK x) :
    normalize W (.union o [x]) = normalize W x :=
  normalize_respects W hK (.unionSingle o x hx)

/-- **Idempotence.**  Reading the normal form of a hint back as a hint
    (`Union[...]` of the members, `Literal[...]` of the values, `origin[args]`)
    and normalising again returns the same normal form.  `TypingBuilt`: every
    `Literal` in the hint has its values de-duplicated, as `typing` builds it. -/
theorem idempotent (hK : DistinctOrderKeys W) (h : Hint α) (hb : TypingBuilt h) :
    normalize W (embed (normalize W h)) = normalize W h :=
  (idem_normalize W hK h hb).1

theorem idempotent_cpython (hI : IdentKeys W) (h : Hint α) (hb : TypingBuilt h) :
    normalize W (embed (normalize W h)) = normalize W h :=
  idempotent W (distinct_order_keys W hI) h hb

/-- ... and every member of a normalised union is itself a fixed point -/
theorem idempotent_members (hK : DistinctOrderKeys W) (h : Hint α) (hb : TypingBuilt h) (a : Norm α)
    (ha : a ∈ alts (normalize W h)) : normalize W (embed a) = a :=
  ((idem_normalize W hK h hb).2 a ha).1

/-- no nested unions: the members of a normalised union are not unions, are
    pairwise different and are at least two -/
theorem union_normal_form (h : Hint α) (args : List (Norm α)) (e : normalize W h = .node .union args) :
    args.Nodup ∧ args.length ≠ 1 ∧ ∀ a, a ∈ args → isUnionNorm a = false := by
  refine ⟨(normalize_union_nf W h args e).1, (normalize_union_nf W h args e).2, ?_⟩
  intro a ha
  exact alts_normalize_not_union W h a (by rw [e]; exact ha)

/-! ### Non-vacuity and the repaired defects, on a concrete world -/

/-- a world over `Nat`: object `n` prints as the letter `chr(65+n)` and has id `n+1` -/
def W₀ : World Nat where
  str n := [Char.ofNat (65 + n)]
  ident n := n + 1
  noneKey := (['N'], 1000)
  anyKey := (['a'], 1001)
  unionKey := (['U'], 1002)
  literalKey := (['L'], 1003)
  annotatedKey := (['<'], 1004)
  tupleKey := (['t'], 1005)
  typeKey := (['y'], 1006)
  ellipsisText := ['.']

/-- `Union[B, Optional[A], Literal[0], Literal[False, 0]]` and
    `A | Literal[False, 0] | None | B | B` normalise to the same
    `Union[A, B, None, Literal[0, False]]` -/
example :
    normalize W₀ (.union false [.cls 1, .optional (.cls 0), .literal [.int 0], .literal [.bool false, .int 0]])
      = normalize W₀ (.union true [.cls 0, .literal [.bool false, .int 0], .none false, .cls 1, .cls 1]) := by decide

example :
    normalize W₀ (.union false [.literal [.int 0], .literal [.bool false]])
      = .node .literal [.lit (.int 0), .lit (.bool false)] := by decide

/-- the same-named-classes defect of the unrepaired keys: in a world where two
    distinct classes have the same `str()` *and* the key does not look at `id()`
    (modelled by giving them the same id), the written order survives
    normalisation; so the hypothesis of `normalize_respects` is necessary. -/
def Wbad : World Nat := { W₀ with str := fun _ => ['A'], ident := fun _ => 7 }

/-- a world whose ids are pairwise different and non-zero -/
def W₁ : World Nat := { W₀ with ident := fun n => 2000 + n }

theorem W₁_origins : (∀ o o' : Origin Nat, originKey W₁ o = originKey W₁ o' → o = o') ∧
    (∀ o : Origin Nat, (originKey W₁ o).2 ≠ 0) := by
  constructor
  · intro o o' e
    have e2 := congrArg Prod.snd e
    cases o <;> cases o' <;> simp [originKey, W₁, W₀] at e2 ⊢ <;> omega
  · intro o
    cases o <;> simp [originKey, W₁, W₀]

/-- **The key hypothesis from `id()` alone.**  `repr()` of the literal values is part of the model
    (`intRepr`, `pyRepr`, the enum-member key) and *proved* to separate them (`litKey_inj`: decimal
    numerals, the escape table is a prefix code, the texts of different literal types never coincide), so
    `IdentKeys` — hence `DistinctOrderKeys`, the hypothesis of `normalize_respects`, `idempotent`, … — holds in
    every world where `id()` separates the objects and the origins and is never 0. -/
theorem ident_keys_of_ids (hid : ∀ a b : α, W.ident a = W.ident b → a = b)
    (horig : ∀ o o' : Origin α, originKey W o = originKey W o' → o = o')
    (hnz : ∀ o : Origin α, (originKey W o).2 ≠ 0) : IdentKeys W :=
  identKeys_of_ids W hid horig hnz

/-- **The hypotheses of the canonical-form theorems are satisfiable**: the concrete world `W₁`
    (infinitely many objects, all literal values — every `int`, every `str` / `bytes` text, every enum
    member) satisfies `IdentKeys` in full, not only its object part. -/
theorem identKeys_witness : IdentKeys W₁ :=
  identKeys_of_ids W₁ (fun a b h => by simp only [W₁] at h; omega) W₁_origins.1 W₁_origins.2

theorem distinctOrderKeys_witness : DistinctOrderKeys W₁ := distinct_order_keys W₁ identKeys_witness

/-- a derivation in the rewrite congruence using six different rules on a hint with two classes, an
    `Optional`, split literals with the look-alike pair and a duplicated member (non-trivial instance of
    `Equiv` for the witnesses below):
    `Union[B, B, Optional[A]]  ≈  A | B | None` -/
theorem equiv_witness :
    Equiv (α := Nat) (.union false [.cls 1, .cls 1, .optional (.cls 0)])
      (.union true [.cls 0, .cls 1, .none true]) := by
  -- drop the duplicate, spell Optional as a union, flatten it, reorder, change the spelling
  refine .trans (.unionDup false (.cls 1) [.optional (.cls 0)]) ?_
  refine .trans (.congUnion false [.cls 1] [] (.optionalDef (.cls 0) true false)) ?_
  refine .trans (.unionNest false false [.cls 1] [.cls 0, .none true] []) ?_
  refine .trans (.unionPerm false (ms' := [.cls 0, .cls 1, .none true]) ?_) (.unionStyle false true _)
  exact List.Perm.swap _ _ _

/-- `Union[Literal[0], Literal[False], A]  ≈  Union[Literal[False, 0], A]` -/
theorem equiv_literal_witness :
    Equiv (α := Nat) (.union false [.literal [.int 0], .literal [.bool false], .cls 0])
      (.union false [.literal [.bool false, .int 0], .cls 0]) :=
  .litMerge false [.cls 0] (by decide) (by decide) (by decide) (by intro v; simp [or_comm])

/-- `canonical_form` with every hypothesis discharged on concrete data: the conclusion is an equation
    between two normal forms that are computed independently (the `example` below shows the value) -/
theorem canonical_form_witness :
    normalize W₁ (.union false [.cls 1, .cls 1, .optional (.cls 0)]) =
      normalize W₁ (.union true [.cls 0, .cls 1, .none true]) ∧
    normalize W₁ (.union false [.literal [.int 0], .literal [.bool false], .cls 0]) =
      normalize W₁ (.union false [.literal [.bool false, .int 0], .cls 0]) :=
  ⟨canonical_form W₁ identKeys_witness equiv_witness, canonical_form W₁ identKeys_witness equiv_literal_witness⟩

example : normalize W₁ (.union true [.cls 0, .cls 1, .none true]) =
    .node .union [.node (.obj 0) [], .node (.obj 1) [], .node .none []] := by decide

/-- `idempotent` / `idempotent_members` / `union_single` / `equiv_sound` with all hypotheses discharged -/
theorem idempotent_witness :
    let h : Hint Nat := .union false [.app false 5 [.literal [.int 0, .bool false]], .optional (.cls 0), .cls 1]
    TypingBuilt h ∧ normalize W₁ (embed (normalize W₁ h)) = normalize W₁ h ∧
      (∀ a, a ∈ alts (normalize W₁ h) → normalize W₁ (embed a) = a) ∧ (alts (normalize W₁ h)).length = 4 := by
  intro h
  have hb : TypingBuilt h := by
    simp only [h, TypingBuilt, TypingBuiltList]
    decide
  exact ⟨hb, idempotent_cpython W₁ identKeys_witness h hb,
    fun a ha => idempotent_members W₁ distinctOrderKeys_witness h hb a ha, by decide⟩

theorem union_single_witness :
    TopLitOK (α := Nat) (.literal [.int 0, .bool false]) ∧
    normalize W₁ (.union true [.literal [.int 0, .bool false]]) = normalize W₁ (.literal [.int 0, .bool false]) := by
  have hx : TopLitOK (α := Nat) (.literal [.int 0, .bool false]) := by
    simp only [TopLitOK]
    decide
  exact ⟨hx, union_single W₁ distinctOrderKeys_witness true _ hx⟩

/-- `union_literal_typed_distinct` with non-empty `pre` and `post` -/
theorem union_literal_typed_distinct_witness :
    normalize W₁ (.union false ([.cls 0] ++ .literal [.int 0, .int 1] :: [.none false])) ≠
      normalize W₁ (.union false ([.cls 0] ++ .literal [.bool false, .int 1] :: [.none false])) :=
  union_literal_typed_distinct W₁ false [.cls 0] [.none false] [.int 0, .int 1] (.int 0) (by decide)
    (by intro m hm; simp only [List.mem_singleton] at hm; subst hm; simp [den])
    (by intro m hm; simp only [List.mem_singleton] at hm; subst hm; simp [den])
    [.bool false, .int 1] (by decide)

/-- `union_normal_form`: its hypothesis (the normal form is a union) holds for a concrete hint, with three
    members -/
theorem union_normal_form_witness :
    ∃ args, normalize W₁ (.union false [.cls 1, .cls 1, .optional (.cls 0)]) = .node .union args ∧ args.length = 3 :=
  ⟨[.node (.obj 0) [], .node (.obj 1) [], .node .none []], by decide, rfl⟩

theorem distinct_keys_necessary :
    normalize Wbad (.union false [.cls 0, .cls 1]) ≠ normalize Wbad (.union false [.cls 1, .cls 0]) := by decide

example : normalize W₀ (.union false [.cls 0, .cls 1]) = normalize W₀ (.union false [.cls 1, .cls 0]) := by decide

/-- list[Union[int, str]] vs Union[list[int], list[str]] are *not* identified -/
example :
    normalize W₀ (.app false 5 [.union false [.cls 0, .cls 1]])
      ≠ normalize W₀ (.union false [.app false 5 [.cls 0], .app false 5 [.cls 1]]) := by decide

/-! ### the helpers behind generic resolution treat every spelling alike

`get_type_vars` / `get_type_vars_of_parametrized` / `is_generic` read attributes of the Python object that
represents a hint (model: `AdaptixModel/Types/HintVars.lean`, `objFacts`); the objects of different spellings of
one type belong to different classes.  The theorems say that the answers nevertheless depend only on which type
variables the hint mentions (`Occurs`, a relation that cannot see a spelling flag), hence not on the spelling. -/

section GenericHelpers
variable (E : GenEnv α)

/-- **`get_type_vars_of_parametrized` is the set of mentioned type variables**, whatever object represents the hint
    (`typing._UnionGenericAlias`, `types.UnionType`, `typing._GenericAlias`, `types.GenericAlias`); a hint that is
    itself a variable is the one exception (the resolver looks it up directly). -/
theorem type_vars_of_parametrized_spec (h : Hint α) (v : α) :
    v ∈ typeVarsOfParametrized E h ↔ (Occurs E v h ∧ h.isTypeVar = false) := by
  cases h with
  | typeVar a c lim => simp [typeVarsOfParametrized, typeVarsOfParametrizedOf, objFacts, getTypeVarsOf, Hint.isTypeVar]
  | bare al a ps =>
    have : ¬ Occurs E v (.bare al a ps) := fun h => by cases h
    by_cases hb : E.builtin a <;> cases al <;>
      simp [typeVarsOfParametrized, typeVarsOfParametrizedOf, objFacts, getTypeVarsOf, hb, this]
  | app al a args =>
    rw [← mem_vars E v]
    by_cases ho : E.noParams a
    · simp [typeVarsOfParametrized, typeVarsOfParametrizedOf, objFacts, getTypeVarsOf, ho, Hint.vars, Hint.isTypeVar]
    · simp [typeVarsOfParametrized, typeVarsOfParametrizedOf, objFacts, getTypeVarsOf, ho, Hint.isTypeVar]
      exact fun hm => List.ne_nil_of_mem hm
  | tupleVar al h =>
    rw [← mem_vars E v]
    simp [typeVarsOfParametrized, typeVarsOfParametrizedOf, objFacts, getTypeVarsOf, Hint.vars, Hint.isTypeVar] <;>
      try (exact fun hm => List.ne_nil_of_mem hm)
  | tupleFix al hs =>
    rw [← mem_vars E v]
    cases hs <;>
      simp [typeVarsOfParametrized, typeVarsOfParametrizedOf, objFacts, getTypeVarsOf, Hint.vars, Hint.varsList,
        Hint.isTypeVar] <;>
      try (exact fun hm => List.ne_nil_of_mem hm)
  | typeOf al h =>
    rw [← mem_vars E v]
    simp [typeVarsOfParametrized, typeVarsOfParametrizedOf, objFacts, getTypeVarsOf, Hint.vars, Hint.isTypeVar] <;>
      try (exact fun hm => List.ne_nil_of_mem hm)
  | union o ms =>
    rw [← mem_vars E v]
    cases ms <;>
      simp [typeVarsOfParametrized, typeVarsOfParametrizedOf, objFacts, getTypeVarsOf, Hint.vars, Hint.varsList,
        Hint.isTypeVar] <;>
      try (exact fun hm => List.ne_nil_of_mem hm)
  | optional h =>
    rw [← mem_vars E v]
    simp [typeVarsOfParametrized, typeVarsOfParametrizedOf, objFacts, getTypeVarsOf, Hint.vars, Hint.isTypeVar] <;>
      try (exact fun hm => List.ne_nil_of_mem hm)
  | annotated h ms =>
    rw [← mem_vars E v]
    simp [typeVarsOfParametrized, typeVarsOfParametrizedOf, objFacts, getTypeVarsOf, Hint.vars, Hint.isTypeVar] <;>
      try (exact fun hm => List.ne_nil_of_mem hm)
  | literal vs =>
    have : ¬ Occurs E v (.literal vs) := fun h => by cases h
    simp [typeVarsOfParametrized, typeVarsOfParametrizedOf, objFacts, getTypeVarsOf, this]
  | none sp =>
    have : ¬ Occurs E v (.none sp) := fun h => by cases h
    simp [typeVarsOfParametrized, typeVarsOfParametrizedOf, objFacts, getTypeVarsOf, this]
  | any =>
    have : ¬ Occurs E v (.any) := fun h => by cases h
    simp [typeVarsOfParametrized, typeVarsOfParametrizedOf, objFacts, getTypeVarsOf, this]
  | cls a =>
    have : ¬ Occurs E v (.cls a) := fun h => by cases h
    simp [typeVarsOfParametrized, typeVarsOfParametrizedOf, objFacts, getTypeVarsOf, this]
  | newType a =>
    have : ¬ Occurs E v (.newType a) := fun h => by cases h
    simp [typeVarsOfParametrized, typeVarsOfParametrizedOf, objFacts, getTypeVarsOf, this]
  | tupleBare al =>
    have : ¬ Occurs E v (.tupleBare al) := fun h => by cases h
    simp [typeVarsOfParametrized, typeVarsOfParametrizedOf, objFacts, getTypeVarsOf, this]
  | typeBare al =>
    have : ¬ Occurs E v (.typeBare al) := fun h => by cases h
    simp [typeVarsOfParametrized, typeVarsOfParametrizedOf, objFacts, getTypeVarsOf, this]

/-- `Union[...]` vs `X | Y`: the same variables are substituted -/
theorem type_vars_union_style (x y : Bool) (ms : List (Hint α)) (v : α) :
    v ∈ typeVarsOfParametrized E (.union x ms) ↔ v ∈ typeVarsOfParametrized E (.union y ms) := by
  simp only [type_vars_of_parametrized_spec, occurs_union, Hint.isTypeVar]

/-- `Optional[X]` vs `Union[X, None]` / `X | None` -/
theorem type_vars_optional_def (h : Hint α) (s o : Bool) (v : α) :
    v ∈ typeVarsOfParametrized E (.optional h) ↔ v ∈ typeVarsOfParametrized E (.union o [h, .none s]) := by
  simp only [type_vars_of_parametrized_spec, occurs_union, Hint.isTypeVar]
  constructor
  · rintro ⟨ho, -⟩
    cases ho with
    | optional _ ho => exact ⟨⟨h, by simp, ho⟩, trivial⟩
  · rintro ⟨⟨m, hm, ho⟩, -⟩
    simp only [List.mem_cons, List.not_mem_nil, or_false] at hm
    rcases hm with rfl | rfl
    · exact ⟨.optional _ ho, trivial⟩
    · cases ho

/-- typing alias vs builtin generic: `List[T]` / `list[T]` -/
theorem type_vars_alias (x y : Bool) (a : α) (args : List (Hint α)) (v : α) :
    v ∈ typeVarsOfParametrized E (.app x a args) ↔ v ∈ typeVarsOfParametrized E (.app y a args) := by
  simp only [type_vars_of_parametrized_spec, Hint.isTypeVar]
  constructor <;>
  · rintro ⟨ho, -⟩
    cases ho with
    | app _ _ _ m hno hm ho => exact ⟨.app _ _ _ m hno hm ho, trivial⟩

/-- union members reordered, in either union spelling -/
theorem type_vars_union_perm (x y : Bool) {ms ms' : List (Hint α)} (hp : ms.Perm ms') (v : α) :
    v ∈ typeVarsOfParametrized E (.union x ms) ↔ v ∈ typeVarsOfParametrized E (.union y ms') := by
  simp only [type_vars_of_parametrized_spec, occurs_union, Hint.isTypeVar, hp.mem_iff]

/-- a nested union flattened -/
theorem type_vars_union_nest (o o' : Bool) (pre ms post : List (Hint α)) (v : α) :
    v ∈ typeVarsOfParametrized E (.union o (pre ++ .union o' ms :: post))
      ↔ v ∈ typeVarsOfParametrized E (.union o (pre ++ ms ++ post)) := by
  simp only [type_vars_of_parametrized_spec, occurs_union, Hint.isTypeVar, List.mem_append, List.mem_cons]
  constructor
  · rintro ⟨⟨m, hm, ho⟩, -⟩
    refine ⟨?_, trivial⟩
    rcases hm with hm | rfl | hm
    · exact ⟨m, Or.inl (Or.inl hm), ho⟩
    · obtain ⟨m', hm', ho'⟩ := (occurs_union E v o' ms).1 ho
      exact ⟨m', Or.inl (Or.inr hm'), ho'⟩
    · exact ⟨m, Or.inr hm, ho⟩
  · rintro ⟨⟨m, hm, ho⟩, -⟩
    refine ⟨?_, trivial⟩
    rcases hm with (hm | hm) | hm
    · exact ⟨m, Or.inl hm, ho⟩
    · exact ⟨.union o' ms, Or.inr (Or.inl rfl), (occurs_union E v o' ms).2 ⟨m, hm, ho⟩⟩
    · exact ⟨m, Or.inr (Or.inr hm), ho⟩

/-- a duplicated member -/
theorem type_vars_union_dup (o : Bool) (x : Hint α) (ms : List (Hint α)) (v : α) :
    v ∈ typeVarsOfParametrized E (.union o (x :: x :: ms)) ↔ v ∈ typeVarsOfParametrized E (.union o (x :: ms)) := by
  simp only [type_vars_of_parametrized_spec, occurs_union, Hint.isTypeVar, List.mem_cons]
  constructor
  · rintro ⟨⟨m, hm, ho⟩, -⟩
    exact ⟨⟨m, by rcases hm with h | h | h <;> simp [h], ho⟩, trivial⟩
  · rintro ⟨⟨m, hm, ho⟩, -⟩
    exact ⟨⟨m, Or.inr hm, ho⟩, trivial⟩

/-- **`is_generic` of a subscribed hint says whether it mentions a type variable**, in every spelling
    (`Annotated[...]` aside, whose `is_generic` also looks through to an unsubscribed origin). -/
theorem is_generic_subscribed (h : Hint α) (hp : isParametrized E h = true) (ha : h.isAnnotated = false) :
    isGeneric E h = true ↔ ∃ v, Occurs E v h := by
  have key : ∀ l : List α, (!l.isEmpty) = true ↔ ∃ v, v ∈ l := by
    intro l; cases l <;> simp
  cases h with
  | annotated h ms => simp [Hint.isAnnotated] at ha
  | typeVar a c lim => simp [isParametrized, isParametrizedOf, objFacts] at hp
  | bare al a ps => by_cases hb : E.builtin a <;> cases al <;> simp [isParametrized, isParametrizedOf, objFacts, hb] at hp
  | none sp => simp [isParametrized, isParametrizedOf, objFacts] at hp
  | any => simp [isParametrized, isParametrizedOf, objFacts] at hp
  | cls a => simp [isParametrized, isParametrizedOf, objFacts] at hp
  | newType a => simp [isParametrized, isParametrizedOf, objFacts] at hp
  | tupleBare al => simp [isParametrized, isParametrizedOf, objFacts] at hp
  | typeBare al => simp [isParametrized, isParametrizedOf, objFacts] at hp
  | app al a args =>
    have hno : E.noParams a = false := by
      simpa [isParametrized, isParametrizedOf, objFacts] using hp
    simp only [isGeneric, isParametrizedOf, objFacts, getTypeVarsOf, hno, Bool.false_eq_true, if_false, Bool.not_false,
      Bool.not_true, Bool.and_false, Bool.or_false, key, mem_vars]
  | tupleVar al h =>
    simp only [isGeneric, isParametrizedOf, objFacts, getTypeVarsOf, Bool.not_true, Bool.and_false, Bool.or_false, key,
      ← mem_vars E _ (.tupleVar al h), Hint.vars]
  | tupleFix al hs =>
    have hne : hs.isEmpty = false := by simpa [isParametrized, isParametrizedOf, objFacts] using hp
    simp only [isGeneric, isParametrizedOf, objFacts, getTypeVarsOf, hne, Bool.not_false, Bool.not_true, Bool.and_false,
      Bool.or_false, key, ← mem_vars E _ (.tupleFix al hs), Hint.vars]
  | typeOf al h =>
    simp only [isGeneric, isParametrizedOf, objFacts, getTypeVarsOf, Bool.not_true, Bool.and_false, Bool.or_false, key,
      ← mem_vars E _ (.typeOf al h), Hint.vars]
  | union o ms =>
    simp only [isGeneric, isParametrizedOf, objFacts, getTypeVarsOf, Bool.false_and, Bool.or_false, key,
      ← mem_vars E _ (.union o ms), Hint.vars]
  | optional h =>
    simp only [isGeneric, isParametrizedOf, objFacts, getTypeVarsOf, Bool.false_and, Bool.or_false, key,
      ← mem_vars E _ (.optional h), Hint.vars]
  | literal vs =>
    have : ∀ v, ¬ Occurs E v (.literal vs) := fun v h => by cases h
    simp [isGeneric, isParametrizedOf, objFacts, getTypeVarsOf, this]

end GenericHelpers

/-- non-vacuity: `list[T] | None` (a `types.UnionType`) and `Optional[List[T]]` both report `T`; a model of the helper
    that returned `()` for PEP 604 unions would falsify `type_vars_union_style` here -/
example :
    typeVarsOfParametrized (α := Nat) ⟨fun a => a == 5, fun _ => false, false, true⟩
        (.union true [.app false 5 [.typeVar 9 false []], .none false]) = [9]
    ∧ typeVarsOfParametrized (α := Nat) ⟨fun a => a == 5, fun _ => false, false, true⟩
        (.optional (.app true 5 [.typeVar 9 false []])) = [9]
    ∧ isGeneric (α := Nat) ⟨fun a => a == 5, fun _ => false, false, true⟩
        (.union true [.app false 5 [.typeVar 9 false []], .none false]) = true := by decide

/-!
  Not modelled here: loaders, dumpers and predicates.  "Equivalent hints yield
  equivalent loaders, dumpers and predicates" follows from the theorems above for
  everything that depends on a hint only through its normal form (`ExactTypeLSC`
  compares normal forms; providers dispatch on `norm.origin`/`norm.args`); it is
  checked on the real library by the direct oracle of `harness/props/c15.py`.
  That oracle found one place that looks at the *raw* hint instead — model shape
  introspection of a union member merged from two spellings of one model class —
  recorded as known finding `retort:collapsed-union-of-model`.
-/

end Adaptix.Types.C15
