import AdaptixModel.Types.Normalize
namespace Adaptix.Types.C15
end Adaptix.Types.C15
