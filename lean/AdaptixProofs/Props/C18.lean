import AdaptixModel.Morph.Enum
import AdaptixModel.Morph.Flag
namespace Adaptix.Enum.C18
end Adaptix.Enum.C18
