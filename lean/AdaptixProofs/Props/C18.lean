/-
  C18 — Enum and Flag representations are bijections on their members.
  Property theorems only; helper lemmas live in `AdaptixProofs/Lemmas/Enum*.lean`.

  All statements quantify over every class (any number of entries, aliases, values of
  the model's universe), every option combination and every datum.  The `example`s
  next to them are non-vacuity tests on literals.
-/
import AdaptixModel.Morph.Enum
import AdaptixModel.Morph.Flag
import AdaptixProofs.Lemmas.EnumVal
import AdaptixProofs.Lemmas.EnumNames
import AdaptixProofs.Lemmas.EnumClass
import AdaptixProofs.Lemmas.EnumFlag

namespace Adaptix.Enum.C18

open Adaptix.Enum

/-! ## Enum: representation by exact value -/

/-- "`d` is the representation of member `m`": equal (Python `==`) to its value, or —
    when no member value is equal to it — what the class's own `_missing_` hook maps to `m`. -/
def ReprByValue (c : EnumClass) (d : PyVal) (m : Member) : Prop :=
  m ∈ c.iter ∧ (m.value.pyEq d = true ∨
    ((∀ m' ∈ c.iter, m'.value.pyEq d = false) ∧ c.missingHook d = some m))

theorem reprByValue_iff {c : EnumClass} (wf : c.WF) (d : PyVal) (m : Member) :
    (c.lookup d).orElse (fun _ => c.missingHook d) = some m ↔ ReprByValue c d m := by
  unfold ReprByValue
  cases hl : c.lookup d with
  | none =>
    have hn := EnumClass.lookup_none_iff.1 hl
    simp only [Option.orElse_none]
    constructor
    · intro h; exact ⟨EnumClass.missingHook_mem h, Or.inr ⟨hn, h⟩⟩
    · rintro ⟨hm, h | h⟩
      · rw [hn m hm] at h; cases h
      · exact h.2
  | some m' =>
    obtain ⟨hm', hpe'⟩ := (EnumClass.lookup_some_iff wf).1 hl
    simp only [Option.orElse_some, Option.some.injEq]
    constructor
    · rintro rfl; exact ⟨hm', Or.inl hpe'⟩
    · rintro ⟨hm, h | h⟩
      · exact wf.unique hm' hm (PyVal.pyEq_trans' hpe' h)
      · rw [h.1 m' hm'] at hpe'; cases hpe'

/-- **Round trip, exact value**: dumping any member and loading the result returns the
    same member — whichever loader implementation (value table or `enum(data)`) is in use,
    with aliases, unhashable values and an overridden `_missing_`. -/
theorem enum_exact_rt {c : EnumClass} (wf : c.WF) {m : Member} (hm : m ∈ c.iter) :
    ∃ v, enumExactDumper c m = some v ∧ enumExactLoader c v = .ok m := by
  refine ⟨m.value, enumExactDumper_eq hm, ?_⟩
  have hval := wf.values_ok m hm
  have hplain : m.value.isSelf = false := by
    cases hv : m.value <;> simp_all [PyVal.isValue, PyVal.isSelf]
  rw [enumExactLoader_eq wf hplain,
    (EnumClass.lookup_some_iff wf).2 ⟨hm, PyVal.pyEq_refl hval⟩]
  rfl

/-- **The exact-value loader accepts exactly the representations of members** (read up to
    Python `==`) and returns the member represented. -/
theorem enum_exact_accepts_iff {c : EnumClass} (wf : c.WF) {d : PyVal} (hd : d.isSelf = false)
    (m : Member) : enumExactLoader c d = .ok m ↔ ReprByValue c d m := by
  rw [enumExactLoader_eq wf hd, ← reprByValue_iff wf]
  cases (c.lookup d).orElse (fun _ => c.missingHook d) <;> simp

/-- … and answers everything else with `BadVariantLoadError`: no other exception. -/
theorem enum_exact_rejects {c : EnumClass} (wf : c.WF) {d : PyVal} (hd : d.isSelf = false)
    (h : ∀ m, ¬ ReprByValue c d m) :
    enumExactLoader c d = .loadErr (.badVariant (exactVariants c)) := by
  rw [enumExactLoader_eq wf hd]
  cases hr : (c.lookup d).orElse (fun _ => c.missingHook d) with
  | none => rfl
  | some m => exact absurd ((reprByValue_iff wf d m).1 hr) (h m)

/-! ## Enum: representation by value through the loader / dumper of a value type -/

/-- **Round trip, by value**: for every member whose value is covered by the value type. -/
theorem enum_value_rt {c : EnumClass} (wf : c.WF) (k : ValueKind) {m : Member} (hm : m ∈ c.iter)
    (hk : k.accepts m.value = true) :
    enumValueLoader c k (enumValueDumper k m) = .ok m := by
  have hval := wf.values_ok m hm
  have hplain : m.value.isSelf = false := by
    cases hv : m.value <;> simp_all [PyVal.isValue, PyVal.isSelf]
  unfold enumValueLoader enumValueDumper ValueKind.dump ValueKind.load
  simp only [hk, if_true]
  rw [EnumClass.call_eq wf hplain, (EnumClass.lookup_some_iff wf).2 ⟨hm, PyVal.pyEq_refl hval⟩]
  rfl

/-- **The by-value loader accepts exactly** the data of the value type that represent a member. -/
theorem enum_value_accepts_iff {c : EnumClass} (wf : c.WF) (k : ValueKind) {d : PyVal}
    (hd : d.isSelf = false) (m : Member) :
    enumValueLoader c k d = .ok m ↔ k.accepts d = true ∧ ReprByValue c d m := by
  unfold enumValueLoader ValueKind.load
  by_cases hk : k.accepts d = true
  · simp only [hk, if_true, true_and]
    rw [EnumClass.call_eq wf hd, ← reprByValue_iff wf]
    cases (c.lookup d).orElse (fun _ => c.missingHook d) <;> simp
  · simp [hk]

/-- … and every other datum is answered with a `LoadError`. -/
theorem enum_value_rejects {c : EnumClass} (k : ValueKind) (d : PyVal) :
    (∃ m, enumValueLoader c k d = .ok m) ∨ ∃ e, enumValueLoader c k d = .loadErr e := by
  unfold enumValueLoader ValueKind.load
  by_cases hk : k.accepts d = true
  · simp only [hk, if_true]
    cases c.call d with
    | none => exact Or.inr ⟨_, rfl⟩
    | some m => exact Or.inl ⟨m, rfl⟩
  · simp [hk]

/-! ## Enum: representation by name (name_style / map) -/

/-- the (decidable) hypothesis of the by-name round trip: the configured name mapping
    sends different members to different strings -/
abbrev InjectiveNames (c : EnumClass) (cfg : NameCfg) : Prop :=
  InjectiveOn Member.name cfg c.membersValues

instance (c : EnumClass) (cfg : NameCfg) : Decidable (InjectiveNames c cfg) :=
  inferInstanceAs (Decidable (∀ a ∈ c.membersValues, ∀ b ∈ c.membersValues,
    cfg.mapped a.name = cfg.mapped b.name → a = b))

theorem enumNameLoader_ok {c : EnumClass} {cfg : NameCfg} {ld : PyVal → Outcome Member}
    (h : enumNameLoader c cfg = .ok ld) :
    ∃ mapping, genForLoading Member.name cfg c.membersValues = some mapping ∧
      ld = fun data =>
        if data.hashable then
          match data.strKey with
          | some s =>
            match dictGet (· == ·) mapping s with
            | some m => .ok m
            | none => .loadErr (.badVariant (nameVariants mapping))
          | none => .loadErr (.badVariant (nameVariants mapping))
        else .loadErr (.badVariant (nameVariants mapping)) := by
  unfold enumNameLoader at h
  split at h
  · cases h
  · rename_i mapping hm
    injection h with h
    exact ⟨mapping, hm, h.symm⟩

theorem enumNameDumper_ok {c : EnumClass} {cfg : NameCfg} {dp : Member → Option PyVal}
    (h : enumNameDumper c cfg = .ok dp) :
    ∃ mapping, genForDumping Member.name cfg c.membersValues = some mapping ∧
      dp = fun data => (dictGet (· == ·) mapping data).map fun s => .atom (.str s) := by
  unfold enumNameDumper at h
  split at h
  · cases h
  · rename_i mapping hm
    injection h with h
    exact ⟨mapping, hm, h.symm⟩

/-- **Round trip, by name**: whenever loader and dumper can be created and the name
    mapping (map entries by member or by name, name_style, plain name — aliases included)
    is injective, dumping any member and loading the result returns the same member. -/
theorem enum_name_rt {c : EnumClass} {cfg : NameCfg} {ld : PyVal → Outcome Member}
    {dp : Member → Option PyVal} (hl : enumNameLoader c cfg = .ok ld)
    (hd : enumNameDumper c cfg = .ok dp) (hinj : InjectiveNames c cfg)
    {m : Member} (hm : m ∈ c.iter) : ∃ v, dp m = some v ∧ ld v = .ok m := by
  obtain ⟨ml, hml, rfl⟩ := enumNameLoader_ok hl
  obtain ⟨md, hmd, rfl⟩ := enumNameDumper_ok hd
  have hmv := EnumClass.iter_sub_membersValues hm
  obtain ⟨s, hs, hget⟩ := genForDumping_get Member.name cfg hmd hmv
  refine ⟨.atom (.str s), by simp [hget], ?_⟩
  have := genForLoading_get_of_injective Member.name cfg hml hinj hmv hs
  simp [PyVal.hashable, Atom.hashable, PyVal.strKey, Atom.strKey, this]

/-- **The by-name loader accepts exactly the mapped names of members** … -/
theorem enum_name_accepts_iff {c : EnumClass} {cfg : NameCfg} {ld : PyVal → Outcome Member}
    (hl : enumNameLoader c cfg = .ok ld) (hinj : InjectiveNames c cfg) {d : PyVal}
    (hd : d.isSelf = false) (m : Member) :
    ld d = .ok m ↔ m ∈ c.iter ∧ ∃ s, cfg.mapped m.name = some s ∧ d = .atom (.str s) := by
  obtain ⟨ml, hml, rfl⟩ := enumNameLoader_ok hl
  constructor
  · intro h
    simp only at h
    split at h
    · split at h
      · rename_i s hs
        split at h
        · rename_i m' hg
          injection h with h; subst h
          obtain ⟨hmem, hmapped⟩ := genForLoading_get_some Member.name cfg hml hg
          refine ⟨EnumClass.membersValues_sub hmem, s, hmapped, ?_⟩
          cases d with
          | atom a => simp [PyVal.strKey] at hs; rw [Atom.strKey_eq_some hs]
          | self n a => simp [PyVal.isSelf] at hd
          | list xs => simp [PyVal.strKey] at hs
          | tuple xs => simp [PyVal.strKey] at hs
          | mapping xs => simp [PyVal.strKey] at hs
        · cases h
      · cases h
    · cases h
  · rintro ⟨hm, s, hs, rfl⟩
    have hmv := EnumClass.iter_sub_membersValues hm
    have := genForLoading_get_of_injective Member.name cfg hml hinj hmv hs
    simp [PyVal.hashable, Atom.hashable, PyVal.strKey, Atom.strKey, this]

/-- … and answers every other datum with `BadVariantLoadError` (no other exception,
    unhashable data included). -/
theorem enum_name_rejects {c : EnumClass} {cfg : NameCfg} {ld : PyVal → Outcome Member}
    (hl : enumNameLoader c cfg = .ok ld) (d : PyVal) :
    (∃ m, ld d = .ok m) ∨ ∃ vs, ld d = .loadErr (.badVariant vs) := by
  obtain ⟨ml, _, rfl⟩ := enumNameLoader_ok hl
  simp only
  split
  · split
    · split
      · exact Or.inl ⟨_, rfl⟩
      · exact Or.inr ⟨_, rfl⟩
    · exact Or.inr ⟨_, rfl⟩
  · exact Or.inr ⟨_, rfl⟩

/-- creation of the by-name loader and dumper succeeds exactly when every member name
    can be mapped (always without a name_style: `convert_snake_style` is the only
    thing that can raise) -/
theorem enum_name_creation {c : EnumClass} {cfg : NameCfg}
    (h : ∀ m ∈ c.membersValues, (cfg.mapped m.name).isSome = true) :
    (enumNameLoader c cfg).isOk = true ∧ (enumNameDumper c cfg).isOk = true := by
  obtain ⟨r, hr⟩ := genMappingGo_isSome Member.name cfg (acc := []) h
  have hd : genForDumping Member.name cfg c.membersValues = some r := hr
  unfold enumNameLoader enumNameDumper genForLoading
  simp [hd, Create.isOk]


/-! ## Flag: representation by exact value -/

/-- a union of (any) members of the class: "a member or any combination of flags" -/
def unionOf (S : List FlagCase) : Nat := orAll (S.map (·.bits))

/-- CPython's own notion of a valid value of the class within the mask: a STRICT flag
    refuses a value that contains members but also bits no contained member accounts for. -/
def ValidValue (c : FlagClass) (v : Nat) : Prop :=
  c.strict = true → c.cover v = 0 ∨ c.cover v = v

theorem call_eq_some_iff (c : FlagClass) (v : Nat) : c.call v = some v ↔ ValidValue c v := by
  unfold FlagClass.call ValidValue
  by_cases hs : c.strict = true <;> by_cases h0 : c.cover v = 0 <;> by_cases hv : c.cover v = v <;>
    simp [hs, h0, hv]

theorem call_eq_none_iff (c : FlagClass) (v : Nat) : c.call v = none ↔ ¬ ValidValue c v := by
  rw [← call_eq_some_iff]
  unfold FlagClass.call
  dsimp only
  split <;> simp

theorem flagExactLoader_ok {c : FlagClass} {ld : PyVal → Outcome Nat}
    (h : flagExactLoader c = .ok ld) :
    allBits c.mask = c.mask ∧
      ld = fun data =>
        match data with
        | .atom (.int i) =>
          if i < 0 || i > (c.mask : Int) then .loadErr (.outOfRange 0 c.mask)
          else
            match c.call i.toNat with
            | some v => .ok v
            | none => .loadErr (.msg "Bad flag value")
        | _ => .loadErr .typeLoad := by
  unfold flagExactLoader at h
  dsimp only at h
  split at h
  · cases h
  · split at h
    · cases h
    · rename_i hg
      injection h with h
      exact ⟨by simpa using hg, h.symm⟩

/-- **Round trip, flag by exact value**: for every flag class the loader can be created
    for (no skipped bits) and every union of its members — zero-valued, compound,
    multi-bit members and aliases included. -/
theorem flag_exact_rt {c : FlagClass} {ld : PyVal → Outcome Nat} (hl : flagExactLoader c = .ok ld)
    {S : List FlagCase} (hS : ∀ s ∈ S, s ∈ c.membersValues) :
    ld (flagExactDumper (unionOf S)) = .ok (unionOf S) := by
  obtain ⟨_, rfl⟩ := flagExactLoader_ok hl
  have hle : unionOf S ≤ c.mask := flagIn_le (FlagClass.union_flagIn_mask hS)
  have hcall : c.call (unionOf S) = some (unionOf S) :=
    (call_eq_some_iff c _).2 (fun _ => Or.inr (FlagClass.cover_of_union hS))
  have h1 : ¬ ((unionOf S : Int) < 0) := by omega
  have h2 : ¬ ((unionOf S : Int) > (c.mask : Int)) := by omega
  simp [flagExactDumper, h1, h2, hcall]

/-- **The exact-value flag loader accepts exactly** the `int`s (not `bool`, not look-alikes)
    within `0 … mask` that CPython accepts as a value of the class … -/
theorem flag_exact_accepts_iff {c : FlagClass} {ld : PyVal → Outcome Nat}
    (hl : flagExactLoader c = .ok ld) (d : PyVal) (v : Nat) :
    ld d = .ok v ↔ d = .atom (.int v) ∧ v ≤ c.mask ∧ ValidValue c v := by
  obtain ⟨_, rfl⟩ := flagExactLoader_ok hl
  constructor
  · intro h
    simp only at h
    split at h
    · rename_i i
      split at h
      · cases h
      · rename_i hr
        simp only [Bool.or_eq_true, decide_eq_true_eq, not_or, Int.not_lt, Int.not_lt] at hr
        split at h
        · rename_i v' hc
          injection h with h; subst h
          have hcv : v' = i.toNat := by
            unfold FlagClass.call at hc
            dsimp only at hc
            split at hc
            · cases hc
            · injection hc with hc; exact hc.symm
          subst hcv
          have hi : (i.toNat : Int) = i := Int.toNat_of_nonneg hr.1
          refine ⟨by rw [hi], by omega, (call_eq_some_iff c _).1 hc⟩
        · cases h
    · cases h
  · rintro ⟨rfl, hle, hvalid⟩
    have h1 : ¬ ((v : Int) < 0) := by omega
    have h2 : ¬ ((v : Int) > (c.mask : Int)) := by omega
    simp [h1, h2, (call_eq_some_iff c v).2 hvalid]

/-- … and answers every other datum with a `LoadError` (`TypeLoadError`,
    `OutOfRangeLoadError`, or `MsgLoadError` for what CPython refuses): never another exception. -/
theorem flag_exact_rejects {c : FlagClass} {ld : PyVal → Outcome Nat}
    (hl : flagExactLoader c = .ok ld) (d : PyVal) :
    (∃ v, ld d = .ok v) ∨ ∃ e, ld d = .loadErr e := by
  obtain ⟨_, rfl⟩ := flagExactLoader_ok hl
  simp only
  split
  · split
    · exact Or.inr ⟨_, rfl⟩
    · split
      · exact Or.inl ⟨_, rfl⟩
      · exact Or.inr ⟨_, rfl⟩
  · exact Or.inr ⟨_, rfl⟩

/-- creation of the exact-value flag loader: succeeds for every non-empty class without
    skipped bits and is refused (CannotProvide, as documented) for the others -/
theorem flag_exact_creation (c : FlagClass) (hne : c.entries ≠ []) :
    ((flagExactLoader c).isOk = true ↔ allBits c.mask = c.mask) ∧
    (allBits c.mask ≠ c.mask → ∃ why, flagExactLoader c = .cannotProvide why) := by
  have he : c.entries.isEmpty = false := by
    cases h : c.entries with
    | nil => exact absurd h hne
    | cons _ _ => rfl
  unfold flagExactLoader
  by_cases hg : allBits c.mask = c.mask
  · simp [he, hg, Create.isOk]
  · simp [he, hg, Create.isOk]


/-! ## Flag: representation by the list of member names -/

/-- the (decidable) hypothesis of the name-list round trip: different cases the provider
    may use get different names -/
abbrev InjectiveCaseNames (c : FlagClass) (cfg : NameCfg) (o : ListOpts) : Prop :=
  InjectiveOn FlagCase.name cfg (c.getCases o)

instance (c : FlagClass) (cfg : NameCfg) (o : ListOpts) : Decidable (InjectiveCaseNames c cfg o) :=
  inferInstanceAs (Decidable (∀ a ∈ c.getCases o, ∀ b ∈ c.getCases o,
    cfg.mapped a.name = cfg.mapped b.name → a = b))

theorem flagListLoader_ok {c : FlagClass} {cfg : NameCfg} {o : ListOpts} {ld : PyVal → Outcome Nat}
    (h : flagListLoader c cfg o = .ok ld) :
    ∃ mapping, genForLoading FlagCase.name cfg (c.getCases o) = some mapping ∧
      ld = fun data =>
        match data with
        | .list xs => listLoadItems o mapping xs
        | .tuple xs => listLoadItems o mapping xs
        | .mapping ks =>
          if o.strictCoercion then .loadErr .excludedType
          else listLoadItems o mapping ks
        | .atom (.str s) =>
          if o.allowSingleValue then listLoadItems o mapping [.str s]
          else .loadErr .typeLoad
        | _ => .loadErr .typeLoad := by
  unfold flagListLoader at h
  dsimp only at h
  split at h
  · cases h
  · rename_i mapping hm
    split at h
    · cases h
    · injection h with h
      exact ⟨mapping, hm, h.symm⟩

/-- the cases in the order the dumper visits them -/
def dumpCases (c : FlagClass) (o : ListOpts) : List FlagCase :=
  if o.allowCompound && c.getCases o != c.nonCompound then (c.getCases o).reverse else c.getCases o

theorem mem_dumpCases {c : FlagClass} {o : ListOpts} {s : FlagCase} :
    s ∈ dumpCases c o ↔ s ∈ c.getCases o := by
  unfold dumpCases; split <;> simp

theorem flagListDumper_ok {c : FlagClass} {cfg : NameCfg} {o : ListOpts} {dp : Nat → List String}
    (h : flagListDumper c cfg o = .ok dp) :
    ∃ mapping, genForDumping FlagCase.name cfg (dumpCases c o) = some mapping ∧
      ∀ value, ∃ chosen : List FlagCase,
        dp value = chosen.map (fun c => (dictGet (· == ·) mapping c).getD "") ∧
        chosen.Nodup ∧ (∀ s ∈ chosen, s ∈ c.getCases o) ∧
        orAll (chosen.map (·.bits)) = finalSum value (dumpCases c o) 0 := by
  unfold flagListDumper at h
  dsimp only at h
  split at h
  · cases h
  · rename_i mapping hm
    split at h
    · cases h
    · injection h with h
      refine ⟨mapping, hm, ?_⟩
      intro value
      have hsum : orAll ((chosenGo value (dumpCases c o) 0).map (·.bits)) =
          finalSum value (dumpCases c o) 0 := by simp [finalSum]
      have hmem : ∀ s ∈ chosenGo value (dumpCases c o) 0, s ∈ c.getCases o :=
        fun s hs => mem_dumpCases.1 (chosenGo_mem hs).1
      subst h
      simp only [listDumpLoop_eq, List.nil_append]
      by_cases hrev : (o.allowCompound && c.getCases o != c.nonCompound) = true
      · refine ⟨(chosenGo value (dumpCases c o) 0).reverse, ?_, ?_, ?_, ?_⟩
        · simp [hrev, dumpCases, List.map_reverse]
        · rw [List.Nodup, List.pairwise_reverse]
          exact (chosenGo_nodup _ _ _).imp (fun h => Ne.symm h)
        · intro s hs; exact hmem s (List.mem_reverse.1 hs)
        · rw [List.map_reverse, orAll_reverse]; exact hsum
      · refine ⟨chosenGo value (dumpCases c o) 0, ?_, chosenGo_nodup _ _ _, hmem, hsum⟩
        simp [hrev, dumpCases]

/-- **Round trip, flag by member-name list**: for every flag class (zero-valued, compound,
    multi-bit members, aliases, any number of bits), every name configuration that is
    injective on the cases in use, and **every combination of** `allow_single_value`,
    `allow_duplicates`, `allow_compound`, `strict_coercion`: dumping any union of the cases the
    provider uses and loading the list returns the same value.  With `allow_compound = True`
    the cases are all members, so this is the property for every combination of flags. -/
theorem flag_list_rt {c : FlagClass} {cfg : NameCfg} {o : ListOpts} {ld : PyVal → Outcome Nat}
    {dp : Nat → List String} (hl : flagListLoader c cfg o = .ok ld)
    (hd : flagListDumper c cfg o = .ok dp) (hinj : InjectiveCaseNames c cfg o)
    {S : List FlagCase} (hS : ∀ s ∈ S, s ∈ c.getCases o) :
    ld (.list ((dp (unionOf S)).map Atom.str)) = .ok (unionOf S) := by
  obtain ⟨ml, hml, rfl⟩ := flagListLoader_ok hl
  obtain ⟨md, hmd, hdp⟩ := flagListDumper_ok hd
  obtain ⟨chosen, hdump, hnodup, hmem, hsum⟩ := hdp (unionOf S)
  have hunion : orAll (chosen.map (·.bits)) = unionOf S := by
    rw [hsum]
    exact finalSum_eq_of_union (fun s hs => mem_dumpCases.2 (hS s hs))
  -- the dumped names are the mapped names of the chosen cases
  have hname : ∀ s ∈ chosen, cfg.mapped s.name = some ((dictGet (· == ·) md s).getD "") := by
    intro s hs
    obtain ⟨n, hn, hget⟩ := genForDumping_get FlagCase.name cfg hmd (mem_dumpCases.2 (hmem s hs))
    rw [hget, hn]; rfl
  have hitems : chosen.map (fun c => (cfg.mapped c.name).map Atom.str) =
      ((dp (unionOf S)).map Atom.str).map some := by
    rw [hdump, List.map_map, List.map_map]
    apply List.map_congr_left
    intro s hs
    simp [hname s hs]
  have hlook := (map_lookup_eq_names hml hinj _ chosen).2 ⟨hmem, hitems⟩
  obtain ⟨hall, hfm⟩ := (map_lookup_eq_iff ml _ chosen).1 hlook
  simp only
  rw [listLoadItems_ok_iff]
  refine ⟨?_, hall, by rw [hfm, hunion]⟩
  by_cases hdups : o.allowDuplicates = true
  · exact Or.inl hdups
  · refine Or.inr ⟨by simp [List.all_map, Atom.hashable], ?_⟩
    rw [hasDuplicates_strs, hdump]
    -- different chosen cases have different names
    have : (chosen.map fun c => (dictGet (· == ·) md c).getD "").Pairwise (· ≠ ·) := by
      rw [List.pairwise_map]
      apply List.Pairwise.imp_of_mem _ hnodup
      intro a b ha hb hab heq
      apply hab
      exact hinj a (hmem a ha) b (hmem b hb) (by rw [hname a ha, hname b hb, heq])
    exact this


/-- `allow_compound = True`: every combination of members of the class round-trips. -/
theorem flag_list_rt_all_members {c : FlagClass} {cfg : NameCfg} {o : ListOpts}
    {ld : PyVal → Outcome Nat} {dp : Nat → List String} (hc : o.allowCompound = true)
    (hl : flagListLoader c cfg o = .ok ld) (hd : flagListDumper c cfg o = .ok dp)
    (hinj : InjectiveCaseNames c cfg o) {S : List FlagCase} (hS : ∀ s ∈ S, s ∈ c.membersValues) :
    ld (.list ((dp (unionOf S)).map Atom.str)) = .ok (unionOf S) :=
  flag_list_rt hl hd hinj (fun s hs => by simpa [FlagClass.getCases, hc] using hS s hs)

/-- every member is a union of single-bit members of the class -/
def EveryBitNamed (c : FlagClass) : Prop :=
  ∀ m ∈ c.membersValues, ∃ T : List FlagCase, (∀ t ∈ T, t ∈ c.nonCompound) ∧ m.bits = unionOf T

theorem unionOf_append (a b : List FlagCase) : unionOf (a ++ b) = unionOf a ||| unionOf b := by
  simp [unionOf, orAll_append]

/-- `allow_compound = False`, what does hold: every combination of members round-trips
    provided every member is a union of single-bit members (`EveryBitNamed`).
    The full statement — for *every* flag class — is `FlagListRoundTripFull` below; it is false. -/
theorem flag_list_rt_noncompound_partial {c : FlagClass} {cfg : NameCfg} {o : ListOpts}
    {ld : PyVal → Outcome Nat} {dp : Nat → List String} (hc : o.allowCompound = false)
    (hl : flagListLoader c cfg o = .ok ld) (hd : flagListDumper c cfg o = .ok dp)
    (hinj : InjectiveCaseNames c cfg o) (hbits : EveryBitNamed c)
    {S : List FlagCase} (hS : ∀ s ∈ S, s ∈ c.membersValues) :
    ld (.list ((dp (unionOf S)).map Atom.str)) = .ok (unionOf S) := by
  have hflat : ∃ S' : List FlagCase, (∀ s ∈ S', s ∈ c.nonCompound) ∧ unionOf S = unionOf S' := by
    induction S with
    | nil => exact ⟨[], by simp, rfl⟩
    | cons s t ih =>
      obtain ⟨T, hT, hs⟩ := hbits s (hS s (by simp))
      obtain ⟨S', hS', ht⟩ := ih (fun x hx => hS x (List.mem_cons_of_mem _ hx))
      refine ⟨T ++ S', ?_, ?_⟩
      · intro x hx
        rcases List.mem_append.1 hx with hx | hx
        · exact hT x hx
        · exact hS' x hx
      · rw [unionOf_append, ← hs, ← ht]; rfl
  obtain ⟨S', hS', heq⟩ := hflat
  rw [heq]
  exact flag_list_rt hl hd hinj (fun s hs => by simpa [FlagClass.getCases, hc] using hS' s hs)

/-- The full-strength statement of the property for the name-list provider: *every* flag
    class, *every* option combination, every combination of members. -/
def FlagListRoundTripFull : Prop :=
  ∀ (c : FlagClass) (cfg : NameCfg) (o : ListOpts) (ld : PyVal → Outcome Nat) (dp : Nat → List String),
    flagListLoader c cfg o = .ok ld → flagListDumper c cfg o = .ok dp → InjectiveCaseNames c cfg o →
    ∀ S : List FlagCase, (∀ s ∈ S, s ∈ c.membersValues) →
      ld (.list ((dp (unionOf S)).map Atom.str)) = .ok (unionOf S)

/-- **It does not hold** (known finding): with `allow_compound=False` the bits of a member
    that have no single-bit member of their own are dropped.  Witness: `class F(Flag): AB = 3`
    — `dump(F.AB) == []`, which loads as `F(0)`. -/
theorem flag_list_rt_full_fails : ¬ FlagListRoundTripFull := by
  intro h
  have := h { entries := [⟨"AB", 3⟩] } {} { allowCompound := false } _ _ rfl rfl
    (by intro a ha; simp [FlagClass.getCases, FlagClass.nonCompound, FlagClass.membersValues,
          FlagClass.canonName, isSingleBit] at ha)
    [⟨"AB", 3⟩] (by simp [FlagClass.membersValues, FlagClass.canonName])
  revert this
  decide

/-! ## Flag by member names: the loader accepts exactly the representations -/

/-- how the loader obtains the sequence of items it processes -/
def Container (o : ListOpts) (d : PyVal) (items : List Atom) : Prop :=
  d = .list items ∨ d = .tuple items ∨ (d = .mapping items ∧ o.strictCoercion = false) ∨
    ∃ s, d = .atom (.str s) ∧ o.allowSingleValue = true ∧ items = [.str s]

/-- the dispatch on the type of the datum at the head of `flag_loader` -/
def dispatch (o : ListOpts) (ml : List (String × FlagCase)) (d : PyVal) : Outcome Nat :=
  match d with
  | .list xs => listLoadItems o ml xs
  | .tuple xs => listLoadItems o ml xs
  | .mapping ks => if o.strictCoercion then .loadErr .excludedType else listLoadItems o ml ks
  | .atom (.str s) => if o.allowSingleValue then listLoadItems o ml [.str s] else .loadErr .typeLoad
  | _ => .loadErr .typeLoad

theorem dispatch_of_container {o : ListOpts} {ml : List (String × FlagCase)} {d : PyVal}
    {items : List Atom} (h : Container o d items) : dispatch o ml d = listLoadItems o ml items := by
  unfold Container at h
  rcases h with rfl | rfl | ⟨rfl, hs⟩ | ⟨s, rfl, hs, rfl⟩ <;> simp [dispatch, *]

theorem dispatch_cases {o : ListOpts} {ml : List (String × FlagCase)} (d : PyVal) :
    (∃ items, Container o d items) ∨
      ((∀ items, ¬ Container o d items) ∧
        (dispatch o ml d = .loadErr .typeLoad ∨ dispatch o ml d = .loadErr .excludedType)) := by
  cases d with
  | list xs => exact Or.inl ⟨xs, Or.inl rfl⟩
  | tuple xs => exact Or.inl ⟨xs, Or.inr (Or.inl rfl)⟩
  | mapping ks =>
    by_cases hs : o.strictCoercion = true
    · refine Or.inr ⟨fun items hc => ?_, Or.inr (by simp [dispatch, hs])⟩
      unfold Container at hc; simp [hs] at hc
    · exact Or.inl ⟨ks, Or.inr (Or.inr (Or.inl ⟨rfl, by simpa using hs⟩))⟩
  | self n a =>
    refine Or.inr ⟨fun items hc => ?_, Or.inl rfl⟩
    unfold Container at hc; simp at hc
  | atom a =>
    by_cases hstr : ∃ s, a = .str s
    · obtain ⟨s, rfl⟩ := hstr
      by_cases hs : o.allowSingleValue = true
      · exact Or.inl ⟨[.str s], Or.inr (Or.inr (Or.inr ⟨s, rfl, hs, rfl⟩))⟩
      · refine Or.inr ⟨fun items hc => ?_, Or.inl (by simp [dispatch, hs])⟩
        unfold Container at hc; simp [hs] at hc
    · refine Or.inr ⟨fun items hc => ?_, Or.inl ?_⟩
      · unfold Container at hc
        simp at hc
        obtain ⟨s, hs, _⟩ := hc
        exact hstr ⟨s, hs⟩
      · cases a <;> first | rfl | exact absurd ⟨_, rfl⟩ hstr

theorem flagListLoader_ok' {c : FlagClass} {cfg : NameCfg} {o : ListOpts} {ld : PyVal → Outcome Nat}
    (h : flagListLoader c cfg o = .ok ld) :
    ∃ ml, genForLoading FlagCase.name cfg (c.getCases o) = some ml ∧ ld = dispatch o ml := by
  obtain ⟨ml, hml, rfl⟩ := flagListLoader_ok h
  exact ⟨ml, hml, rfl⟩

/-- **The name-list loader accepts exactly the representations**: a list / tuple (a mapping
    under lax coercion, a single `str` when `allow_single_value`) whose items are, one by
    one, the mapped names of cases the provider uses — without equal items unless
    `allow_duplicates` — and it returns the union of those cases. -/
theorem flag_list_accepts_iff {c : FlagClass} {cfg : NameCfg} {o : ListOpts} {ld : PyVal → Outcome Nat}
    (hl : flagListLoader c cfg o = .ok ld) (hinj : InjectiveCaseNames c cfg o) (d : PyVal) (v : Nat) :
    ld d = .ok v ↔
      ∃ (items : List Atom) (cs : List FlagCase), Container o d items ∧
        (o.allowDuplicates = true ∨ items.Pairwise (fun a b => a.pyEq b = false)) ∧
        (∀ k ∈ cs, k ∈ c.getCases o) ∧
        cs.map (fun k => (cfg.mapped k.name).map Atom.str) = items.map some ∧
        v = unionOf cs := by
  obtain ⟨ml, hml, rfl⟩ := flagListLoader_ok' hl
  constructor
  · intro hload
    rcases dispatch_cases (o := o) (ml := ml) d with ⟨items, hcont⟩ | ⟨_, h | h⟩
    · rw [dispatch_of_container hcont, listLoadItems_ok_iff] at hload
      obtain ⟨hdup, hall, hv⟩ := hload
      have hlook := (map_lookup_eq_iff ml items _).2 ⟨hall, rfl⟩
      obtain ⟨hmem, hnames⟩ := (map_lookup_eq_names hml hinj items _).1 hlook
      refine ⟨items, _, hcont, ?_, hmem, hnames, hv⟩
      rcases hdup with hdup | ⟨_, hdup⟩
      · exact Or.inl hdup
      · exact Or.inr ((hasDuplicates_eq_false_iff items).1 hdup)
    · rw [h] at hload; cases hload
    · rw [h] at hload; cases hload
  · rintro ⟨items, cs, hcont, hdup, hmem, hnames, hv⟩
    rw [dispatch_of_container hcont]
    have hlook := (map_lookup_eq_names hml hinj items cs).2 ⟨hmem, hnames⟩
    obtain ⟨hall, hfm⟩ := (map_lookup_eq_iff ml items cs).1 hlook
    rw [listLoadItems_ok_iff]
    refine ⟨?_, hall, by rw [hfm]; exact hv⟩
    rcases hdup with hdup | hdup
    · exact Or.inl hdup
    · refine Or.inr ⟨?_, (hasDuplicates_eq_false_iff items).2 hdup⟩
      rw [List.all_eq_true]
      intro i hi
      have : some i ∈ items.map some := List.mem_map.2 ⟨i, hi, rfl⟩
      rw [← hnames, List.mem_map] at this
      obtain ⟨k, _, hk⟩ := this
      cases hm : cfg.mapped k.name with
      | none => simp [hm] at hk
      | some s => simp [hm] at hk; subst hk; rfl

/-- … and answers every other datum with a `LoadError`; the only other exception that can
    leave it is `TypeError` from `set()` when `allow_duplicates=False` meets an unhashable
    item (DESIGN §5 item 9, owned by C04). -/
theorem flag_list_rejects {c : FlagClass} {cfg : NameCfg} {o : ListOpts} {ld : PyVal → Outcome Nat}
    (hl : flagListLoader c cfg o = .ok ld) (d : PyVal) :
    (∃ v, ld d = .ok v) ∨ (∃ e, ld d = .loadErr e) ∨
      (o.allowDuplicates = false ∧ ∃ items, Container o d items ∧ items.all Atom.hashable = false) := by
  obtain ⟨ml, _, rfl⟩ := flagListLoader_ok' hl
  rcases dispatch_cases (o := o) (ml := ml) d with ⟨items, hcont⟩ | ⟨_, h | h⟩
  · by_cases hok : o.allowDuplicates = true ∨ items.all Atom.hashable = true
    · rw [dispatch_of_container hcont]
      rcases listLoadItems_total o ml items hok with h | h
      · exact Or.inl h
      · exact Or.inr (Or.inl h)
    · refine Or.inr (Or.inr ⟨?_, items, hcont, ?_⟩)
      · cases hd : o.allowDuplicates <;> simp_all
      · cases hh : items.all Atom.hashable <;> simp_all
  · exact Or.inr (Or.inl ⟨_, h⟩)
  · exact Or.inr (Or.inl ⟨_, h⟩)

end Adaptix.Enum.C18
